package main

import (
	"fmt"
	"go/token"
	"sort"
	"strings"

	"golang.org/x/tools/go/ssa"
)

// ---------------------------------------------------------------------------------------------
// condition normalisation

// normCond returns a canonical atom for a boolean SSA value and the polarity with which the
// value equals the atom: value == (atom if pol else !atom). Only "==" and "<" survive.
func normCond(v ssa.Value) (string, bool) {
	switch x := v.(type) {
	case *ssa.UnOp:
		if x.Op == token.NOT {
			a, p := normCond(x.X)
			return a, !p
		}
	case *ssa.BinOp:
		a, b := desc(x.X), desc(x.Y)
		switch x.Op {
		case token.EQL, token.NEQ:
			if a > b {
				a, b = b, a
			}
			return "(" + a + " == " + b + ")", x.Op == token.EQL
		case token.LSS:
			return "(" + a + " < " + b + ")", true
		case token.GEQ:
			return "(" + a + " < " + b + ")", false
		case token.GTR:
			return "(" + b + " < " + a + ")", true
		case token.LEQ:
			return "(" + b + " < " + a + ")", false
		}
	}
	return desc(v), true
}

type edgePred func(b *ssa.BasicBlock, succ int) bool

// whenCond: matches the CFG edge on which an If's condition atom (as normalised by normCond)
// matching m evaluates to `holds`.
func whenCond(holds bool, m func(atom string) bool) edgePred {
	return func(b *ssa.BasicBlock, succ int) bool {
		if len(b.Instrs) == 0 {
			return false
		}
		ifi, ok := b.Instrs[len(b.Instrs)-1].(*ssa.If)
		if !ok {
			return false
		}
		atom, pol := normCond(ifi.Cond)
		if !m(atom) {
			return false
		}
		// succ 0 = cond true. cond == (atom if pol else !atom)
		condVal := succ == 0
		atomVal := condVal == pol
		return atomVal == holds
	}
}

func atomContains(subs ...string) func(string) bool {
	return func(a string) bool {
		for _, s := range subs {
			if !strings.Contains(a, s) {
				return false
			}
		}
		return true
	}
}

func anyEdge(ps ...edgePred) edgePred {
	return func(b *ssa.BasicBlock, s int) bool {
		for _, p := range ps {
			if p != nil && p(b, s) {
				return true
			}
		}
		return false
	}
}

// ---------------------------------------------------------------------------------------------
// path queries

type pathQ struct {
	fn        *ssa.Function
	from      []ssa.Instruction // start right after each of these; empty and fromEntry => entry
	fromEntry bool
	fromEdges []cfgEdge // start at the target of these edges
	to        sitePred
	via       sitePred
	barrier   edgePred
	deferVia  bool // a `defer` of a via call counts as passing via (it will run at every later exit)
}

type cfgEdge struct {
	b    *ssa.BasicBlock
	succ int
}

// bypass searches for a path from the start points to a `to` site that passes no `via` site
// and crosses no barrier edge. It returns the witness (sequence of block-level positions) or nil.
func (q *pathQ) bypass() []ssa.Instruction {
	type start struct {
		b *ssa.BasicBlock
		i int
	}
	var starts []start
	if q.fromEntry && len(q.fn.Blocks) > 0 {
		starts = append(starts, start{q.fn.Blocks[0], 0})
	}
	for _, in := range q.from {
		starts = append(starts, start{in.Block(), idxIn(in) + 1})
	}
	for _, e := range q.fromEdges {
		starts = append(starts, start{e.b.Succs[e.succ], 0})
	}
	visited := map[*ssa.BasicBlock]bool{}
	parent := map[*ssa.BasicBlock]*ssa.BasicBlock{}
	var queue []*ssa.BasicBlock

	// scan instructions of b from index i; returns (hitTo instr, blocked by via)
	scan := func(b *ssa.BasicBlock, i int) (ssa.Instruction, bool) {
		for ; i < len(b.Instrs); i++ {
			in := b.Instrs[i]
			if q.via != nil {
				if q.via(in) {
					return nil, true
				}
				if q.deferVia {
					if d, ok := in.(*ssa.Defer); ok && deferMatches(d, q.via) {
						return nil, true
					}
				}
			}
			if q.to(in) {
				return in, false
			}
		}
		return nil, false
	}
	witness := func(b *ssa.BasicBlock, hit ssa.Instruction) []ssa.Instruction {
		var w []ssa.Instruction
		w = append(w, hit)
		onPath := map[*ssa.BasicBlock]bool{}
		for x := b; x != nil && !onPath[x] && len(w) < 10000; x = parent[x] {
			onPath[x] = true // a mid-block start can be re-entered through a loop: do not follow the cycle
			if len(x.Instrs) > 0 {
				w = append(w, x.Instrs[0])
			}
		}
		for i, j := 0, len(w)-1; i < j; i, j = i+1, j-1 {
			w[i], w[j] = w[j], w[i]
		}
		return w
	}
	expand := func(b *ssa.BasicBlock) {
		for si, s := range b.Succs {
			if q.barrier != nil && q.barrier(b, si) {
				continue
			}
			if !visited[s] {
				visited[s] = true
				parent[s] = b
				queue = append(queue, s)
			}
		}
	}
	for _, st := range starts {
		if st.i == 0 {
			if !visited[st.b] {
				visited[st.b] = true
				queue = append(queue, st.b)
			}
			continue
		}
		hit, blocked := scan(st.b, st.i)
		if hit != nil {
			return []ssa.Instruction{hit}
		}
		if !blocked {
			expand(st.b)
		}
	}
	for len(queue) > 0 {
		b := queue[0]
		queue = queue[1:]
		hit, blocked := scan(b, 0)
		if hit != nil {
			return witness(b, hit)
		}
		if !blocked {
			expand(b)
		}
	}
	return nil
}

// deferMatches: the deferred call (or, for a deferred closure, any call in its body) matches p.
func deferMatches(d *ssa.Defer, p sitePred) bool {
	// build a synthetic check: a Defer is a CallInstruction; callTo() rejects Defer on purpose,
	// so test the common part by name through a temporary wrapper.
	if p(deferAsCall{d}) {
		return true
	}
	if mc, ok := d.Call.Value.(*ssa.MakeClosure); ok {
		hit := false
		allInstrs(mc.Fn.(*ssa.Function), false, func(in ssa.Instruction) {
			if p(in) {
				hit = true
			}
		})
		return hit
	}
	return false
}

// deferAsCall presents a Defer as a plain call to site predicates.
type deferAsCall struct{ *ssa.Defer }

func (c *Ctx) witnessStr(w []ssa.Instruction) string {
	var parts []string
	for _, in := range w {
		p := c.pos(in.Pos())
		if p == "" {
			// find any positioned instruction in that block
			for _, x := range in.Block().Instrs {
				if x.Pos().IsValid() {
					p = c.pos(x.Pos())
					break
				}
			}
		}
		if p != "" && (len(parts) == 0 || parts[len(parts)-1] != p) {
			parts = append(parts, p)
		}
	}
	return strings.Join(parts, " -> ")
}

// ---------------------------------------------------------------------------------------------
// returns

var wrapHelpers = map[string]bool{
	"fmt.Errorf": true, "errors.New": true,
	// gRPC status errors are built with non-OK codes throughout the repository
	"google.golang.org/grpc/status.Errorf": true, "google.golang.org/grpc/status.Error": true,
	"embedded/store.(*ImmuStore).wrapAppendableErr": true,
}

// provablyNonNil: the error value v is certainly non-nil when control is in block at.
func provablyNonNil(v ssa.Value, at *ssa.BasicBlock, depth int) bool {
	if depth > 4 {
		return false
	}
	switch x := v.(type) {
	case *ssa.Const:
		return false
	case *ssa.MakeInterface:
		return true
	case *ssa.UnOp:
		if x.Op == token.MUL {
			if _, ok := x.X.(*ssa.Global); ok {
				return true // package-level Err… sentinel
			}
		}
	case *ssa.Call:
		n := calleeName(&x.Call)
		if wrapHelpers[n] {
			return true
		}
		if f := x.Call.StaticCallee(); f != nil && len(f.Blocks) > 0 && strings.HasPrefix(f.String(), "(") || f != nil && len(f.Blocks) > 0 && strings.Contains(f.String(), modPrefix) {
			if calleeAlwaysNonNil(f, x, at, depth) {
				return true
			}
		}
	case *ssa.Phi:
		all := len(x.Edges) > 0
		for _, e := range x.Edges {
			if !provablyNonNil(e, nil, depth+1) {
				all = false
				break
			}
		}
		if all {
			return true
		}
	}
	// load of a (named-result / spilled) local: look for a dominating `*a != nil` test
	if u, ok := v.(*ssa.UnOp); ok && u.Op == token.MUL {
		if a, ok := u.X.(*ssa.Alloc); ok && at != nil {
			if allocNonNilAt(a, at) {
				return true
			}
		}
	}
	if at == nil {
		return false
	}
	// dominated by the true edge of v != nil
	for _, r := range *refs(v) {
		bo, ok := r.(*ssa.BinOp)
		if !ok || (bo.Op != token.NEQ && bo.Op != token.EQL) {
			continue
		}
		other := bo.Y
		if bo.Y == v {
			other = bo.X
		}
		if c, ok := other.(*ssa.Const); !ok || !c.IsNil() {
			continue
		}
		for _, rr := range *bo.Referrers() {
			ifi, ok := rr.(*ssa.If)
			if !ok {
				continue
			}
			succ := 0
			if bo.Op == token.EQL {
				succ = 1
			}
			if edgeDominates(ifi.Block(), succ, at) {
				return true
			}
		}
	}
	return false
}

func refs(v ssa.Value) *[]ssa.Instruction {
	if r := v.Referrers(); r != nil {
		return r
	}
	return &[]ssa.Instruction{}
}

// edgeDominates: every path to `at` crosses edge (b -> b.Succs[succ]).
func edgeDominates(b *ssa.BasicBlock, succ int, at *ssa.BasicBlock) bool {
	if succ >= len(b.Succs) {
		return false
	}
	s := b.Succs[succ]
	if len(s.Preds) != 1 {
		// general case: remove the edge and test reachability from entry
		q := &pathQ{fn: b.Parent(), fromEntry: true,
			to:      func(in ssa.Instruction) bool { return in.Block() == at },
			barrier: func(bb *ssa.BasicBlock, si int) bool { return bb == b && si == succ }}
		return q.bypass() == nil
	}
	return s.Dominates(at)
}

// retKind classifies a return: "fail" (error result provably non-nil), "success" (error result
// is the nil constant) or "maybe".
func retKind(r *ssa.Return) string {
	if len(r.Results) == 0 {
		return "success"
	}
	last := unspill(r.Results[len(r.Results)-1], r)
	if !isErrorType(last.Type()) {
		return "success"
	}
	if c, ok := last.(*ssa.Const); ok && c.IsNil() {
		return "success"
	}
	if provablyNonNil(last, r.Block(), 0) {
		return "fail"
	}
	return "maybe"
}

// successReturn matches returns that may be successful.
func successReturn(in ssa.Instruction) bool {
	r, ok := in.(*ssa.Return)
	return ok && retKind(r) != "fail"
}

// instrDominates: a is executed before b on every path reaching b.
func instrDominates(a, b ssa.Instruction) bool {
	if a.Block() == b.Block() {
		return idxIn(a) < idxIn(b)
	}
	return a.Block().Dominates(b.Block())
}

// ---------------------------------------------------------------------------------------------
// common rule shapes

// ruleOrder checks that in fn every path from entry to a site matching `later` passes a site
// matching `earlier` (optionally ignoring barrier edges), and that at least `floor` later-sites exist.
func (c *Ctx) ruleOrder(rule string, fn *ssa.Function, earlierName string, earlier sitePred, laterName string, later sitePred, barrier edgePred, floor int) {
	if fn == nil {
		return
	}
	construct := fmt.Sprintf("%s:%s<%s", fnName(fn), earlierName, laterName)
	ls := sites(fn, later)
	if len(ls) < floor {
		c.undecided(rule, construct, fmt.Sprintf("expected at least %d site(s) %q in %s, found %d", floor, laterName, fnName(fn), len(ls)))
		return
	}
	es := sites(fn, earlier)
	if len(es) == 0 && floor > 0 {
		c.fail(rule, construct, c.pos(fn.Pos()), fmt.Sprintf("no site %q in %s although %q is present", earlierName, fnName(fn), laterName))
		return
	}
	q := &pathQ{fn: fn, fromEntry: true, to: later, via: earlier, barrier: barrier}
	if w := q.bypass(); w != nil {
		c.fail(rule, construct, c.pos(w[len(w)-1].Pos()), fmt.Sprintf("path reaches %s without passing %s: %s", laterName, earlierName, c.witnessStr(w)))
		return
	}
	c.ok(rule, construct, c.pos(fn.Pos()), fmt.Sprintf("every entry->%s path passes %s (%d/%d sites)", laterName, earlierName, len(es), len(ls)))
}

// ruleMustPass checks that every path from the start sites (or entry) to a possibly-successful
// return passes `via`.
func (c *Ctx) ruleMustPass(rule string, fn *ssa.Function, from []ssa.Instruction, viaName string, via sitePred, barrier edgePred, deferVia bool) bool {
	if fn == nil {
		return false
	}
	construct := fmt.Sprintf("%s:success-return-passes:%s", fnName(fn), viaName)
	if len(sites(fn, via)) == 0 && !(deferVia && hasDeferOf(fn, via)) {
		c.fail(rule, construct, c.pos(fn.Pos()), fmt.Sprintf("no site %q in %s", viaName, fnName(fn)))
		return false
	}
	q := &pathQ{fn: fn, from: from, fromEntry: len(from) == 0, to: successReturn, via: via, barrier: barrier, deferVia: deferVia}
	if w := q.bypass(); w != nil {
		c.fail(rule, construct, c.pos(w[len(w)-1].Pos()), fmt.Sprintf("a (possibly) successful return is reachable without passing %s: %s", viaName, c.witnessStr(w)))
		return false
	}
	c.ok(rule, construct, c.pos(fn.Pos()), "every path to a non-failing return passes "+viaName)
	return true
}

func hasDeferOf(fn *ssa.Function, p sitePred) bool {
	for _, b := range fn.Blocks {
		for _, in := range b.Instrs {
			if d, ok := in.(*ssa.Defer); ok && deferMatches(d, p) {
				return true
			}
		}
	}
	return false
}

// ruleErrChecked: the error result of every call matching `calls` in fn is tested and its
// failing edge cannot reach a successful return (or any `forbidden` site).
func (c *Ctx) ruleErrChecked(rule string, fn *ssa.Function, name string, calls sitePred, floor int) {
	if fn == nil {
		return
	}
	ss := sites(fn, calls)
	if len(ss) < floor {
		c.undecided(rule, fnName(fn)+":"+name, fmt.Sprintf("expected at least %d call(s) of %s, found %d", floor, name, len(ss)))
		return
	}
	for i, in := range ss {
		construct := fmt.Sprintf("%s:%s#%d", fnName(fn), name, i)
		st, detail := errHandled(in)
		if st {
			c.ok(rule, construct, c.pos(in.Pos()), detail)
		} else {
			c.fail(rule, construct, c.pos(in.Pos()), detail)
		}
	}
}

// errHandled decides whether the error produced by call instruction `in` is handled: it must
// be used, and if it is compared with nil the non-nil edge must not reach a success return.
func errHandled(in ssa.Instruction) (bool, string) {
	call, ok := in.(*ssa.Call)
	if !ok {
		if _, isDefer := in.(*ssa.Defer); isDefer {
			return false, "error of deferred call is discarded"
		}
		return false, "not a value call"
	}
	evs := errResults(call)
	sig := call.Call.Signature()
	if sig.Results().Len() == 0 || !isErrorType(sig.Results().At(sig.Results().Len()-1).Type()) {
		return true, "callee returns no error"
	}
	if len(evs) == 0 {
		return false, "error result is discarded"
	}
	for _, ev := range evs {
		rs := *ev.Referrers()
		used := false
		for _, r := range rs {
			switch x := r.(type) {
			case *ssa.DebugRef:
				continue
			case *ssa.BinOp:
				used = true
				// err != nil / err == nil: check the failing edge
				for _, rr := range *x.Referrers() {
					ifi, ok := rr.(*ssa.If)
					if !ok {
						continue
					}
					succ := 0
					if x.Op == token.EQL {
						succ = 1
					}
					// other tests of the same error value are taken consistently: their "is nil" edge is infeasible here
					nilEdges := map[cfgEdge]bool{}
					for _, r2 := range rs {
						b2, ok := r2.(*ssa.BinOp)
						if !ok || (b2.Op != token.NEQ && b2.Op != token.EQL) {
							continue
						}
						for _, rr2 := range *b2.Referrers() {
							if if2, ok := rr2.(*ssa.If); ok {
								ns := 1
								if b2.Op == token.EQL {
									ns = 0
								}
								nilEdges[cfgEdge{if2.Block(), ns}] = true
							}
						}
					}
					q := &pathQ{fn: in.Parent(), fromEdges: []cfgEdge{{ifi.Block(), succ}},
						barrier: func(b *ssa.BasicBlock, s int) bool { return nilEdges[cfgEdge{b, s}] },
						to: func(i ssa.Instruction) bool {
							r, ok := i.(*ssa.Return)
							return ok && retKind(r) == "success"
						}}
					if w := q.bypass(); w != nil {
						return false, "the error edge reaches a successful return"
					}
				}
			default:
				_ = x
				used = true
			}
		}
		if !used {
			return false, "error result is never read"
		}
	}
	return true, "error result is read; its non-nil edge reaches no `return nil`"
}

func sortedKeys[M ~map[string]V, V any](m M) []string {
	var ks []string
	for k := range m {
		ks = append(ks, k)
	}
	sort.Strings(ks)
	return ks
}

// unspill: functions with defers keep results in allocs ("*t1 = v; rundefers; t2 = *t1; return t2").
// Given a returned value that is a load of such an alloc, return the value stored last in the
// return's block (or, if the block holds no store, the unique store in a chain of single predecessors).
func unspill(v ssa.Value, at ssa.Instruction) ssa.Value {
	u, ok := v.(*ssa.UnOp)
	if !ok || u.Op != token.MUL {
		return v
	}
	a, ok := u.X.(*ssa.Alloc)
	if !ok {
		return v
	}
	b := at.Block()
	for hops := 0; b != nil && hops < 4; hops++ {
		start := len(b.Instrs) - 1
		if b == at.Block() {
			start = idxIn(at) - 1
		}
		for i := start; i >= 0; i-- {
			if st, ok := b.Instrs[i].(*ssa.Store); ok && st.Addr == a {
				return st.Val
			}
			// a call may write the alloc only if it escapes through a closure; deferred closures run at rundefers
		}
		if len(b.Preds) != 1 {
			break
		}
		b = b.Preds[0]
	}
	return v
}

// allocNonNilAt: block `at` is dominated by the non-nil edge of a test `*a != nil` and `a` is
// not stored to between that test and the end of `at` (checked on the dominator chain blocks).
func allocNonNilAt(a *ssa.Alloc, at *ssa.BasicBlock) bool {
	fn := at.Parent()
	for _, b := range fn.Blocks {
		if len(b.Instrs) == 0 {
			continue
		}
		ifi, ok := b.Instrs[len(b.Instrs)-1].(*ssa.If)
		if !ok {
			continue
		}
		bo, ok := ifi.Cond.(*ssa.BinOp)
		if !ok || (bo.Op != token.NEQ && bo.Op != token.EQL) {
			continue
		}
		ld, ok := bo.X.(*ssa.UnOp)
		if !ok || ld.Op != token.MUL || ld.X != a {
			continue
		}
		if c, ok := bo.Y.(*ssa.Const); !ok || !c.IsNil() {
			continue
		}
		// no store to a between the load and the If
		clean := true
		for i := idxIn(ld) + 1; i < len(b.Instrs); i++ {
			if st, ok := b.Instrs[i].(*ssa.Store); ok && st.Addr == a {
				clean = false
			}
		}
		if !clean {
			continue
		}
		succ := 0
		if bo.Op == token.EQL {
			succ = 1
		}
		if !edgeDominates(b, succ, at) {
			continue
		}
		// stores on the way: only allow stores of a load of a itself... keep it simple: require that
		// every block on the dominator chain from `at` up to the successor has no store of a
		// value other than a wrap of the same alloc.
		okChain := true
		for x := at; x != nil && x != b; x = x.Idom() {
			for _, in := range x.Instrs {
				if st, ok := in.(*ssa.Store); ok && st.Addr == a {
					if !provablyNonNilStore(st, a) {
						okChain = false
					}
				}
			}
		}
		if okChain {
			return true
		}
	}
	return false
}

// provablyNonNilStore: the store keeps the alloc non-nil (re-stores its own value, a wrap of it, or a
// fresh error).
func provablyNonNilStore(st *ssa.Store, a *ssa.Alloc) bool {
	switch x := st.Val.(type) {
	case *ssa.UnOp:
		if x.Op == token.MUL && x.X == a {
			return true
		}
		if x.Op == token.MUL {
			if _, ok := x.X.(*ssa.Global); ok {
				return true
			}
		}
	case *ssa.MakeInterface:
		return true
	case *ssa.Call:
		return wrapHelpers[calleeName(&x.Call)]
	}
	return false
}

// calleeAlwaysNonNil: every return of f yields a provably non-nil error, where a returned
// parameter counts if the corresponding argument is provably non-nil at the call site.
func calleeAlwaysNonNil(f *ssa.Function, call *ssa.Call, at *ssa.BasicBlock, depth int) bool {
	if depth > 2 {
		return false
	}
	n := 0
	for _, b := range f.Blocks {
		for _, in := range b.Instrs {
			r, ok := in.(*ssa.Return)
			if !ok || len(r.Results) == 0 {
				continue
			}
			n++
			last := unspill(r.Results[len(r.Results)-1], r)
			if p, ok := last.(*ssa.Parameter); ok {
				idx := -1
				for i, pp := range f.Params {
					if pp == p {
						idx = i
					}
				}
				if idx >= 0 && idx < len(call.Call.Args) && provablyNonNil(call.Call.Args[idx], at, depth+1) {
					continue
				}
				return false
			}
			if !provablyNonNil(last, r.Block(), depth+1) {
				return false
			}
		}
	}
	return n > 0
}

// boolLeaves returns the leaf conditions a boolean value depends on through &&/|| lowering
// (phis over branch outcomes) and negation.
func boolLeaves(v ssa.Value) []ssa.Value {
	seen := map[ssa.Value]bool{}
	var out []ssa.Value
	var walk func(ssa.Value, int)
	walk = func(x ssa.Value, d int) {
		if x == nil || seen[x] || d > 10 {
			return
		}
		seen[x] = true
		switch y := x.(type) {
		case *ssa.Phi:
			for i, e := range y.Edges {
				walk(e, d+1)
				p := y.Block().Preds[i]
				if len(p.Instrs) > 0 {
					if ifi, ok := p.Instrs[len(p.Instrs)-1].(*ssa.If); ok {
						walk(ifi.Cond, d+1)
					}
				}
			}
		case *ssa.UnOp:
			if y.Op == token.NOT {
				walk(y.X, d+1)
				return
			}
			out = append(out, x)
		case *ssa.Const:
		default:
			out = append(out, x)
		}
	}
	walk(v, 0)
	return out
}

// errEdgeOf: the CFG edge(s) taken when the error result of this very call is non-nil.
func errEdgeOf(in ssa.Instruction) edgePred {
	call, ok := in.(*ssa.Call)
	if !ok {
		return nil
	}
	type e struct {
		b    *ssa.BasicBlock
		succ int
	}
	var edges []e
	for _, ev := range errResults(call) {
		for _, r := range *ev.Referrers() {
			bo, ok := r.(*ssa.BinOp)
			if !ok || (bo.Op != token.NEQ && bo.Op != token.EQL) {
				continue
			}
			for _, rr := range *bo.Referrers() {
				if ifi, ok := rr.(*ssa.If); ok {
					succ := 0
					if bo.Op == token.EQL {
						succ = 1
					}
					edges = append(edges, e{ifi.Block(), succ})
				}
			}
		}
	}
	return func(b *ssa.BasicBlock, succ int) bool {
		for _, x := range edges {
			if x.b == b && x.succ == succ {
				return true
			}
		}
		return false
	}
}

// boolDependsOn: boolean value v depends (through &&/|| lowering, phis and negation) on target.
func boolDependsOn(v, target ssa.Value) bool {
	seen := map[ssa.Value]bool{}
	var walk func(ssa.Value, int) bool
	walk = func(x ssa.Value, d int) bool {
		if x == nil || d > 10 {
			return false
		}
		if x == target {
			return true
		}
		if seen[x] {
			return false
		}
		seen[x] = true
		switch y := x.(type) {
		case *ssa.Phi:
			for i, e := range y.Edges {
				if walk(e, d+1) {
					return true
				}
				p := y.Block().Preds[i]
				if len(p.Instrs) > 0 {
					if ifi, ok := p.Instrs[len(p.Instrs)-1].(*ssa.If); ok && walk(ifi.Cond, d+1) {
						return true
					}
				}
			}
		case *ssa.UnOp:
			if y.Op == token.NOT {
				return walk(y.X, d+1)
			}
		case *ssa.BinOp:
			return walk(y.X, d+1) || walk(y.Y, d+1)
		}
		return false
	}
	return walk(v, 0)
}
