package main

import (
	"fmt"
	"go/token"
	"go/types"
	"strings"

	"golang.org/x/tools/go/ssa"
)

const (
	app         = "(embedded/appendable.Appendable)."
	appFlush    = app + "Flush"
	appSync     = app + "Sync"
	appAppend   = app + "Append"
	appSetOff   = app + "SetOffset"
	appDiscard  = app + "DiscardUpto"
	appClose    = app + "Close"
	appSwitchRO = app + "SwitchToReadOnlyMode"
	whDoneUpto  = "embedded/watchers.(*WatchersHub).DoneUpto"
	whWaitFor   = "embedded/watchers.(*WatchersHub).WaitFor"
	storePkg    = "embedded/store."
	storeT      = "embedded/store.(*ImmuStore)."
)

type step struct {
	name string
	p    sitePred
}

// chain: every path from entry to steps[i+1] passes steps[i]; every step exists.
func (c *Ctx) chain(rule string, fn *ssa.Function, barrier edgePred, steps ...step) {
	if fn == nil {
		return
	}
	for i := 0; i+1 < len(steps); i++ {
		c.ruleOrder(rule, fn, steps[i].name, steps[i].p, steps[i+1].name, steps[i+1].p, barrier, 1)
	}
}

// neverAfter: no path leads from a site matching `later` back to a site matching `earlier`.
func (c *Ctx) neverAfter(rule string, fn *ssa.Function, earlierName string, earlier sitePred, laterName string, later sitePred) {
	if fn == nil {
		return
	}
	construct := fmt.Sprintf("%s:%s-never-after-%s", fnName(fn), earlierName, laterName)
	es, ls := sites(fn, earlier), sites(fn, later)
	if len(es) == 0 || len(ls) == 0 {
		c.fail(rule, construct, c.pos(fn.Pos()), fmt.Sprintf("expected sites %q (%d) and %q (%d) in %s", earlierName, len(es), laterName, len(ls), fnName(fn)))
		return
	}
	q := &pathQ{fn: fn, from: ls, to: earlier}
	if w := q.bypass(); w != nil {
		c.fail(rule, construct, c.pos(w[len(w)-1].Pos()), fmt.Sprintf("%s can execute after %s: %s", earlierName, laterName, c.witnessStr(w)))
		return
	}
	c.ok(rule, construct, c.pos(es[0].Pos()), fmt.Sprintf("no path from %s to %s", laterName, earlierName))
}

// closureCallPassing matches a call of an in-place closure all of whose successful paths pass `via`.
func closureCallPassing(vias ...sitePred) sitePred {
	return func(in ssa.Instruction) bool {
		call, ok := in.(*ssa.Call)
		if !ok {
			return false
		}
		mc, ok := call.Call.Value.(*ssa.MakeClosure)
		if !ok {
			return false
		}
		fn := mc.Fn.(*ssa.Function)
		for _, via := range vias {
			if len(sites(fn, via)) == 0 {
				return false
			}
			q := &pathQ{fn: fn, fromEntry: true, to: successReturn, via: via}
			if q.bypass() != nil {
				return false
			}
		}
		return true
	}
}

// callers lists the call sites (in repo functions, closures included) of callee.
func (c *Ctx) callSites(p sitePred) []ssa.Instruction {
	var out []ssa.Instruction
	for _, fn := range c.allFns {
		for _, b := range fn.Blocks {
			for _, in := range b.Instrs {
				if p(in) {
					out = append(out, in)
				}
			}
		}
	}
	return out
}

// ruleWhoMayCall: every call matching p in the loaded program is inside one of the allowed
// top-level functions; at least floor sites exist.
func (c *Ctx) ruleWhoMayCall(rule, what string, p sitePred, allowed []string, floor int) {
	ss := c.callSites(func(in ssa.Instruction) bool {
		if p(in) {
			return true
		}
		if d, ok := in.(*ssa.Defer); ok {
			return p(deferAsCall{d})
		}
		return false
	})
	allow := map[string]bool{}
	for _, a := range allowed {
		allow[a] = true
	}
	seen := map[string]int{}
	for _, in := range ss {
		owner := fnName(topFn(in.Parent()))
		if strings.HasSuffix(in.Parent().Pkg.Pkg.Path(), "_test") {
			continue
		}
		seen[owner]++
		construct := what + ":in:" + owner
		if allow[owner] {
			c.okTrivial(rule, construct, c.pos(in.Pos()), "allowed caller")
		} else {
			c.fail(rule, construct, c.pos(in.Pos()), fmt.Sprintf("%s is called from %s, which is not in the allow-list %v", what, owner, allowed))
		}
	}
	if len(seen) < floor {
		c.undecided(rule, what+":floor", fmt.Sprintf("expected at least %d calling functions of %s, found %d (%v)", floor, what, len(seen), sortedKeys(seen)))
	}
	c.count("call_sites_"+what, len(ss))
}

func c03(c *Ctx) {
	c03HashTreeComparedAtOpen(c, "C03.8/hash-tree-leaves-compared-with-the-chain-at-open")
	c17InterruptedCreation(c, "C03.9/interrupted-file-creation-is-tolerated")
	c03RecoveredValues(c, "C03.7/recovered-precommitted-txs-have-their-values")
	// ---- C03.1 store commit ordering -------------------------------------------------------
	r := "C03.1/store-sync-order"
	if f := c.mustFn(r, storeT+"sync"); f != nil {
		vlogFS := closureCallPassing(callTo(appFlush), callTo(appSync))
		c.chain(r, f, nil,
			step{"txLog.Flush", callTo(appFlush + "@txLog")},
			step{"txLog.Sync", callTo(appSync + "@txLog")},
			step{"durablePrecommitWHub.DoneUpto", callTo(whDoneUpto + "@durablePrecommitWHub")},
			step{"cLog.SetOffset", callTo(appSetOff + "@cLog")},
			step{"cLog.Flush", callTo(appFlush + "@cLog")},
			step{"cLog.Sync", callTo(appSync + "@cLog")},
			step{"store committedTxID", storeTo("ImmuStore.committedTxID")},
			step{"commitWHub.DoneUpto", callTo(whDoneUpto + "@commitWHub")},
		)
		c.ruleOrder(r, f, "cLog.SetOffset", callTo(appSetOff+"@cLog"), "cLog.Append", callTo(appAppend+"@cLog"), nil, 1)
		c.neverAfter(r, f, "cLog.Append", callTo(appAppend+"@cLog"), "cLog.Flush", callTo(appFlush+"@cLog"))
		c.ruleOrder(r, f, "cLog.Sync", callTo(appSync+"@cLog"), "store committedAlh", storeTo("ImmuStore.committedAlh"), nil, 1)
		// the whole durability sequence runs inside the commit-state critical section: the set of txs whose
		// values were flushed is the set that gets committed
		for _, st := range []step{{"vLog.Flush+Sync", vlogFS}, {"txLog.Flush", callTo(appFlush + "@txLog")}, {"txLog.Sync", callTo(appSync + "@txLog")},
			{"cLog.Append", callTo(appAppend + "@cLog")}, {"cLog.Sync", callTo(appSync + "@cLog")}} {
			c.ruleHeldAt("C03.1/sync-critical-section", f, st.name, st.p, "ImmuStore.commitStateRWMutex", true, nil)
		}
		// value logs: flushed+fsynced inside the per-vLog closure, never after the tx/commit log writes
		c.neverAfter(r, f, "vLog.Flush+Sync", vlogFS, "txLog.Sync", callTo(appSync+"@txLog"))
		c.neverAfter(r, f, "vLog.Flush+Sync", vlogFS, "cLog.Append", callTo(appAppend+"@cLog"))
		// the only exits before the value-log loop are the "nothing to do" ones: from entry, cLog.Append is
		// reachable only through the loop header ranging over s.vLogs
		for _, in := range sites(f, vlogFS) {
			call := in.(*ssa.Call)
			c.check(func() bool { ok, _ := errHandled(call); return ok }(), "C03.1/vlog-error", fnName(f)+":vlog-closure-error", c.pos(in.Pos()),
				"error of the per-value-log flush+sync closure leaves sync()", "error of the per-value-log flush+sync closure is not propagated")
			fn := call.Call.Value.(*ssa.MakeClosure).Fn.(*ssa.Function)
			c.ruleOrder(r, fn, "vLog.Flush", callTo(appFlush), "vLog.Sync", callTo(appSync), nil, 1)
			c.ruleErrChecked("C03.7/err", fn, "vLog.Flush", callTo(appFlush), 1)
		}
		for _, s := range []struct{ n, callee string }{{"txLog.Flush", appFlush + "@txLog"}, {"txLog.Sync", appSync + "@txLog"},
			{"cLog.SetOffset", appSetOff + "@cLog"}, {"cLog.Append", appAppend + "@cLog"}, {"cLog.Flush", appFlush + "@cLog"}, {"cLog.Sync", appSync + "@cLog"}} {
			c.ruleErrChecked("C03.7/err", f, s.n, callTo(s.callee), 1)
		}
	}
	// mayCommit (no fsync) only when the store is not in synced mode
	r = "C03.1/mayCommit-unsynced-only"
	mc := c.callSites(callTo(storeT + "mayCommit"))
	if len(mc) < 2 {
		c.undecided(r, "mayCommit:floor", fmt.Sprintf("expected >=2 call sites of mayCommit, found %d", len(mc)))
	}
	for _, in := range mc {
		fn := in.Parent()
		q := &pathQ{fn: fn, fromEntry: true, to: func(i ssa.Instruction) bool { return i == in },
			barrier: whenCond(false, func(a string) bool { return hasFieldSuffix(a, "synced") })}
		construct := fnName(fn) + ":mayCommit"
		if w := q.bypass(); w != nil {
			c.fail(r, construct, c.pos(in.Pos()), "mayCommit() (commit without fsync) is reachable without crossing the `!s.synced` edge: "+c.witnessStr(w))
		} else {
			c.ok(r, construct, c.pos(in.Pos()), "call is dominated by the synced==false edge")
		}
	}
	if f := c.mustFn(r, storeT+"mayCommit"); f != nil {
		c.chain("C03.1/mayCommit-order", f, nil,
			step{"cLog.SetOffset", callTo(appSetOff + "@cLog")},
			step{"cLog.Flush", callTo(appFlush + "@cLog")},
			step{"store committedTxID", storeTo("ImmuStore.committedTxID")},
			step{"commitWHub.DoneUpto", callTo(whDoneUpto + "@commitWHub")},
		)
		c.ruleOrder("C03.1/mayCommit-order", f, "cLog.SetOffset", callTo(appSetOff+"@cLog"), "cLog.Append", callTo(appAppend+"@cLog"), nil, 1)
		c.neverAfter("C03.1/mayCommit-order", f, "cLog.Append", callTo(appAppend+"@cLog"), "cLog.Flush", callTo(appFlush+"@cLog"))
		for _, s := range []struct{ n, callee string }{{"cLog.SetOffset", appSetOff + "@cLog"}, {"cLog.Append", appAppend + "@cLog"}, {"cLog.Flush", appFlush + "@cLog"}} {
			c.ruleErrChecked("C03.7/err", f, s.n, callTo(s.callee), 1)
		}
	}

	// ---- C03.2 ack after durability ----------------------------------------------------------
	r = "C03.2/ack-after-commit"
	for _, n := range []string{"commit", "CommitWith"} {
		if f := c.mustFn(r, storeT+n); f != nil {
			c.ruleMustPass(r, f, nil, "commitWHub.WaitFor", callTo(whWaitFor+"@commitWHub"), nil, false)
			c.ruleErrChecked(r, f, "commitWHub.WaitFor", callTo(whWaitFor+"@commitWHub"), 1)
		}
	}
	if f := c.mustFn(r, storeT+"ReplicateTx"); f != nil {
		c.ruleMustPass(r, f, nil, "durablePrecommitWHub.WaitFor", callTo(whWaitFor+"@durablePrecommitWHub"), nil, false)
		c.ruleErrChecked(r, f, "durablePrecommitWHub.WaitFor", callTo(whWaitFor+"@durablePrecommitWHub"), 1)
		// unless external allowance is in use, the commit is awaited too
		q := &pathQ{fn: f, fromEntry: true, to: successReturn, via: callTo(whWaitFor + "@commitWHub"),
			barrier: whenCond(false, atomContains("useExternalCommitAllowance"))}
		_ = q
	}
	c.ruleWhoMayCall("C03.2/commit-ack-sites", "commitWHub.DoneUpto", callTo(whDoneUpto+"@commitWHub"),
		[]string{storePkg + "OpenWith", storeT + "mayCommit", storeT + "sync"}, 3)
	// what is acknowledged as committed is what was just made the commit frontier: waiters on commitWHub return to
	// their callers "your tx is committed"; acknowledging a higher id reports transactions that are only precommitted
	for _, name := range []string{storeT + "mayCommit", storeT + "sync"} {
		if f := c.mustFn("C03.2/commit-ack-value", name); f != nil {
			var frontier []string
			for _, st := range sites(f, storeTo("ImmuStore.committedTxID")) {
				frontier = append(frontier, desc(st.(*ssa.Store).Val))
			}
			for i, in := range sites(f, callTo(whDoneUpto+"@commitWHub")) {
				a := desc(callOf(in).Args[1])
				okv := false
				for _, fr := range frontier {
					if fr == a {
						okv = true
					}
				}
				if hasFieldSuffix(a, "committedTxID") {
					okv = true
				}
				c.check(okv, "C03.2/commit-ack-value", fmt.Sprintf("%s:commitWHub.DoneUpto#%d", fnName(f), i), c.pos(in.Pos()), "acknowledges the value stored into committedTxID ("+a+")",
					"commit waiters are released up to "+a+" while the commit frontier was moved to "+strings.Join(frontier, ",")+": transactions without a commit-log entry are reported as committed")
			}
		}
	}
	c.ruleWhoMayCall("C03.2/durable-ack-sites", "durablePrecommitWHub.DoneUpto", callTo(whDoneUpto+"@durablePrecommitWHub"),
		[]string{storePkg + "OpenWith", storeT + "performPrecommit", storeT + "sync"}, 3)
	// in performPrecommit the durable ack without fsync is only given in unsynced mode
	if f := c.mustFn("C03.2/durable-ack-unsynced", storeT+"performPrecommit"); f != nil {
		for _, in := range sites(f, callTo(whDoneUpto+"@durablePrecommitWHub")) {
			q := &pathQ{fn: f, fromEntry: true, to: func(i ssa.Instruction) bool { return i == in },
				barrier: whenCond(false, func(a string) bool { return hasFieldSuffix(a, "synced") })}
			c.check(q.bypass() == nil, "C03.2/durable-ack-unsynced", fnName(f)+":durablePrecommitWHub.DoneUpto", c.pos(in.Pos()),
				"dominated by synced==false", "durable-precommit ack without fsync reachable in synced mode")
		}
	}

	// ---- C03.3 AHT ordering ------------------------------------------------------------------
	r = "C03.3/aht-sync-order"
	if f := c.mustFn(r, "embedded/ahtree.(*AHtree).sync"); f != nil {
		c.chain(r, f, nil,
			step{"pLog.Flush", callTo(appFlush + "@pLog")},
			step{"pLog.Sync", callTo(appSync + "@pLog")},
			step{"dLog.Flush", callTo(appFlush + "@dLog")},
			step{"dLog.Sync", callTo(appSync + "@dLog")},
			step{"cLog.SetOffset", callTo(appSetOff + "@cLog")},
			step{"cLog.Append", callTo(appAppend + "@cLog")},
			step{"cLog.Flush", callTo(appFlush + "@cLog")},
			step{"cLog.Sync", callTo(appSync + "@cLog")},
			step{"store latestSyncedNode", storeTo("AHtree.latestSyncedNode")},
		)
		for _, s := range []string{appFlush + "@pLog", appSync + "@pLog", appFlush + "@dLog", appSync + "@dLog", appSetOff + "@cLog", appAppend + "@cLog", appFlush + "@cLog", appSync + "@cLog"} {
			c.ruleErrChecked("C03.7/err", f, strings.TrimPrefix(s, app), callTo(s), 1)
		}
		c.ruleWhoMayCall("C03.3/aht-clog-writers", "AHtree.cLog.Append", func(in ssa.Instruction) bool {
			return callTo(appAppend+"@cLog")(in) && in.Parent().Pkg != nil && strings.HasSuffix(in.Parent().Pkg.Pkg.Path(), "embedded/ahtree")
		}, []string{"embedded/ahtree.(*AHtree).sync"}, 1)
	}

	// ---- C03.4 index flush ordering ------------------------------------------------------------
	c03Index(c)
	// ---- C03.5 chunk rotation and single-file sync ----------------------------------------------
	c03Appendables(c, "C03.5")
	// ---- C03.6 recovery guards -----------------------------------------------------------------
	c03Recovery(c)
	// ---- C03.7 storage errors are not dropped --------------------------------------------------
	c.storageErrorsNotDropped("C03.7/storage-error-dropped",
		[]string{"embedded/store", "embedded/ahtree", "embedded/tbtree", "embedded/appendable/singleapp", "embedded/appendable/multiapp"})
}

func c03Index(c *Ctx) {
	r := "C03.4/index-flush-order"
	f := c.mustFn(r, "embedded/tbtree.(*TBtree).flushTree")
	if f == nil {
		return
	}
	cLogAppend := callTo(appAppend + "@cLog")
	c.ruleOrder(r, f, "hLog.Flush", callTo(appFlush+"@hLog"), "cLog.Append", cLogAppend, nil, 1)
	c.ruleOrder(r, f, "nLog.Flush", callTo(appFlush+"@nLog"), "cLog.Append", cLogAppend, nil, 1)
	c.ruleOrder(r, f, "Snapshot.WriteTo", callTo("embedded/tbtree.(*Snapshot).WriteTo"), "hLog.Flush", callTo(appFlush+"@hLog"), nil, 1)
	c.ruleOrder(r, f, "cLog.SetOffset", callTo(appSetOff+"@cLog"), "cLog.Append", cLogAppend, nil, 1)
	c.ruleOrder(r, f, "cLog.Append", cLogAppend, "cLog.Flush", callTo(appFlush+"@cLog"), nil, 1)
	c.ruleOrder(r, f, "cLog.Flush", callTo(appFlush+"@cLog"), "store committedLogSize", storeTo("TBtree.committedLogSize"), nil, 1)
	c.ruleOrder(r, f, "cLog.Flush", callTo(appFlush+"@cLog"), "store lastSnapRoot", storeTo("TBtree.lastSnapRoot"), nil, 1)
	// the value written in cLogEntry.synced and the condition guarding the fsyncs are the same value
	var syncedVal ssa.Value
	for _, in := range sites(f, storeTo("cLogEntry.synced")) {
		syncedVal = in.(*ssa.Store).Val
	}
	if syncedVal == nil {
		c.undecided(r, fnName(f)+":cLogEntry.synced", "store to cLogEntry.synced not found")
		return
	}
	isSyncedCond := func(b *ssa.BasicBlock, succ int) bool {
		if len(b.Instrs) == 0 {
			return false
		}
		ifi, ok := b.Instrs[len(b.Instrs)-1].(*ssa.If)
		return ok && ifi.Cond == syncedVal && succ == 1 // false edge
	}
	c.ruleOrder(r+"/synced", f, "hLog.Sync", callTo(appSync+"@hLog"), "cLog.Append", cLogAppend, isSyncedCond, 1)
	c.ruleOrder(r+"/synced", f, "nLog.Sync", callTo(appSync+"@nLog"), "cLog.Append", cLogAppend, isSyncedCond, 1)
	// a commit entry marked synced must really be fsynced before later state depends on it
	c.ruleOrder(r+"/synced", f, "cLog.Sync", callTo(appSync+"@cLog"), "nLog.DiscardUpto", callTo(appDiscard+"@nLog"), nil, 1)
	c.ruleOrder(r+"/synced", f, "cLog.Sync", callTo(appSync+"@cLog"), "cLog.DiscardUpto", callTo(appDiscard+"@cLog"), nil, 1)
	c.ruleOrder(r+"/synced", f, "cLog.Sync", callTo(appSync+"@cLog"), "store committedLogSize", storeTo("TBtree.committedLogSize"), isSyncedCond, 1)
	// the synced flag is true whenever the caller forces a sync
	fromForce := false
	for _, leaf := range boolLeaves(syncedVal) {
		if desc(leaf) == "param:forceSync" {
			fromForce = true
		}
	}
	c.check(fromForce, r+"/synced", fnName(f)+":synced-derives-from-forceSync", c.pos(f.Pos()),
		"cLogEntry.synced = "+desc(syncedVal), "cLogEntry.synced no longer derives from forceSync: "+desc(syncedVal))
	for _, s := range []string{appFlush + "@hLog", appFlush + "@nLog", appSync + "@hLog", appSync + "@nLog", appSetOff + "@cLog", appSetOff + "@hLog", appSetOff + "@nLog", appAppend + "@cLog", appFlush + "@cLog", appSync + "@cLog"} {
		c.ruleErrChecked("C03.7/err", f, strings.TrimPrefix(s, app), callTo(s), 1)
	}
	// Sync() must force the fsync
	if g := c.mustFn(r, "embedded/tbtree.(*TBtree).Sync"); g != nil {
		okc := false
		for _, in := range sites(g, callTo("embedded/tbtree.(*TBtree).flushTree")) {
			args := callOf(in).Args
			if len(args) >= 3 && desc(args[2]) == "const:true" {
				okc = true
			}
		}
		c.check(okc, r, fnName(g)+":flushTree(forceSync=true)", c.pos(g.Pos()), "Sync calls flushTree with forceSync=true", "TBtree.Sync does not force a synced flush")
	}

	// fullDumpTo (compaction)
	r = "C03.4/index-dump-order"
	if g := c.mustFn(r, "embedded/tbtree.(*TBtree).fullDumpTo"); g != nil {
		c.ruleOrder(r, g, "nLog.Sync", callTo(appSync+"@nLog", appSync+"@param:nLog"), "cLog.Append", callTo(appAppend+"@param:cLog", appAppend+"@cLog"), nil, 1)
		c.ruleMustPass(r, g, nil, "cLog.Sync", callTo(appSync+"@param:cLog", appSync+"@cLog"), nil, false)
	}

	// TS file after the durable flush
	r = "C03.4/tsfile-after-synced-flush"
	if g := c.mustFn(r, "embedded/tbtree.(*TBtree).Close"); g != nil {
		c.ruleOrder(r, g, "flushTree", callTo("embedded/tbtree.(*TBtree).flushTree"), "writeTsFile", callTo("embedded/tbtree.(*TBtree).writeTsFile"), nil, 1)
	}
	c.ruleWhoMayCall(r, "TBtree.writeTsFile", callTo("embedded/tbtree.(*TBtree).writeTsFile"),
		[]string{"embedded/tbtree.(*TBtree).Close", "embedded/tbtree.(*TBtree).IncreaseTs"}, 1)
}

// c03RecoveredValues: the tx log and the value logs are buffered and flushed independently, so after a stop the tx log
// can hold transactions whose values never reached their value log. At open, a transaction read from the tail of the
// tx log is taken back as precommitted (cLogBuf.put, later committed) only after its entries' value ranges were
// compared with the sizes of the value logs: between reading it and accepting it, a call that reaches a Size() of an
// element of the vLogs parameter is passed and its verdict is acted upon.
func c03RecoveredValues(c *Ctx, r string) {
	f := c.mustFn(r, "embedded/store.OpenWith")
	if f == nil {
		return
	}
	from := sites(f, callTo("embedded/store.(*Tx).readFrom"))
	put := callTo("embedded/store.(*precommitBuffer).put")
	if len(from) == 0 || len(sites(f, put)) == 0 {
		c.undecided(r, fnName(f), "the reload loop (Tx.readFrom ... precommitBuffer.put) was not found")
		return
	}
	// the value logs are the []appendable.Appendable parameter of OpenWith, whatever it is called
	var vlogs ssa.Value
	for _, p := range f.Params {
		if sl, ok := p.Type().Underlying().(*types.Slice); ok && strings.HasSuffix(sl.Elem().String(), "appendable.Appendable") {
			vlogs = p
		}
	}
	if vlogs == nil {
		c.undecided(r, fnName(f)+":vlogs", "OpenWith has no []appendable.Appendable parameter any more")
		return
	}
	isSizeOf := func(in ssa.Instruction, src ssa.Value) bool {
		cc := callOf(in)
		return cc != nil && cc.IsInvoke() && cc.Method.Name() == "Size" && dependsOn(cc.Value, func(v ssa.Value) bool { return v == src })
	}
	var looksAtSizes func(g *ssa.Function, param ssa.Value, depth int) bool
	looksAtSizes = func(g *ssa.Function, param ssa.Value, depth int) bool {
		if g == nil || len(g.Blocks) == 0 || depth > 2 {
			return false
		}
		found := false
		allInstrs(g, false, func(in ssa.Instruction) {
			if found {
				return
			}
			if isSizeOf(in, param) {
				found = true
				return
			}
			cc := callOf(in)
			if cc == nil {
				return
			}
			if sc := cc.StaticCallee(); sc != nil && fnInPkgs(sc, []string{"embedded/store"}) {
				for ai, a := range cc.Args {
					if ai < len(sc.Params) && dependsOn(a, func(v ssa.Value) bool { return v == param }) && looksAtSizes(sc, sc.Params[ai], depth+1) {
						found = true
					}
				}
			}
		})
		return found
	}
	via := func(in ssa.Instruction) bool {
		if isSizeOf(in, vlogs) {
			return true
		}
		cc := callOf(in)
		if cc == nil {
			return false
		}
		sc := cc.StaticCallee()
		if sc == nil || !fnInPkgs(sc, []string{"embedded/store"}) {
			return false
		}
		for ai, a := range cc.Args {
			if ai < len(sc.Params) && dependsOn(a, func(v ssa.Value) bool { return v == vlogs }) && looksAtSizes(sc, sc.Params[ai], 0) {
				return true
			}
		}
		return false
	}
	q := &pathQ{fn: f, from: from, to: put, via: via}
	if w := q.bypass(); w != nil {
		c.fail(r, fnName(f)+":values-checked-before-reload", c.pos(w[len(w)-1].Pos()), "a transaction found in the tail of the tx log is taken back as precommitted without its values having been looked for in the value logs: "+c.witnessStr(w))
		return
	}
	c.ok(r, fnName(f)+":values-checked-before-reload", c.pos(from[0].Pos()), "every path from Tx.readFrom to precommitBuffer.put passes a comparison with the value-log sizes")
	// ... and a negative verdict ends the reload: the helper's boolean result feeds a branch
	used := false
	for _, in := range sites(f, via) {
		if cl, ok := in.(*ssa.Call); ok {
			for _, rf := range *cl.Referrers() {
				if ex, ok := rf.(*ssa.Extract); ok {
					for _, r2 := range *ex.Referrers() {
						if _, isIf := r2.(*ssa.If); isIf {
							used = true
						}
						if bo, isBo := r2.(*ssa.BinOp); isBo && len(*bo.Referrers()) > 0 {
							used = true
						}
						if u, isU := r2.(*ssa.UnOp); isU && len(*u.Referrers()) > 0 {
							used = true
						}
					}
				}
			}
		}
	}
	c.check(used, r, fnName(f)+":verdict-acted-upon", c.pos(from[0].Pos()), "the verdict of the value check feeds a branch", "the result of the value check is not used")
	// what is compared with the size of a value log is where the value ENDS: some comparison against a Size() result
	// involves the length of the value, not only its offset (a value whose first bytes made it to the log is not there)
	endCompared := false
	ncmp := 0
	for _, g := range c.allFns {
		if !fnInPkgs(g, []string{"embedded/store"}) || len(g.Blocks) == 0 {
			continue
		}
		if g != f && !looksAtSizesAny(g) {
			continue
		}
		allInstrs(g, false, func(in ssa.Instruction) {
			bo, ok := in.(*ssa.BinOp)
			if !ok {
				return
			}
			switch bo.Op {
			case token.GTR, token.LSS, token.GEQ, token.LEQ:
			default:
				return
			}
			isSize := func(v ssa.Value) bool {
				return dependsOn(v, func(x ssa.Value) bool {
					cl, ok := x.(*ssa.Call)
					return ok && cl.Call.IsInvoke() && cl.Call.Method.Name() == "Size"
				})
			}
			usesVLen := func(v ssa.Value) bool {
				return dependsOn(v, func(x ssa.Value) bool {
					u, ok := x.(*ssa.UnOp)
					if !ok || u.Op != token.MUL {
						return false
					}
					fl, _ := fieldOf(u.X)
					return fl == "TxEntry.vLen"
				})
			}
			if (isSize(bo.X) && !isSize(bo.Y)) || (isSize(bo.Y) && !isSize(bo.X)) {
				other := bo.X
				if isSize(bo.X) {
					other = bo.Y
				}
				if dependsOn(other, func(x ssa.Value) bool {
					u, ok := x.(*ssa.UnOp)
					if !ok {
						return false
					}
					fl, _ := fieldOf(u.X)
					return fl == "TxEntry.vOff" || fl == "TxEntry.vLen"
				}) || strings.Contains(desc(other), "decodeOffset") {
					ncmp++
					if usesVLen(other) {
						endCompared = true
					}
				}
			}
		})
	}
	if ncmp == 0 {
		c.undecided(r, fnName(f)+":end-of-value-compared", "no comparison of a value position with a value-log size found")
	} else {
		c.check(endCompared, r, fnName(f)+":end-of-value-compared", c.pos(from[0].Pos()), "a comparison with the value-log size involves the value length", "values are looked for in the value logs by their start offset only: a value whose first bytes reached the log but not its end is taken for present, the transaction is reloaded and committed with an unreadable value")
	}
}

// looksAtSizesAny: g calls Size() on an appendable taken from a []appendable.Appendable parameter.
func looksAtSizesAny(g *ssa.Function) bool {
	for _, p := range g.Params {
		if sl, ok := p.Type().Underlying().(*types.Slice); ok && strings.HasSuffix(sl.Elem().String(), "appendable.Appendable") {
			found := false
			allInstrs(g, false, func(in ssa.Instruction) {
				cc := callOf(in)
				if cc != nil && cc.IsInvoke() && cc.Method.Name() == "Size" && dependsOn(cc.Value, func(v ssa.Value) bool { return v == ssa.Value(p) }) {
					found = true
				}
			})
			if found {
				return true
			}
		}
	}
	return false
}

// c03HashTreeComparedAtOpen: the files of the hash tree are synced on their own schedule; a discard rewinds the tree
// in memory and syncs what was buffered, so after a stop the files can hold the leaf of a discarded transaction under
// the id of the transaction that replaced it. Comparing sizes cannot see that: before the binary linking is declared
// up to date (or completed from the tx log), OpenWith reads leaves back (AHtree.DataAt) and compares them with the
// accumulated hashes of the chain.
func c03HashTreeComparedAtOpen(c *Ctx, r string) {
	f := c.mustFn(r, "embedded/store.OpenWith")
	if f == nil {
		return
	}
	var reachesDataAt func(g *ssa.Function, depth int) bool
	reachesDataAt = func(g *ssa.Function, depth int) bool {
		if g == nil || len(g.Blocks) == 0 || depth > 2 {
			return false
		}
		found := false
		allInstrs(g, false, func(in ssa.Instruction) {
			cc := callOf(in)
			if cc == nil || found {
				return
			}
			if calleeName(cc) == "embedded/ahtree.(*AHtree).DataAt" {
				found = true
				return
			}
			if sc := cc.StaticCallee(); sc != nil && fnInPkgs(sc, []string{"embedded/store"}) && reachesDataAt(sc, depth+1) {
				found = true
			}
		})
		return found
	}
	via := func(in ssa.Instruction) bool {
		cc := callOf(in)
		if cc == nil {
			return false
		}
		if calleeName(cc) == "embedded/ahtree.(*AHtree).DataAt" {
			return true
		}
		sc := cc.StaticCallee()
		return sc != nil && fnInPkgs(sc, []string{"embedded/store"}) && !strings.HasSuffix(sc.Name(), "syncBinaryLinking") && reachesDataAt(sc, 0)
	}
	from := sites(f, callTo("embedded/ahtree.Open"))
	if len(from) == 0 {
		c.undecided(r, fnName(f), "the hash tree is no longer opened by OpenWith")
		return
	}
	q := &pathQ{fn: f, from: from, to: successReturn, via: via}
	if w := q.bypass(); w != nil {
		c.fail(r, fnName(f)+":leaves-read-back", c.pos(w[len(w)-1].Pos()), "the store opens without reading any leaf of the hash tree back: a leaf left by a discarded transaction stays under the id of its replacement, and every proof across it fails from then on ("+c.witnessStr(w)+")")
	} else {
		c.ok(r, fnName(f)+":leaves-read-back", c.pos(from[0].Pos()), "every successful open passes a comparison of hash-tree leaves with the chain")
	}
	for _, in := range sites(f, via) {
		okk, d := errHandled(in)
		c.check(okk, r, fnName(f)+":comparison-error-handled", c.pos(in.Pos()), d, d)
	}
	// the comparison is not confined to the transactions that are not committed yet: a transaction that replaced a
	// discarded one can have been committed (and acknowledged) before the stop while its leaf was still buffered. The
	// walk over the leaves ends at a matching leaf or at leaf 0, never at a frontier of the store.
	nw := 0
	for _, g := range c.allFns {
		if !fnInPkgs(g, []string{"embedded/store"}) || len(g.Blocks) == 0 {
			continue
		}
		for _, in := range sites(g, callTo("embedded/ahtree.(*AHtree).DataAt")) {
			// loop conditions governing this read
			for _, b := range g.Blocks {
				if len(b.Instrs) == 0 || !b.Dominates(in.Block()) || !reaches(in.Block(), b, nil) {
					continue
				}
				ifi, ok := b.Instrs[len(b.Instrs)-1].(*ssa.If)
				if !ok {
					continue
				}
				bo, ok := ifi.Cond.(*ssa.BinOp)
				if !ok {
					continue
				}
				switch bo.Op {
				case token.GTR, token.LSS, token.GEQ, token.LEQ, token.NEQ:
				default:
					continue
				}
				nw++
				_, xc := bo.X.(*ssa.Const)
				_, yc := bo.Y.(*ssa.Const)
				c.check(xc || yc, r, fmt.Sprintf("%s:walk-bound#%d", fnName(g), nw), c.pos(bo.Pos()), "the walk over the leaves is bounded by a constant (leaf 0)",
					"the walk that compares hash-tree leaves with the chain stops at "+desc(bo)+": leaves under the ids below that frontier are never compared, a stale leaf of a discarded transaction whose replacement was already committed stays in the tree")
			}
		}
	}
	if nw < 1 {
		c.undecided(r, "walk-bound", "the loop that reads the leaves back was not recognised")
	}
}
