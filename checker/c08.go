package main

import (
	"fmt"
	"go/token"
	"strings"

	"golang.org/x/tools/go/ssa"
)

const ahT = "embedded/ahtree.(*AHtree)."

// hashBufferInfo inspects the argument of a sha256.Sum256 call: which constant is stored at byte 0 and the
// static length of the buffer (0 = dynamic).
func hashBufferInfo(arg ssa.Value) (prefix string, length int64, ok bool) {
	var base ssa.Value = arg
	for i := 0; i < 4; i++ {
		if s, isS := base.(*ssa.Slice); isS {
			base = s.X
			continue
		}
		break
	}
	switch b := base.(type) {
	case *ssa.Alloc:
		if arr, isArr := derefArray(b); isArr {
			length = arr
		}
		for _, r := range *b.Referrers() {
			ia, isIA := r.(*ssa.IndexAddr)
			if !isIA || desc(ia.Index) != "const:0" {
				continue
			}
			for _, rr := range *ia.Referrers() {
				if st, isSt := rr.(*ssa.Store); isSt && st.Addr == ia {
					prefix = desc(st.Val)
					ok = true
				}
			}
		}
	case *ssa.MakeSlice:
		for _, r := range *b.Referrers() {
			ia, isIA := r.(*ssa.IndexAddr)
			if !isIA || desc(ia.Index) != "const:0" {
				continue
			}
			for _, rr := range *ia.Referrers() {
				if st, isSt := rr.(*ssa.Store); isSt && st.Addr == ia {
					prefix = desc(st.Val)
					ok = true
				}
			}
		}
	}
	return
}

func derefArray(a *ssa.Alloc) (int64, bool) {
	t := a.Type().Underlying()
	if p, ok := t.(interface {
		Elem() interface{ Underlying() interface{} }
	}); ok {
		_ = p
	}
	s := a.Type().String() // *[65]byte
	if strings.HasPrefix(s, "*[") {
		var n int64
		fmt.Sscanf(s, "*[%d]", &n)
		return n, n > 0
	}
	return 0, false
}

// influenced: set of values data-dependent on v inside fn (forward closure over operands), following static calls
// into the callee's parameters one level deep.
func influenced(fn *ssa.Function, seed ssa.Value) map[ssa.Value]bool {
	out := map[ssa.Value]bool{seed: true}
	work := []ssa.Value{seed}
	for len(work) > 0 {
		v := work[0]
		work = work[1:]
		refs := v.Referrers()
		if refs == nil {
			continue
		}
		for _, r := range *refs {
			if st, ok := r.(*ssa.Store); ok && st.Val == v {
				// stored into a local: loads of that local are influenced
				if a, ok := st.Addr.(*ssa.Alloc); ok {
					if !out[a] {
						out[a] = true
						work = append(work, a)
					}
					for _, ar := range *a.Referrers() {
						if u, ok := ar.(*ssa.UnOp); ok && u.Op == token.MUL && !out[u] {
							out[u] = true
							work = append(work, u)
						}
					}
				}
				continue
			}
			if cl, ok := r.(*ssa.Call); ok {
				// a call result is influenced only if the callee's result depends on that parameter
				if cal := cl.Call.StaticCallee(); cal != nil && len(cal.Blocks) > 0 {
					dep := false
					for i, a := range cl.Call.Args {
						if a == v && i < len(cal.Params) && resultDependsOnParam(cal, cal.Params[i], 0) {
							dep = true
						}
					}
					if !dep {
						continue
					}
				}
			}
			if val, ok := r.(ssa.Value); ok && !out[val] {
				out[val] = true
				work = append(work, val)
			}
		}
	}
	return out
}

// resultDependsOnParam: some returned value of fn is data- or control-dependent (beyond zero checks) on p.
func resultDependsOnParam(fn *ssa.Function, p *ssa.Parameter, depth int) bool {
	if depth > 3 {
		return true
	}
	inf := influenced(fn, p)
	dep := false
	allInstrs(fn, false, func(in ssa.Instruction) {
		switch x := in.(type) {
		case *ssa.Return:
			for _, r := range x.Results {
				if inf[r] {
					dep = true
				}
			}
		case *ssa.If:
			if inf[x.Cond] {
				dep = true
			}
		case *ssa.Store:
			if inf[x.Val] || inf[x.Addr] {
				if _, isAlloc := x.Addr.(*ssa.Alloc); !isAlloc {
					dep = true
				}
			}
		case *ssa.Call:
			if b, ok := x.Call.Value.(*ssa.Builtin); ok && b.Name() == "copy" {
				for _, a := range x.Call.Args {
					if inf[a] {
						dep = true
					}
				}
			}
		}
	})
	return dep
}

// paramMatters: the parameter influences the function's result or a branch other than a comparison with zero/nil;
// static callees are followed.
func paramMatters(fn *ssa.Function, p *ssa.Parameter, depth int) bool {
	if depth > 3 {
		return true
	}
	inf := influenced(fn, p)
	matters := false
	allInstrs(fn, false, func(in ssa.Instruction) {
		if matters {
			return
		}
		switch x := in.(type) {
		case *ssa.Return:
			for _, r := range x.Results {
				if inf[r] {
					matters = true
				}
			}
		case *ssa.If:
			if inf[x.Cond] {
				a, _ := normCond(x.Cond)
				zero := strings.Contains(a, "const:0") && strings.Contains(a, " == ") || strings.Contains(a, "nil ==")
				if !zero {
					matters = true
				}
			}
		case *ssa.Store:
			if inf[x.Val] {
				if _, isAlloc := x.Addr.(*ssa.Alloc); !isAlloc {
					matters = true // escapes into memory (buffer contents)
				}
			}
		case *ssa.Call:
			if cal := x.Call.StaticCallee(); cal != nil && len(cal.Blocks) > 0 {
				for i, a := range x.Call.Args {
					if inf[a] && i < len(cal.Params) && paramMatters(cal, cal.Params[i], depth+1) {
						matters = true
					}
				}
			} else {
				for _, a := range x.Call.Args {
					if inf[a] {
						matters = true // builtin / dynamic: copy(), sha256 …
					}
				}
			}
		}
	})
	return matters
}

func c08(c *Ctx) {
	// ---- C08.1 domain separation ----------------------------------------------------------------------------------
	r := "C08.1/domain-separation"
	for _, pk := range []string{"embedded/ahtree", "embedded/htree"} {
		lp, ok1 := c.constInt(pk, "LeafPrefix")
		np, ok2 := c.constInt(pk, "NodePrefix")
		c.check(ok1 && ok2 && lp == 0 && np == 1, r, pk+":prefix-constants", "", "LeafPrefix=0, NodePrefix=1", fmt.Sprintf("%s: LeafPrefix=%d NodePrefix=%d", pk, lp, np))
	}
	nh := 0
	for _, fn := range c.allFns {
		if !fnInPkgs(fn, []string{"embedded/ahtree", "embedded/htree"}) && fnName(fn) != "embedded/store.leafFor" {
			continue
		}
		for i, in := range sites(fn, callTo("crypto/sha256.Sum256")) {
			arg := callOf(in).Args[0]
			construct := fmt.Sprintf("%s:Sum256#%d", fnName(fn), i)
			if k, isC := arg.(*ssa.Const); isC && k.IsNil() {
				c.okTrivial(r, construct, c.pos(in.Pos()), "empty-tree root: Sum256(nil)")
				continue
			}
			nh++
			pfx, n, ok := hashBufferInfo(arg)
			switch {
			case !ok:
				c.fail(r, construct, c.pos(in.Pos()), "hash input has no domain-separation byte at offset 0")
			case pfx == "const:0" && (n == 33 || n == 0):
				c.ok(r, construct, c.pos(in.Pos()), fmt.Sprintf("leaf hash: prefix 0, buffer %d", n))
			case pfx == "const:1" && n == 65:
				// both children copied
				var base ssa.Value = arg
				if s, isS := base.(*ssa.Slice); isS {
					base = s.X
				}
				ncopy := 0
				for _, rr := range *base.(*ssa.Alloc).Referrers() {
					if sl, ok := rr.(*ssa.Slice); ok {
						for _, r2 := range *sl.Referrers() {
							if cl, ok := r2.(*ssa.Call); ok {
								if b, ok := cl.Call.Value.(*ssa.Builtin); ok && b.Name() == "copy" && cl.Call.Args[0] == sl {
									ncopy++
								}
							}
						}
					}
				}
				c.check(ncopy >= 2, r, construct, c.pos(in.Pos()), fmt.Sprintf("node hash: prefix 1, 65 bytes, %d child copies", ncopy), "node hash does not copy both children into the buffer")
			default:
				c.fail(r, construct, c.pos(in.Pos()), fmt.Sprintf("unexpected hash input shape: prefix %s, buffer length %d", pfx, n))
			}
		}
	}
	if nh < 10 {
		c.undecided(r, "floor", fmt.Sprintf("expected >=10 tree hash sites, found %d", nh))
	}

	// ---- C08.2 verifier guards and parameter influence ----------------------------------------------------------------
	r = "C08.2/verifier-guards"
	type guard struct {
		name string
		e    edgePred
	}
	iGtJ := whenCond(false, func(a string) bool { return a == "(param:j < param:i)" })
	iZero := whenCond(false, func(a string) bool { return a == "(const:0 == param:i)" || a == "(param:i == const:0)" })
	for _, v := range []struct {
		fn, eval string
		gs       []guard
	}{
		{"embedded/ahtree.VerifyInclusion", "embedded/ahtree.EvalInclusion", []guard{{"i<=j", iGtJ}, {"i!=0", iZero}}},
		{"embedded/ahtree.VerifyConsistency", "embedded/ahtree.EvalConsistency", []guard{{"i<=j", iGtJ}, {"i!=0", iZero}}},
		{"embedded/ahtree.VerifyLastInclusion", "embedded/ahtree.EvalLastInclusion", []guard{{"i!=0", iZero}}},
	} {
		f := c.mustFn(r, v.fn)
		if f == nil {
			continue
		}
		for _, g := range v.gs {
			q := &pathQ{fn: f, fromEntry: true, to: callTo(v.eval), barrier: g.e}
			c.check(len(sites(f, callTo(v.eval))) > 0 && q.bypass() == nil, r, fnName(f)+":guard:"+g.name, c.pos(f.Pos()), "evaluation is dominated by "+g.name, "the proof is evaluated without the guard "+g.name)
		}
		// the verdict compares the evaluated root(s) with the claimed one(s)
		okCmp := false
		allInstrs(f, false, func(in ssa.Instruction) {
			if rt, ok := in.(*ssa.Return); ok && len(rt.Results) == 1 {
				for _, leaf := range boolLeaves(unspill(rt.Results[0], rt)) {
					d := desc(leaf)
					if strings.Contains(d, lastSeg(v.eval)) && strings.Contains(d, "==") && strings.Contains(d, "oot") {
						okCmp = true
					}
				}
			}
		})
		c.check(okCmp, r, fnName(f)+":verdict-compares-evaluated-root", c.pos(f.Pos()), "result compares the evaluated root with the claimed root", "the verifier's verdict no longer compares the evaluated root with the claimed one")
		// no verdict other than "false" is given without evaluating the proof, except for an empty proof: a shortcut that
		// compares the claimed roots only accepts any altered proof whenever the roots are equal
		nret := 0
		allInstrs(f, false, func(in ssa.Instruction) {
			rt, ok := in.(*ssa.Return)
			if !ok || len(rt.Results) != 1 {
				return
			}
			res := unspill(rt.Results[0], rt)
			if k, isConst := res.(*ssa.Const); isConst && desc(k) == "const:false" {
				return
			}
			nret++
			evaluated := dependsOn(res, func(x ssa.Value) bool {
				cl, ok := x.(*ssa.Call)
				return ok && calleeName(&cl.Call) == v.eval
			})
			emptyProof := false
			for _, b := range f.Blocks {
				if len(b.Instrs) == 0 {
					continue
				}
				ifi, ok := b.Instrs[len(b.Instrs)-1].(*ssa.If)
				if !ok {
					continue
				}
				for succ := 0; succ < 2; succ++ {
					if !edgeDominates(b, succ, rt.Block()) {
						continue
					}
					a, pol := normCond(ifi.Cond)
					isLenZero := strings.Contains(a, "len(param:") && strings.Contains(a, "const:0") && strings.Contains(a, "==")
					if isLenZero && ((succ == 0) == pol) {
						emptyProof = true
					}
				}
			}
			c.check(evaluated || emptyProof, r, fmt.Sprintf("%s:verdict#%d:proof-evaluated", fnName(f), nret), c.pos(rt.Pos()), "the verdict depends on the evaluated proof (or the proof is empty)",
				"a verdict that can be `true` is given without evaluating the proof and without the proof being empty ("+desc(res)+"): any altered, extended or foreign proof is accepted on that path")
		})
		for _, p := range f.Params {
			c.check(paramMatters(f, p, 0), "C08.2/parameter-influence", fnName(f)+":param:"+p.Name(), c.pos(f.Pos()), "parameter influences the verdict",
				"parameter "+p.Name()+" influences the verdict only through a comparison with zero: the same proof verifies for any other value of it")
		}
	}
	// the constructors agree with the verifiers on what a valid index pair is (positions are 1-based, i <= j <= size):
	// the digest walk is not entered with i == 0 or i > j
	for _, v := range []struct{ fn, walk string }{
		{ahT + "InclusionProof", ahT + "inclusionProof"},
		{ahT + "ConsistencyProof", ahT + "consistencyProof"},
	} {
		f := c.mustFn("C08.2/constructor-guards", v.fn)
		if f == nil {
			continue
		}
		for _, g := range []guard{{"i<=j", iGtJ}, {"i!=0", iZero}} {
			// the guard may sit in a helper that is given (i, j) and whose error is checked: the edge on which such a
			// helper reported no error establishes the guard as well
			var viaHelper []cfgEdge
			for _, in := range sites(f, func(x ssa.Instruction) bool {
				cc := callOf(x)
				if cc == nil || cc.StaticCallee() == nil || !fnInPkgs(cc.StaticCallee(), []string{"embedded/ahtree"}) || callTo(v.walk)(x) {
					return false
				}
				_, isDefer := x.(*ssa.Defer)
				return !isDefer
			}) {
				callee := callOf(in).StaticCallee()
				if len(callee.Blocks) == 0 {
					continue
				}
				// the helper receives this function's i and j under the same names
				same := true
				for ai, a := range callOf(in).Args {
					if p, ok := a.(*ssa.Parameter); ok && (p.Name() == "i" || p.Name() == "j") {
						if ai >= len(callee.Params) || callee.Params[ai].Name() != p.Name() {
							same = false
						}
					}
				}
				hq := &pathQ{fn: callee, fromEntry: true, to: successReturn, barrier: g.e}
				if !same || hq.bypass() != nil {
					continue
				}
				in := in
				for _, e := range errEdges(f, func(x ssa.Instruction) bool { return x == in }) {
					viaHelper = append(viaHelper, cfgEdge{e.b, 1 - e.succ})
				}
			}
			barrier := g.e
			if len(viaHelper) > 0 {
				vh := viaHelper
				barrier = anyEdge(g.e, func(b *ssa.BasicBlock, succ int) bool {
					for _, e := range vh {
						if e.b == b && e.succ == succ {
							return true
						}
					}
					return false
				})
			}
			q := &pathQ{fn: f, fromEntry: true, to: callTo(v.walk), barrier: barrier}
			c.check(len(sites(f, callTo(v.walk))) > 0 && q.bypass() == nil, "C08.2/constructor-guards", fnName(f)+":guard:"+g.name, c.pos(f.Pos()), "the walk is dominated by "+g.name,
				"a proof is built without the guard "+g.name+" that the verifiers apply: a proof is handed out for a position that does not exist (and with j == 0 the walk divides by zero)")
		}
	}
	if f := c.mustFn(r, "embedded/htree.VerifyInclusion"); f != nil {
		q := &pathQ{fn: f, fromEntry: true, to: callTo("crypto/sha256.Sum256"), barrier: whenCond(false, func(a string) bool { return a == "(nil == param:proof)" || a == "(param:proof == nil)" })}
		c.check(q.bypass() == nil, r, fnName(f)+":nil-proof-rejected", c.pos(f.Pos()), "nil proof rejected before use", "htree.VerifyInclusion dereferences a nil proof")
		posCmp, rootCmp := false, false
		allInstrs(f, false, func(in ssa.Instruction) {
			if rt, ok := in.(*ssa.Return); ok && len(rt.Results) == 1 {
				for _, leaf := range boolLeaves(unspill(rt.Results[0], rt)) {
					bo, ok := leaf.(*ssa.BinOp)
					if !ok || bo.Op != token.EQL {
						continue
					}
					d := desc(bo)
					if strings.Contains(d, "param:root") {
						rootCmp = true
					}
					// the two position counters (derived from proof.Leaf and proof.Width) must meet
					if dependsOn(bo.X, func(v ssa.Value) bool {
						f, _ := fieldOf(v)
						return f == "InclusionProof.Leaf" || f == "InclusionProof.Width"
					}) &&
						dependsOn(bo.Y, func(v ssa.Value) bool {
							f, _ := fieldOf(v)
							return f == "InclusionProof.Leaf" || f == "InclusionProof.Width"
						}) {
						posCmp = true
					}
				}
			}
		})
		c.check(rootCmp, r, fnName(f)+":verdict-compares-root", c.pos(f.Pos()), "result compares the computed root with the claimed root", "htree.VerifyInclusion no longer compares roots")
		c.check(posCmp, r, fnName(f)+":verdict-binds-leaf-and-width", c.pos(f.Pos()), "result requires the leaf and width counters to meet (ties the number of terms to the claimed position)", "htree.VerifyInclusion no longer ties the proof length to (Leaf, Width): a proof verifies for other widths")
		for _, p := range f.Params {
			c.check(paramMatters(f, p, 0), "C08.2/parameter-influence", fnName(f)+":param:"+p.Name(), c.pos(f.Pos()), "parameter influences the verdict", "parameter "+p.Name()+" does not influence the verdict")
		}
	}

	// ---- C08.3 rollback hygiene and append discipline --------------------------------------------------------------------
	// ---- C08.3 recovery: logical sizes come from the commit log ---------------------------------------------------
	// after a crash the payload / digest logs may be longer than what the commit log covers; Append writes at
	// t.pLogSize / t.dLogSize, proofs read at canonical positions: the recovered sizes must be computed from the last
	// commit-log entry, never from the physical size of the log itself
	r = "C08.3/recovered-sizes-from-commit-log"
	for _, name := range []string{"embedded/ahtree.OpenWith", "embedded/ahtree.(*AHtree).ResetSize"} {
		if f := c.mustFn(r, name); f != nil {
			ns := 0
			for _, fld := range []string{"AHtree.pLogSize", "AHtree.dLogSize"} {
				for i, in := range sites(f, storeTo(fld)) {
					st := in.(*ssa.Store)
					if k, ok := st.Val.(*ssa.Const); ok && k.Int64() == 0 {
						continue
					}
					ns++
					phys := dependsOn(st.Val, func(v ssa.Value) bool {
						cl, ok := v.(*ssa.Call)
						// the commit log is the source of truth: its own size is what the recovered sizes are computed from
						return ok && cl.Call.IsInvoke() && cl.Call.Method.Name() == "Size" && !strings.Contains(desc(cl.Call.Value), "cLog")
					})
					c.check(!phys, r, fmt.Sprintf("%s:%s#%d", fnName(f), fld, i), c.pos(in.Pos()), "derived from the commit-log entry ("+desc(st.Val)+")",
						"the logical size "+fld+" is taken from the physical size of the log: bytes written after the last committed entry would be treated as part of the tree")
				}
			}
			if ns == 0 && name == "embedded/ahtree.OpenWith" {
				c.undecided(r, name+":sizes", "no non-zero store to pLogSize/dLogSize found")
			}
		}
	}

	// "Rolling the tree back to a smaller size and re-appending, restarting ... do not change any of this": ResetSize
	// lowers the in-memory sizes and the next Append rewinds pLog, dLog and cLog with SetOffset; the size found at the next Open is the physical size of the commit
	// log, so the rollback survives a restart only if an appendable rewind is persistent (it is not: known finding)
	c17RewindPersistent(c, "C08.3/rollback-is-persistent")
	// ResetSize computes the new digest-log and commit-log sizes from the size it is asked for, not from the
	// tree's current size (which still is the old one while the new sizes are being computed)
	if f := c.mustFn("C08.3/rollback-sizes-from-new-size", "embedded/ahtree.(*AHtree).ResetSize"); f != nil {
		var newSize *ssa.Parameter
		for _, p := range f.Params {
			if p.Name() == "newSize" {
				newSize = p
			}
		}
		for _, fld := range []string{"AHtree.dLogSize", "AHtree.cLogSize"} {
			for i, in := range sites(f, storeTo(fld)) {
				st := in.(*ssa.Store)
				fromNew := newSize != nil && dependsOn(st.Val, func(v ssa.Value) bool { return v == ssa.Value(newSize) })
				fromOld := dependsOn(st.Val, func(v ssa.Value) bool {
					if cl, ok := v.(*ssa.Call); ok && calleeName(&cl.Call) == "embedded/ahtree.(*AHtree).size" {
						return true
					}
					if ld, ok := v.(*ssa.UnOp); ok && ld.Op == token.MUL {
						if fl, _ := fieldOf(ld.X); fl == "AHtree.cLogSize" || fl == "AHtree.dLogSize" {
							return true
						}
					}
					return false
				})
				c.check(fromNew && !fromOld, "C08.3/rollback-sizes-from-new-size", fmt.Sprintf("%s:%s#%d", fnName(f), fld, i), c.pos(in.Pos()), "derived from newSize ("+desc(st.Val)+")",
					"after a rollback "+fld+" is computed from the tree's current (old) size: the next Append writes its digests after the rolled-back ones while proofs read canonical positions")
			}
		}
	}
	r = "C08.3/rollback-hygiene"
	if f := c.mustFn(r, ahT+"ResetSize"); f != nil {
		for _, sz := range []string{"cLogSize", "pLogSize", "dLogSize"} {
			c.ruleOrder(r, f, "sync()", callTo(ahT+"sync"), "store "+sz, storeTo("AHtree."+sz), nil, 1)
		}
		c.ruleErrChecked(r, f, "sync()", callTo(ahT+"sync"), 1)
		for _, ch := range []string{"pCache", "dCache"} {
			pop := callTo("embedded/cache.(*Cache).Pop@" + ch)
			c.check(len(sites(f, pop)) > 0, r, fnName(f)+":invalidates:"+ch, c.pos(f.Pos()), ch+" entries beyond the new size are dropped", "ResetSize no longer invalidates "+ch)
			// invalidation loops run before the sizes shrink (they iterate up to the old size)
			c.neverAfter(r, f, ch+".Pop", pop, "store dLogSize", storeTo("AHtree.dLogSize"))
		}
		// shrinking only: larger sizes are refused before anything happens
		q := &pathQ{fn: f, fromEntry: true, to: callTo(ahT + "sync"), barrier: whenCond(false, func(a string) bool { return strings.HasSuffix(a, "< param:newSize)") && strings.Contains(a, ").size[") })}
		c.check(q.bypass() == nil, r, fnName(f)+":never-grows", c.pos(f.Pos()), "sizes beyond the current one are refused", "ResetSize accepts a size larger than the current one")
	}
	r = "C08.3/append-discipline"
	if f := c.mustFn(r, ahT+"Append"); f != nil {
		c.ruleOrder(r, f, "pLog.SetOffset(pLogSize)", callTo(appSetOff+"@pLog"), "pLog.Append", callTo(appAppend+"@pLog"), nil, 1)
		c.ruleOrder(r, f, "dLog.SetOffset(dLogSize)", callTo(appSetOff+"@dLog"), "dLog.Append", callTo(appAppend+"@dLog"), nil, 1)
		for _, in := range sites(f, callTo(appSetOff+"@pLog")) {
			c.check(hasFieldSuffix(desc(callOf(in).Args[0]), "pLogSize"), r, fnName(f)+":pLog-rewind-target", c.pos(in.Pos()), "rewinds to pLogSize", "pLog is rewound to "+desc(callOf(in).Args[0]))
		}
		for _, in := range sites(f, callTo(appSetOff+"@dLog")) {
			c.check(hasFieldSuffix(desc(callOf(in).Args[0]), "dLogSize"), r, fnName(f)+":dLog-rewind-target", c.pos(in.Pos()), "rewinds to dLogSize", "dLog is rewound to "+desc(callOf(in).Args[0]))
		}
		// sizes advance only when the (threshold) sync did not fail
		for _, sz := range []string{"pLogSize", "dLogSize", "cLogSize"} {
			for i, st := range sites(f, storeTo("AHtree."+sz)) {
				q := &pathQ{fn: f, fromEdges: errEdges(f, callTo(ahT+"sync")), to: func(x ssa.Instruction) bool { return x == st }}
				c.check(q.bypass() == nil, r, fmt.Sprintf("%s:%s-unchanged-on-sync-failure#%d", fnName(f), sz, i), c.pos(st.Pos()), sz+" is not advanced on the sync-failure edge", sz+" advances although the batch sync failed")
			}
		}
		for _, s := range []string{appSetOff + "@pLog", appAppend + "@pLog", appSetOff + "@dLog", appAppend + "@dLog"} {
			n := 0
			for _, in := range sites(f, callTo(s)) {
				n++
				okk, d := errUsed(in)
				c.check(okk, r, fmt.Sprintf("%s:%s#%d:error-used", fnName(f), strings.TrimPrefix(s, app), n), c.pos(in.Pos()), d, d)
			}
		}
		// leaf position: n = size()+1, and the leaf digest is what is returned
		c.check(len(sites(f, callTo(ahT+"size"))) > 0, r, fnName(f)+":position-from-size", c.pos(f.Pos()), "n = size()+1", "Append no longer derives the position from size()")
	}

	// the commit log of the tree is rewritten from latestSyncedNode at every sync: the watermark advances by exactly the
	// number of entries that sync just appended (cLogBufCount). Derived from anything else (the logical size, which Append
	// advances only after its threshold sync) the next sync starts one slot off and shifts every later leaf.
	if f := c.mustFn("C08.3/synced-watermark-counts-what-was-written", ahT+"sync"); f != nil {
		rw := "C08.3/synced-watermark-counts-what-was-written"
		sts := sites(f, storeTo("AHtree.latestSyncedNode"))
		if len(sts) == 0 {
			c.undecided(rw, fnName(f), "sync no longer stores latestSyncedNode")
		}
		for i, in := range sts {
			v := in.(*ssa.Store).Val
			dep := dependsOn(v, func(x ssa.Value) bool {
				u, ok := x.(*ssa.UnOp)
				if !ok || u.Op != token.MUL {
					return false
				}
				fl, _ := fieldOf(u.X)
				return fl == "AHtree.cLogBufCount"
			})
			c.check(dep, rw, fmt.Sprintf("%s:latestSyncedNode#%d", fnName(f), i), c.pos(in.Pos()), "advances by the number of commit-log entries appended", "the synced watermark is set to "+desc(v)+", which does not count the entries this sync appended to the commit log: the next sync rewinds the commit log to a wrong slot")
		}
	}

	// ---- C08.4 one tree state per proof ---------------------------------------------------------------------------
	// a proof or a root is assembled from several digest reads; rollback + re-append rewrites digests in place, so all
	// reads of one proof must see one tree: the logs, sizes and caches are touched only under the tree mutex, and the
	// unexported walkers are entered with it held
	ahGuard := guardSpec{
		structName: "AHtree",
		lock:       "AHtree.mutex",
		fields:     []string{"pLog", "dLog", "cLog", "pLogSize", "dLogSize", "cLogSize", "pCache", "dCache", "closed"},
		callerHolds: map[string]string{
			ahT + "node": "W", ahT + "nodeAt": "W", ahT + "inclusionProof": "W", ahT + "consistencyProof": "W",
			ahT + "highestNode": "W", ahT + "size": "W", ahT + "rootAt": "W", ahT + "sync": "W",
		},
		exempt: map[string]string{
			"embedded/ahtree.OpenWith": "constructor: the tree is not shared yet",
			"embedded/ahtree.Open":     "constructor: the tree is not shared yet",
		},
	}
	c.ruleGuarded("C08.4/tree-lockset", []string{"embedded/ahtree"}, ahGuard)
	c.ruleCallerHolds("C08.4/caller-holds", []string{"embedded/ahtree"}, ahGuard)
	if c.Analysed["guarded_accesses_AHtree"] < 40 {
		c.undecided("C08.4/tree-lockset", "floor", fmt.Sprintf("%d guarded accesses of AHtree state found", c.Analysed["guarded_accesses_AHtree"]))
	}

	// ---- C08.6 empty payloads are readable ---------------------------------------------------------------------------------
	// Append accepts an empty (non-nil) payload; the appendables refuse a read into an empty buffer
	// (ErrIllegalArguments), so a payload or digest read whose buffer length comes from stored data is issued only
	// with a length that is provably >= 1 (an empty payload is answered without touching the log)
	nra := 0
	for _, fn := range c.allFns {
		if !fnInPkgs(fn, []string{"embedded/ahtree"}) || len(fn.Blocks) == 0 {
			continue
		}
		var p *prover
		per := 0
		for _, in := range sites(fn, func(in ssa.Instruction) bool {
			cc := callOf(in)
			_, isDefer := in.(*ssa.Defer)
			return cc != nil && !isDefer && cc.IsInvoke() && cc.Method.Name() == "ReadAt" && len(cc.Args) == 2
		}) {
			nra++
			per++
			if p == nil {
				p = newProver(c, fn)
			}
			o := boundsObl{in, "read buffer len >= 1", newLin(1).add(p.lenOf(callOf(in).Args[0]), -1)}
			okk, how := p.proveObl(o)
			construct := fmt.Sprintf("%s:ReadAt#%d", fnName(fn), per)
			if okk {
				c.ok("C08.6/no-empty-read", construct, c.pos(in.Pos()), how+": "+o.l.String()+" <= 0")
			} else {
				c.fail("C08.6/no-empty-read", construct, c.pos(in.Pos()), "the buffer handed to ReadAt can be empty (need "+o.l.String()+" <= 0): the appendable answers ErrIllegalArguments, an element appended with an empty payload can not be read back once it left the cache")
			}
		}
	}
	if nra < 3 {
		c.undecided("C08.6/no-empty-read", "floor", fmt.Sprintf("%d log reads found in embedded/ahtree", nra))
	}

	// ---- C08.5 cache eviction hand follows removals -----------------------------------------------------------------
	// the digest and payload caches are invalidated by Pop on rollback; the eviction hand is a pointer into the order
	// list, so whoever removes an element either moves the hand off it first or has compared the hand with it
	c08CacheHand(c, "C08.5/eviction-hand-follows-removal")
}

func c08CacheHand(c *Ctx, r string) {
	n := 0
	for _, fn := range c.allFns {
		if !fnInPkgs(fn, []string{"embedded/cache"}) || len(fn.Blocks) == 0 {
			continue
		}
		for _, in := range sites(fn, callTo("container/list.(*List).Remove")) {
			cc := callOf(in)
			if lf, _ := fieldOf(recvOf(cc)); lf != "Cache.list" || len(cc.Args) < 2 {
				continue
			}
			n++
			el := desc(cc.Args[1])
			handled := false
			why := ""
			allInstrs(fn, false, func(x ssa.Instruction) {
				if handled || !instrDominates(x, in) {
					return
				}
				switch y := x.(type) {
				case *ssa.Store:
					// c.hand = el.Prev()
					if f, _ := fieldOf(y.Addr); f == "Cache.hand" {
						if pc, ok := y.Val.(*ssa.Call); ok && calleeName(&pc.Call) == "container/list.(*Element).Prev" && desc(pc.Call.Args[0]) == el {
							handled, why = true, "hand moved to "+el+".Prev() before the removal"
						}
					}
				case *ssa.If:
					// if c.hand == el { … }
					if bo, ok := y.Cond.(*ssa.BinOp); ok && (bo.Op == token.EQL || bo.Op == token.NEQ) {
						dx, dy := desc(bo.X), desc(bo.Y)
						isHand := func(d string) bool { return hasFieldSuffix(d, "hand") }
						if (isHand(dx) && dy == el) || (isHand(dy) && dx == el) {
							// the branch taken when they are equal stores a new hand
							moved := false
							allInstrs(fn, false, func(z ssa.Instruction) {
								if st, ok := z.(*ssa.Store); ok {
									if f, _ := fieldOf(st.Addr); f == "Cache.hand" && instrDominates(y, z) {
										moved = true
									}
								}
							})
							if moved {
								handled, why = true, "hand compared with "+el+" and moved when equal"
							}
						}
					}
				}
			})
			c.check(handled, r, fmt.Sprintf("%s:list.Remove#%d", fnName(fn), n), c.pos(in.Pos()), why, "element "+el+" is unlinked from the order list while the eviction hand may still point at it: the next eviction walks from a removed element")
		}
	}
	if n < 2 {
		c.undecided(r, "floor", fmt.Sprintf("%d removals from the cache order list found (evict, pop confirmed by hand)", n))
	}
}

// errEdges: the edges taken when the error of any call matching p in fn is non-nil.
func errEdges(fn *ssa.Function, p sitePred) []cfgEdge {
	var out []cfgEdge
	for _, in := range sites(fn, p) {
		ee := errEdgeOf(in)
		if ee == nil {
			continue
		}
		for _, b := range fn.Blocks {
			for si := range b.Succs {
				if ee(b, si) {
					out = append(out, cfgEdge{b, si})
				}
			}
		}
		// named results: `err = f(); if err != nil` tests a load of the result alloc
		if call, ok := in.(*ssa.Call); ok {
			for _, r := range *call.Referrers() {
				if st, ok := r.(*ssa.Store); ok && st.Val == call {
					if a, ok := st.Addr.(*ssa.Alloc); ok {
						b := in.Block()
						for i := idxIn(st) + 1; i < len(b.Instrs); i++ {
							if ifi, ok := b.Instrs[i].(*ssa.If); ok {
								if bo, ok := ifi.Cond.(*ssa.BinOp); ok {
									if ld, ok := bo.X.(*ssa.UnOp); ok && ld.X == a {
										succ := 0
										if bo.Op == token.EQL {
											succ = 1
										}
										out = append(out, cfgEdge{b, succ})
									}
								}
							}
						}
					}
				}
			}
		}
	}
	return out
}
