package main

import (
	"fmt"
	"go/token"
	"strings"

	"golang.org/x/tools/go/ssa"
)

const (
	aofT = "embedded/appendable/singleapp.(*AppendableFile)."
	mfT  = "embedded/appendable/multiapp.(*MultiFileAppendable)."
)

func c03Appendables(c *Ctx, pfx string) {
	r := pfx + "/singleapp-sync"
	if f := c.mustFn(r, aofT+"sync"); f != nil {
		fsync := callTo("os.(*File).Sync", "embedded/appendable/fileutils.Fdatasync")
		c.ruleOrder(r, f, "flush", callTo(aofT+"flush"), "fsync", fsync, nil, 2)
		c.ruleMustPass(r, f, nil, "fsync", fsync, nil, false)
		c.ruleErrChecked(pfx+"/err", f, "flush", callTo(aofT+"flush"), 1)
		// the buffer is released only when fsync succeeded (retryable mode): the stores that reset
		// wbufUnwrittenOffset are dominated by the err == nil edge of the fsync result
		for i, in := range sites(f, storeTo("AppendableFile.wbufUnwrittenOffset")) {
			q := &pathQ{fn: f, fromEntry: true, to: func(x ssa.Instruction) bool { return x == in },
				barrier: whenCond(true, func(a string) bool { return strings.Contains(a, "== nil") })}
			c.check(q.bypass() == nil, r, fmt.Sprintf("%s:buffer-released-only-after-successful-fsync#%d", fnName(f), i), c.pos(in.Pos()),
				"write buffer reset is dominated by the err==nil edge", "write buffer is released on a path where fsync did not succeed")
		}
	}
	// retryable mode, fsync failed: what was flushed is taken back (the file offset is rewound by the number of flushed
	// bytes and a seek is requested) so that the retry rewrites it at the same position; the rewind reads
	// wbufFlushedOffset, so it comes before that counter is reset
	if f := c.fn(aofT + "sync"); f != nil {
		rw := pfx + "/singleapp-failed-fsync-rewinds"
		failed := whenCond(false, func(a string) bool { return strings.Contains(a, "== nil") || strings.HasPrefix(a, "(nil == ") })
		var rewinds []ssa.Instruction
		for _, in := range sites(f, storeTo("AppendableFile.fileOffset")) {
			if strings.Contains(desc(in.(*ssa.Store).Val), "wbufFlushedOffset") {
				rewinds = append(rewinds, in)
			}
		}
		c.check(len(rewinds) > 0, rw, fnName(f)+":fileOffset-=wbufFlushedOffset", c.pos(f.Pos()), "the file offset is rewound by wbufFlushedOffset", "sync no longer rewinds the file offset by the flushed bytes after a failed fsync")
		if len(rewinds) > 0 {
			isRewind := func(x ssa.Instruction) bool {
				for _, rr := range rewinds {
					if x == rr {
						return true
					}
				}
				return false
			}
			c.neverAfter(rw, f, "fileOffset rewind", isRewind, "wbufFlushedOffset reset", storeTo("AppendableFile.wbufFlushedOffset"))
			// on the failed edge every return passes the rewind and the seek request
			var edges []cfgEdge
			rb := rewinds[0].Block()
			for _, pb := range rb.Preds {
				for si, sb := range pb.Succs {
					if sb == rb && failed(pb, si) {
						edges = append(edges, cfgEdge{pb, si})
					}
				}
			}
			if len(edges) == 0 {
				c.undecided(rw, fnName(f)+":failed-edge", "the err != nil edge guarding the rewind was not found")
			} else {
				e := edges[len(edges)-1:]
				for _, via := range []struct {
					n string
					p sitePred
				}{{"fileOffset rewind", isRewind}, {"seekRequired=true", storeTo("AppendableFile.seekRequired")}} {
					q := &pathQ{fn: f, fromEdges: e, to: isReturn, via: via.p}
					c.check(q.bypass() == nil, rw, fnName(f)+":failed-fsync-passes:"+via.n, c.pos(rewinds[0].Pos()), "every return after a failed fsync passes the "+via.n, "after a failed fsync sync() can return without the "+via.n)
				}
			}
		}
	}
	// Fdatasync wrapper really syncs on every build variant
	if f := c.mustFn(r, "embedded/appendable/fileutils.Fdatasync"); f != nil {
		c.ruleMustPass(r, f, nil, "fdatasync", callTo("embedded/appendable/fileutils.fdatasync"), nil, false)
	}
	if f := c.mustFn(r, "embedded/appendable/fileutils.fdatasync"); f != nil {
		c.ruleMustPass(r, f, nil, "fsync syscall", callTo("os.(*File).Sync", "syscall.Fdatasync", "golang.org/x/sys/unix.Fdatasync", "syscall.Fsync", "golang.org/x/sys/unix.Fsync"), nil, false)
	}
	r = pfx + "/singleapp-readonly-switch"
	if f := c.mustFn(r, aofT+"SwitchToReadOnlyMode"); f != nil {
		drop := storeTo("AppendableFile.writeBuffer")
		c.ruleOrder(r, f, "flush", callTo(aofT+"flush"), "writeBuffer=nil", drop, nil, 1)
		c.ruleOrder(r, f, "sync", callTo(aofT+"sync"), "writeBuffer=nil", drop,
			whenCond(false, func(a string) bool { return hasFieldSuffix(a, "retryableSync") }), 1)
		c.ruleErrChecked(pfx+"/err", f, "flush", callTo(aofT+"flush"), 1)
		c.ruleErrChecked(pfx+"/err", f, "sync", callTo(aofT+"sync"), 1)
	}
	r = pfx + "/singleapp-close"
	if f := c.mustFn(r, aofT+"Close"); f != nil {
		c.ruleOrder(r, f, "flush", callTo(aofT+"flush"), "f.Close", callTo("os.(*File).Close"),
			whenCond(true, func(a string) bool { return hasFieldSuffix(a, "readOnly") }), 1)
		c.ruleErrChecked(pfx+"/err", f, "flush", callTo(aofT+"flush"), 1)
	}
	r = pfx + "/singleapp-flush"
	if f := c.mustFn(r, aofT+"flush"); f != nil {
		c.ruleOrder(r, f, "seekIfRequired", callTo(aofT+"seekIfRequired"), "f.Write", callTo("os.(*File).Write"), nil, 1)
		c.ruleErrChecked(pfx+"/err", f, "seekIfRequired", callTo(aofT+"seekIfRequired"), 1)
		// in retryable mode the buffer survives flush: the reset is only on the !retryableSync edge
		for i, in := range sites(f, storeTo("AppendableFile.wbufUnwrittenOffset")) {
			q := &pathQ{fn: f, fromEntry: true, to: func(x ssa.Instruction) bool { return x == in },
				barrier: whenCond(false, func(a string) bool { return hasFieldSuffix(a, "retryableSync") })}
			c.check(q.bypass() == nil, r, fmt.Sprintf("%s:buffer-kept-until-fsync-in-retryable-mode#%d", fnName(f), i), c.pos(in.Pos()),
				"buffer reset in flush only when retryableSync is off", "flush releases the write buffer although retryable sync is on")
		}
	}
	r = pfx + "/multiapp-rotation"
	if f := c.mustFn(r, mfT+"Append"); f != nil {
		c.chain(r, f, nil,
			step{"currApp.SwitchToReadOnlyMode", callTo(appSwitchRO + "@currApp")},
			step{"appendables.Put", callTo("embedded/appendable/multiapp.(appendableCache).Put")},
			step{"store currAppID", storeTo("MultiFileAppendable.currAppID")},
			step{"openAppendable", callTo(mfT + "openAppendable")},
			step{"store currApp", storeTo("MultiFileAppendable.currApp")},
		)
		c.ruleErrChecked(pfx+"/err", f, "SwitchToReadOnlyMode", callTo(appSwitchRO+"@currApp"), 1)
		c.ruleErrChecked(pfx+"/err", f, "currApp.Append", callTo(appAppend+"@currApp"), 1)
	}
	for _, n := range []string{"sync", "Flush", "Close", "SwitchToReadOnlyMode"} {
		if f := c.mustFn(r, mfT+n); f != nil {
			target := map[string]string{"sync": appSync, "Flush": appFlush, "Close": appClose, "SwitchToReadOnlyMode": appSwitchRO}[n]
			c.ruleMustPass(pfx+"/multiapp-delegates", f, nil, "currApp."+strings.TrimPrefix(target, app), callTo(target+"@currApp"), nil, false)
		}
	}
}

// dependsOn: value v transitively (through operands, phis) depends on a value satisfying p.
func dependsOn(v ssa.Value, p func(ssa.Value) bool) bool {
	seen := map[ssa.Value]bool{}
	var walk func(ssa.Value, int) bool
	walk = func(x ssa.Value, d int) bool {
		if x == nil || seen[x] || d > 12 {
			return false
		}
		seen[x] = true
		if p(x) {
			return true
		}
		if a, ok := x.(*ssa.Alloc); ok {
			for _, r := range *a.Referrers() {
				switch y := r.(type) {
				case *ssa.Store:
					if y.Addr == a && walk(y.Val, d+1) {
						return true
					}
				case *ssa.IndexAddr:
					for _, rr := range *y.Referrers() {
						if st, ok := rr.(*ssa.Store); ok && st.Addr == y && walk(st.Val, d+1) {
							return true
						}
					}
				case *ssa.FieldAddr:
					for _, rr := range *y.Referrers() {
						if st, ok := rr.(*ssa.Store); ok && st.Addr == y && walk(st.Val, d+1) {
							return true
						}
					}
				}
			}
		}
		if in, ok := x.(ssa.Instruction); ok {
			for _, op := range in.Operands(nil) {
				if *op != nil && walk(*op, d+1) {
					return true
				}
			}
		}
		return false
	}
	return walk(v, 0)
}

func c03Recovery(c *Ctx) {
	r := "C03.6/store-recovery"
	if f := c.mustFn(r, storePkg+"OpenWith"); f != nil {
		// every tx re-read at open is integrity checked
		rf := sites(f, callTo("embedded/store.(*Tx).readFrom"))
		if len(rf) < 2 {
			c.undecided(r, fnName(f)+":readFrom:floor", fmt.Sprintf("expected 2 readFrom sites, found %d", len(rf)))
		}
		for i, in := range rf {
			args := callOf(in).Args
			c.check(len(args) == 3 && desc(args[2]) == "const:false", r, fmt.Sprintf("%s:readFrom#%d:integrity-checked", fnName(f), i), c.pos(in.Pos()),
				"skipIntegrityCheck=false", "transaction re-read during recovery skips the integrity check")
		}
		// last committed tx: Alh compared with the commit-log entry
		found := false
		allInstrs(f, false, func(in ssa.Instruction) {
			ifi, ok := in.(*ssa.If)
			if !ok {
				return
			}
			a, _ := normCond(ifi.Cond)
			bo, isBin := ifi.Cond.(*ssa.BinOp)
			if isBin && strings.Contains(a, "==") && ((desc(bo.X) == "local:committedAlh" && strings.HasPrefix(desc(bo.Y), "call:embedded/store.(*TxHeader).Alh")) ||
				(desc(bo.Y) == "local:committedAlh" && strings.HasPrefix(desc(bo.X), "call:embedded/store.(*TxHeader).Alh"))) {
				found = true
				// the mismatch edge must fail
				_, pol := normCond(ifi.Cond)
				succ := 0 // cond true
				if pol {  // cond == (alh == x): mismatch is the false edge
					succ = 1
				}
				q := &pathQ{fn: f, fromEdges: []cfgEdge{{ifi.Block(), succ}}, to: func(x ssa.Instruction) bool {
					rr, ok := x.(*ssa.Return)
					return ok && retKind(rr) != "fail" && !returnsNilFirst(rr)
				}}
				c.check(q.bypass() == nil, r, fnName(f)+":last-tx-alh-mismatch-fails", c.pos(ifi.Pos()),
					"Alh mismatch of the last committed tx aborts the open", "Alh mismatch of the last committed tx does not abort the open")
			}
		})
		if !found {
			c.fail(r, fnName(f)+":last-tx-alh-compared", c.pos(f.Pos()), "no comparison of the last committed transaction's Alh with the commit-log entry")
		}
		// precommit reload: put only for the next id chained to the previous Alh
		put := callTo("embedded/store.(*precommitBuffer).put")
		for _, g := range []struct{ name, sub string }{{"id", "header.ID"}, {"prevAlh", "header.PrevAlh"}} {
			sub := g.sub
			q := &pathQ{fn: f, fromEntry: true, to: put,
				barrier: whenCond(true, func(a string) bool { return strings.Contains(a, sub) && strings.Contains(a, " == ") })}
			if len(sites(f, put)) == 0 {
				c.undecided(r, fnName(f)+":cLogBuf.put", "no cLogBuf.put site in OpenWith")
			} else if w := q.bypass(); w != nil {
				c.fail(r, fnName(f)+":precommit-reload-guard:"+g.name, c.pos(w[len(w)-1].Pos()), "a pre-committed tx is re-queued for commit without the "+g.name+" chain check: "+c.witnessStr(w))
			} else {
				c.ok(r, fnName(f)+":precommit-reload-guard:"+g.name, c.pos(f.Pos()), "cLogBuf.put is dominated by the "+g.name+" equality edge")
			}
		}
		// hash tree reset to the recovered frontier and re-linked before anything waits on it
		c.ruleErrChecked(r, f, "aht.ResetSize", callTo("embedded/ahtree.(*AHtree).ResetSize"), 1)
		c.ruleErrChecked(r, f, "syncBinaryLinking", callTo(storeT+"syncBinaryLinking"), 1)
		c.ruleErrChecked(r, f, "cLog.SetOffset", callTo(appSetOff+"@param:cLog"), 1)
		// trimming the commit log only removes a partial trailing entry: argument is cLogSize - cLogSize%entry
		for _, in := range sites(f, callTo(appSetOff+"@param:cLog")) {
			a := desc(callOf(in).Args[0])
			c.check(strings.Contains(a, "%") && strings.Contains(a, "Size"), r, fnName(f)+":cLog-trim-argument", c.pos(in.Pos()),
				"commit log is rewound by the remainder only: "+a, "commit-log rewind at open is not `size - size % entrySize`: "+a)
		}
	}

	// the hash tree is rebuilt at open up to the *precommitted* frontier: the reloaded precommitted transactions get
	// committed by the syncer, and a tree that stops at the committed frontier has no leaves for them
	if f := c.mustFn(r, storeT+"syncBinaryLinking"); f != nil {
		rd := sites(f, callTo(storeT+"newTxReader"))
		c.check(len(rd) == 1 && len(sites(f, callTo(storeT+"NewTxReader"))) == 0, r, fnName(f)+":reader", c.pos(f.Pos()), "one internal tx reader", "syncBinaryLinking must read through newTxReader (the exported NewTxReader never returns precommitted transactions)")
		for _, in := range rd {
			a := callOf(in).Args
			c.check(len(a) >= 4 && desc(a[3]) == "const:true", r, fnName(f)+":rebuild-includes-precommitted", c.pos(in.Pos()), "allowPrecommitted=true", "the hash-tree rebuild reads with allowPrecommitted="+desc(a[3])+": reloaded precommitted transactions get no leaf, later commits fail and their proofs do not exist")
			c.check(len(a) >= 2 && strings.Contains(desc(a[1]), ").Size[") && strings.Contains(desc(a[1]), "+ const:1"), r, fnName(f)+":rebuild-starts-after-tree", c.pos(in.Pos()), "starts at aht.Size()+1", "the rebuild starts at "+desc(a[1]))
		}
	}
	r = "C03.6/index-recovery"
	// the synced/async marker shares the first byte of the commit entry with the data: it is decoded before the byte
	// is cleaned for the checksum, otherwise every entry looks synced and the recovery walk stops too early
	if f := c.mustFn(r, "embedded/tbtree.(*cLogEntry).deserialize"); f != nil {
		clear := func(in ssa.Instruction) bool {
			st, ok := in.(*ssa.Store)
			if !ok {
				return false
			}
			ia, ok := st.Addr.(*ssa.IndexAddr)
			return ok && desc(ia.Index) == "const:0" && desc(ia.X) == "param:b"
		}
		c.neverAfter(r, f, "decoding of the synced marker", storeTo("cLogEntry.synced"), "clearing of the marker bit", clear)
	}
	if f := c.mustFn(r, "embedded/tbtree.OpenWith"); f != nil {
		// the accepted commit entry: store of a non-constant committedLogSize guarded by a condition that
		// depends on isValid and on both checksum comparisons
		n := 0
		for _, in := range sites(f, storeTo("TBtree.committedLogSize")) {
			st := in.(*ssa.Store)
			if _, isConst := st.Val.(*ssa.Const); isConst {
				continue
			}
			n++
			var guard ssa.Value
			// find an If whose false edge dominates and whose condition depends on isValid
			for b := in.Block(); b != nil; b = b.Idom() {
				id := b.Idom()
				if id == nil || len(id.Instrs) == 0 {
					continue
				}
				if ifi, ok := id.Instrs[len(id.Instrs)-1].(*ssa.If); ok {
					cv := ifi.Cond
					hit := false
					for _, leaf := range boolLeaves(cv) {
						if cl, ok := leaf.(*ssa.Call); ok && calleeName(&cl.Call) == "embedded/tbtree.(*cLogEntry).isValid" {
							hit = true
						}
					}
					if hit {
						guard = cv
						break
					}
				}
			}
			if guard == nil {
				c.fail(r, fnName(f)+":commit-entry-accepted-only-if-valid", c.pos(in.Pos()), "the commit entry is accepted without a dominating validity condition")
				continue
			}
			for _, fld := range []string{"nLogChecksum", "hLogChecksum"} {
				fld := fld
				dep := false
				for _, leaf := range boolLeaves(guard) {
					bo, ok := leaf.(*ssa.BinOp)
					if !ok || (bo.Op != token.NEQ && bo.Op != token.EQL) {
						continue
					}
					d := desc(bo)
					if strings.Contains(d, "."+fld) && strings.Contains(d, "appendable.Checksum") {
						dep = true
					}
				}
				c.check(dep, r, fnName(f)+":commit-entry-guard-covers:"+fld, c.pos(in.Pos()),
					"acceptance condition depends on the "+fld+" comparison", "acceptance of an index commit entry no longer depends on the "+fld+" comparison")
			}
		}
		if n == 0 {
			c.undecided(r, fnName(f)+":committedLogSize", "no non-constant store to committedLogSize")
		}
		c.ruleErrChecked(r, f, "cLog.SetOffset", callTo(appSetOff), 2)
		// the validation walk goes back to the latest *synced* snapshot: un-fsynced flushes that a newer snapshot
		// still references must be validated too, so the walk may end only at a synced entry, at the beginning of
		// the log or at EOF
		des := sites(f, callTo("embedded/tbtree.(*cLogEntry).deserialize"))
		load := callTo("embedded/tbtree.(*TBtree).readNodeAt")
		if len(des) == 0 || len(sites(f, load)) == 0 {
			c.undecided(r, fnName(f)+":walk", "validation loop (deserialize ... readNodeAt) not found")
		} else {
			stop := anyEdge(
				whenCond(true, func(a string) bool { return hasFieldSuffix(a, "synced") }),
				whenCond(false, func(a string) bool { return strings.HasPrefix(a, "(const:0 < ") }),
				whenCond(true, func(a string) bool { return strings.Contains(a, "errors.Is") && strings.Contains(a, "EOF") }))
			q := &pathQ{fn: f, from: des, to: load, barrier: stop}
			w := q.bypass()
			c.check(w == nil, r, fnName(f)+":walk-ends-at-synced-entry", c.pos(des[0].Pos()), "the snapshot validation walk is left only at a synced entry, at the start of the log or at EOF",
				"the validation walk can stop at an entry that was never fsynced: older un-fsynced flushes it references are not validated: "+c.witnessStr(w))
		}
	}
}

func returnsNilFirst(r *ssa.Return) bool {
	if len(r.Results) == 0 {
		return false
	}
	c, ok := r.Results[0].(*ssa.Const)
	return ok && c.IsNil()
}

// storageErrorsNotDropped: in the given packages, the error result of every call of a storage
// mutator (Appendable / AHtree / TBtree / watchers) is used; explicit `_ =` and bare expression
// statements are violations unless the call is a deferred cleanup on an error path.
var mustCheckCallees = []string{
	appAppend, appFlush, appSync, appSetOff, appSwitchRO,
	"embedded/ahtree.(*AHtree).Append", "embedded/ahtree.(*AHtree).ResetSize", "embedded/ahtree.(*AHtree).Sync",
	"embedded/tbtree.(*TBtree).BulkInsert", "embedded/tbtree.(*TBtree).IncreaseTs", "embedded/tbtree.(*TBtree).FlushWith", "embedded/tbtree.(*TBtree).Sync",
	"embedded/tbtree.(*TBtree).flushTree", "embedded/tbtree.(*TBtree).bulkInsert",
	storeT + "sync", storeT + "mayCommit", storeT + "performPrecommit",
	aofT + "flush", aofT + "sync", aofT + "seekIfRequired", aofT + "write",
	"embedded/store.(*precommitBuffer).put", "embedded/store.(*precommitBuffer).advanceReader", "embedded/store.(*precommitBuffer).recedeWriter",
}

func (c *Ctx) storageErrorsNotDropped(rule string, pkgs []string) {
	inScope := func(fn *ssa.Function) bool {
		p := topFn(fn).Pkg
		if p == nil {
			return false
		}
		for _, s := range pkgs {
			if p.Pkg.Path() == modPrefix+s {
				return true
			}
		}
		return false
	}
	n := 0
	perFn := map[string]int{}
	for _, fn := range c.allFns {
		if !inScope(fn) {
			continue
		}
		for _, b := range fn.Blocks {
			for _, in := range b.Instrs {
				cc := callOf(in)
				if cc == nil || !matchCall(cc, mustCheckCallees) {
					continue
				}
				if _, isGo := in.(*ssa.Go); isGo {
					continue
				}
				n++
				name := calleeName(cc)
				if r := recvOf(cc); r != nil {
					d := desc(r)
					if i := strings.LastIndex(d, "."); i >= 0 {
						name += "@" + d[i+1:]
					}
				}
				key := fmt.Sprintf("%s:%s", fnName(fn), short(name))
				perFn[key]++
				construct := fmt.Sprintf("%s#%d", key, perFn[key])
				okk, detail := errUsed(in)
				if okk {
					c.okTrivial(rule, construct, c.pos(in.Pos()), detail)
				} else {
					c.fail(rule, construct, c.pos(in.Pos()), detail)
				}
			}
		}
	}
	c.count("storage_mutator_call_sites", n)
	if n < 60 {
		c.undecided(rule, "floor", fmt.Sprintf("expected >= 60 storage mutator call sites, found %d", n))
	}
}

// errUsed: weaker than errHandled — the error value must have at least one real use.
func errUsed(in ssa.Instruction) (bool, string) {
	call, ok := in.(*ssa.Call)
	if !ok {
		if _, isDefer := in.(*ssa.Defer); isDefer {
			return true, "deferred call (cleanup)"
		}
		return true, "not a value call"
	}
	sig := call.Call.Signature()
	if sig.Results().Len() == 0 || !isErrorType(sig.Results().At(sig.Results().Len()-1).Type()) {
		return true, "no error result"
	}
	evs := errResults(call)
	if len(evs) == 0 {
		return false, "error result of a storage mutator is discarded"
	}
	for _, ev := range evs {
		used := false
		for _, r := range *ev.Referrers() {
			if _, dbg := r.(*ssa.DebugRef); !dbg {
				used = true
			}
		}
		if !used {
			return false, "error result of a storage mutator is never read"
		}
	}
	return true, "error result is read"
}
