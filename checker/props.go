package main

func init() {
	register("C03", &propDef{
		patterns: []string{"./embedded/store", "./embedded/ahtree", "./embedded/tbtree", "./embedded/appendable/..."},
		run:      c03,
		explanation: "Decides the write-ordering, acknowledgement and error-discipline clauses that every crash argument for immudb's commit protocol rests on (value/tx log flush+fsync before commit-log append+fsync before ack; hash-tree and index commit entries after their payload is flushed/fsynced; recovery guards; no dropped storage error). It does NOT decide which bytes survive a crash or that recovery as a whole is correct.",
		assumptions: []string{"appendable implementations honour Flush/Sync", "frozen rule tables name the durability points correctly"},
	})
}
