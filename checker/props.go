package main

func init() {
	register("C03", &propDef{
		patterns:    []string{"./embedded/store", "./embedded/ahtree", "./embedded/tbtree", "./embedded/appendable/..."},
		run:         c03,
		explanation: "Decides the write-ordering, acknowledgement and error-discipline clauses that every crash argument for immudb's commit protocol rests on (value/tx log flush+fsync before commit-log append+fsync before ack; hash-tree and index commit entries after their payload is flushed/fsynced; recovery guards; no dropped storage error). It does NOT decide which bytes survive a crash or that recovery as a whole is correct.",
		assumptions: []string{"appendable implementations honour Flush/Sync", "frozen rule tables name the durability points correctly"},
	})
	register("C02", &propDef{
		patterns:    []string{"./embedded/store", "./pkg/database"},
		run:         c02,
		explanation: "Decides the structural clauses that keep committed history immutable: single writer sites and write positions of the tx log and commit log, no DiscardUpto on history logs, lockset of the commit-state fields, the discard guard, the chain check of TxReader, and that one Alh value feeds the tx record, the hash tree, the commit buffer and the in-memory frontier. It does NOT decide id density or byte equality over interleavings.",
		assumptions: []string{"all mutation of ImmuStore commit state goes through field stores visible to go/ssa (no unsafe, no reflection)"},
	})
	register("C17", &propDef{
		patterns:    []string{"./embedded/appendable/..."},
		run:         c17,
		explanation: "Decides the structural clauses behind the byte-log behaviour of the single-file and multi-file appendables: lock pairing and lockset of their mutable state, flush-before-fsync/close/read-only ordering, seek-before-write and the file-position typestate (seekRequired), offset captured before the write, chunk rotation order and its guard, SetOffset rewind discipline and the chunk-discard guard. It does NOT decide refinement of the byte-array model for arbitrary operation sequences.",
		assumptions: []string{"os.File semantics", "lower-case helpers are only entered with the mutex held (checked at every call site)"},
	})
	register("C14", &propDef{
		patterns:    []string{"./embedded/store", "./embedded/appendable/...", "./embedded/tbtree", "./pkg/database", "./pkg/truncator"},
		run:         c14,
		explanation: "Decides the structural clauses behind safe value-log truncation: lock pairing in the store (a leaked value-buffer mutex in ExportTx blocks every later export), value logs always released, DiscardUpto only on fetched value logs / the index's own logs and never with embedded values, chunk deletion strictly below the offset's chunk, catalog copy before truncation through a single entry point, and truncated values mapping to io.EOF / digest export. It does NOT decide the tombstone arithmetic of TruncateUptoTx (value-dependent).",
		assumptions: []string{"decodeOffset/encodeOffset agree (checked under C15)"},
	})
	register("C10", &propDef{
		patterns:    []string{"./embedded/tbtree"},
		run:         c10,
		explanation: "Decides the structural clauses behind snapshot immutability of the timed B-tree: copy-on-write discipline (every write to a logical node field is on a freshly allocated node, on the receiver of an in-place mutator whose call sites are all on private nodes, under a mutated()==true guard, or under commitLog in writeTo), lock pairing and lockset of tree and snapshot state, snapshots pinned to flushed roots and registered before return, discard bounded by open snapshots, and the flush ordering shared with C03. It does NOT decide equivalence with the abstract multi-version map.",
		assumptions: []string{"node objects are only reachable through the fields listed in the COW table"},
	})
	register("C05", &propDef{
		patterns:    []string{"./embedded/store", "./embedded/sql"},
		run:         c05,
		explanation: "Decides the completeness of the optimistic-validation wiring: every snapshot read of a read-write transaction (found and not-found answers) records into the MVCC read-set; every record kind and every record field is validated at commit and counted by isEmpty(); validation runs inside the store mutex, after waiting for the index up to the precommit frontier read inside the critical section, through the live (sync) snapshot, and precedes performPrecommit unless there is nothing to validate; snapshots include the mandatory-MVCC transaction. It does NOT decide serializability over interleavings nor that the recorded information is sufficient.",
		assumptions: []string{"default (safe) MVCC mode"},
	})
	register("C18", &propDef{
		patterns:    []string{"./pkg/auth", "./pkg/server/...", "./pkg/api/...", "./pkg/database", "./embedded/sql"},
		run:         c18,
		explanation: "Decides the table-and-gate part of the access-control matrix completely: the permission tables are constant and mutually consistent; every RPC handler that touches a database passes getDBFromCtx with a constant method name that has a row; a handler that can reach a commit sink (effect class computed from the call graph of pkg/database, not from names) is gated by a row without read-only permission; administrative rows are admin/sysadmin-only; the system-database allow-list contains no write-class method; inside the gate every successful return is dominated by the system-database guard and by IsSysAdmin/HasPermissionForMethod; user changes invalidate sessions after the new record is saved; SQL statements that can write report readOnly()==false. It does NOT decide interceptor configuration, token expiry arithmetic or the pgsql front-end's own authentication.",
		assumptions: []string{"gRPC interceptors are installed as configured in pkg/server (not analysed)"},
	})
	register("C07", &propDef{
		patterns:    []string{"./pkg/database", "./embedded/store", "./pkg/replication", "./pkg/server", "./pkg/client"},
		run:         c07,
		explanation: "Decides the structural clauses behind faithful replication: every exported database method from which a commit sink is reachable (call-graph effect class) is behind an isReplica() gate with the right polarity, replica-only operations behind the negated gate; every field of the replicated tx header is compared with or copied into the locally built header during precommit (Alh is a function of exactly these fields) and the Eh comparison can only be skipped through skipIntegrityCheck; the commit allowance is written only by AllowCommitUpto/SetExternalCommitAllowance, raised by the primary only with enough acknowledgements and accepted by a replica only after an Alh comparison; error texts and stream-metadata keys matched by the replicator are produced by the peer. It does NOT decide equality of histories over delivery schedules.",
		assumptions: []string{"the replicator is the only client of ExportTx/ReplicateTx"},
	})
	register("C06", &propDef{
		patterns:    []string{"./pkg/database", "./embedded/store"},
		run:         c06,
		explanation: "Decides the waiting discipline linearizability of the KV API rests on: every direct index read in pkg/database is preceded on all paths by an indexing wait (WaitForIndexingUpto / snapshotSince / SnapshotMustIncludeTxID) whose target derives from the committed frontier or the request's SinceTx, unless across the request's NoWait or AtTx edges; writes commit asynchronously only under NoWait, otherwise wait for commit and then for indexing of their own tx; KV preconditions and MVCC validation run under the store mutex after the index has caught up. It does NOT decide linearizability of histories.",
		assumptions: []string{"default waiting semantics"},
	})
	register("C01", &propDef{
		patterns:    []string{"./embedded/store", "./embedded/ahtree", "./embedded/htree", "./pkg/api/schema", "./pkg/client/...", "./pkg/verification", "./pkg/server"},
		run:         c01,
		explanation: "Decides structural necessary conditions of proof SOUNDNESS: every TxHeader / entry field flows into the hash that authenticates it; in the verifiers every parameter is used, every accepting path crosses each required comparison and each sub-verifier's verified edge (with the documented guards as the only alternatives), sub-verifiers are applied to header-derived arguments, VerifyLinearAdvanceProof accepts unconditionally only for adjacent txs and extends the chain only after a verified inclusion; on the client, the trusted state advances only after verifyDualProof (anchored in the trusted hash), signature check and a content-binding site, and the stored hash is the proven one; proto conversions carry every field. It does NOT decide completeness of proof generation nor the arithmetic of the Merkle verifiers.",
		assumptions: []string{"sha256 collision resistance", "ahtree verifiers are correct for the positions they are given (C08 decides their guards)"},
	})
	register("C09", &propDef{
		patterns:    []string{"./embedded/store", "./pkg/database", "./embedded/appendable/...", "./embedded/tbtree"},
		run:         c09,
		explanation: "Decides the structural clauses behind corruption detection: every reader of a tx record ends in buildAndValidateHtree, which (unless the skip flag is set) rebuilds the entries tree over the digests of all entries read, recomputes Eh and compares Alh with the stored one; every value read compares length and sha256 with the entry's hVal unless the flag is set; the flag is constant true only at a frozen list of call sites and constant false on every verifiable path; sequential scans check the chain; open-time checks re-validate the last tx and the precommitted suffix. It does NOT decide that every bit flip changes a hash, nor absence of panics (C16).",
		assumptions: []string{"sha256 second-preimage resistance"},
	})
	register("C04", &propDef{
		patterns:    []string{"./embedded/store", "./embedded/tbtree", "./pkg/database"},
		run:         c04,
		explanation: "Decides the structural clauses that keep the index equal to the committed log: nothing stored in the indexing bulk aliases the pooled transaction buffer; the tombstone of a previous mapped key is written with a writable metadata copy and its error checked; index entries carry the id of the tx they were read from, are built from per-transaction state only, and waiters are released by the tree's own logical time; non-indexable entries and foreign prefixes are skipped; an index ahead of the log is rejected; on the read side deleted/expired filters are applied before offsets and results; plus the TS-file/flush ordering shared with C03. It does NOT decide B-tree content (C10) nor key-mapper functions.",
		assumptions: []string{"entry mappers return freshly allocated keys"},
	})
	register("C12", &propDef{
		patterns:    []string{"./embedded/sql"},
		run:         c12,
		explanation: "Decides the structural clauses behind SQL integrity constraints: in every caller of the row sink doUpsert, each update of the row image is followed on all paths by checkConstraints before the sink; every computed assignment consults the column's NOT NULL flag; update-style assignments cannot touch primary key columns (UPDATE and ON CONFLICT agree); the PK probe and unique-index probes go through the transaction's recording read layer before the write; a failed statement cancels the transaction; a unique index is created only after an emptiness probe. It does NOT decide constraint satisfaction over arbitrary histories and interleavings (that rests on C05).",
		assumptions: []string{"type/length validation is performed by EncodeValue inside the sink"},
	})
	register("C13", &propDef{
		patterns:    []string{"./embedded/sql", "./embedded/document", "./pkg/server/sessions/...", "./pkg/database", "./pkg/pgsql/server"},
		run:         c13,
		explanation: "Decides the structural clauses behind SQL transaction atomicity: the store transaction of a SQL transaction is committed at exactly one site (SQLTx.Commit), closed transactions are refused, cancel paths reach the store's Cancel (ROLLBACK statement, session rollback, every function that drops sessions), all SQL writes go through the SQLTx wrappers of one store transaction, and ROLLBACK TO SAVEPOINT must reach the store write-set (it does not today: known finding). On the PostgreSQL wire front-end it decides one clause: after a statement failed inside a transaction block nothing runs on its own until the block ends. It does NOT decide isolation between concurrent sessions (C05).",
		assumptions: []string{},
	})
	register("C08", &propDef{
		patterns:    []string{"./embedded/ahtree", "./embedded/htree", "./embedded/store", "./embedded/appendable/..."},
		run:         c08,
		explanation: "Decides structural clauses of the Merkle constructions: domain-separation constants and their use at every tree hash site (prefix byte, buffer size, both children copied); verifiers guard evaluation with i<=j and i!=0, compare the evaluated root(s) with the claimed one(s), every verifier parameter influences the verdict beyond a zero check, the entry-tree verifier ties the number of terms to (Leaf, Width); ResetSize syncs and invalidates both caches before shrinking and never grows; Append rewinds both logs to their committed sizes before writing and advances sizes only when the batch sync did not fail. It does NOT decide equality of roots/proofs with the reference construction (digest-log arithmetic).",
		assumptions: []string{"sha256"},
	})
	register("C16", &propDef{
		patterns:    []string{"./embedded/store", "./embedded/appendable/...", "./embedded/tbtree", "./embedded/sql", "./pkg/api/schema", "./pkg/pgsql/server/...", "./pkg/stream", "./pkg/database", "./embedded/ahtree", "./pkg/client/...", "./pkg/verification"},
		run:         c16,
		explanation: "Decides, for a frozen list of decoders of untrusted or possibly corrupted bytes, that every slice expression, index, fixed-size big-endian read and length-driven allocation is within bounds on every path: each obligation (a linear inequality over SSA values and slice lengths) is discharged from the branch conditions that dominate the access (plus stated callee contracts, themselves checked on every implementation, and an induction step over loop cursors); explicit panics in decoders are violations. It does NOT decide termination/time bounds nor the generated SQL parser's recursion depth.",
		assumptions: []string{"integer overflow of cursor arithmetic is out of scope (lengths are bounded by buffer sizes)"},
	})
	register("C15", &propDef{
		patterns:    []string{"./embedded/store", "./embedded/sql", "./embedded/tbtree", "./embedded/ahtree", "./embedded/appendable", "./embedded/document", "./pkg/api/schema", "./pkg/client", "./pkg/pgsql/server/..."},
		run:         c15,
		explanation: "Decides structural agreement clauses of the codecs: sibling encoders/decoders perform the same sequence of fixed-width field operations; the SQL key and value codecs handle the same set of types on both sides (indexable types are storable; the only storable type without a key encoding is documented); length limits are compared with the same operator on the writing and the reading side; Timestamp values are normalised to microseconds wherever they enter the engine (the key codec encodes nanoseconds, the value codec microseconds); metadata proto conversions carry every attribute. It does NOT decide round-trip equality or order preservation for all values.",
		assumptions: []string{"codecs are written in the straight-line cursor style (source order = wire order)"},
	})
}

// props0: the quick-tier package patterns of a registered property (debug registrations reuse them)
func props0(id string) []string {
	return []string{"./embedded/store", "./embedded/appendable/...", "./embedded/tbtree", "./embedded/ahtree", "./embedded/sql", "./pkg/api/schema", "./pkg/pgsql/server/...", "./pkg/stream", "./pkg/database", "./pkg/server", "./pkg/replication"}
}
