package main

import (
	"go/constant"
	"fmt"
	"go/token"
	"go/types"
	"strings"

	"golang.org/x/tools/go/ssa"
)

const idxT = "embedded/store.(*indexer)."

// mayAliasTxBuffer: v may point into the pooled transaction (idx.tx) that the next readTx of the same
// bulk overwrites: the entry key accessor, or the result of mapKey (which returns its key argument
// unchanged when the mapper is nil) applied to such a value.
func mayAliasTxBuffer(v ssa.Value, depth int) bool {
	if depth > 6 || v == nil {
		return false
	}
	switch x := v.(type) {
	case *ssa.Call:
		n := calleeName(&x.Call)
		switch n {
		case "embedded/store.(*TxEntry).key":
			return true
		case idxT + "mapKey":
			return mayAliasTxBuffer(x.Call.Args[1], depth+1)
		case "builtin.append":
			// append([]byte(nil), x...) copies; append(x, ...) may alias x
			if len(x.Call.Args) > 0 {
				if k, ok := x.Call.Args[0].(*ssa.Const); ok && k.IsNil() {
					return false
				}
				return mayAliasTxBuffer(x.Call.Args[0], depth+1)
			}
		}
		return false
	case *ssa.Extract:
		return mayAliasTxBuffer(x.Tuple, depth+1)
	case *ssa.Slice:
		return mayAliasTxBuffer(x.X, depth+1)
	case *ssa.Phi:
		for _, e := range x.Edges {
			if mayAliasTxBuffer(e, depth+1) {
				return true
			}
		}
	case *ssa.UnOp:
		// load of a field of a TxEntry: k
		if f, _ := fieldOf(x); f == "TxEntry.k" {
			return true
		}
	}
	return false
}

func c04(c *Ctx) {
	c04BulkBufferIndexInRange(c, "C04.11/bulk-buffer-index-in-range")
	c04ScansFilterDeadEntries(c, "C04.10/scans-filter-dead-entries")
	f := c.mustFn("C04/indexSince", idxT+"indexSince")
	if f != nil {
		// ---- C04.1 no retained alias of the pooled tx buffer --------------------------------------------------
		r := "C04.1/retained-alias"
		n := 0
		for _, in := range sites(f, func(x ssa.Instruction) bool {
			st, ok := x.(*ssa.Store)
			if !ok {
				return false
			}
			fl, _ := fieldOf(st.Addr)
			return fl == "KVT.K" || fl == "KVT.V"
		}) {
			st := in.(*ssa.Store)
			fl, _ := fieldOf(st.Addr)
			n++
			construct := fmt.Sprintf("%s:_kvs.%s#%d", fnName(f), lastSeg(fl), n)
			if !mayAliasTxBuffer(st.Val, 0) {
				c.ok(r, construct, c.pos(in.Pos()), "value stored into the bulk does not alias the pooled tx: "+desc(st.Val))
				continue
			}
			// documented exception: the tombstone key is stored only when it differs from targetKey; both come from
			// mapKey(sourceKey, .., TargetEntryMapper), so they alias the buffer together or not at all
			q := &pathQ{fn: f, fromEntry: true, to: func(x ssa.Instruction) bool { return x == in },
				barrier: whenCond(false, func(a string) bool { return strings.HasPrefix(a, "call:bytes.Equal(") && strings.Contains(a, "mapKey") })}
			if q.bypass() == nil && strings.Contains(desc(st.Val), "mapKey") {
				c.ok(r, construct, c.pos(in.Pos()), "mapped key stored only on the edge where it differs from the (equally mapped) target key")
				continue
			}
			c.fail(r, construct, c.pos(in.Pos()), "a slice that may alias the pooled transaction buffer (re-filled by the next readTx of the same bulk) is retained in the bulk without a copy: "+desc(st.Val))
		}
		if n < 4 {
			c.undecided(r, fnName(f)+":floor", fmt.Sprintf("expected >=4 stores into _kvs[..].K/V, found %d", n))
		}
		// mapKey returns its argument only when no mapper is configured
		if g := c.mustFn(r, idxT+"mapKey"); g != nil {
			allInstrs(g, false, func(in ssa.Instruction) {
				if rt, ok := in.(*ssa.Return); ok && desc(unspill(rt.Results[0], rt)) == "param:key" {
					q := &pathQ{fn: g, fromEntry: true, to: func(x ssa.Instruction) bool { return x == in }, barrier: whenCond(true, func(a string) bool { return a == "(nil == param:mapper)" || a == "(param:mapper == nil)" })}
					c.check(q.bypass() == nil, r, fnName(g)+":identity-only-without-mapper", c.pos(in.Pos()), "returns the key itself only when mapper == nil", "mapKey returns the input key on a path with a mapper")
				}
			})
			for _, in := range sites(g, callTo(storeT+"readValueAt")) {
				c.check(desc(callOf(in).Args[4]) == "const:false", "C04.1/mapper-input-checked", fnName(g)+":value-digest-checked", c.pos(in.Pos()), "the value handed to the mapper is digest-checked", "mapKey feeds the mapper an unchecked value")
			}
		}

		// ---- C04.2 tombstone of the previous mapped key ------------------------------------------------------------
		r = "C04.2/tombstone"
		c.ruleErrChecked(r, f, "kvmd.AsDeleted", callTo("embedded/store.(*KVMetadata).AsDeleted"), 1)
		for _, in := range sites(f, callTo("embedded/store.(*KVMetadata).AsDeleted")) {
			a := callOf(in).Args
			c.check(desc(a[1]) == "const:true", r, fnName(f)+":AsDeleted(true)", c.pos(in.Pos()), "marks the previous mapped key deleted", "AsDeleted is called with "+desc(a[1]))
			// receiver must be writable: derived from NewKVMetadata()
			c.check(strings.Contains(desc(a[0]), "NewKVMetadata"), r, fnName(f)+":tombstone-metadata-writable", c.pos(in.Pos()), "metadata object comes from NewKVMetadata()", "the tombstone metadata is "+desc(a[0])+", which may be read-only")
		}

		// ---- C04.3 waiters follow the tree; per-tx state ---------------------------------------------------------------
		r = "C04.3/logical-time"
		for i, in := range sites(f, storeTo("KVT.T")) {
			v := desc(in.(*ssa.Store).Val)
			c.check(strings.HasPrefix(v, "(param:txID + ") && strings.Contains(v, "phi("), r, fmt.Sprintf("%s:entry-ts#%d", fnName(f), i), c.pos(in.Pos()), "T = txID + i (the tx being read)", "index entry timestamp is "+v)
		}
		for _, in := range sites(f, callTo(storeT+"readTx")) {
			a := callOf(in).Args
			c.check(strings.HasPrefix(desc(a[1]), "(param:txID + ") && desc(a[3]) == "const:false", r, fnName(f)+":readTx(txID+i, checked)", c.pos(in.Pos()), "reads tx txID+i with integrity checks", "indexer reads tx "+desc(a[1])+" with skipIntegrityCheck="+desc(a[3]))
		}
		for _, in := range sites(f, callTo("embedded/tbtree.(*TBtree).IncreaseTs")) {
			v := desc(callOf(in).Args[1])
			c.check(strings.HasPrefix(v, "(param:txID + ") && strings.Contains(v, "- const:1"), r, fnName(f)+":IncreaseTs(txID+bulkSize-1)", c.pos(in.Pos()), "logical time moves to the last tx of the bulk", "IncreaseTs argument is "+v)
		}
		c.ruleErrChecked(r, f, "index.BulkInsert", callTo("embedded/tbtree.(*TBtree).BulkInsert"), 1)
		c.ruleErrChecked(r, f, "index.IncreaseTs", callTo("embedded/tbtree.(*TBtree).IncreaseTs"), 1)
		// the entries of a tx are computed from that tx alone: nothing but counters is carried across bulk iterations
		var header *ssa.BasicBlock
		for _, b := range f.Blocks {
			if len(b.Instrs) == 0 {
				continue
			}
			if ifi, ok := b.Instrs[len(b.Instrs)-1].(*ssa.If); ok {
				a, _ := normCond(ifi.Cond)
				if strings.Contains(a, "maxBulkSize") && strings.HasPrefix(a, "(phi(") && header == nil {
					header = b
				}
			}
		}
		if header == nil {
			c.undecided(r, fnName(f)+":bulk-loop", "bulk loop header not found")
		} else {
			carried := map[ssa.Value]bool{}
			for _, in := range header.Instrs {
				if ph, ok := in.(*ssa.Phi); ok {
					if b, ok := ph.Type().Underlying().(*types.Basic); ok && b.Info()&types.IsInteger != 0 {
						continue
					}
					carried[ph] = true
				}
			}
			for _, in := range sites(f, callTo("embedded/store.serializeIndexableEntry")) {
				for ai, a := range callOf(in).Args {
					dep := dependsOn(a, func(v ssa.Value) bool { return carried[v] })
					c.check(!dep, r, fmt.Sprintf("%s:serializeIndexableEntry-arg%d-is-per-tx", fnName(f), ai), c.pos(in.Pos()), "argument derives from the tx read in this iteration", "an index entry is built from state carried over from a previous transaction of the bulk ("+desc(a)+")")
				}
			}
		}
		// ---- C04.4 entry filters ---------------------------------------------------------------------------------------
		r = "C04.4/filters"
		nonIdx := whenCond(false, func(a string) bool { return strings.HasPrefix(a, "call:embedded/store.(*KVMetadata).NonIndexable[") })
		noMd := whenCond(true, func(a string) bool {
			return strings.Contains(a, ".md") && strings.Contains(a, "nil") && strings.Contains(a, " == ")
		})
		pfx := whenCond(true, func(a string) bool {
			return strings.HasPrefix(a, "call:embedded/store.hasPrefix(call:embedded/store.(*TxEntry).key") && strings.Contains(a, "SourcePrefix")
		})
		first := func(in ssa.Instruction) bool {
			return callTo("embedded/store.serializeIndexableEntry")(in)
		}
		q := &pathQ{fn: f, fromEntry: true, to: first, barrier: anyEdge(nonIdx, noMd)}
		c.check(q.bypass() == nil, r, fnName(f)+":non-indexable-skipped", c.pos(f.Pos()), "entries are serialised only past the NonIndexable()==false / no-metadata edge", "non-indexable entries are indexed")
		q = &pathQ{fn: f, fromEntry: true, to: first, barrier: pfx}
		c.check(q.bypass() == nil, r, fnName(f)+":source-prefix-filter", c.pos(f.Pos()), "entries are serialised only past hasPrefix(key, SourcePrefix)", "entries outside the index's source prefix are indexed")
	}
	// whoever swaps the tree of an indexer re-anchors the hub that gates reads: a reopened (compacted) index is older
	// than what the hub reports as indexed, and "indexing has caught up with n" must stay true of the tree in use
	rsw := "C04.3/index-swap-reanchors-waiters"
	nsw := 0
	for _, g := range c.allFns {
		if !fnInPkgs(g, []string{"embedded/store"}) || len(g.Blocks) == 0 {
			continue
		}
		var swaps []ssa.Instruction
		for _, in := range sites(g, storeTo("indexer.index")) {
			if !isFreshAlloc(storeBase(in)) {
				swaps = append(swaps, in)
			}
		}
		if len(swaps) == 0 {
			continue
		}
		nsw++
		recede := callTo("embedded/watchers.(*WatchersHub).RecedeTo@wHub")
		noHub := whenCond(true, func(a string) bool {
			return hasFieldSuffix(strings.TrimSuffix(strings.TrimPrefix(a, "("), " == nil)"), "wHub") || (strings.Contains(a, "wHub") && strings.Contains(a, "nil"))
		})
		notBehind := whenCond(false, func(a string) bool { return strings.Contains(a, ").Ts[") && strings.Contains(a, " < ") })
		q := &pathQ{fn: g, from: swaps, to: successReturn, via: recede, barrier: anyEdge(noHub, notBehind)}
		w := q.bypass()
		c.check(w == nil, rsw, fnName(g)+":index-replaced", c.pos(swaps[0].Pos()), "after the tree is replaced every successful return passes wHub.RecedeTo unless there is no hub or the new tree is not behind",
			"the tree of an indexer is replaced and the hub that gates reads keeps its old position: lookups are served from the older tree while indexing is reported as caught up: "+c.witnessStr(w))
		c.ruleErrChecked(rsw, g, "wHub.RecedeTo", recede, 1)
	}
	if nsw < 1 {
		c.undecided(rsw, "floor", "no function replaces indexer.index (restartIndex confirmed by hand)")
	}
	if g := c.mustFn("C04.3/logical-time", idxT+"doIndexing"); g != nil {
		for _, in := range sites(g, callTo(whDoneUpto+"@wHub")) {
			a := desc(callOf(in).Args[1])
			c.check(strings.Contains(a, "(*TBtree).Ts["), "C04.3/logical-time", fnName(g)+":waiters-released-by-tree-ts", c.pos(in.Pos()), "wHub.DoneUpto(index.Ts())", "indexing waiters are released up to "+a+" instead of the tree's own logical time")
		}
		for _, in := range sites(g, callTo(idxT+"indexSince")) {
			a := desc(callOf(in).Args[1])
			c.check(strings.Contains(a, "(*TBtree).Ts[") && strings.Contains(a, "+ const:1"), "C04.3/logical-time", fnName(g)+":resumes-after-tree-ts", c.pos(in.Pos()), "indexSince(index.Ts()+1)", "indexing resumes at "+a)
		}
		c.ruleOrder("C04.3/logical-time", g, "commitWHub.WaitFor", callTo(whWaitFor+"@commitWHub"), "indexSince", callTo(idxT+"indexSince"), nil, 1)
	}
	if g := c.mustFn("C04.4/filters", storeT+"InitIndexing"); g != nil {
		q := &pathQ{fn: g, fromEntry: true, to: func(in ssa.Instruction) bool {
			mu, ok := in.(*ssa.MapUpdate)
			return ok && hasFieldSuffix(desc(mu.Map), "indexers")
		}, barrier: whenCond(false, func(a string) bool {
			return strings.Contains(a, "LastCommittedTxID") && strings.Contains(a, ").Ts[") && strings.Contains(a, " < ")
		})}
		c.check(q.bypass() == nil, "C04.4/filters", fnName(g)+":index-ahead-rejected", c.pos(g.Pos()), "an index whose Ts exceeds the committed frontier is not registered", "an index that is ahead of the committed log is accepted")
	}
	// ---- C04.5 read side: filters, then offset ------------------------------------------------------------------------
	// ---- C04.6 sibling History implementations number revisions the same way ----------------------------------------
	// "the history of a key lists every committed version in commit order with consecutive revision numbers": the
	// revision handed to valueRefFrom for the i-th returned version is a function of the order and of the offset
	// (offset+1+i ascending, hCount-offset-i descending) in every implementation of History
	r6 := "C04.6/history-revisions-agree"
	nh := 0
	for _, name := range []string{storeT + "History", "embedded/store.(*Snapshot).History"} {
		f := c.mustFn(r6, name)
		if f == nil {
			continue
		}
		var off, desc *ssa.Parameter
		for _, p := range f.Params {
			switch p.Name() {
			case "offset":
				off = p
			case "descOrder":
				desc = p
			}
		}
		vr := sites(f, callTo(storeT+"valueRefFrom"))
		if off == nil || desc == nil || len(vr) == 0 {
			c.undecided(r6, name, "offset/descOrder parameters or the valueRefFrom call not found")
			continue
		}
		for i, in := range vr {
			nh++
			hc := callOf(in).Args[2]
			depOff := dependsOn(hc, func(v ssa.Value) bool { return v == ssa.Value(off) })
			// the order decides between two formulas: the revision is a phi one of whose inputs is selected by descOrder
			depDesc := false
			dependsOn(hc, func(v ssa.Value) bool {
				if ph, ok := v.(*ssa.Phi); ok {
					for _, pb := range ph.Block().Preds {
						for b := pb; b != nil; b = b.Idom() {
							if len(b.Instrs) == 0 {
								continue
							}
							if ifi, ok := b.Instrs[len(b.Instrs)-1].(*ssa.If); ok && ifi.Cond == ssa.Value(desc) {
								depDesc = true
							}
						}
					}
				}
				return false
			})
			c.check(depOff, r6, fmt.Sprintf("%s:revision-depends-on-offset#%d", fnName(f), i), c.pos(in.Pos()), "revision derives from the offset", "the revision given to the returned versions ("+desc2(hc)+") does not depend on the offset: with an offset every revision is shifted")
			c.check(depDesc, r6, fmt.Sprintf("%s:revision-depends-on-order#%d", fnName(f), i), c.pos(in.Pos()), "revision formula is selected by descOrder", "the revision given to the returned versions ("+desc2(hc)+") is the same in ascending and descending order")
		}
	}
	if nh < 2 {
		c.undecided(r6, "floor", "History implementations not found")
	}
	c04PrefixLookupContinues(c, "C04.4/filtered-first-match-continues")
	c04ReopenOptions(c, "C04.9/reopened-index-keeps-its-options")
	c04ScanBounds(c, "C04.7/clamped-scan-bound-is-inclusive")
	c04NodeRefMirrors(c, "C04.8/node-reference-mirrors-child")
	r := "C04.5/read-pipeline"
	for _, n := range []string{storeT + "Get", storeT + "GetWithPrefix", "embedded/store.(*Snapshot).Get", "embedded/store.(*Snapshot).GetWithPrefix", otxT + "Get", otxT + "GetWithPrefix"} {
		g := c.mustFn(r, n)
		if g == nil {
			continue
		}
		okF := false
		allInstrs(g, false, func(in ssa.Instruction) {
			cc := callOf(in)
			if cc == nil || !strings.Contains(calleeName(cc), "Filters") {
				return
			}
			fs := map[string]bool{}
			collectFuncs(cc.Args[len(cc.Args)-1], fs)
			if fs["embedded/store.IgnoreExpired"] && fs["embedded/store.IgnoreDeleted"] {
				okF = true
			}
		})
		c.check(okF, r, fnName(g)+":default-filters", c.pos(g.Pos()), "delegates with IgnoreExpired and IgnoreDeleted", fnName(g)+" no longer filters deleted and expired entries")
	}
	for _, n := range []string{storeT + "GetWithFilters", storeT + "GetWithPrefixAndFilters"} {
		if g := c.mustFn(r, n); g != nil {
			// every success return passes the filter loop; a failing filter leaves with its error
			filt := func(in ssa.Instruction) bool {
				cc := callOf(in)
				return cc != nil && cc.StaticCallee() == nil && !cc.IsInvoke() && strings.HasSuffix(short(cc.Value.Type().String()), "FilterFn")
			}
			c.check(len(sites(g, filt)) > 0, r, fnName(g)+":applies-filters", c.pos(g.Pos()), "filters are applied", fnName(g)+" does not apply the caller's filters")
			c.ruleErrChecked(r, g, "valueRefFrom", callTo(storeT+"valueRefFrom"), 1)
		}
	}
	for _, n := range []string{"embedded/store.(*storeKeyReader).Read", "embedded/store.(*storeKeyReader).ReadBetween"} {
		g := c.mustFn(r, n)
		if g == nil {
			continue
		}
		reads := sites(g, callTo("embedded/tbtree.(*Reader).Read", "embedded/tbtree.(*Reader).ReadBetween"))
		rangeFilters := func(in ssa.Instruction) bool {
			cl, ok := in.(*ssa.Call)
			if !ok {
				return false
			}
			b, ok := cl.Call.Value.(*ssa.Builtin)
			return ok && b.Name() == "len" && hasFieldSuffix(desc(cl.Call.Args[0]), "filters")
		}
		hist := whenCond(true, func(a string) bool { return hasFieldSuffix(a, "includeHistory") })
		for _, t := range []struct {
			n string
			p sitePred
		}{{"skipped++", storeTo("storeKeyReader.skipped")}, {"return entry", func(in ssa.Instruction) bool {
			rt, ok := in.(*ssa.Return)
			return ok && retKind(rt) == "success"
		}}} {
			q := &pathQ{fn: g, from: reads, to: t.p, via: rangeFilters, barrier: hist}
			construct := fnName(g) + ":filters-before:" + t.n
			if len(reads) == 0 {
				c.undecided(r, construct, "index read site not found")
				continue
			}
			if w := q.bypass(); w != nil {
				c.fail(r, construct, c.pos(w[len(w)-1].Pos()), "an index entry reaches `"+t.n+"` without having gone through the deleted/expired filters: offsets and results would count filtered entries: "+c.witnessStr(w))
			} else {
				c.ok(r, construct, c.pos(g.Pos()), "every path from the index read to `"+t.n+"` passes the filter loop (unless history is included)")
			}
		}
		// a filtered entry is neither counted nor returned
		c.ruleErrChecked(r, g, "valueRefFrom", callTo(storeT+"valueRefFrom"), 1)
	}
	// TS-file ordering shared with C03.4
	c03Index(c)
}

func collectFuncs(v ssa.Value, out map[string]bool) {
	switch x := v.(type) {
	case *ssa.Function:
		out[fnName(x)] = true
	case *ssa.Slice:
		collectFuncs(x.X, out)
	case *ssa.Alloc:
		for _, r := range *x.Referrers() {
			if ia, ok := r.(*ssa.IndexAddr); ok {
				for _, rr := range *ia.Referrers() {
					if st, ok := rr.(*ssa.Store); ok {
						collectFuncs(st.Val, out)
					}
				}
			}
		}
	case *ssa.UnOp:
		if g, ok := x.X.(*ssa.Global); ok && g.Pkg != nil {
			out[short(g.Pkg.Pkg.Path())+"."+g.Name()] = true
		}
	case *ssa.MakeClosure:
		collectFuncs(x.Fn, out)
	case *ssa.ChangeType:
		collectFuncs(x.X, out)
	}
}

func desc2(v ssa.Value) string { return desc(v) }

// c04ScanBounds: Snapshot.NewReader clamps the caller's seek and end keys to the range of keys carrying the prefix.
// The clamped bound (the prefix itself, or the greatest prefixed key) is a key that matches the prefix, so whenever a
// key bound is replaced its inclusive flag is set; when it is kept the caller's flag is kept. Decided on the phi pair
// feeding (Reader.endKey, Reader.inclusiveEnd) and (Reader.seekKey, Reader.inclusiveSeek).
func c04ScanBounds(c *Ctx, r string) {
	f := c.mustFn(r, "embedded/tbtree.(*Snapshot).NewReader")
	if f == nil {
		return
	}
	stored := func(field string) ssa.Value {
		var v ssa.Value
		for _, in := range sites(f, storeTo("Reader."+field)) {
			v = in.(*ssa.Store).Val
		}
		return v
	}
	specLoad := func(v ssa.Value, field string) bool {
		ld, ok := v.(*ssa.UnOp)
		if !ok || ld.Op != token.MUL {
			return false
		}
		fa, ok := ld.X.(*ssa.FieldAddr)
		return ok && structName(fa.X.Type()) == "ReaderSpec" && fieldName(fa.X.Type(), fa.Field) == field
	}
	n := 0
	for _, pair := range [][4]string{{"endKey", "inclusiveEnd", "EndKey", "InclusiveEnd"}, {"seekKey", "inclusiveSeek", "SeekKey", "InclusiveSeek"}} {
		k, b := stored(pair[0]), stored(pair[1])
		if k == nil || b == nil {
			c.undecided(r, fnName(f)+":"+pair[0], "stores of the reader bounds not found")
			continue
		}
		var bad []string
		var aligned func(k, b ssa.Value, depth int)
		aligned = func(k, b ssa.Value, depth int) {
			if depth > 6 {
				bad = append(bad, "nesting too deep to decide")
				return
			}
			if specLoad(k, pair[2]) {
				n++
				if !specLoad(b, pair[3]) {
					bad = append(bad, "the caller's "+pair[2]+" is kept with "+pair[1]+" = "+desc(b))
				}
				return
			}
			if kp, ok := k.(*ssa.Phi); ok {
				bp, ok := b.(*ssa.Phi)
				if !ok || bp.Block() != kp.Block() {
					bad = append(bad, pair[0]+" is chosen per path but "+pair[1]+" ("+desc(b)+") is not")
					return
				}
				for i := range kp.Edges {
					aligned(kp.Edges[i], bp.Edges[i], depth+1)
				}
				return
			}
			// a replaced bound
			n++
			if d := desc(b); d != "const:true" {
				bad = append(bad, pair[0]+" is replaced by "+desc(k)+" while "+pair[1]+" stays "+d)
			}
		}
		aligned(k, b, 0)
		c.check(len(bad) == 0, r, fnName(f)+":"+pair[0]+"/"+pair[1], c.pos(f.Pos()), "on every path a replaced "+pair[0]+" comes with "+pair[1]+"=true and a kept one with the caller's flag",
			strings.Join(bad, "; ")+": a key equal to the clamped bound carries the prefix and is dropped from the scan")
	}
	if n < 6 {
		c.undecided(r, "floor", fmt.Sprintf("%d bound choices analysed (kept/replaced x asc/desc x seek/end = 8 confirmed by hand)", n))
	}
}

// c04NodeRefMirrors: a node reference stands for a child that is not in memory; tree walks, flush decisions and the
// reclaiming of old node-log files read the child's minimum key, logical time, offset and minimum offset from the
// reference. Wherever a reference field is filled from an accessor of a node it is the accessor of that same quantity.
func c04NodeRefMirrors(c *Ctx, r string) {
	want := map[string]string{"_minKey": "minKey", "_ts": "ts", "off": "offset", "_minOff": "minOffset"}
	accessor := map[string]bool{"minKey": true, "ts": true, "offset": true, "minOffset": true}
	n := 0
	for _, fn := range c.allFns {
		if !fnInPkgs(fn, []string{"embedded/tbtree"}) || len(fn.Blocks) == 0 {
			continue
		}
		per := 0
		allInstrs(fn, false, func(in ssa.Instruction) {
			st, ok := in.(*ssa.Store)
			if !ok {
				return
			}
			fa, ok := st.Addr.(*ssa.FieldAddr)
			if !ok || structName(fa.X.Type()) != "nodeRef" {
				return
			}
			fld := fieldName(fa.X.Type(), fa.Field)
			w, tracked := want[fld]
			if !tracked {
				return
			}
			call, ok := st.Val.(*ssa.Call)
			if !ok {
				return
			}
			m := ""
			if call.Call.IsInvoke() {
				m = call.Call.Method.Name()
			} else if sc := call.Call.StaticCallee(); sc != nil && sc.Signature.Recv() != nil {
				m = sc.Name()
			}
			if !accessor[m] {
				return
			}
			n++
			per++
			c.check(m == w, r, fmt.Sprintf("%s:nodeRef.%s#%d", fnName(fn), fld, per), c.pos(st.Pos()), fld+" = child."+m+"()",
				"nodeRef."+fld+" is filled from "+m+"() of the child instead of "+w+"(): what is read through the reference is not what the child reports")
		})
	}
	if n < 4 {
		c.undecided(r, "floor", fmt.Sprintf("%d reference fields filled from node accessors found (4 in innerNode.writeTo confirmed by hand)", n))
	}
}

// c04PrefixLookupContinues: a prefix lookup returns the first live key having the prefix. The index lookup hands back
// the first key having it, live or not; when a filter (deleted, expired) rejects that entry the lookup is not over:
// from the rejecting edge of every filter call, no return is reached without a scan of the following keys
// (a call that reaches tbtree.(*Snapshot).NewReader). Answering not-found there hides live keys (and lets the SQL
// layer, which checks UNIQUE indexes with this lookup, admit duplicates).
func c04PrefixLookupContinues(c *Ctx, r string) {
	var reachesReader func(f *ssa.Function, depth int) bool
	reachesReader = func(f *ssa.Function, depth int) bool {
		if f == nil || depth > 3 {
			return false
		}
		found := false
		allInstrs(f, false, func(in ssa.Instruction) {
			cc := callOf(in)
			if cc == nil || found {
				return
			}
			if _, isDefer := in.(*ssa.Defer); isDefer {
				return
			}
			n := calleeName(cc)
			if n == "embedded/tbtree.(*Snapshot).NewReader" {
				found = true
				return
			}
			if sc := cc.StaticCallee(); sc != nil && fnInPkgs(sc, []string{"embedded/store"}) && reachesReader(sc, depth+1) {
				found = true
			}
		})
		return found
	}
	isFilterCall := func(in ssa.Instruction) bool {
		call, ok := in.(*ssa.Call)
		if !ok || call.Call.IsInvoke() || call.Call.StaticCallee() != nil {
			return false
		}
		nt, ok := call.Call.Value.Type().(*types.Named)
		return ok && nt.Obj().Name() == "FilterFn"
	}
	continues := func(in ssa.Instruction) bool {
		cc := callOf(in)
		if cc == nil {
			return false
		}
		if _, isDefer := in.(*ssa.Defer); isDefer {
			return false
		}
		if calleeName(cc) == "embedded/tbtree.(*Snapshot).NewReader" {
			return true
		}
		sc := cc.StaticCallee()
		return sc != nil && fnInPkgs(sc, []string{"embedded/store"}) && !strings.HasSuffix(sc.Name(), "syncSnapshot") && reachesReader(sc, 0)
	}
	n := 0
	for _, name := range []string{storeT + "GetWithPrefixAndFilters", "embedded/store.(*Snapshot).GetWithPrefixAndFilters"} {
		f := c.mustFn(r, name)
		if f == nil {
			continue
		}
		fc := sites(f, isFilterCall)
		if len(fc) == 0 {
			c.undecided(r, name, "no call of a FilterFn found")
			continue
		}
		for i, in := range fc {
			n++
			// the edge on which the filter rejected the entry
			in := in
			edges := errEdges(f, func(x ssa.Instruction) bool { return x == in })
			construct := fmt.Sprintf("%s:filter#%d", fnName(f), i)
			if len(edges) == 0 {
				c.undecided(r, construct, "the branch on the filter's verdict was not recognised")
				continue
			}
			// acquiring the snapshot to scan may fail: that failure is returned as it is
			scanCalls := sites(f, continues)
			via := func(x ssa.Instruction) bool {
				if continues(x) {
					return true
				}
				if cc := callOf(x); cc != nil && strings.HasSuffix(calleeName(cc), ").syncSnapshot") {
					for _, sc := range scanCalls {
						if instrDominates(x, sc) {
							return true
						}
					}
				}
				return false
			}
			q := &pathQ{fn: f, fromEdges: edges, to: isReturn, via: via}
			if w := q.bypass(); w != nil {
				c.fail(r, construct, c.pos(w[len(w)-1].Pos()), "the lookup returns as soon as a filter rejects the first key having the prefix, live keys that follow are not looked at: "+c.witnessStr(w))
			} else {
				c.ok(r, construct, c.pos(in.Pos()), "a rejected first match is followed by a scan of the next keys having the prefix")
			}
		}
	}
	if n < 2 {
		c.undecided(r, "floor", fmt.Sprintf("%d filter applications found in the prefix lookups (store and snapshot confirmed by hand)", n))
	}
}

// c04ReopenOptions: after a compaction the indexer closes its tree and opens the compacted one with the options the
// old tree reports (TBtree.GetOptions). An option that OpenWith reads but GetOptions does not report silently falls back
// to its default for the rest of the process: without the flush callback the store's memory accounting is never
// credited again and indexing stalls; without the buffered-data limit the flush cadence changes. Every Options field
// read by OpenWith is set by GetOptions, except the fields listed with a reason.
func c04ReopenOptions(c *Ctx, r string) {
	open := c.mustFn(r, "embedded/tbtree.OpenWith")
	get := c.mustFn(r, "embedded/tbtree.(*TBtree).GetOptions")
	if open == nil || get == nil {
		return
	}
	exempt := map[string]string{
		"cache": "a reopened (compacted) index starts with a private cache: the shared one still holds nodes of the replaced files under the same offsets",
		"ID":    "only used to key the shared cache, see cache",
	}
	read := map[string]bool{}
	allInstrs(open, true, func(in ssa.Instruction) {
		if fa, ok := in.(*ssa.FieldAddr); ok && structName(fa.X.Type()) == "Options" && strings.Contains(fa.X.Type().String(), "embedded/tbtree") {
			read[fieldName(fa.X.Type(), fa.Field)] = true
		}
	})
	// the fields GetOptions sets: through the With* setters it calls (the field each setter stores) or directly
	set := map[string]bool{}
	var fieldsStoredBy func(f *ssa.Function, out map[string]bool)
	fieldsStoredBy = func(f *ssa.Function, out map[string]bool) {
		allInstrs(f, false, func(in ssa.Instruction) {
			if st, ok := in.(*ssa.Store); ok {
				if fa, ok := st.Addr.(*ssa.FieldAddr); ok && structName(fa.X.Type()) == "Options" {
					out[fieldName(fa.X.Type(), fa.Field)] = true
				}
			}
		})
	}
	fieldsStoredBy(get, set)
	allInstrs(get, false, func(in ssa.Instruction) {
		if cc := callOf(in); cc != nil {
			if sc := cc.StaticCallee(); sc != nil && sc.Signature.Recv() != nil && strings.HasPrefix(sc.Name(), "With") && fnInPkgs(sc, []string{"embedded/tbtree"}) {
				fieldsStoredBy(sc, set)
			}
		}
	})
	n := 0
	for _, fld := range sortedKeys(read) {
		n++
		if reason, ok := exempt[fld]; ok {
			c.okTrivial(r, "Options."+fld, c.pos(get.Pos()), "not carried over on purpose: "+reason)
			continue
		}
		c.check(set[fld], r, "Options."+fld, c.pos(get.Pos()), "reported by GetOptions", "OpenWith reads Options."+fld+" but GetOptions does not report it: the index reopened after a compaction runs with the default instead of what the store configured")
	}
	if n < 15 {
		c.undecided(r, "floor", fmt.Sprintf("%d option fields read by OpenWith found", n))
	}
}

// c04ScansFilterDeadEntries: "prefix lookups and scans return exactly the matching LIVE keys". The key readers of the
// store hand out every entry of the index, logically deleted and expired ones included, unless the reader spec carries
// the filters. Every reader the database layer opens over the key-value or sorted-set index for a scan-like operation
// is built with both filters (sibling agreement: Scan, ZScan, Count).
func c04ScansFilterDeadEntries(c *Ctx, r string) {
	n := 0
	for _, f := range c.allFns {
		if !fnInPkgs(f, []string{"pkg/database"}) || len(f.Blocks) == 0 {
			continue
		}
		for i, in := range sites(f, func(x ssa.Instruction) bool {
			cc := callOf(x)
			return cc != nil && (strings.HasSuffix(calleeName(cc), ").NewKeyReader") || (cc.IsInvoke() && cc.Method.Name() == "NewKeyReader"))
		}) {
			args := callOf(in).Args
			spec := args[len(args)-1]
			// the spec literal: which fields are stored, and what is stored into Filters
			var alloc *ssa.Alloc
			dependsOn(spec, func(v ssa.Value) bool {
				if a, ok := v.(*ssa.Alloc); ok && structName(a.Type()) == "KeyReaderSpec" {
					alloc = a
					return true
				}
				return false
			})
			if alloc == nil {
				continue
			}
			history := false
			var filters ssa.Value
			for _, rf := range *alloc.Referrers() {
				fa, ok := rf.(*ssa.FieldAddr)
				if !ok {
					continue
				}
				name := fieldName(fa.X.Type(), fa.Field)
				for _, r2 := range *fa.Referrers() {
					if st, ok := r2.(*ssa.Store); ok && st.Addr == fa {
						switch name {
						case "Filters":
							filters = st.Val
						case "IncludeHistory":
							if k, ok := st.Val.(*ssa.Const); !ok || k.Value == nil || constant.BoolVal(k.Value) {
								history = true
							}
						}
					}
				}
			}
			if history {
				continue // history readers show every version on purpose
			}
			n++
			has := func(name string) bool {
				return filters != nil && dependsOn(filters, func(v ssa.Value) bool {
					switch x := v.(type) {
					case *ssa.Function:
						return x.Name() == name
					case *ssa.Global:
						return x.Name() == name
					}
					return false
				})
			}
			c.check(has("IgnoreDeleted") && has("IgnoreExpired"), r, fmt.Sprintf("%s:reader#%d:filters", fnName(f), i), c.pos(in.Pos()), "built with IgnoreDeleted and IgnoreExpired",
				"a key reader is opened without the IgnoreDeleted / IgnoreExpired filters: logically deleted and expired keys are read (counted, listed) as live ones")
		}
	}
	if n < 3 {
		c.undecided(r, "floor", fmt.Sprintf("%d key readers opened by pkg/database found (Scan, ZScan, Count confirmed by hand)", n))
	}
}

// c04BulkBufferIndexInRange: the indexer prepares a bulk in a pre-allocated slice of entries, one per transaction entry.
// A transaction can yield MORE index entries than it has entries (an injective mapping also writes the deletion of the key
// the entry was mapped to before), so an element is addressed only where its index was compared with the length of the
// slice first (the accessor that grows it). An out-of-range index panics in the indexing goroutine: the process dies.
func c04BulkBufferIndexInRange(c *Ctx, r string) {
	n := 0
	for _, f := range c.allFns {
		if !fnInPkgs(f, []string{"embedded/store"}) || len(f.Blocks) == 0 {
			continue
		}
		k := 0
		allInstrs(f, false, func(in ssa.Instruction) {
			ia, ok := in.(*ssa.IndexAddr)
			if !ok {
				return
			}
			ld, ok := ia.X.(*ssa.UnOp)
			if !ok || ld.Op != token.MUL {
				return
			}
			if fl, _ := fieldOf(ld.X); fl != "indexer._kvs" {
				return
			}
			if _, isConst := ia.Index.(*ssa.Const); isConst {
				return
			}
			k++
			n++
			// a comparison of the index with len(...) on an edge dominating the access
			guarded := false
			di := desc(ia.Index)
			for _, b := range f.Blocks {
				if len(b.Instrs) == 0 {
					continue
				}
				ifi, ok := b.Instrs[len(b.Instrs)-1].(*ssa.If)
				if !ok {
					continue
				}
				atom, _ := normCond(ifi.Cond)
				if !strings.Contains(atom, " < ") || !strings.Contains(atom, "len(") || !strings.Contains(atom, "_kvs") || !strings.Contains(atom, di) {
					continue
				}
				if edgeDominates(b, 0, in.Block()) || edgeDominates(b, 1, in.Block()) {
					guarded = true
				}
			}
			c.check(guarded, r, fmt.Sprintf("%s:_kvs[%s]#%d", fnName(f), "i", k), c.pos(in.Pos()), "the index was compared with the length of the bulk buffer",
				"an element of the pre-allocated bulk buffer is addressed without comparing the index with its length: a transaction yielding more index entries than it has entries (injective mapping: new key + deletion of the previous one) makes the indexing goroutine panic")
		})
	}
	if n < 1 {
		c.undecided(r, "floor", "no indexed access to the indexer's bulk buffer found")
	}
}
