package main

import (
	"fmt"
	"go/token"
	"go/types"
	"strings"

	"golang.org/x/tools/go/ssa"
)

// call sites allowed to pass skipIntegrityCheck=true: "caller -> callee"
var c09SkipAllowed = map[string]string{
	"pkg/database.(*db).ExecAll -> pkg/database.(*db).getAtTx":              "existence pre-check of a referenced key",
	"pkg/database.(*db).Get -> pkg/database.(*db).getAtRevision":            "plain (non-verifiable) read",
	"pkg/database.(*db).Get -> pkg/database.(*db).getAtTx":                  "plain (non-verifiable) read",
	"pkg/database.(*db).GetAll -> pkg/database.(*db).get":                   "plain (non-verifiable) read",
	"pkg/database.(*db).Scan -> pkg/database.(*db).getAtTx":                 "plain (non-verifiable) read",
	"pkg/database.(*db).SetReference -> pkg/database.(*db).getAtTx":         "existence pre-check of a referenced key",
	"pkg/database.(*db).TxByID -> pkg/database.(*db).serializeTx":           "plain (non-verifiable) read",
	"pkg/database.(*db).TxScan -> pkg/database.(*db).serializeTx":           "plain (non-verifiable) read",
	"pkg/database.(*db).VerifiableSQLGet -> pkg/database.(*db).sqlGetAt":    "value lookup only: the tx is re-read with integrity checks and the client verifies the entry digest against the proof",
	"pkg/database.(*db).VerifiableTxByID -> pkg/database.(*db).serializeTx": "value resolution of entries only: the tx was read with integrity checks and the client verifies each value against hVal",
	"pkg/database.(*db).ZAdd -> pkg/database.(*db).getAtTx":                 "existence pre-check of a referenced key",
	"pkg/database.(*db).ZScan -> pkg/database.(*db).getAtTx":                "plain (non-verifiable) read",
	"embedded/tools/stress_tool.main -> embedded/store.(*ImmuStore).ReadTx": "developer load generator (package main, seen by the whole-program load only): compares what it reads with the values it has just written; no user-facing read path goes through it",
}

// store readers whose result is the proven material of a verifiable response
var c09ProvenReaders = map[string]bool{storeT + "ReadTx": true, storeT + "ReadTxHeader": true, storeT + "ReadTxEntry": true, storeT + "readTx": true}

func c09(c *Ctx) {
	// a read that fails on altered data fails cleanly: no error return of the value-log accessors keeps a lock
	// (a leaked lock turns the NEXT read of any value into a hang, which is neither an error nor the original content)
	c.rulePairing("C09.5/read-path-lock-pairing", []string{"embedded/store"}, storeReturnsHolding)
	c09EntryCountBounded(c, "C09.6/entry-count-bounded")
	c09ValueBuffersBounded(c, "C09.7/value-buffers-bounded")
	c09RecordIsTheRequestedOne(c, "C09.8/record-is-the-requested-transaction")
	// ---- C09.1 must-validate ------------------------------------------------------------------------------------
	r := "C09.1/must-validate"
	bav := callTo("embedded/store.(*txDataReader).buildAndValidateHtree")
	for _, n := range []string{"embedded/store.(*Tx).readFrom", storeT + "ReadTxHeader", storeT + "ReadTxEntry"} {
		if f := c.mustFn(r, n); f != nil {
			c.ruleMustPass(r, f, nil, "buildAndValidateHtree", bav, nil, false)
			c.ruleErrChecked(r, f, "buildAndValidateHtree", bav, 1)
			c.ruleErrChecked(r, f, "readEntry", callTo("embedded/store.(*txDataReader).readEntry"), 1)
			// the reader is created with the caller's flag, not a constant
			allInstrs(f, false, func(in ssa.Instruction) {
				if st, ok := in.(*ssa.Store); ok {
					if fl, base := fieldOf(st.Addr); fl == "txDataReader.skipIntegrityCheck" && isFreshAlloc(base) {
						c.check(desc(st.Val) == "param:skipIntegrityCheck", r, fnName(f)+":flag-forwarded", c.pos(st.Pos()), "txDataReader.skipIntegrityCheck = skipIntegrityCheck", "the integrity flag of the tx reader is "+desc(st.Val)+" instead of the caller's")
					}
				}
			})
		}
	}
	// who reads tx records: every user of txDataReader.readHeader validates (readTxOffsetAt returns offsets only)
	c.ruleWhoMayCall(r, "txDataReader.readHeader", callTo("embedded/store.(*txDataReader).readHeader"),
		[]string{"embedded/store.(*Tx).readFrom", storeT + "ReadTxHeader", storeT + "ReadTxEntry", storeT + "readTxOffsetAt"}, 3)
	if f := c.mustFn(r, "embedded/store.(*txDataReader).buildAndValidateHtree"); f != nil {
		skip := whenCond(true, func(a string) bool { return hasFieldSuffix(a, "skipIntegrityCheck") })
		alhEq := whenCond(true, func(a string) bool { return strings.Contains(a, ").Alh[") && strings.Contains(a, " == ") })
		q := &pathQ{fn: f, fromEntry: true, to: func(in ssa.Instruction) bool {
			rt, ok := in.(*ssa.Return)
			return ok && retKind(rt) == "success"
		}, barrier: anyEdge(skip, alhEq)}
		if w := q.bypass(); w != nil {
			c.fail(r, fnName(f)+":alh-compared", c.pos(w[len(w)-1].Pos()), "a tx record is accepted without comparing the recomputed Alh with the stored one although integrity checks are on: "+c.witnessStr(w))
		} else {
			c.ok(r, fnName(f)+":alh-compared", c.pos(f.Pos()), "success crosses the Alh equality edge or the skip flag")
		}
		c.chain(r, f, nil,
			step{"htree.BuildWith(digests)", callTo("embedded/htree.(*HTree).BuildWith")},
			step{"h.Eh = htree.Root()", storeTo("TxHeader.Eh")},
			step{"h.Alh()", callTo("embedded/store.(*TxHeader).Alh")})
		c.ruleErrChecked(r, f, "htree.BuildWith", callTo("embedded/htree.(*HTree).BuildWith"), 1)
		for _, in := range sites(f, callTo("embedded/htree.(*HTree).BuildWith")) {
			c.check(hasFieldSuffix(desc(callOf(in).Args[1]), "digests"), r, fnName(f)+":tree-over-read-digests", c.pos(in.Pos()), "tree built over the digests of the entries read", "the entries tree is built over "+desc(callOf(in).Args[1]))
		}
		for _, st := range sites(f, storeTo("TxHeader.Eh")) {
			c.check(strings.Contains(desc(st.(*ssa.Store).Val), ").Root["), r, fnName(f)+":eh-is-recomputed-root", c.pos(st.Pos()), "Eh = recomputed root", "Eh is set from "+desc(st.(*ssa.Store).Val))
		}
	}
	if f := c.mustFn(r, "embedded/store.(*txDataReader).readEntry"); f != nil {
		skip := whenCond(true, func(a string) bool { return hasFieldSuffix(a, "skipIntegrityCheck") })
		c.ruleMustPass(r, f, nil, "append(digests, entry digest)", appendTo("txDataReader.digests"), skip, false)
	}
	if f := c.mustFn(r, "embedded/store.(*txDataReader).readHeader"); f != nil {
		// a new header resets the digest list
		c.check(len(sites(f, storeTo("txDataReader.digests"))) > 0 || len(sites(f, storeTo("txDataReader.h"))) > 0, r, fnName(f)+":resets-reader-state", c.pos(f.Pos()), "reader state is (re)initialised per record", "readHeader no longer initialises the per-record reader state")
	}
	if f := c.mustFn(r, storeT+"readValueAt"); f != nil {
		c09ValueDigest(c, r, f)
		// the value cache: entries are keyed by the full encoded offset (value-log id + position: two value logs hold
		// different values at the same position) and hold a private copy (callers pass scratch buffers they refill)
		rc := "C09.1/value-cache"
		get := callTo("embedded/cache.(*Cache).Get@vLogCache")
		put := callTo("embedded/cache.(*Cache).Put@vLogCache")
		gs, ps := sites(f, get), sites(f, put)
		if len(gs) == 0 || len(ps) == 0 {
			c.undecided(rc, fnName(f)+":sites", "value cache Get/Put not found")
		}
		for i, in := range append(append([]ssa.Instruction{}, gs...), ps...) {
			a := callOf(in).Args
			k := desc(a[1])
			if mi, ok := a[1].(*ssa.MakeInterface); ok {
				k = desc(mi.X)
			}
			c.check(k == "param:off", rc, fmt.Sprintf("%s:key-is-encoded-offset#%d", fnName(f), i), c.pos(in.Pos()), "cache key is the encoded offset (value-log id included)", "the value cache is addressed with "+k+" instead of the encoded offset: values at the same position of different value logs share one slot")
		}
		for i, in := range ps {
			v := callOf(in).Args[2]
			if mi, ok := v.(*ssa.MakeInterface); ok {
				v = mi.X
			}
			base := v
			for {
				if sl, ok := base.(*ssa.Slice); ok {
					base = sl.X
					continue
				}
				break
			}
			_, fresh := base.(*ssa.MakeSlice)
			c.check(fresh, rc, fmt.Sprintf("%s:cached-value-is-a-copy#%d", fnName(f), i), c.pos(in.Pos()), "a private copy is cached", "the caller's buffer ("+desc(v)+") is put into the value cache: the next value read into that buffer changes the cached entry")
		}
	}
	if f := c.mustFn(r, storeT+"ReadValue"); f != nil {
		for _, in := range sites(f, callTo(storeT+"readValueAt")) {
			a := callOf(in).Args
			c.check(desc(a[4]) == "const:false" && hasFieldSuffix(desc(a[3]), "hVal") && hasFieldSuffix(desc(a[2]), "vOff"), r, fnName(f)+":checked-read", c.pos(in.Pos()), "readValueAt(b, vOff, hVal, false)", "ReadValue reads the value with "+desc(a[2])+","+desc(a[3])+","+desc(a[4]))
		}
	}

	// every value handed out went through the length-and-digest comparison of readValueAt: the value length of an entry is
	// not covered by any hash, so "length 0" read from a damaged record proves nothing (known finding: the empty-value
	// shortcut of ReadValue / Resolve returns before any comparison)
	for _, name := range []string{storeT + "ReadValue", "embedded/store.(*valueRef).Resolve"} {
		if f := c.mustFn(r, name); f != nil {
			q := &pathQ{fn: f, fromEntry: true, to: successReturn, via: callTo(storeT + "readValueAt")}
			w := q.bypass()
			c.check(w == nil, r, fnName(f)+":every-value-is-digest-checked", c.pos(f.Pos()), "every successful return passes readValueAt",
				"a value (the empty one) is returned without comparing anything with the entry's hVal: "+c.witnessStr(w))
		}
	}

	// ---- C09.2 skip-flag discipline ---------------------------------------------------------------------------------
	r = "C09.2/skip-flag"
	nskip := 0
	for _, fn := range c.allFns {
		if len(fn.Blocks) == 0 {
			continue
		}
		allInstrs(fn, false, func(in ssa.Instruction) {
			cc := callOf(in)
			if cc == nil {
				return
			}
			cal := cc.StaticCallee()
			var pnames []string
			if cal != nil {
				for _, p := range cal.Params {
					pnames = append(pnames, p.Name())
				}
			}
			argOff := 0
			if cal == nil && cc.IsInvoke() {
				if sig, ok := cc.Method.Type().(*types.Signature); ok {
					for i := 0; i < sig.Params().Len(); i++ {
						pnames = append(pnames, sig.Params().At(i).Name())
					}
				}
			}
			_ = argOff
			for i, pn := range pnames {
				if pn != "skipIntegrityCheck" || i >= len(cc.Args) {
					continue
				}
				a := desc(cc.Args[i])
				if a != "const:true" {
					continue
				}
				nskip++
				owner := fnName(topFn(fn))
				calName := ""
				if cal != nil {
					calName = fnName(cal)
				} else {
					calName = calleeName(cc)
				}
				key := owner + " -> " + calName
				reason, ok := c09SkipAllowed[key]
				c.check(ok, r, "skip=true:"+key, c.pos(in.Pos()), "allowed: "+reason, "integrity checks are switched off at a call site that is not in the allow-list: "+key)
			}
		})
	}
	c.count("skip_true_call_sites", nskip)
	// verifiable paths never skip
	for _, fn := range c.allFns {
		top := fnName(topFn(fn))
		if !fnInPkgs(fn, []string{"pkg/database"}) || !(strings.Contains(top, ").Verifiable") || strings.HasSuffix(top, ").ProofDocument")) {
			continue
		}
		allInstrs(fn, false, func(in ssa.Instruction) {
			cc := callOf(in)
			if cc == nil || cc.StaticCallee() == nil {
				return
			}
			if !c09ProvenReaders[fnName(cc.StaticCallee())] {
				return
			}
			for i, p := range cc.StaticCallee().Params {
				if p.Name() == "skipIntegrityCheck" && i < len(cc.Args) {
					c.check(desc(cc.Args[i]) == "const:false", r, "verifiable:"+top+" -> "+fnName(cc.StaticCallee()), c.pos(in.Pos()), "integrity checked", "a verifiable read passes skipIntegrityCheck="+desc(cc.Args[i]))
				}
			}
		})
	}
	if f := c.mustFn(r, "embedded/store.(*valueRef).Resolve"); f != nil {
		for _, in := range sites(f, callTo(storeT+"readValueAt")) {
			c.check(desc(callOf(in).Args[4]) == "const:false", r, fnName(f)+":checked", c.pos(in.Pos()), "values resolved through the index are digest-checked", "valueRef.Resolve skips the value digest check")
		}
	}

	// ---- C09.4 never crashes while reading a (possibly altered) tx record: bounds of the record decoders (E6, shared with C16)
	c16Run(c, "C09.4", []string{
		"embedded/store.(*TxHeader).ReadFrom", "embedded/store.(*TxMetadata).ReadFrom", "embedded/store.(*KVMetadata).unsafeReadFrom",
		"embedded/store.(*extraAttribute).deserialize", "embedded/store.(*truncatedUptoTxAttribute).deserialize",
		"embedded/store.(*deletedAttribute).deserialize", "embedded/store.(*expiresAtAttribute).deserialize", "embedded/store.(*nonIndexableAttribute).deserialize",
		"embedded/store.(*txDataReader).readHeader", "embedded/store.(*txDataReader).readEntry", "embedded/store.(*ImmuStore).valueRefFrom",
	}, false)

	// ---- C09.3 chain check and open-time checks -----------------------------------------------------------------------
	c02TxReaderChain(c, "C09.3/txreader-chain")
	c03Recovery(c)
	_ = fmt.Sprint
}

// c09EntryCountBounded: the number of entries of a transaction is read from its (possibly damaged) header before any
// hash is verified, and Tx.readFrom then fills that many slots of a holder sized for maxEntries. Whatever the header
// version, readHeader hands a header out only after comparing the count with maxEntries.
func c09EntryCountBounded(c *Ctx, r string) {
	f := c.mustFn(r, "embedded/store.(*txDataReader).readHeader")
	if f == nil {
		return
	}
	isCheck := func(in ssa.Instruction) bool {
		ifi, ok := in.(*ssa.If)
		if !ok {
			return false
		}
		a, _ := normCond(ifi.Cond)
		return strings.Contains(a, "maxEntries")
	}
	if len(sites(f, isCheck)) == 0 {
		c.fail(r, fnName(f)+":bound", c.pos(f.Pos()), "readHeader no longer compares the entry count with maxEntries")
		return
	}
	q := &pathQ{fn: f, fromEntry: true, to: successReturn, via: isCheck}
	if w := q.bypass(); w != nil {
		c.fail(r, fnName(f)+":bound", c.pos(w[len(w)-1].Pos()), "a header is handed out without its entry count having been compared with maxEntries: "+c.witnessStr(w))
	} else {
		c.ok(r, fnName(f)+":bound", c.pos(f.Pos()), "every path to a successful return passes the comparison with maxEntries")
	}
}

// c09ValueBuffersBounded: the length of a value is stored beside its hash but is covered by no hash, so a damaged length
// reaches the readers unnoticed; the value is checked against its hash only after a buffer of that length was filled.
// Wherever the store sizes a buffer with a stored value length (TxEntry.vLen, valueRef.valLen, or a parameter that
// callers fill with one), the length has been compared with the store's maximum value length first.
func c09ValueBuffersBounded(c *Ctx, r string) {
	c.buildCallIndex()
	isStoredLen := func(v ssa.Value) bool {
		return dependsOn(v, func(x ssa.Value) bool {
			u, ok := x.(*ssa.UnOp)
			if !ok || u.Op != token.MUL {
				return false
			}
			fl, _ := fieldOf(u.X)
			return fl == "TxEntry.vLen" || fl == "valueRef.valLen"
		})
	}
	// guardedAt: a branch on (value ? maxValueLen) dominates `at`
	guardedAt := func(fn *ssa.Function, v ssa.Value, at *ssa.BasicBlock) bool {
		dv := desc(v)
		for _, b := range fn.Blocks {
			if len(b.Instrs) == 0 {
				continue
			}
			ifi, ok := b.Instrs[len(b.Instrs)-1].(*ssa.If)
			if !ok {
				continue
			}
			for _, leaf := range boolLeaves(ifi.Cond) {
				d := desc(leaf)
				if strings.Contains(d, "maxValueLen") && strings.Contains(d, strings.TrimPrefix(dv, "convert:")) && (edgeDominates(b, 0, at) || edgeDominates(b, 1, at)) {
					return true
				}
			}
		}
		return false
	}
	var guarded func(fn *ssa.Function, v ssa.Value, at ssa.Instruction, depth int) bool
	guarded = func(fn *ssa.Function, v ssa.Value, at ssa.Instruction, depth int) bool {
		// look through conversions
		core := v
		for {
			if cv, ok := core.(*ssa.Convert); ok {
				core = cv.X
				continue
			}
			break
		}
		if guardedAt(fn, core, at.Block()) || guardedAt(fn, v, at.Block()) {
			return true
		}
		p, ok := core.(*ssa.Parameter)
		if !ok || depth > 2 {
			return false
		}
		idx := -1
		for i, fp := range fn.Params {
			if fp == p {
				idx = i
			}
		}
		sitesOf := c.callIndex[fn]
		if idx < 0 || len(sitesOf) == 0 {
			return false
		}
		for _, cs := range sitesOf {
			cc := callOf(cs)
			if cc == nil || idx >= len(cc.Args) || !guarded(cs.Parent(), cc.Args[idx], cs, depth+1) {
				return false
			}
		}
		return true
	}
	var fromStoredLen func(fn *ssa.Function, v ssa.Value, depth int) bool
	fromStoredLen = func(fn *ssa.Function, v ssa.Value, depth int) bool {
		if isStoredLen(v) {
			return true
		}
		core := v
		for {
			if cv, ok := core.(*ssa.Convert); ok {
				core = cv.X
				continue
			}
			break
		}
		p, ok := core.(*ssa.Parameter)
		if !ok || depth > 2 {
			return false
		}
		idx := -1
		for i, fp := range fn.Params {
			if fp == p {
				idx = i
			}
		}
		for _, cs := range c.callIndex[fn] {
			cc := callOf(cs)
			if cc != nil && idx >= 0 && idx < len(cc.Args) && fromStoredLen(cs.Parent(), cc.Args[idx], depth+1) {
				return true
			}
		}
		return false
	}
	n := 0
	for _, fn := range c.allFns {
		if !fnInPkgs(fn, []string{"embedded/store"}) || len(fn.Blocks) == 0 {
			continue
		}
		per := 0
		allInstrs(fn, false, func(in ssa.Instruction) {
			mk, ok := in.(*ssa.MakeSlice)
			if !ok || !fromStoredLen(fn, mk.Len, 0) {
				return
			}
			n++
			per++
			c.check(guarded(fn, mk.Len, in, 0), r, fmt.Sprintf("%s:make#%d", fnName(fn), per), c.pos(in.Pos()), "the stored length was compared with maxValueLen before it sizes the buffer",
				"a buffer is sized with a stored value length ("+desc(mk.Len)+") that nothing bounded: the length is covered by no hash, a damaged one allocates up to 4 GiB before the value can be checked")
		})
	}
	if n < 3 {
		c.undecided(r, "floor", fmt.Sprintf("%d buffers sized by a stored value length found in embedded/store (4 when the rule was armed)", n))
	}
}

// c09RecordIsTheRequestedOne: the hashes of a transaction record prove that the record is consistent in itself, not that
// it is the record of the transaction that was asked for: a whole record written over another one of the same size
// passes them. Every function that reads the record of transaction txID (located through the commit log) returns
// successfully only past a comparison of the id found in the record with txID.
func c09RecordIsTheRequestedOne(c *Ctx, r string) {
	n := 0
	for _, name := range []string{storeT + "readTx", storeT + "ReadTxHeader", storeT + "ReadTxEntry"} {
		f := c.mustFn(r, name)
		if f == nil {
			continue
		}
		var txID *ssa.Parameter
		for _, p := range f.Params {
			if b, ok := p.Type().Underlying().(*types.Basic); ok && b.Kind() == types.Uint64 {
				txID = p
				break
			}
		}
		if txID == nil {
			c.undecided(r, name, "no uint64 transaction id parameter")
			continue
		}
		n++
		compared := func(in ssa.Instruction) bool {
			ifi, ok := in.(*ssa.If)
			if !ok {
				return false
			}
			for _, leaf := range boolLeaves(ifi.Cond) {
				bo, ok := leaf.(*ssa.BinOp)
				if !ok || (bo.Op != token.EQL && bo.Op != token.NEQ) {
					continue
				}
				var other ssa.Value
				if bo.X == ssa.Value(txID) {
					other = bo.Y
				} else if bo.Y == ssa.Value(txID) {
					other = bo.X
				}
				if other != nil && hasFieldSuffix(desc(other), "ID") {
					return true
				}
			}
			return false
		}
		q := &pathQ{fn: f, fromEntry: true, to: successReturn, via: compared}
		if w := q.bypass(); w != nil {
			c.fail(r, fnName(f)+":id-compared", c.pos(w[len(w)-1].Pos()), "the record read for transaction txID is handed out without its id having been compared with txID: the record of another transaction written in its place (same size, consistent in itself) is served as the requested one")
		} else {
			c.ok(r, fnName(f)+":id-compared", c.pos(f.Pos()), "every successful return passes header.ID == txID")
		}
	}
	if n < 3 {
		c.undecided(r, "floor", fmt.Sprintf("%d single-transaction readers examined, expected 3", n))
	}
}
