package main

import (
	"go/constant"
	"fmt"
	"go/token"
	"go/types"
	"strings"

	"golang.org/x/tools/go/ssa"
)

const tbT = "embedded/tbtree.(*TBtree)."

var tbPkgs = []string{"embedded/tbtree"}

var tbGuard = guardSpec{
	structName: "TBtree",
	lock:       "TBtree.rwmutex",
	fields: []string{"root", "lastSnapRoot", "lastSnapRootAt", "snapshots", "maxSnapshotID", "committedLogSize", "committedNLogSize",
		"committedHLogSize", "minOffset", "insertionCountSinceFlush", "insertionCountSinceSync", "insertionCountSinceCleanup",
		"bufferedDataSize", "closed", "compacting"},
	callerHolds: map[string]string{
		tbT + "flushTree": "W", tbT + "bulkInsert": "W", tbT + "snapshotCount": "R", tbT + "writeTsFile": "R",
		tbT + "unlock": "W",
	},
	exempt: map[string]string{
		"embedded/tbtree.OpenWith": "constructor: the tree is not shared yet",
		"embedded/tbtree.Open":     "constructor",
	},
	exemptAccess: map[string]string{},
}

var snapGuard = guardSpec{
	structName: "Snapshot",
	lock:       "Snapshot.mutex",
	fields:     []string{"readers", "maxReaderID", "closed"}, // root: written only by Snapshot.Set (tx-private snapshots); lock-free reads by the owning readers are by design
	exempt:     map[string]string{},
}

var cowFields = map[string]bool{
	"innerNode.nodes": true, "innerNode._ts": true, "leafNode.values": true, "leafNode._ts": true,
	"leafValue.key": true, "leafValue.timedValues": true, "leafValue.hOff": true, "leafValue.hCount": true,
}

// methods that mutate their receiver in place; every call must be on a private (fresh or mut) node
var mutRecv = map[string]bool{
	"embedded/tbtree.(*innerNode).updateOnInsert": true, "embedded/tbtree.(*innerNode).split": true, "embedded/tbtree.(*innerNode).updateTs": true,
	"embedded/tbtree.(*leafNode).updateOnInsert": true, "embedded/tbtree.(*leafNode).split": true, "embedded/tbtree.(*leafNode).updateTs": true,
}

// rootOf walks an address/value back to the object it belongs to and lists the struct fields crossed.
func rootOf(v ssa.Value) (ssa.Value, []string) {
	var fields []string
	for i := 0; i < 16; i++ {
		switch x := v.(type) {
		case *ssa.FieldAddr:
			fields = append(fields, structName(x.X.Type())+"."+fieldName(x.X.Type(), x.Field))
			v = x.X
		case *ssa.Field:
			fields = append(fields, structName(x.X.Type())+"."+fieldName(x.X.Type(), x.Field))
			v = x.X
		case *ssa.IndexAddr:
			v = x.X
		case *ssa.Index:
			v = x.X
		case *ssa.Slice:
			v = x.X
		case *ssa.UnOp:
			if x.Op != token.MUL {
				return v, fields
			}
			// load of a local that holds the object pointer (spilled receiver)
			if a, ok := x.X.(*ssa.Alloc); ok {
				var stored ssa.Value
				n := 0
				for _, r := range *a.Referrers() {
					if st, ok := r.(*ssa.Store); ok && st.Addr == a {
						stored = st.Val
						n++
					}
				}
				if n == 1 {
					v = stored
					continue
				}
				return v, fields
			}
			v = x.X
		case *ssa.TypeAssert:
			v = x.X
		case *ssa.ChangeInterface:
			v = x.X
		case *ssa.MakeInterface:
			v = x.X
		default:
			return v, fields
		}
	}
	return v, fields
}

func isFreshObj(v ssa.Value) bool {
	switch x := v.(type) {
	case *ssa.Alloc:
		return true
	case *ssa.MakeSlice:
		return true
	case *ssa.Phi:
		for _, e := range x.Edges {
			if !isFreshObj(e) {
				return false
			}
		}
		return true
	}
	return false
}

// isReceiverOf: v is the receiver parameter of fn, or (in a closure) the free variable capturing
// the receiver of the enclosing method.
func isReceiverOf(v ssa.Value, fn *ssa.Function) bool {
	top := topFn(fn)
	if top.Signature.Recv() == nil || len(top.Params) == 0 {
		return false
	}
	rname := top.Params[0].Name()
	switch x := v.(type) {
	case *ssa.Parameter:
		return x.Parent() == top && x == top.Params[0]
	case *ssa.FreeVar:
		return x.Name() == rname
	case *ssa.UnOp:
		// *freevar when the receiver is captured by reference
		if fv, ok := x.X.(*ssa.FreeVar); ok && x.Op == token.MUL {
			return fv.Name() == rname
		}
	}
	return false
}

// fields a node copy legitimately leaves unset, with the reason
var c10CopyExempt = map[string]string{}

func c10(c *Ctx) {
	c10HistorySkipCounter(c, "C10.4/history-skip-counter-starts-after-memory-versions")
	c10ReaderRestart(c, "C10.7/reader-restart-resets-iteration-state")
	c10SnapshotTime(c, "C10.9/snapshot-time-follows-its-root")
	c10SeekBoundary(c, "C10.11/key-equal-to-a-child-minimum-goes-to-that-child")
	c10FailedInsertRestoresItsOwnStart(c, "C10.12/failed-insertion-restores-the-state-before-it")
	c10SubtreeMinOffset(c, "C10.10/subtree-min-offset-is-the-minimum-of-the-children-minima")
	// prefix readers: a bound clamped to the prefix range is inclusive (analysis shared with C04.7)
	c04ScanBounds(c, "C10.8/clamped-scan-bound-is-inclusive")
	c10CopyOnWrite(c, "C10.1")
	var r string
	// ---- C10.2 lockset and pairing -------------------------------------------------------------------
	c.rulePairing("C10.2/lock-pairing", tbPkgs, map[string]string{
		tbT + "SyncSnapshot:TBtree.rwmutex/R": "the snapshot pins the live root; released by snapshotClosed",
		tbT + "lock:TBtree.rwmutex/W":         "wrapper",
	})
	c.ruleGuarded("C10.2/tree-lockset", tbPkgs, tbGuard)
	c.ruleCallerHolds("C10.2/caller-holds", tbPkgs, tbGuard)
	c.ruleGuarded("C10.2/snapshot-lockset", tbPkgs, snapGuard)

	// ---- C10.3 snapshots pin roots -------------------------------------------------------------------
	// ---- C10.3 the logical time persisted next to a tree is the time of that tree ----------------------------------
	// "compaction produces a tree equal to the state at the logical time it reports, which is what the next restart
	// loads": the ts file written beside a dump carries the dumped snapshot's Ts (the live tree may have moved on while
	// the dump ran without the lock); the ts file of the live tree carries its root's ts
	r = "C10.3/ts-file-matches-persisted-tree"
	nts := 0
	for _, in := range c.callSites(callTo("embedded/tbtree.writeTsFile")) {
		nts++
		owner := fnName(in.Parent())
		arg := desc(callOf(in).Args[2])
		switch owner {
		case tbT + "fullDump":
			c.check(arg == "call:embedded/tbtree.(*Snapshot).Ts[param:snap]", r, owner+":ts-of-dumped-snapshot", c.pos(in.Pos()), "ts file of a dump = snap.Ts()", "the ts file written beside a compaction dump carries "+arg+" instead of the dumped snapshot's Ts")
		case tbT + "writeTsFile":
			c.check(strings.Contains(arg, ".root") && strings.HasSuffix(strings.Split(arg, "[")[0], ".ts"), r, owner+":ts-of-root", c.pos(in.Pos()), "ts file of the live tree = root.ts()", "the ts file of the live tree carries "+arg)
		default:
			c.fail(r, owner+":unexpected-ts-writer", c.pos(in.Pos()), "a ts file is written by "+owner+", which has no rule")
		}
	}
	if nts < 2 {
		c.undecided(r, "floor", fmt.Sprintf("%d writers of a ts file found (fullDump, TBtree.writeTsFile confirmed by hand)", nts))
	}

	// ---- C10.4 a history walk is bounded by versions, not by records ------------------------------------------------
	// hCount counts the versions of a key kept in the history log; one record holds all versions accumulated between two
	// flushes and ends with the offset of the previous record (0 in the oldest one, which is also a valid offset: the
	// first record of the log, usually of another key). A walk must therefore stop when hCount *versions* were seen:
	// the counter compared with hCount (or with the number of versions wanted) advances per decoded version.
	r = "C10.4/history-walk-bounded-by-versions"
	nw2 := 0
	for _, name := range []string{"embedded/tbtree.(*leafValue).lastUpdateBetween", "embedded/tbtree.(*leafValue).history"} {
		f := c.mustFn(r, name)
		if f == nil {
			continue
		}
		readers := sites(f, callTo("embedded/appendable.NewReaderFrom"))
		if len(readers) == 0 {
			c.undecided(r, name+":reader", "no history-log reader found")
			continue
		}
		perValue := func(b *ssa.BasicBlock) bool { // b executes once per decoded version: dominated by the inner loop's true edge
			for _, blk := range f.Blocks {
				if len(blk.Instrs) == 0 {
					continue
				}
				ifi, ok := blk.Instrs[len(blk.Instrs)-1].(*ssa.If)
				if !ok {
					continue
				}
				a, _ := normCond(ifi.Cond)
				if !strings.Contains(a, "ReadUint32") {
					continue
				}
				if edgeDominates(blk, 0, b) {
					return true
				}
			}
			return false
		}
		for i, rd := range readers {
			nw2++
			// the conditions that decide whether another record is opened: Ifs dominating the reader inside the loop
			okw := false
			var seen []string
			for _, blk := range f.Blocks {
				if len(blk.Instrs) == 0 || !blk.Dominates(rd.Block()) {
					continue
				}
				ifi, ok := blk.Instrs[len(blk.Instrs)-1].(*ssa.If)
				if !ok || !reaches(rd.Block(), blk, nil) { // only loop conditions (the reader can come back to them)
					continue
				}
				bo, ok := ifi.Cond.(*ssa.BinOp)
				if !ok {
					continue
				}
				seen = append(seen, desc(bo))
				for _, side := range []ssa.Value{bo.X, bo.Y} {
					if dependsOn(side, func(v ssa.Value) bool {
						add, ok := v.(*ssa.BinOp)
						return ok && add.Op == token.ADD && perValue(add.Block())
					}) {
						okw = true
					}
				}
			}
			c.check(okw, r, fmt.Sprintf("%s:next-record-only-while-versions-remain#%d", fnName(f), i), c.pos(rd.Pos()), "the loop that opens the next record is controlled by a per-version counter",
				"the next history record is opened under "+strings.Join(seen, " / ")+", none of which advances per decoded version: after the last version of the key the walk follows the previous-record offset of the oldest record into another key's history")
		}
	}
	if nw2 < 2 {
		c.undecided(r, "floor", "history walkers not found")
	}
	// the revision reported for a version found in the history log counts the versions skipped across *all* records
	// read so far: it is computed from the same per-version counter that bounds the walk, not from the position inside
	// the current record
	if f := c.fn("embedded/tbtree.(*leafValue).lastUpdateBetween"); f != nil {
		var counter ssa.Value
		for _, blk := range f.Blocks {
			if len(blk.Instrs) == 0 {
				continue
			}
			ifi, ok := blk.Instrs[len(blk.Instrs)-1].(*ssa.If)
			if !ok {
				continue
			}
			bo, ok := ifi.Cond.(*ssa.BinOp)
			if !ok || bo.Op != token.LSS {
				continue
			}
			if hasFieldSuffix(desc(bo.Y), "hCount") {
				if _, isPhi := bo.X.(*ssa.Phi); isPhi {
					counter = bo.X
				}
			}
		}
		if counter == nil {
			c.undecided(r, fnName(f)+":revision", "the counter compared with hCount was not found")
		} else {
			nr := 0
			allInstrs(f, false, func(in ssa.Instruction) {
				rt, ok := in.(*ssa.Return)
				if !ok || len(rt.Results) != 4 || retKind(rt) == "fail" {
					return
				}
				hc := unspill(rt.Results[2], rt)
				if !dependsOn(hc, func(v ssa.Value) bool { return hasFieldSuffix(desc(v), "hCount") }) || dependsOn(hc, func(v ssa.Value) bool {
					cl, ok := v.(*ssa.Call)
					return ok && strings.HasSuffix(calleeName(&cl.Call), "historyCount")
				}) {
					return // the in-memory versions: revision = historyCount() - i
				}
				nr++
				c.check(dependsOn(hc, func(v ssa.Value) bool { return v == counter }), r, fmt.Sprintf("%s:revision-counts-all-skipped-versions#%d", fnName(f), nr), c.pos(rt.Pos()),
					"revision = hCount - (versions skipped so far)", "the revision of a version found in the history log ("+desc(hc)+") does not depend on the number of versions skipped in earlier records: it is wrong for every key whose history spans more than one record")
			})
			if nr == 0 {
				c.undecided(r, fnName(f)+":revision", "no successful return from the history walk found")
			}
		}
	}

	// ---- C10.5 nodes of one tree are cached under keys that carry the tree's id --------------------------------------
	// the node cache is shared by all the trees of a store: a key without the tree id lets one index serve (and be
	// served) nodes of another
	r = "C10.5/cache-keys-carry-tree-id"
	nk := 0
	for _, fn := range c.allFns {
		if !fnInPkgs(fn, tbPkgs) || len(fn.Blocks) == 0 {
			continue
		}
		for i, in := range sites(fn, callTo("embedded/cache.(*Cache).Get@cache", "embedded/cache.(*Cache).Put@cache", "embedded/cache.(*Cache).PutWeighted@cache", "embedded/cache.(*Cache).Pop@cache", "embedded/cache.(*Cache).Replace@cache")) {
			recv := desc(callOf(in).Args[0])
			if !strings.Contains(recv, ".cache") || strings.Contains(recv, "Snapshot") {
				continue
			}
			nk++
			key := callOf(in).Args[1]
			if mi, ok := key.(*ssa.MakeInterface); ok {
				key = mi.X
			}
			withID := dependsOn(key, func(v ssa.Value) bool {
				if cl, ok := v.(*ssa.Call); ok && calleeName(&cl.Call) == "embedded/tbtree.encodeOffset" {
					return true
				}
				if ld, ok := v.(*ssa.UnOp); ok {
					if fl, _ := fieldOf(ld.X); fl == "TBtree.id" {
						return true
					}
				}
				return false
			})
			c.check(withID, r, fmt.Sprintf("%s:%s#%d", fnName(fn), lastSeg(calleeName(callOf(in))), i), c.pos(in.Pos()), "key = encodeOffset(t.id, offset)", "the shared node cache is addressed with "+desc(key)+", which does not include the tree id")
		}
	}
	if nk < 3 {
		c.undecided(r, "floor", fmt.Sprintf("%d accesses of the shared node cache found", nk))
	}
	if f := c.mustFn(r, "embedded/tbtree.encodeOffset"); f != nil {
		c.paramsUsed(r, f)
	}

	// ---- C10.6 a failed insertion has something to roll back to -------------------------------------------------------
	// bulkInsert restores lastSnapRoot when an insertion fails half way, and starts from an empty tree when there is none:
	// whoever installs a root read from disk installs it as lastSnapRoot too, so that "none" means "the tree is empty"
	r = "C10.6/rollback-target-installed-with-loaded-root"
	nl := 0
	for _, fn := range c.allFns {
		if !fnInPkgs(fn, tbPkgs) || len(fn.Blocks) == 0 {
			continue
		}
		var loads []ssa.Instruction
		for _, in := range sites(fn, storeTo("TBtree.root")) {
			// the node returned by readNodeAt itself (a copy of it with a bumped ts keeps the loaded one as target)
			if ex, ok := in.(*ssa.Store).Val.(*ssa.Extract); ok {
				if cl, ok := ex.Tuple.(*ssa.Call); ok && calleeName(&cl.Call) == tbT+"readNodeAt" {
					loads = append(loads, in)
				}
			}
		}
		if len(loads) == 0 {
			continue
		}
		nl++
		q := &pathQ{fn: fn, from: loads, to: successReturn, via: storeTo("TBtree.lastSnapRoot")}
		w := q.bypass()
		c.check(w == nil, r, fnName(fn)+":loaded-root", c.pos(loads[0].Pos()), "the root read from disk is also installed as lastSnapRoot",
			"a root read from disk is installed without a rollback target: a bulk insertion that fails before the first flush replaces the whole tree with an empty leaf: "+c.witnessStr(w))
	}
	if nl < 1 {
		c.undecided(r, "floor", "no function installs a root read from disk (OpenWith confirmed by hand)")
	}
	if f := c.mustFn(r, tbT+"bulkInsert"); f != nil {
		// the empty-tree restart of the rollback is taken only when there is no rollback target
		for i, in := range sites(f, storeTo("TBtree.root")) {
			st := in.(*ssa.Store)
			if !isFreshAlloc(st.Val) && !strings.Contains(desc(st.Val), "alloc") {
				continue
			}
			in := in
			noTarget := whenCond(true, func(a string) bool { return strings.Contains(a, "lastSnapRoot") && strings.Contains(a, "nil") })
			q := &pathQ{fn: f, fromEntry: true, to: func(x ssa.Instruction) bool { return x == in }, barrier: noTarget}
			if strings.Contains(desc(st.Val), "innerNode") {
				continue // the new root built by a split
			}
			c.check(q.bypass() == nil, r, fmt.Sprintf("%s:empty-restart-only-without-target#%d", fnName(f), i), c.pos(in.Pos()), "dominated by lastSnapRoot == nil", "bulkInsert can replace the root with an empty leaf although a rollback target exists")
		}
	}

	r = "C10.3/snapshots-pin-roots"
	if f := c.mustFn(r, tbT+"SnapshotMustIncludeTsWithRenewalPeriod"); f != nil {
		reg := func(in ssa.Instruction) bool {
			mu, ok := in.(*ssa.MapUpdate)
			return ok && hasFieldSuffix(desc(mu.Map), "snapshots")
		}
		c.ruleMustPass(r, f, nil, "t.snapshots[id]=snapshot", reg, nil, false)
		// the snapshot's root is the last flushed root, never the mutable live root
		for _, in := range sites(f, callTo(tbT+"newSnapshot")) {
			a := desc(callOf(in).Args[2])
			c.check(hasFieldSuffix(a, "lastSnapRoot"), r, fnName(f)+":snapshot-root", c.pos(in.Pos()), "snapshot is created on lastSnapRoot", "snapshot is created on "+a)
		}
		// lastSnapRoot = root only when the root is not mutated
		for i, in := range sites(f, storeTo("TBtree.lastSnapRoot")) {
			q := &pathQ{fn: f, fromEntry: true, to: func(x ssa.Instruction) bool { return x == in },
				barrier: whenCond(false, func(a string) bool { return strings.Contains(a, ").mutated[") || strings.Contains(a, "node).mutated") })}
			c.check(q.bypass() == nil, r, fmt.Sprintf("%s:lastSnapRoot-only-if-flushed#%d", fnName(f), i), c.pos(in.Pos()),
				"lastSnapRoot is updated only on the !root.mutated() edge", "lastSnapRoot can be set to a mutated (unflushed) root")
		}
		// requested ts must be covered
		tsGuard := whenCond(false, func(a string) bool { return strings.Contains(a, "< param:ts)") && strings.Contains(a, ".ts") })
		q := &pathQ{fn: f, fromEntry: true, to: callTo(tbT + "newSnapshot"), barrier: tsGuard}
		c.check(q.bypass() == nil, r, fnName(f)+":ts-covered", c.pos(f.Pos()), "a snapshot is only created when ts <= root.ts()", "snapshot creation is reachable for ts > root.ts()")
	}
	if f := c.mustFn(r, tbT+"flushTree"); f != nil {
		// discard offset is computed after ranging over open snapshots
		rng := func(in ssa.Instruction) bool {
			rg, ok := in.(*ssa.Range)
			return ok && hasFieldSuffix(desc(rg.X), "snapshots")
		}
		c.ruleOrder(r, f, "range t.snapshots", rng, "nLog.DiscardUpto", callTo(appDiscard+"@nLog"), nil, 1)
		for _, in := range sites(f, callTo(appDiscard+"@nLog")) {
			a := callOf(in).Args[0]
			dep := dependsOn(a, func(v ssa.Value) bool {
				cl, ok := v.(*ssa.Call)
				return ok && strings.HasSuffix(calleeName(&cl.Call), ".minOffset")
			})
			c.check(dep, r, fnName(f)+":discard-offset-bounded-by-snapshot-roots", c.pos(in.Pos()), "discard offset takes the open snapshots' minOffset into account", "nLog.DiscardUpto offset no longer depends on the open snapshots' roots")
		}
	}
	if f := c.mustFn(r, tbT+"Close"); f != nil {
		q := &pathQ{fn: f, fromEntry: true, to: storeTo("TBtree.closed"), barrier: whenCond(false, func(a string) bool {
			return strings.HasPrefix(a, "(const:0 < len(") && strings.Contains(a, "snapshots")
		})}
		c.check(q.bypass() == nil, r, fnName(f)+":refuses-with-open-snapshots", c.pos(f.Pos()), "Close is refused while snapshots are open", "TBtree.Close proceeds with open snapshots")
	}
	if f := c.mustFn(r, "embedded/tbtree.(*Snapshot).Close"); f != nil {
		q := &pathQ{fn: f, fromEntry: true, to: callTo(tbT + "snapshotClosed"), barrier: whenCond(false, func(a string) bool { return strings.HasPrefix(a, "(const:0 < len(") && strings.Contains(a, "readers") })}
		c.check(q.bypass() == nil, r, fnName(f)+":refuses-with-open-readers", c.pos(f.Pos()), "Snapshot.Close is refused while readers are open", "Snapshot.Close releases the snapshot with open readers")
	}

	// ---- C10.4 flush/compaction ordering (shared with C03.4) --------------------------------------------
	c03Index(c)
}

// c10ReaderRestart: a Reader is restarted by Reset (leafNode = nil) and re-positioned by the next Read/ReadBetween.
// "The same spec on the same snapshot yields the same sequence": every field of the Reader that the iteration
// advances (stored by Read or ReadBetween) is re-initialised either by Reset or in the re-positioning block of that
// same function; a field that survives the restart (the offset already skipped, the key whose history was being
// listed) makes the second pass differ from the first.
func c10ReaderRestart(c *Ctx, r string) {
	readerRestart(c, r, "embedded/tbtree.(*Reader).", "Reader", []string{"Read", "ReadBetween"}, true, 8)
}

// readerRestart is the analysis behind c10ReaderRestart for any reader type: rdT is the method prefix, st the struct
// name; withRepos tells whether the readers re-position themselves in the block that installs the leaf found from the
// snapshot's root (tbtree) or rely on Reset alone (store readers).
func readerRestart(c *Ctx, r, rdT, stName string, readers []string, withRepos bool, floor int) {
	storedFields := func(f *ssa.Function, in func(*ssa.BasicBlock) bool) map[string]bool {
		out := map[string]bool{}
		allInstrs(f, false, func(x ssa.Instruction) {
			st, ok := x.(*ssa.Store)
			if !ok || (in != nil && !in(x.Block())) {
				return
			}
			if fl, _ := fieldOf(st.Addr); strings.HasPrefix(fl, stName+".") {
				out[strings.TrimPrefix(fl, stName+".")] = true
			}
		})
		return out
	}
	reset := c.mustFn(r, rdT+"Reset")
	if reset == nil {
		return
	}
	inReset := storedFields(reset, nil)
	n := 0
	for _, name := range readers {
		f := c.mustFn(r, rdT+name)
		if f == nil {
			continue
		}
		inRepos := map[string]bool{}
		if withRepos {
			// the re-positioning block: where the leaf found from the snapshot's root is installed
			var repos *ssa.BasicBlock
			for _, in := range sites(f, storeTo(stName+".leafNode")) {
				if strings.Contains(desc(in.(*ssa.Store).Val), "snapshot.root") {
					repos = in.Block()
				}
			}
			if repos == nil {
				c.undecided(r, rdT+name, "re-positioning block (leafNode = root.findLeafNode(...)) not found")
				continue
			}
			inRepos = storedFields(f, func(b *ssa.BasicBlock) bool { return b == repos })
		}
		for _, fld := range sortedKeys(storedFields(f, nil)) {
			if fld == "closed" {
				continue
			}
			n++
			c.check(inReset[fld] || inRepos[fld], r, rdT+name+":"+fld, c.pos(f.Pos()), "re-initialised on restart", stName+"."+fld+" is advanced by "+name+" but neither Reset nor the re-positioning block of "+name+" re-initialises it: after Reset the reader does not replay the same sequence")
		}
	}
	if n < floor {
		c.undecided(r, "floor", fmt.Sprintf("%d iteration-state fields of %s analysed, expected at least %d", n, stName, floor))
	}
}

// c10HistorySkipCounter: leafValue.history lists versions newest first: the len(lv.timedValues) versions held in
// memory, then the records of the history log. A window that starts at version index initAt skips the log versions
// whose index is below initAt; the index of the first log version is the number of in-memory versions, so the counter
// compared with initAt starts from len(lv.timedValues) (a constant start is right only for one particular number of
// unflushed versions).
func c10HistorySkipCounter(c *Ctx, r string) {
	f := c.mustFn(r, "embedded/tbtree.(*leafValue).history")
	if f == nil {
		return
	}
	n := 0
	allInstrs(f, false, func(in ssa.Instruction) {
		bo, ok := in.(*ssa.BinOp)
		if !ok || bo.Op != token.LSS {
			return
		}
		ph, ok := bo.X.(*ssa.Phi)
		if !ok || !isUnsigned(ph.Type()) {
			return
		}
		// a counter: one incoming edge is itself plus one
		selfInc := dependsOn(ph, func(v ssa.Value) bool {
			add, ok := v.(*ssa.BinOp)
			return ok && add.Op == token.ADD && add.X == ssa.Value(ph)
		})
		if !selfInc {
			return
		}
		n++
		dep := dependsOn(ph, func(v ssa.Value) bool {
			cl, ok := v.(*ssa.Call)
			if !ok {
				return false
			}
			b, isB := cl.Call.Value.(*ssa.Builtin)
			return isB && b.Name() == "len" && hasFieldSuffix(desc(cl.Call.Args[0]), "timedValues")
		})
		c.check(dep, r, fmt.Sprintf("%s:counter#%d", fnName(f), n), c.pos(bo.Pos()), "the version index compared with the window start begins at len(lv.timedValues)",
			"the version index compared with the window start ("+desc(bo.Y)+") does not start from the number of in-memory versions: with another number of unflushed versions the window is shifted")
	})
	if n < 1 {
		c.undecided(r, "floor", "the skip counter of the history-log walk was not recognised")
	}
}

// c10SnapshotTime: a snapshot is built on a root handed to newSnapshot, which is not always the current root of the
// tree (a recently dumped root is reused while it is fresh enough). The logical time given to the snapshot's own
// writes, and everything that decides from Snapshot.Ts() whether anything happened since the snapshot was taken, must
// describe THAT root: Snapshot.ts is derived from the root parameter, not from the tree's current root.
func c10SnapshotTime(c *Ctx, r string) {
	f := c.mustFn(r, "embedded/tbtree.(*TBtree).newSnapshot")
	if f == nil {
		return
	}
	var rootParam *ssa.Parameter
	for _, p := range f.Params {
		if n, ok := p.Type().(*types.Named); ok && n.Obj().Name() == "node" {
			rootParam = p
		}
	}
	sts := sites(f, storeTo("Snapshot.ts"))
	if rootParam == nil || len(sts) == 0 {
		c.undecided(r, fnName(f), "the root parameter or the store of Snapshot.ts was not found")
		return
	}
	for i, in := range sts {
		v := in.(*ssa.Store).Val
		fromParam := dependsOn(v, func(x ssa.Value) bool { return x == ssa.Value(rootParam) })
		fromTree := dependsOn(v, func(x ssa.Value) bool {
			u, ok := x.(*ssa.UnOp)
			if !ok || u.Op != token.MUL {
				return false
			}
			fl, _ := fieldOf(u.X)
			return fl == "TBtree.root"
		})
		c.check(fromParam && !fromTree, r, fmt.Sprintf("%s:Snapshot.ts#%d", fnName(f), i), c.pos(in.Pos()), "derived from the root the snapshot is built on",
			"Snapshot.ts is "+desc(v)+": it does not describe the root the snapshot is built on; with a reused (older) root the snapshot claims the current time, and a transaction that wrote into it skips the validation of reads that are stale")
	}
	for i, in := range sites(f, storeTo("Snapshot.root")) {
		v := in.(*ssa.Store).Val
		c.check(v == ssa.Value(rootParam), r, fmt.Sprintf("%s:Snapshot.root#%d", fnName(f), i), c.pos(in.Pos()), "the root parameter", "Snapshot.root is "+desc(v)+" instead of the root handed to newSnapshot")
	}
}

// c10CopyOnWrite: snapshots stay what they were because the writer never changes a node or a leaf value a snapshot may
// still reference (shared with C06: a read never observes a state that did not exist).
func c10CopyOnWrite(c *Ctx, pfx string) {
	// ---- C10.1 copy-on-write -----------------------------------------------------------------------
	r := pfx + "/copy-on-write"
	nw := 0
	mutGuard := func(root ssa.Value) edgePred {
		rd := desc(root)
		return whenCond(true, func(a string) bool {
			return a == rd+".mut" || strings.HasPrefix(a, "call:embedded/tbtree.(*innerNode).mutated["+rd) || strings.HasPrefix(a, "call:embedded/tbtree.(*leafNode).mutated["+rd)
		})
	}
	commitLogEdge := whenCond(true, func(a string) bool { return hasFieldSuffix(a, "commitLog") })
	for _, fn := range c.allFns {
		if !fnInPkgs(fn, tbPkgs) || len(fn.Blocks) == 0 {
			continue
		}
		top := fnName(topFn(fn))
		perKey := map[string]int{}
		checkWrite := func(in ssa.Instruction, addr ssa.Value, what string) {
			root, fields := rootOf(addr)
			touched := ""
			for _, f := range fields {
				if cowFields[f] {
					touched = f
				}
			}
			if touched == "" {
				return
			}
			nw++
			perKey[touched]++
			construct := fmt.Sprintf("%s:%s:%s#%d", fnName(fn), what, touched, perKey[touched])
			switch {
			case isFreshObj(root):
				c.ok(r, construct, c.pos(in.Pos()), "object is freshly allocated in this function")
			case mutRecv[top] && isReceiverOf(root, fn):
				c.ok(r, construct, c.pos(in.Pos()), "receiver of an in-place mutator (its call sites carry the obligation)")
			case strings.HasSuffix(top, ").writeTo"):
				q := &pathQ{fn: fn, fromEntry: true, to: func(x ssa.Instruction) bool { return x == in }, barrier: commitLogEdge}
				c.check(q.bypass() == nil, r, construct, c.pos(in.Pos()), "writeTo re-points history/offsets only under commitLog (documented exception: logical content preserved)",
					"writeTo changes "+touched+" outside the commitLog branch: a snapshot dump would alter the live tree")
			default:
				q := &pathQ{fn: fn, fromEntry: true, to: func(x ssa.Instruction) bool { return x == in }, barrier: mutGuard(root)}
				c.check(q.bypass() == nil, r, construct, c.pos(in.Pos()), "dominated by the mut==true edge of the written node",
					fmt.Sprintf("%s of shared node field %s (object %s) without copy: not fresh, not under a mutated() guard, not an in-place mutator", what, touched, desc(root)))
			}
		}
		// deep-copy rule: leafValue objects are mutated in place by their owning leaf, so a leaf under
		// construction must not adopt the leafValue pointers of a node that may be shared with snapshots
		private := func(v ssa.Value) bool {
			root, _ := rootOf(v)
			return isFreshObj(root) || (mutRecv[top] && isReceiverOf(root, fn))
		}
		adopt := func(in ssa.Instruction, dst, src ssa.Value, what string) {
			droot, dfields := rootOf(dst)
			touches := false
			for _, f := range dfields {
				if f == "leafNode.values" {
					touches = true
				}
			}
			if !touches || !isFreshObj(droot) {
				return
			}
			nw++
			perKey["adopt"]++
			construct := fmt.Sprintf("%s:%s:leafNode.values-elements#%d", fnName(fn), what, perKey["adopt"])
			c.check(private(src), r+"/deep-copy", construct, c.pos(in.Pos()), "elements come from fresh leafValue objects or from a private node",
				"a new leaf adopts the *leafValue objects of "+desc(src)+", which may still be referenced by snapshots: later in-place updates would alter those snapshots")
		}
		for _, b := range fn.Blocks {
			for _, in := range b.Instrs {
				switch x := in.(type) {
				case *ssa.Store:
					if ia, ok := x.Addr.(*ssa.IndexAddr); ok {
						adopt(in, ia, x.Val, "element-store")
					}
					if f, base := fieldOf(x.Addr); f == "leafNode.values" && isFreshObj(base) {
						// composite literal `values: <expr>`: a slice taken from another node
						if _, isMake := x.Val.(*ssa.MakeSlice); !isMake {
							nw++
							perKey["adopt"]++
							construct := fmt.Sprintf("%s:literal:leafNode.values#%d", fnName(fn), perKey["adopt"])
							c.check(private(x.Val), r+"/deep-copy", construct, c.pos(in.Pos()), "slice comes from a private node", "a new leaf is built on the values slice of "+desc(x.Val)+", which may be shared with snapshots")
						}
					}
					checkWrite(in, x.Addr, "store")
				case *ssa.Call:
					if bi, ok := x.Call.Value.(*ssa.Builtin); ok && bi.Name() == "copy" && len(x.Call.Args) == 2 {
						adopt(in, x.Call.Args[0], x.Call.Args[1], "copy")
						checkWrite(in, x.Call.Args[0], "copy-into")
					}
				}
			}
		}
		// calls of in-place mutators
		for i, in := range sites(fn, func(x ssa.Instruction) bool {
			cc := callOf(x)
			return cc != nil && mutRecv[calleeName(cc)]
		}) {
			cc := callOf(in)
			recv, _ := rootOf(cc.Args[0])
			construct := fmt.Sprintf("%s:calls:%s#%d", fnName(fn), lastSeg(calleeName(cc)), i)
			switch {
			case isFreshObj(recv):
				c.ok(r, construct, c.pos(in.Pos()), "receiver freshly allocated by the caller")
			case mutRecv[top] && isReceiverOf(recv, fn):
				c.ok(r, construct, c.pos(in.Pos()), "caller is itself an in-place mutator of the same receiver")
			default:
				q := &pathQ{fn: fn, fromEntry: true, to: func(x ssa.Instruction) bool { return x == in }, barrier: mutGuard(recv)}
				c.check(q.bypass() == nil, r, construct, c.pos(in.Pos()), "dominated by the mutated()==true edge of the receiver",
					"in-place mutator "+calleeName(cc)+" is called on a node that may be shared with snapshots ("+desc(recv)+")")
			}
		}
	}
	c.count("cow_writes", nw)
	if nw < 20 {
		c.undecided(r, "floor", fmt.Sprintf("expected >=20 writes to logical node fields, found %d", nw))
	}
	for m := range mutRecv {
		if c.fn(m) == nil {
			c.undecided(r, m, "in-place mutator does not resolve")
		}
	}

	// ---- C10.1 copies carry every field ---------------------------------------------------------------
	// a node or leaf value built as a copy of another one (some field initialised from the same field of
	// another object of the same type) must initialise every field of the type: a field left at its zero value
	// silently drops part of the logical content (the history pointers hOff/hCount of a leaf value)
	rc := pfx + "/copy-carries-every-field"
	ncopies := 0
	for _, fn := range c.allFns {
		if !fnInPkgs(fn, tbPkgs) || len(fn.Blocks) == 0 {
			continue
		}
		ord := 0
		allInstrs(fn, false, func(in ssa.Instruction) {
			a, ok := in.(*ssa.Alloc)
			if !ok || !a.Heap {
				return
			}
			st := structName(a.Type())
			// nodes (leafNode/innerNode) are excluded on purpose: their _ts/_minOff are derived and recomputed by
			// updateTs after construction, so "every field initialised" is not a necessary condition for them
			if st != "leafValue" {
				return
			}
			stype, _ := a.Type().Underlying().(*types.Pointer).Elem().Underlying().(*types.Struct)
			if stype == nil {
				return
			}
			set := map[string]bool{}
			isCopy := false
			for _, ref := range *a.Referrers() {
				fa, ok := ref.(*ssa.FieldAddr)
				if !ok {
					continue
				}
				name := stype.Field(fa.Field).Name()
				for _, r2 := range *fa.Referrers() {
					sto, ok := r2.(*ssa.Store)
					if !ok || sto.Addr != fa {
						continue
					}
					set[name] = true
					// value is a load of the same field of another object of this type
					if ld, ok := sto.Val.(*ssa.UnOp); ok && ld.Op == token.MUL {
						if sfa, ok := ld.X.(*ssa.FieldAddr); ok && structName(sfa.X.Type()) == st && sfa.Field == fa.Field && sfa.X != ssa.Value(a) {
							isCopy = true
						}
					}
				}
			}
			if !isCopy {
				return
			}
			ncopies++
			ord++
			for i := 0; i < stype.NumFields(); i++ {
				name := stype.Field(i).Name()
				if why, ok := c10CopyExempt[st+"."+name]; ok {
					c.okTrivial(rc, fmt.Sprintf("%s:%s#%d:%s", fnName(fn), st, ord, name), c.pos(a.Pos()), "exempt: "+why)
					continue
				}
				c.check(set[name], rc, fmt.Sprintf("%s:%s#%d:%s", fnName(fn), st, ord, name), c.pos(a.Pos()), "field is carried over or re-initialised",
					fmt.Sprintf("a %s is built as a copy of another one but its field %s is left at the zero value", st, name))
			}
		})
	}
	if ncopies < 2 {
		c.undecided(rc, "floor", fmt.Sprintf("%d copy sites of tree nodes found (2 leaf-value copies confirmed by hand)", ncopies))
	}

}

// dependsOnMem: like dependsOn, and a load of an element of a locally made slice depends on every value stored into
// an element of that slice.
func dependsOnMem(v ssa.Value, p func(ssa.Value) bool) bool {
	seen := map[ssa.Value]bool{}
	var walk func(x ssa.Value, d int) bool
	walk = func(x ssa.Value, d int) bool {
		if x == nil || seen[x] || d > 14 {
			return false
		}
		seen[x] = true
		if p(x) {
			return true
		}
		if ld, ok := x.(*ssa.UnOp); ok && ld.Op == token.MUL {
			if ia, ok := ld.X.(*ssa.IndexAddr); ok {
				if ms, ok := ia.X.(*ssa.MakeSlice); ok {
					for _, r := range *ms.Referrers() {
						if ia2, ok := r.(*ssa.IndexAddr); ok {
							for _, r2 := range *ia2.Referrers() {
								if st, ok := r2.(*ssa.Store); ok && st.Addr == ia2 && walk(st.Val, d+1) {
									return true
								}
							}
						}
					}
					return false
				}
			}
		}
		if in, ok := x.(ssa.Instruction); ok {
			for _, op := range in.Operands(nil) {
				if *op != nil && walk(*op, d+1) {
					return true
				}
			}
		}
		return false
	}
	return walk(v, 0)
}

// c10SubtreeMinOffset: what an inner node records (and reports to its parent) as the lowest offset its subtree still
// needs is the minimum over the children's SUBTREE minima, the second result of their writeTo - not over the offsets
// of the children themselves (the two coincide only one level above the leaves). The value decides which files of the
// nodes log a synced flush discards: too high, and files holding live leaves of a deep tree are removed.
func c10SubtreeMinOffset(c *Ctx, r string) {
	f := c.mustFn(r, "embedded/tbtree.(*innerNode).writeTo")
	if f == nil {
		return
	}
	childMin := func(v ssa.Value) bool {
		ex, ok := v.(*ssa.Extract)
		if !ok || ex.Index != 1 {
			return false
		}
		cl, ok := ex.Tuple.(*ssa.Call)
		return ok && cl.Call.IsInvoke() && cl.Call.Method.Name() == "writeTo"
	}
	childOff := func(v ssa.Value) bool {
		ex, ok := v.(*ssa.Extract)
		if !ok || ex.Index != 0 {
			return false
		}
		cl, ok := ex.Tuple.(*ssa.Call)
		return ok && cl.Call.IsInvoke() && cl.Call.Method.Name() == "writeTo"
	}
	n := 0
	chk := func(what string, v ssa.Value, pos token.Pos) {
		n++
		okMin := dependsOnMem(v, childMin)
		viaOff := dependsOnMem(v, childOff)
		c.check(okMin, r, fnName(f)+":"+what, c.pos(pos), "computed from the children's subtree minima",
			"the subtree minimum ("+what+") is "+map[bool]string{true: "computed from the offsets of the children themselves", false: "not computed from the children's subtree minima"}[viaOff]+": for a tree deeper than two levels it is too high, and a synced flush discards files of the nodes log that still hold live leaves")
	}
	for _, st := range sites(f, storeTo("innerNode._minOff")) {
		chk("n._minOff", st.(*ssa.Store).Val, st.Pos())
	}
	for _, b := range f.Blocks {
		if len(b.Instrs) == 0 {
			continue
		}
		rt, ok := b.Instrs[len(b.Instrs)-1].(*ssa.Return)
		if !ok || retKind(rt) == "fail" || len(rt.Results) != 5 {
			continue
		}
		v := unspill(rt.Results[1], rt)
		if fl, _ := fieldOf(v); fl == "innerNode._minOff" {
			continue // nothing written: the recorded value is reported
		}
		chk("returned minOff", v, rt.Pos())
	}
	if n < 2 {
		c.undecided(r, "floor", fmt.Sprintf("%d uses of the subtree minimum found in innerNode.writeTo", n))
	}
}

// c10SeekBoundary: an inner node sends a key to the LAST child whose minimum key is <= the key: a child whose minimum
// key EQUALS the key sought holds it. Every comparison between the key sought and a child's minimum key in the
// descent therefore falls, on equality, on the side of the child that key belongs to:
//   - minimum key of the child the descent enters: the descent is under the edge taken on equality;
//   - minimum key of the NEXT child (the ascending walk looks one child ahead): the descent into the current child is
//     under the edge not taken on equality.
func c10SeekBoundary(c *Ctx, r string) {
	f := c.mustFn(r, "embedded/tbtree.(*innerNode).findLeafNode")
	if f == nil {
		return
	}
	idxOfChild := func(v ssa.Value) (string, bool) { // v = *(&nodes[idx])
		ld, ok := v.(*ssa.UnOp)
		if !ok || ld.Op != token.MUL {
			return "", false
		}
		ia, ok := ld.X.(*ssa.IndexAddr)
		if !ok || !hasFieldSuffix(desc(ia.X), "nodes") {
			return "", false
		}
		return desc(ia.Index), true
	}
	type descend struct {
		in  ssa.Instruction
		idx string
	}
	var ds []descend
	allInstrs(f, false, func(in ssa.Instruction) {
		cl, ok := in.(*ssa.Call)
		if !ok || !cl.Call.IsInvoke() || cl.Call.Method.Name() != "findLeafNode" {
			return
		}
		if ix, ok := idxOfChild(cl.Call.Value); ok {
			ds = append(ds, descend{in, ix})
		}
	})
	n := 0
	allInstrs(f, false, func(in ssa.Instruction) {
		bo, ok := in.(*ssa.BinOp)
		if !ok {
			return
		}
		cmp, ok := bo.X.(*ssa.Call)
		k, okK := bo.Y.(*ssa.Const)
		if !ok || !okK || calleeName(&cmp.Call) != "bytes.Compare" || k.Value == nil {
			return
		}
		kv, _ := constant.Int64Val(k.Value)
		var atEq bool
		switch bo.Op {
		case token.LSS:
			atEq = 0 < kv
		case token.LEQ:
			atEq = 0 <= kv
		case token.GTR:
			atEq = 0 > kv
		case token.GEQ:
			atEq = 0 >= kv
		case token.EQL:
			atEq = 0 == kv
		case token.NEQ:
			atEq = 0 != kv
		default:
			return
		}
		// operands: one is the key sought (a []byte parameter named by its role: the first parameter), the other a minKey()
		var childIdx string
		seek := false
		for _, a := range cmp.Call.Args {
			if p, ok := a.(*ssa.Parameter); ok && len(f.Params) > 1 && p == f.Params[1] {
				seek = true
			}
			if mk, ok := a.(*ssa.Call); ok && mk.Call.IsInvoke() && mk.Call.Method.Name() == "minKey" {
				if ix, ok := idxOfChild(mk.Call.Value); ok {
					childIdx = ix
				}
			}
		}
		if !seek || childIdx == "" {
			return
		}
		var ifi *ssa.If
		for _, rf := range *bo.Referrers() {
			if x, ok := rf.(*ssa.If); ok {
				ifi = x
			}
		}
		if ifi == nil {
			return
		}
		eqSucc := 1
		if atEq {
			eqSucc = 0
		}
		// the descent this comparison decides: the nearest one below it
		for _, d := range ds {
			if !(ifi.Block().Dominates(d.in.Block())) {
				continue
			}
			same := d.idx == childIdx
			n++
			construct := fmt.Sprintf("%s:seek-vs-minKey#%d", fnName(f), n)
			want := eqSucc
			if !same {
				want = 1 - eqSucc
			}
			c.check(edgeDominates(ifi.Block(), want, d.in.Block()), r, construct, c.pos(bo.Pos()), "a key equal to a child's minimum key is sent to that child",
				map[bool]string{true: "a child whose minimum key equals the key sought is passed over: the reader starts at its predecessor (or finds nothing when it is the smallest key)", false: "a key equal to the next child's minimum key is sent to the current child, which does not hold it"}[same])
		}
	})
	if n < 2 {
		c.undecided(r, "floor", fmt.Sprintf("%d comparisons between the key sought and a child's minimum key found (2 confirmed by hand: descending and ascending walk)", n))
	}
}

// c10FailedInsertRestoresItsOwnStart: an insertion that fails half way has changed (mutable) nodes in place; the tree is
// then put back to a previous root. What the map must equal afterwards is the state BEFORE THAT insertion: every earlier
// insertion was acknowledged. A root kept from the last snapshot/flush is older than that whenever something was
// inserted since: restoring it silently drops those insertions.
func c10FailedInsertRestoresItsOwnStart(c *Ctx, r string) {
	f := c.mustFn(r, "embedded/tbtree.(*TBtree).bulkInsert")
	if f == nil {
		return
	}
	n := 0
	for i, st := range sites(f, storeTo("TBtree.root")) {
		v := st.(*ssa.Store).Val
		old := dependsOn(v, func(x ssa.Value) bool {
			u, ok := x.(*ssa.UnOp)
			if !ok || u.Op != token.MUL {
				return false
			}
			fl, _ := fieldOf(u.X)
			return fl == "TBtree.lastSnapRoot"
		})
		if !old {
			continue
		}
		n++
		c.fail(r, fmt.Sprintf("%s:restores-lastSnapRoot#%d", fnName(f), i), c.pos(st.Pos()), "after a failed insertion the tree is put back to the root of the last snapshot: insertions acknowledged since that snapshot are dropped with the failed one")
	}
	if n == 0 {
		c.ok(r, fnName(f)+":restores-lastSnapRoot", c.pos(f.Pos()), "a failed insertion does not fall back to an older snapshot root")
	}
}
