package main

import (
	"fmt"
	"go/constant"
	"go/token"
	"go/types"
	"strings"

	"golang.org/x/tools/go/ssa"
)

func short(s string) string { return strings.ReplaceAll(s, modPrefix, "") }

// fnName gives a stable short name: "embedded/store.(*ImmuStore).sync", "embedded/store.Open",
// closures as "<parent>$1".
func fnName(fn *ssa.Function) string {
	if fn == nil {
		return "<nil>"
	}
	if fn.Parent() != nil {
		// closure: parent$N
		n := fn.Name()
		if i := strings.LastIndex(n, "$"); i >= 0 {
			n = n[i:]
		}
		return fnName(fn.Parent()) + n
	}
	if o := fn.Origin(); o != nil {
		fn = o
	}
	if recv := fn.Signature.Recv(); recv != nil {
		t := recv.Type()
		ptr := ""
		if p, ok := t.(*types.Pointer); ok {
			t = p.Elem()
			ptr = "*"
		}
		if n, ok := t.(*types.Named); ok && n.Obj().Pkg() != nil {
			return short(n.Obj().Pkg().Path()) + ".(" + ptr + n.Obj().Name() + ")." + fn.Name()
		}
		if n, ok := t.(*types.Named); ok {
			return "(" + ptr + n.Obj().Name() + ")." + fn.Name()
		}
	}
	if fn.Pkg != nil {
		return short(fn.Pkg.Pkg.Path()) + "." + fn.Name()
	}
	return short(fn.String())
}

// topFn returns the outermost enclosing named function of fn.
func topFn(fn *ssa.Function) *ssa.Function {
	for fn.Parent() != nil {
		fn = fn.Parent()
	}
	return fn
}

// fn resolves a function by its short name, e.g. "embedded/store.(*ImmuStore).sync" or
// "embedded/store.Open". Unresolved anchors are reported as undecided by the caller.
func (c *Ctx) fn(name string) *ssa.Function {
	// split package path and member
	var pkgPath, rest string
	if i := strings.Index(name, ".("); i >= 0 {
		pkgPath, rest = name[:i], name[i+1:]
	} else {
		i := strings.LastIndex(name, ".")
		pkgPath, rest = name[:i], name[i+1:]
	}
	full := pkgPath
	if !strings.Contains(pkgPath, ".") || strings.HasPrefix(pkgPath, "embedded/") || strings.HasPrefix(pkgPath, "pkg/") || strings.HasPrefix(pkgPath, "cmd/") {
		if _, ok := c.byPath[modPrefix+pkgPath]; ok {
			full = modPrefix + pkgPath
		}
	}
	pp, ok := c.byPath[full]
	if !ok {
		return nil
	}
	sp := c.Prog.Package(pp.Types)
	if sp == nil {
		return nil
	}
	if strings.HasPrefix(rest, "(") {
		// (*T).m or (T).m
		j := strings.Index(rest, ").")
		recv, m := rest[1:j], rest[j+2:]
		ptr := strings.HasPrefix(recv, "*")
		recv = strings.TrimPrefix(recv, "*")
		tobj := pp.Types.Scope().Lookup(recv)
		if tobj == nil {
			return nil
		}
		var t types.Type = tobj.Type()
		if ptr {
			t = types.NewPointer(t)
		}
		ms := c.Prog.MethodSets.MethodSet(t)
		for i := 0; i < ms.Len(); i++ {
			sel := ms.At(i)
			if sel.Obj().Name() == m {
				return c.Prog.MethodValue(sel)
			}
		}
		return nil
	}
	return sp.Func(rest)
}

// mustFn resolves or records an undecided obligation.
func (c *Ctx) mustFn(rule, name string) *ssa.Function {
	f := c.fn(name)
	if f == nil || len(f.Blocks) == 0 {
		c.undecided(rule, name, "anchor function does not resolve in the loaded program (renamed or removed?)")
		return nil
	}
	return f
}

// allInstrs iterates instructions of fn, and (optionally) of closures defined in it.
func allInstrs(fn *ssa.Function, withClosures bool, f func(ssa.Instruction)) {
	for _, b := range fn.Blocks {
		for _, in := range b.Instrs {
			f(in)
		}
	}
	if withClosures {
		for _, a := range fn.AnonFuncs {
			allInstrs(a, true, f)
		}
	}
}

// calleeName returns the short name of the callee of a call: static function name, or for
// interface dispatch "(<iface type>).Method", or "" for dynamic function values.
func calleeName(cc *ssa.CallCommon) string {
	if cc.IsInvoke() {
		return "(" + short(cc.Value.Type().String()) + ")." + cc.Method.Name()
	}
	if f := cc.StaticCallee(); f != nil {
		if f.Origin() != nil {
			return fnName(f.Origin())
		}
		return fnName(f)
	}
	if b, ok := cc.Value.(*ssa.Builtin); ok {
		return "builtin." + b.Name()
	}
	return ""
}

// callOf returns the CallCommon if instr is a call / go / defer.
func callOf(in ssa.Instruction) *ssa.CallCommon {
	if ci, ok := in.(ssa.CallInstruction); ok {
		return ci.Common()
	}
	return nil
}

// recvOf returns the receiver value of a method call (invoke or static method), or nil.
func recvOf(cc *ssa.CallCommon) ssa.Value {
	if cc.IsInvoke() {
		return cc.Value
	}
	if f := cc.StaticCallee(); f != nil && f.Signature.Recv() != nil && len(cc.Args) > 0 {
		return cc.Args[0]
	}
	return nil
}

func structName(t types.Type) string {
	for {
		if p, ok := t.(*types.Pointer); ok {
			t = p.Elem()
			continue
		}
		break
	}
	if n, ok := t.(*types.Named); ok {
		return n.Obj().Name()
	}
	return short(t.String())
}

func fieldName(t types.Type, idx int) string {
	for {
		if p, ok := t.(*types.Pointer); ok {
			t = p.Elem()
			continue
		}
		break
	}
	st, ok := t.Underlying().(*types.Struct)
	if !ok || idx >= st.NumFields() {
		return fmt.Sprintf("#%d", idx)
	}
	return st.Field(idx).Name()
}

// fieldOf: if v is the address of, or a load of, a struct field, returns "T.f" and the base value.
func fieldOf(v ssa.Value) (string, ssa.Value) {
	switch x := v.(type) {
	case *ssa.FieldAddr:
		return structName(x.X.Type()) + "." + fieldName(x.X.Type(), x.Field), x.X
	case *ssa.Field:
		return structName(x.X.Type()) + "." + fieldName(x.X.Type(), x.Field), x.X
	case *ssa.UnOp:
		if x.Op == token.MUL {
			if fa, ok := x.X.(*ssa.FieldAddr); ok {
				return fieldOf(fa)
			}
		}
	}
	return "", nil
}

// desc gives a canonical, position-free description of an SSA value, used to match guard
// operands and argument provenance against the rule tables.
func desc(v ssa.Value) string {
	descBudget = 400
	return descD(v, 0)
}

// descBudget bounds the number of nodes one description may expand (phi-rich values explode otherwise).
var descBudget int

func descD(v ssa.Value, d int) string {
	if v == nil {
		return "nil"
	}
	if d > 8 {
		return "…"
	}
	descBudget--
	if descBudget < 0 {
		return "…"
	}
	switch x := v.(type) {
	case *ssa.Const:
		if x.Value == nil {
			return "nil"
		}
		if x.Value.Kind() == constant.String {
			return "const:" + x.Value.ExactString()
		}
		return "const:" + x.Value.String()
	case *ssa.Parameter:
		return "param:" + x.Name()
	case *ssa.FreeVar:
		return "free:" + x.Name()
	case *ssa.Global:
		return "global:" + x.Name()
	case *ssa.Function:
		return "func:" + fnName(x)
	case *ssa.FieldAddr:
		return "&" + descD(x.X, d+1) + "." + fieldName(x.X.Type(), x.Field)
	case *ssa.Field:
		return descD(x.X, d+1) + "." + fieldName(x.X.Type(), x.Field)
	case *ssa.UnOp:
		switch x.Op {
		case token.MUL:
			if fa, ok := x.X.(*ssa.FieldAddr); ok {
				return descD(fa.X, d+1) + "." + fieldName(fa.X.Type(), fa.Field)
			}
			if g, ok := x.X.(*ssa.Global); ok {
				return "global:" + g.Name()
			}
			if a, ok := x.X.(*ssa.Alloc); ok {
				// a parameter captured by a closure is spilled to an alloc initialised from the parameter:
				// describe it as the parameter so that capturing it does not change any atom
				for _, r := range *a.Referrers() {
					if st, ok := r.(*ssa.Store); ok && st.Addr == a {
						if p, ok := st.Val.(*ssa.Parameter); ok && p.Name() == a.Comment {
							return "param:" + a.Comment
						}
					}
				}
				return "local:" + a.Comment
			}
			return "*" + descD(x.X, d+1)
		case token.NOT:
			return "!" + descD(x.X, d+1)
		case token.SUB:
			return "-" + descD(x.X, d+1)
		case token.ARROW:
			return "<-" + descD(x.X, d+1)
		}
		return x.Op.String() + descD(x.X, d+1)
	case *ssa.BinOp:
		return "(" + descD(x.X, d+1) + " " + x.Op.String() + " " + descD(x.Y, d+1) + ")"
	case *ssa.Call:
		n := calleeName(&x.Call)
		if n == "" {
			n = "dyn:" + descD(x.Call.Value, d+1)
		}
		if r := recvOf(&x.Call); r != nil {
			return "call:" + n + "[" + descD(r, d+1) + "]"
		}
		if strings.HasPrefix(n, "builtin.len") && len(x.Call.Args) == 1 {
			return "len(" + descD(x.Call.Args[0], d+1) + ")"
		}
		if len(x.Call.Args) > 0 && len(x.Call.Args) <= 3 && !strings.HasPrefix(n, "dyn:") {
			var as []string
			for _, a := range x.Call.Args {
				as = append(as, descD(a, d+2))
			}
			return "call:" + n + "(" + strings.Join(as, ",") + ")"
		}
		return "call:" + n
	case *ssa.Extract:
		return descD(x.Tuple, d+1) + "#" + fmt.Sprint(x.Index)
	case *ssa.Convert:
		return descD(x.X, d+1)
	case *ssa.ChangeType:
		return descD(x.X, d+1)
	case *ssa.ChangeInterface:
		return descD(x.X, d+1)
	case *ssa.MakeInterface:
		return descD(x.X, d+1)
	case *ssa.TypeAssert:
		return descD(x.X, d+1)
	case *ssa.Alloc:
		return "alloc:" + x.Comment
	case *ssa.Phi:
		var parts []string
		for _, e := range x.Edges {
			if e == v {
				continue
			}
			parts = append(parts, descD(e, d+5))
		}
		return "phi(" + strings.Join(parts, "|") + ")"
	case *ssa.IndexAddr:
		return "&" + descD(x.X, d+1) + "[" + descD(x.Index, d+1) + "]"
	case *ssa.Index:
		return descD(x.X, d+1) + "[" + descD(x.Index, d+1) + "]"
	case *ssa.Lookup:
		return descD(x.X, d+1) + "[" + descD(x.Index, d+1) + "]"
	case *ssa.Slice:
		return descD(x.X, d+1) + "[:]"
	case *ssa.MakeClosure:
		return "closure:" + fnName(x.Fn.(*ssa.Function))
	case *ssa.MakeSlice:
		return "make"
	case *ssa.MakeMap:
		return "makemap"
	}
	return fmt.Sprintf("%T", v)
}

// descNoBase strips the leading base ("param:s.", "local:x.") so that "param:s.opts.synced"
// can be matched as a field path suffix.
func hasFieldSuffix(d, suffix string) bool {
	return d == suffix || strings.HasSuffix(d, "."+suffix) || d == "param:"+suffix || d == "local:"+suffix || d == "free:"+suffix
}

// ---------------------------------------------------------------------------------------------
// site predicates

type sitePred func(ssa.Instruction) bool

// callTo matches calls (call, not go/defer unless includeDefer) whose callee short name equals
// one of names; a name may end with "*" for prefix match. An optional receiver description
// suffix can be given as "name@recvSuffix".
func callTo(names ...string) sitePred {
	return func(in ssa.Instruction) bool {
		if _, isDefer := in.(*ssa.Defer); isDefer {
			return false
		}
		if _, isGo := in.(*ssa.Go); isGo {
			return false
		}
		cc := callOf(in)
		if cc == nil {
			return false
		}
		return matchCall(cc, names)
	}
}

func matchCall(cc *ssa.CallCommon, names []string) bool {
	n := calleeName(cc)
	if n == "" {
		return false
	}
	for _, want := range names {
		recvWant := ""
		if i := strings.Index(want, "@"); i >= 0 {
			want, recvWant = want[:i], want[i+1:]
		}
		okName := false
		if strings.HasSuffix(want, "*") {
			okName = strings.HasPrefix(n, strings.TrimSuffix(want, "*"))
		} else {
			okName = n == want
		}
		if !okName {
			continue
		}
		if recvWant == "" {
			return true
		}
		if r := recvOf(cc); r != nil && hasFieldSuffix(desc(r), recvWant) {
			return true
		}
		// pointer receivers on embedded struct fields: &s.f
		if r := recvOf(cc); r != nil && hasFieldSuffix(strings.TrimPrefix(desc(r), "&"), recvWant) {
			return true
		}
	}
	return false
}

// storeTo matches stores to a struct field "T.f".
func storeTo(fields ...string) sitePred {
	return func(in ssa.Instruction) bool {
		st, ok := in.(*ssa.Store)
		if !ok {
			return false
		}
		f, _ := fieldOf(st.Addr)
		for _, w := range fields {
			if f == w {
				return true
			}
		}
		return false
	}
}

func anyOf(ps ...sitePred) sitePred {
	return func(in ssa.Instruction) bool {
		for _, p := range ps {
			if p(in) {
				return true
			}
		}
		return false
	}
}

func isReturn(in ssa.Instruction) bool { _, ok := in.(*ssa.Return); return ok }

// sites collects instructions of fn (not closures) matching p.
func sites(fn *ssa.Function, p sitePred) []ssa.Instruction {
	var out []ssa.Instruction
	for _, b := range fn.Blocks {
		for _, in := range b.Instrs {
			if p(in) {
				out = append(out, in)
			}
		}
	}
	return out
}

func idxIn(in ssa.Instruction) int {
	for i, x := range in.Block().Instrs {
		if x == in {
			return i
		}
	}
	return -1
}

// errResult returns the error-typed result value of a call instruction (the call itself when
// it returns a single error, or the Extract of the last tuple element of type error).
func errResults(call *ssa.Call) []ssa.Value {
	sig := call.Call.Signature()
	res := sig.Results()
	if res.Len() == 0 {
		return nil
	}
	last := res.At(res.Len() - 1).Type()
	if !isErrorType(last) {
		return nil
	}
	if res.Len() == 1 {
		return []ssa.Value{call}
	}
	var out []ssa.Value
	for _, r := range *call.Referrers() {
		if e, ok := r.(*ssa.Extract); ok && e.Index == res.Len()-1 {
			out = append(out, e)
		}
	}
	return out
}

func isErrorType(t types.Type) bool {
	n, ok := t.(*types.Named)
	return ok && n.Obj().Pkg() == nil && n.Obj().Name() == "error"
}
