package main

import (
	"fmt"
	"go/token"
	"go/types"
	"strings"

	"golang.org/x/tools/go/ssa"
)

// argName: the identifier a call argument is read from: a struct field, a parameter or a captured variable.
func argName(v ssa.Value) string {
	switch x := v.(type) {
	case *ssa.Parameter:
		return x.Name()
	case *ssa.FreeVar:
		return x.Name()
	case *ssa.UnOp:
		if x.Op == token.MUL {
			if fa, ok := x.X.(*ssa.FieldAddr); ok {
				return fieldName(fa.X.Type(), fa.Field)
			}
			if fv, ok := x.X.(*ssa.FreeVar); ok {
				return fv.Name()
			}
		}
	case *ssa.Field:
		return fieldName(x.X.Type(), x.Field)
	}
	return ""
}

// ruleNoSwappedArgs: a call that passes, at position i, a variable or field carrying the name of the callee's
// parameter j (j != i, same type) and at position j one carrying the name of parameter i hands two same-typed flags
// over in the wrong order; with bool/int flags the compiler and any test using equal values for both cannot notice.
// `only` restricts the callees (nil: every callee with at least two parameters of one type).
func (c *Ctx) ruleNoSwappedArgs(rule string, pkgs []string, only func(callee string) bool) int {
	n := 0
	for _, fn := range c.allFns {
		if !fnInPkgs(fn, pkgs) || len(fn.Blocks) == 0 {
			continue
		}
		per := map[string]int{}
		allInstrs(fn, false, func(in ssa.Instruction) {
			cc := callOf(in)
			if cc == nil {
				return
			}
			var sig *types.Signature
			args := cc.Args
			name := calleeName(cc)
			if cc.IsInvoke() {
				sig, _ = cc.Method.Type().(*types.Signature)
			} else if sc := cc.StaticCallee(); sc != nil {
				sig = sc.Signature
				if sig.Recv() != nil && len(args) > 0 {
					args = args[1:]
				}
			}
			if sig == nil || sig.Params().Len() != len(args) || sig.Variadic() {
				return
			}
			if only != nil && !only(name) {
				return
			}
			ps := sig.Params()
			considered := false
			for i := 0; i < ps.Len(); i++ {
				an := strings.ToLower(argName(args[i]))
				if an == "" {
					continue
				}
				pi := strings.ToLower(ps.At(i).Name())
				if pi == "" || pi == "_" {
					continue
				}
				for j := 0; j < ps.Len(); j++ {
					if j == i || !types.Identical(ps.At(i).Type(), ps.At(j).Type()) {
						continue
					}
					considered = true
					pj := strings.ToLower(ps.At(j).Name())
					if an == pj && an != pi && strings.ToLower(argName(args[j])) == pi {
						per[name]++
						c.fail(rule, fmt.Sprintf("%s:calls:%s#%d:arg%d", fnName(fn), name, per[name], i), c.pos(in.Pos()),
							fmt.Sprintf("argument %d (%s) is read from `%s`, which is the name of parameter %d (%s) of the same type: the two are handed over in the wrong order", i, ps.At(i).Name(), argName(args[i]), j, ps.At(j).Name()))
					}
				}
			}
			if considered {
				n++
			}
		})
	}
	return n
}

func init() {
	register("DBGSWAP", &propDef{patterns: []string{"./..."}, run: func(c *Ctx) {
		var pk []string
		for p := range c.byPath {
			pk = append(pk, strings.TrimPrefix(p, modPrefix))
		}
		n := c.ruleNoSwappedArgs("DBG/swap", pk, nil)
		fmt.Println("calls considered", n)
	}})
}
