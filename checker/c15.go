package main

import (
	"go/constant"
	"fmt"
	"go/ast"
	"go/token"
	"go/types"
	"os"
	"sort"
	"strings"

	"golang.org/x/tools/go/ssa"
)

// limitComparisons: for constant `name` of package pkg, every comparison of an expression with it, oriented as
// "<expr> OP const", keyed by the enclosing function.
func (c *Ctx) limitComparisons(pkg, name string) map[string][]string {
	out := map[string][]string{}
	pp, ok := c.byPath[modPrefix+pkg]
	if !ok {
		return out
	}
	obj := pp.Types.Scope().Lookup(name)
	if obj == nil {
		return out
	}
	flip := map[token.Token]token.Token{token.LSS: token.GTR, token.GTR: token.LSS, token.LEQ: token.GEQ, token.GEQ: token.LEQ, token.EQL: token.EQL, token.NEQ: token.NEQ}
	for _, f := range pp.Syntax {
		if strings.HasSuffix(c.Fset.Position(f.Pos()).Filename, "_test.go") {
			continue
		}
		for _, d := range f.Decls {
			fd, ok := d.(*ast.FuncDecl)
			if !ok || fd.Body == nil {
				continue
			}
			fname := fd.Name.Name
			if fd.Recv != nil && len(fd.Recv.List) > 0 {
				fname = types.ExprString(fd.Recv.List[0].Type) + "." + fname
			}
			ast.Inspect(fd.Body, func(n ast.Node) bool {
				be, ok := n.(*ast.BinaryExpr)
				if !ok {
					return true
				}
				if _, isCmp := flip[be.Op]; !isCmp {
					return true
				}
				isC := func(e ast.Expr) bool {
					id, ok := e.(*ast.Ident)
					return ok && pp.TypesInfo.Uses[id] == obj
				}
				switch {
				case isC(be.Y):
					out[fname] = append(out[fname], be.Op.String())
				case isC(be.X):
					out[fname] = append(out[fname], flip[be.Op].String())
				}
				return true
			})
		}
	}
	return out
}

// limit constants shared by an encoder-side check and a decoder-side check: both sides must draw the line at the
// same place (same operator once the constant is on the right-hand side)
var c15Limits = []struct{ pkg, name string }{
	{"embedded/store", "maxExtraLen"}, {"embedded/store", "maxKVMetadataLen"}, {"embedded/store", "maxTxMetadataLen"},
}

// widthTrace: the sequence (in source order) of fixed-width codec operations of fn: big-endian reads/writes,
// Reader.ReadUintN, and copies from/into fixed-size arrays.
func (c *Ctx) widthTrace(fn *ssa.Function) []string {
	type tok struct {
		pos token.Pos
		s   string
	}
	var toks []tok
	allInstrs(fn, true, func(in ssa.Instruction) {
		cl, ok := in.(*ssa.Call)
		if !ok || !in.Pos().IsValid() {
			return
		}
		n := calleeName(&cl.Call)
		switch {
		case strings.HasSuffix(n, "Uint16"):
			toks = append(toks, tok{in.Pos(), "u16"})
		case strings.HasSuffix(n, "Uint32"):
			toks = append(toks, tok{in.Pos(), "u32"})
		case strings.HasSuffix(n, "Uint64"):
			toks = append(toks, tok{in.Pos(), "u64"})
		case n == "builtin.copy":
			for _, a := range cl.Call.Args {
				var base ssa.Value = a
				if sl, ok := base.(*ssa.Slice); ok && sl.Low == nil && sl.High == nil {
					if ln, ok := arrayLen(sl.X.Type()); ok {
						toks = append(toks, tok{in.Pos(), fmt.Sprintf("a%d", ln)})
						return
					}
				}
			}
		}
	})
	sort.Slice(toks, func(i, j int) bool { return toks[i].pos < toks[j].pos })
	var out []string
	for _, t := range toks {
		out = append(out, t.s)
	}
	return out
}

func c15(c *Ctx) {
	if os.Getenv("C15_DISCOVER") != "" {
		for _, pk := range []string{"embedded/store", "embedded/sql", "embedded/tbtree", "embedded/appendable", "embedded/document"} {
			pp, ok := c.byPath[modPrefix+pk]
			if !ok {
				continue
			}
			for _, n := range pp.Types.Scope().Names() {
				if k, ok := pp.Types.Scope().Lookup(n).(*types.Const); ok && (strings.HasPrefix(strings.ToLower(n), "max") || strings.Contains(n, "Max")) {
					cm := c.limitComparisons(pk, n)
					if len(cm) > 0 {
						var fs []string
						for f, ops := range cm {
							fs = append(fs, f+":"+strings.Join(ops, ","))
						}
						sort.Strings(fs)
						fmt.Println(pk, n, k.Val(), fs)
					}
				}
			}
		}
		return
	}
	// ---- C15.1 layout agreement of sibling codecs ------------------------------------------------------------------
	r := "C15.1/layout-agreement"
	for _, pr := range [][2]string{
		{"embedded/store.(*TxHeader).Bytes", "embedded/store.(*TxHeader).ReadFrom"},
		{"embedded/tbtree.(*cLogEntry).serialize", "embedded/tbtree.(*cLogEntry).deserialize"},
		{"embedded/store.serializeIndexableEntry", "embedded/store.(*ImmuStore).valueRefFrom"},
		{"embedded/store.TxEntryDigest_v1_2", "embedded/store.EntrySpecDigest_v1"},
	} {
		a, b := c.mustFn(r, pr[0]), c.mustFn(r, pr[1])
		if a == nil || b == nil {
			continue
		}
		ta, tb := c.widthTrace(a), c.widthTrace(b)
		construct := lastSeg(pr[0]) + "~" + lastSeg(pr[1]) + ":" + pr[0]
		if len(ta) == 0 || len(tb) == 0 {
			c.undecided(r, construct, "no fixed-width operations found")
			continue
		}
		c.check(strings.Join(ta, " ") == strings.Join(tb, " "), r, construct, c.pos(b.Pos()), "both sides perform the same sequence of fixed-width fields: "+strings.Join(ta, " "),
			fmt.Sprintf("the two sides of the codec disagree on the field layout: %s does [%s], %s does [%s]", pr[0], strings.Join(ta, " "), pr[1], strings.Join(tb, " ")))
	}
	// tx record written by performPrecommit vs read by readHeader+readEntry: per-entry widths
	if w, rd := c.mustFn(r, storeT+"performPrecommit"), c.mustFn(r, "embedded/store.(*txDataReader).readEntry"); w != nil && rd != nil {
		tr := c.widthTrace(rd)
		c.check(strings.Join(tr, " ") == "u16 u16 u32 u64", r, "tx-entry-record:readEntry", c.pos(rd.Pos()), "entry record = mdLen(u16) md kLen(u16) key vLen(u32) vOff(u64) hVal", "readEntry reads the entry fields as ["+strings.Join(tr, " ")+"]")
		tw := strings.Join(c.widthTrace(w), " ")
		c.check(strings.Contains(tw, "u16 u16 u32 u64 a32"), r, "tx-entry-record:performPrecommit", c.pos(w.Pos()), "entry record written as u16 u16 u32 u64 + 32-byte digest", "performPrecommit writes the entry fields as ["+tw+"]")
	}

	// ---- C15.2 type switches of the SQL value codecs agree ----------------------------------------------------------
	r = "C15.2/type-coverage"
	cases := func(fnName string) map[string]bool {
		out := map[string]bool{}
		pp := c.byPath[modPrefix+"embedded/sql"]
		for _, f := range pp.Syntax {
			for _, d := range f.Decls {
				fd, ok := d.(*ast.FuncDecl)
				if !ok || fd.Body == nil || fd.Name.Name != fnName || fd.Recv != nil {
					continue
				}
				ast.Inspect(fd.Body, func(n ast.Node) bool {
					sw, ok := n.(*ast.SwitchStmt)
					if !ok {
						return true
					}
					if id, ok := sw.Tag.(*ast.Ident); !ok || id.Name != "colType" {
						return true
					}
					for _, st := range sw.Body.List {
						cc := st.(*ast.CaseClause)
						for _, e := range cc.List {
							if id, ok := e.(*ast.Ident); ok {
								out[id.Name] = true
							}
						}
					}
					return false
				})
			}
		}
		return out
	}
	ek, dk := cases("EncodeRawValueAsKey"), cases("DecodeValueFromKey")
	ev, dv := cases("EncodeRawValue"), cases("decodeValue")
	c.check(len(ek) >= 5 && sameSet(ek, dk), r, "key-codec:encode~decode", "", "same types: "+strings.Join(sortedKeys(ek), ","), fmt.Sprintf("EncodeRawValueAsKey handles %v but DecodeValueFromKey handles %v", sortedKeys(ek), sortedKeys(dk)))
	c.check(len(ev) >= 5 && sameSet(ev, dv), r, "value-codec:encode~decode", "", "same types: "+strings.Join(sortedKeys(ev), ","), fmt.Sprintf("EncodeRawValue handles %v but decodeValue handles %v", sortedKeys(ev), sortedKeys(dv)))
	for t := range ek {
		c.check(ev[t], r, "key-types-are-value-types:"+t, "", "indexable type is also storable", "type "+t+" can be encoded as a key but not as a row value")
	}
	nonKey := map[string]string{"JSONType": "JSON values are not indexable (CreateIndexStmt rejects them)"}
	for t := range ev {
		if !ek[t] {
			_, ok := nonKey[t]
			c.check(ok, r, "value-type-without-key-codec:"+t, "", "documented non-key type", "type "+t+" is storable but has no key encoding and is not a documented non-key type")
		}
	}

	// ---- C15.3 encoder and decoder draw limits at the same place ---------------------------------------------------------
	c15LimitAgreement(c, "C15.3/limit-agreement")

	// ---- C15.4 timestamps enter the engine at microsecond precision --------------------------------------------------------
	c15TimestampNormalised(c, "C15.4/timestamp-normalised")

	c15CursorAdvance(c, "C15.6/cursor-advance-matches-read", c16Decoders)
	// an exported transaction decodes back to the committed values only if the bytes appended to the export are the bytes
	// just read: the shared value buffer is used under its mutex (analysis shared with C07.8 / C14.1)
	c14ExportBuffer(c, "C15.8/export-carries-the-read-bytes")
	exprTextRule(c, "C15.9/expression-text-round-trips")
	c15PresenceGuardsOnly(c, "C15.10/conversion-guards-are-presence-tests")
	c15WireIntegersSignExtended(c, "C15.13/wire-integers-are-sign-extended")
	c15BinaryResultsCoverEveryType(c, "C15.14/binary-results-cover-every-type")
	c15TempRowCodec(c, "C15.15/sorted-rows-round-trip")
	c15LiteralsEscapeTheirDelimiter(c, "C15.16/string-literals-escape-their-delimiter")
	c15ValueUsedOnSuccessOnly(c, "C15.12/fallible-getter-value-used-on-success-only", func(f *ssa.Function) bool {
		// the converters between the store's types and their messages (module-wide the shape also matches partial results
		// such as the byte count of a failed Write, returned on purpose)
		if !fnInPkgs(f, []string{"pkg/api/schema"}) {
			return false
		}
		fn := c.Fset.Position(f.Pos()).Filename
		return !strings.HasSuffix(fn, ".pb.go") && !strings.HasSuffix(fn, ".pb.gw.go") && !strings.HasSuffix(fn, "_test.go")
	}, 3)
	c15NoLoopCarriedArgs(c, "C15.11/index-entry-carries-its-own-transaction-metadata", "embedded/store.(*indexer).indexSince", "embedded/store.serializeIndexableEntry", 2)
	// ---- C15.4 (keys) nanosecond keys are built only from timestamps that fit ----------------------------------------
	// the key codec holds UnixNano() in 8 bytes: outside 1677..2262 UnixNano is undefined and the key order is not the
	// value order; the conversion is dominated by a lower and an upper range test of the same value
	r4k := "C15.4/timestamp-key-in-range"
	if f := c.mustFn(r4k, "embedded/sql.EncodeRawValueAsKey"); f != nil {
		nanos := sites(f, callTo("time.(Time).UnixNano"))
		if len(nanos) == 0 {
			c.undecided(r4k, fnName(f)+":UnixNano", "no UnixNano conversion found")
		}
		for i, in := range nanos {
			in := in
			for _, side := range []string{"Before", "After"} {
				side := side
				inRange := whenCond(false, func(a string) bool { return strings.Contains(a, "time.(Time)."+side) })
				q := &pathQ{fn: f, fromEntry: true, to: func(x ssa.Instruction) bool { return x == in }, barrier: inRange}
				c.check(q.bypass() == nil, r4k, fmt.Sprintf("%s:UnixNano#%d:not-%s-limit", fnName(f), i, side), c.pos(in.Pos()), "dominated by the !"+side+"(limit) edge",
					"a timestamp is converted to nanoseconds for a key without a range test ("+side+"): values outside the int64 nanosecond range wrap around and are indexed out of order")
			}
		}
	}
	// ---- C15.7 a row decoder steps over a value by both numbers DecodeValueLength returns -------------------------
	// DecodeValueLength(b) returns the length of the value and the length of its length prefix; every row decoder
	// (server and client side siblings) advances by both; dropping one shifts every following column
	r7 := "C15.7/value-length-results-used"
	nv := 0
	for _, in := range c.callSites(callTo("embedded/sql.DecodeValueLength")) {
		call, ok := in.(*ssa.Call)
		if !ok {
			continue
		}
		nv++
		used := map[int]bool{}
		for _, ref := range *call.Referrers() {
			if ex, ok := ref.(*ssa.Extract); ok && len(*ex.Referrers()) > 0 {
				used[ex.Index] = true
			}
		}
		c.check(used[0] && used[1], r7, fmt.Sprintf("%s:DecodeValueLength#%d", fnName(in.Parent()), idxAmong(in, callTo("embedded/sql.DecodeValueLength"))), c.pos(in.Pos()),
			"value length and prefix length are both used", "one of the two lengths returned by DecodeValueLength is discarded: the cursor is advanced by the value or by its prefix only")
	}
	if nv < 3 {
		c.undecided(r7, "floor", fmt.Sprintf("%d DecodeValueLength call sites found", nv))
	}
	// ---- C15.3 (SQL keys): the length found in a key is compared with maxLen the way the encoder compares it ------
	// EncodeRawValueAsKey refuses len > maxLen, so a value of exactly maxLen bytes is encodable and must be decodable:
	// both sides test "exceeds" (maxLen < n), never "reaches" (n >= maxLen)
	r3 := "C15.3/limit-agreement"
	for _, name := range []string{"embedded/sql.EncodeRawValueAsKey", "embedded/sql.DecodeValueFromKey"} {
		f := c.mustFn(r3, name)
		if f == nil {
			continue
		}
		nm := 0
		allInstrs(f, false, func(in ssa.Instruction) {
			ifi, ok := in.(*ssa.If)
			if !ok {
				return
			}
			for _, leaf := range boolLeaves(ifi.Cond) {
				bo, ok := leaf.(*ssa.BinOp)
				if !ok {
					continue
				}
				a, _ := normCond(bo)
				if !strings.Contains(a, "param:maxLen") || !strings.Contains(a, " < ") {
					continue
				}
				l, rgt := desc(bo.X), desc(bo.Y)
				// only comparisons of maxLen with a length taken from the value / the key
				other := l
				if l == "param:maxLen" {
					other = rgt
				}
				if !strings.Contains(other, "len(") && !strings.Contains(other, "Uint32") {
					continue
				}
				if strings.Contains(other, "len(param:b)") || strings.Contains(other, "len(param:buf)") {
					continue // room checks on the buffer, not on the value
				}
				nm++
				c.check(strings.HasPrefix(a, "(param:maxLen < "), r3, fmt.Sprintf("%s:maxLen-vs-length#%d", fnName(f), nm), c.pos(bo.Pos()), "tests `length exceeds maxLen`: "+a,
					"the length is compared with maxLen as "+a+" (reaches, not exceeds): a value of exactly maxLen bytes is accepted by one side of the codec and rejected by the other")
			}
		})
	}
	// ---- C15.5 proto conversions of metadata carry every attribute -------------------------------------------------------------
	r = "C15.5/proto-conversion-coverage"
	for _, p := range []struct{ fn, pkg, typ string }{
		{"pkg/api/schema.KVMetadataFromProto", "pkg/api/schema", "KVMetadata"},
		{"pkg/api/schema.TxMetadataFromProto", "pkg/api/schema", "TxMetadata"},
	} {
		f := c.mustFn(r, p.fn)
		t := c.namedType(p.pkg, p.typ)
		if f == nil || t == nil {
			continue
		}
		ex := map[string]string{p.typ + ".state": "protobuf runtime field", p.typ + ".sizeCache": "protobuf runtime field", p.typ + ".unknownFields": "protobuf runtime field"}
		c.fieldsReadKeyed(r, lastSeg(p.fn), t, []*ssa.Function{f}, ex)
	}
	for _, p := range []struct {
		fn      string
		getters []string
	}{
		{"pkg/api/schema.KVMetadataToProto", []string{"Deleted", "IsExpirable", "NonIndexable"}},
		{"pkg/api/schema.TxMetadataToProto", []string{"GetTruncatedTxID", "Extra"}},
	} {
		f := c.mustFn(r, p.fn)
		if f == nil {
			continue
		}
		for _, g := range p.getters {
			found := false
			allInstrs(f, true, func(in ssa.Instruction) {
				if cc := callOf(in); cc != nil && strings.HasSuffix(calleeName(cc), ")."+g) {
					found = true
				}
			})
			c.check(found, r, lastSeg(p.fn)+":reads:"+g, c.pos(f.Pos()), "attribute is converted", lastSeg(p.fn)+" no longer converts attribute "+g)
		}
		// nothing is converted to "no metadata" except no metadata: a nil result is returned only on the md == nil edge
		// (metadata is covered by the entry digest: a non-empty attribute set that travels as nil changes Eh and Alh)
		isNilArg := whenCond(true, func(a string) bool {
			return strings.Contains(a, "param:") && strings.Contains(a, "nil") && strings.Contains(a, " == ")
		})
		q := &pathQ{fn: f, fromEntry: true, to: func(in ssa.Instruction) bool {
			rt, ok := in.(*ssa.Return)
			if !ok || len(rt.Results) != 1 {
				return false
			}
			k, isConst := rt.Results[0].(*ssa.Const)
			return isConst && k.IsNil()
		}, barrier: isNilArg}
		w := q.bypass()
		c.check(w == nil, r, lastSeg(p.fn)+":nil-only-for-nil", c.pos(f.Pos()), "nil is returned only for a nil argument", lastSeg(p.fn)+" can turn non-nil metadata into nil: "+c.witnessStr(w))
	}
}

var c15TimestampExempt = map[string]string{
	"embedded/sql.DecodeValueFromKey":   "decodes what EncodeRawValueAsKey wrote (already normalised when encoded)",
	"embedded/sql.(*dateTruncFn).Apply": "truncates an existing Timestamp to a coarser unit",
}

func sameSet(a, b map[string]bool) bool {
	if len(a) != len(b) {
		return false
	}
	for k := range a {
		if !b[k] {
			return false
		}
	}
	return true
}

// c15CursorAdvance: decoders in this repository walk a buffer with an integer cursor: read a field at b[i:], then
// advance i by the width of that field. Within a basic block, when the cursor is advanced by a constant after
// fixed-width reads at that cursor, the increment must equal the extent of what was read there: a larger or
// smaller step makes every following field be read from the wrong position (decoder and encoder stop being inverse).
func c15CursorAdvance(c *Ctx, r string, fns []string) {
	n := 0
	for _, name := range fns {
		f := c.fn(name)
		if f == nil {
			continue
		}
		for _, g := range append([]*ssa.Function{f}, allAnon(f)...) {
			p := newProver(c, g)
			per := 0
			for _, b := range g.Blocks {
				// extent consumed relative to a cursor value, keyed by the cursor SSA value
				ext := map[ssa.Value]int64{}
				note := func(low ssa.Value, w int64) {
					// low = cur + d
					cur, d := splitConst(low)
					if e := d + w; e > ext[cur] {
						ext[cur] = e
					}
				}
				for _, in := range b.Instrs {
					switch x := in.(type) {
					case *ssa.Call:
						cn := calleeName(&x.Call)
						w := int64(0)
						switch {
						case strings.HasSuffix(cn, "ndian).Uint16"):
							w = 2
						case strings.HasSuffix(cn, "ndian).Uint32"):
							w = 4
						case strings.HasSuffix(cn, "ndian).Uint64"):
							w = 8
						}
						if w > 0 {
							arg := x.Call.Args[len(x.Call.Args)-1]
							if sl, ok := arg.(*ssa.Slice); ok && sl.High == nil && sl.Low != nil && isByteSliceLike(sl.X.Type()) {
								note(sl.Low, w)
							}
						}
					case *ssa.Slice:
						if x.Low != nil && x.High != nil && isByteSliceLike(x.X.Type()) {
							d := p.linOf(x.High).add(p.linOf(x.Low), -1)
							if len(d.terms) == 0 && d.c > 0 {
								note(x.Low, d.c)
							}
						}
					case *ssa.BinOp:
						if x.Op != token.ADD {
							continue
						}
						k, ok := constInt64(x.Y)
						u := x.X
						if !ok {
							k, ok = constInt64(x.X)
							u = x.Y
						}
						if !ok {
							continue
						}
						base, d0 := splitConst(u)
						e, seen := ext[base]
						if !seen || d0 >= e {
							continue // nothing was read at this cursor value (it already points past what was consumed)
						}
						n++
						per++
						c.check(d0+k == e, r, fmt.Sprintf("%s:advance#%d", fnName(g), per), c.pos(x.Pos()), fmt.Sprintf("cursor advanced by %d to the end (+%d) of what was read", k, e),
							fmt.Sprintf("the cursor moves to +%d although the reads at it end at +%d: the fields that follow are decoded from the wrong offset", d0+k, e))
					}
				}
			}
		}
	}
	c.count("cursor_advances", n)
	if n < 10 {
		c.undecided(r, "floor", fmt.Sprintf("%d cursor advances after fixed-width reads found", n))
	}
}

// splitConst: v = cur + d with d constant (d = 0 when v is not an addition with a constant)
func splitConst(v ssa.Value) (ssa.Value, int64) {
	if bo, ok := v.(*ssa.BinOp); ok && bo.Op == token.ADD {
		if k, ok := constInt64(bo.Y); ok {
			cur, d := splitConst(bo.X)
			return cur, d + k
		}
		if k, ok := constInt64(bo.X); ok {
			cur, d := splitConst(bo.Y)
			return cur, d + k
		}
	}
	if _, ok := constInt64(v); ok {
		return nil, 0
	}
	return v, 0
}

// c15TimestampNormalised: every Timestamp value built inside the SQL engine is truncated to microseconds (the
// precision of the value codec); index keys are built from nanoseconds, so an untruncated time gives a key that differs
// from the key of the value it decodes back to (shared with C12: primary-key and UNIQUE probes compare keys).
func c15TimestampNormalised(c *Ctx, r string) {
	nts := 0
	for _, fn := range c.allFns {
		if !fnInPkgs(fn, []string{"embedded/sql"}) {
			continue
		}
		i := 0
		allInstrs(fn, false, func(in ssa.Instruction) {
			st, ok := in.(*ssa.Store)
			if !ok {
				return
			}
			fl, base := fieldOf(st.Addr)
			if fl != "Timestamp.val" || !isFreshAlloc(base) {
				return
			}
			nts++
			i++
			construct := fmt.Sprintf("%s:Timestamp#%d", fnName(fn), i)
			if reason, ok := c15TimestampExempt[fnName(topFn(fn))]; ok {
				c.okTrivial(r, construct, c.pos(in.Pos()), "exempt: "+reason)
				return
			}
			norm := dependsOn(st.Val, func(v ssa.Value) bool {
				cl, ok := v.(*ssa.Call)
				if !ok {
					return false
				}
				n := calleeName(&cl.Call)
				if n == "time.(Time).Truncate" && len(cl.Call.Args) == 2 && desc(cl.Call.Args[1]) == "const:1000" {
					return true
				}
				return n == "embedded/sql.TimeFromInt64"
			})
			c.check(norm, r, construct, c.pos(in.Pos()), "value passes Truncate(time.Microsecond) / TimeFromInt64",
				"a Timestamp value is built from a time that was not truncated to microseconds: its index key (nanoseconds) differs from the key of the value it decodes back to")
		})
	}
	if nts < 5 {
		c.undecided(r, "floor", fmt.Sprintf("expected >=5 Timestamp constructions, found %d", nts))
	}
	if f := c.mustFn(r, "embedded/sql.TimeFromInt64"); f != nil {
		okv := false
		allInstrs(f, false, func(in ssa.Instruction) {
			if cl, ok := in.(*ssa.Call); ok && calleeName(&cl.Call) == "time.Unix" {
				if strings.Contains(desc(cl.Call.Args[0]), "/ const:1000000") || strings.Contains(desc(cl.Call.Args[1]), "* const:1000") {
					okv = true
				}
			}
		})
		c.check(okv, r, fnName(f)+":microseconds", c.pos(f.Pos()), "interprets its argument as microseconds", "TimeFromInt64 no longer converts from microseconds")
	}
}

// c15LimitAgreement: every comparison against a length limit of the tx formats uses the same operator on the writing
// and on the reading side: a record accepted when it is written is not refused when it is read back.
func c15LimitAgreement(c *Ctx, r string) {
	for _, l := range c15Limits {
		cm := c.limitComparisons(l.pkg, l.name)
		ops := map[string]bool{}
		var where []string
		for f, os := range cm {
			for _, o := range os {
				ops[o] = true
			}
			where = append(where, f+":"+strings.Join(os, ","))
		}
		sort.Strings(where)
		if len(cm) < 2 {
			c.undecided(r, l.pkg+"."+l.name, fmt.Sprintf("expected the limit to be checked on both the encoding and the decoding side, found %v", where))
			continue
		}
		c.check(len(ops) == 1, r, l.pkg+"."+l.name, "", "every check against the limit uses the same comparison: "+strings.Join(where, " "),
			fmt.Sprintf("checks against %s disagree (%s): a value accepted when written is rejected when read, or vice versa", l.name, strings.Join(where, " ")))
	}
}

// c15PresenceGuardsOnly: a converter between the store's types and their protobuf messages copies an attribute when it is
// PRESENT (nil test, Has*/Is* of the source), whatever its value is: a guard on the value makes one value travel as "absent"
// and the decoded object differ from the encoded one (metadata is covered by the entry digest, so do Eh and Alh).
// Frozen exceptions: proto3 scalars without presence where 0 is the "absent" encoding, confirmed by reading.
var c15ValueGuards = map[string]string{
	"TxMetadataFromProto|TruncatedTxID": "proto3 uint64 has no presence; 0 means absent (transaction ids start at 1)",
	"TxFromProto|NEntries":              "clamp of the announced entry count to the entries carried (C16.9), not a conversion guard",
}

func c15PresenceGuardsOnly(c *Ctx, r string) {
	n := 0
	for _, f := range c.allFns {
		if !fnInPkgs(f, []string{"pkg/api/schema"}) || len(f.Blocks) == 0 || f.Signature.Recv() != nil {
			continue
		}
		name := f.Name()
		if !(strings.HasSuffix(name, "FromProto") || strings.HasSuffix(name, "ToProto")) || !strings.HasSuffix(c.Fset.Position(f.Pos()).Filename, "database_protoconv.go") {
			continue
		}
		n++
		var bad []string
		for _, b := range f.Blocks {
			if len(b.Instrs) == 0 {
				continue
			}
			ifi, ok := b.Instrs[len(b.Instrs)-1].(*ssa.If)
			if !ok {
				continue
			}
			for _, leaf := range boolLeaves(ifi.Cond) {
				atom, _ := normCond(leaf)
				switch {
				case strings.Contains(atom, "nil"), strings.Contains(atom, " < len("), strings.HasPrefix(atom, "extract:"), strings.Contains(atom, ").Has"), strings.Contains(atom, ").Is"):
					continue
				}
				excused := false
				for k := range c15ValueGuards {
					kk := strings.SplitN(k, "|", 2)
					if kk[0] == name && strings.Contains(atom, kk[1]) {
						excused = true
					}
				}
				if !excused {
					bad = append(bad, atom+" @"+c.pos(ifi.Pos()))
				}
			}
		}
		c.check(len(bad) == 0, r, "pkg/api/schema."+name, c.pos(f.Pos()), "attributes are converted whenever they are present", "the conversion depends on the VALUE of an attribute ("+strings.Join(bad, "; ")+"): a value for which the guard fails is not carried over, the converted object differs from the original and so do the digests computed from it")
	}
	if n < 20 {
		c.undecided(r, "floor", fmt.Sprintf("%d converters found in pkg/api/schema/database_protoconv.go, 20+ expected", n))
	}
}

// loopCarriedPhi: a phi among the (phi-)operands of v that depends on itself, i.e. a value surviving from one loop
// iteration to the next.
func loopCarriedPhi(v ssa.Value) *ssa.Phi {
	var found *ssa.Phi
	seen := map[ssa.Value]bool{}
	var walk func(x ssa.Value)
	walk = func(x ssa.Value) {
		if x == nil || seen[x] || found != nil {
			return
		}
		seen[x] = true
		p, ok := x.(*ssa.Phi)
		if !ok {
			return
		}
		// does p reach itself through phi edges?
		s2 := map[ssa.Value]bool{}
		var self func(y ssa.Value) bool
		self = func(y ssa.Value) bool {
			q, ok := y.(*ssa.Phi)
			if !ok || s2[q] {
				return false
			}
			s2[q] = true
			for _, e := range q.Edges {
				if e == p || self(e) {
					return true
				}
			}
			return false
		}
		if self(p) {
			found = p
			return
		}
		for _, e := range p.Edges {
			walk(e)
		}
	}
	walk(v)
	return found
}

// c15NoLoopCarriedArgs: what is serialized next to an entry (its transaction's metadata, its own metadata) is computed
// for THAT transaction: a value that survives from the previous iteration of the per-transaction loop puts one
// transaction's metadata into another one's index entries.
func c15NoLoopCarriedArgs(c *Ctx, r, fn, callee string, floor int) {
	f := c.mustFn(r, fn)
	if f == nil {
		return
	}
	ss := sites(f, callTo(callee))
	if len(ss) < floor {
		c.undecided(r, fnName(f)+":floor", fmt.Sprintf("%d calls of %s, %d expected", len(ss), callee, floor))
	}
	for i, in := range ss {
		for ai, a := range callOf(in).Args {
			if _, isSlice := a.Type().Underlying().(*types.Slice); !isSlice || ai == 0 {
				continue
			}
			p := loopCarriedPhi(a)
			construct := fmt.Sprintf("%s:%s#%d:arg%d", fnName(f), lastSeg(callee), i, ai)
			if p != nil {
				c.fail(r, construct, c.pos(in.Pos()), "argument "+desc(a)+" may still hold the value computed for a PREVIOUS transaction of the bulk (it is carried around the loop, "+p.Comment+"): the entry is indexed with metadata that is not its transaction's")
			} else {
				c.ok(r, construct, c.pos(in.Pos()), "computed within the iteration that serializes it")
			}
		}
	}
}

// c15ValueUsedOnSuccessOnly: the value a fallible getter returns next to its error means something when the error is
// nil. A use of the value that is reachable only through the error edge of its own call (the inverted check
// `v, err := get(); if err != nil { use(v) }`) uses the zero value instead of the attribute and, on the success path,
// drops the attribute altogether.
var c15PartialResultOK = map[string]string{}

func c15ValueUsedOnSuccessOnly(c *Ctx, r string, inScope func(*ssa.Function) bool, floor int) {
	n := 0
	for _, f := range c.allFns {
		if len(f.Blocks) == 0 || !inScope(f) {
			continue
		}
		k := 0
		allInstrs(f, false, func(in ssa.Instruction) {
			call, ok := in.(*ssa.Call)
			if !ok {
				return
			}
			res := call.Call.Signature().Results()
			if res.Len() < 2 || res.At(res.Len()-1).Type().String() != "error" {
				return
			}
			// the edges on which the error of this call is known to be non-nil (comparison with nil only)
			var edges []cfgEdge
			for _, ev := range errResults(call) {
				for _, rr := range *ev.Referrers() {
					bo, ok := rr.(*ssa.BinOp)
					if !ok || (bo.Op != token.NEQ && bo.Op != token.EQL) {
						continue
					}
					other := bo.Y
					if bo.Y == ev {
						other = bo.X
					}
					if cst, isC := other.(*ssa.Const); !isC || !cst.IsNil() {
						continue
					}
					for _, r3 := range *bo.Referrers() {
						if ifi, ok := r3.(*ssa.If); ok {
							succ := 0
							if bo.Op == token.EQL {
								succ = 1
							}
							edges = append(edges, cfgEdge{ifi.Block(), succ})
						}
					}
				}
			}
			if len(edges) == 0 {
				return
			}
			k++
			n++
			var bad []string
			for _, rf := range *call.Referrers() {
				ex, ok := rf.(*ssa.Extract)
				if !ok || ex.Index == res.Len()-1 {
					continue
				}
				for _, u := range *ex.Referrers() {
					if _, dbg := u.(*ssa.DebugRef); dbg {
						continue
					}
					if _, isPhi := u.(*ssa.Phi); isPhi {
						continue
					}
					for _, e := range edges {
						if edgeDominates(e.b, e.succ, u.Block()) {
							bad = append(bad, c.pos(u.Pos()))
							break
						}
					}
				}
			}
			construct := fmt.Sprintf("%s:%s#%d", fnName(f), lastSeg(calleeName(&call.Call)), k)
			if _, okP := c15PartialResultOK[fnName(f)+":"+lastSeg(calleeName(&call.Call))]; okP {
				return
			}
			c.check(len(bad) == 0, r, construct, c.pos(in.Pos()), "the value is used on the success edge", "the value returned by "+calleeName(&call.Call)+" is used only where its error is non-nil ("+strings.Join(bad, ", ")+"): the check is inverted, the attribute is dropped whenever it is present")
		})
	}
	if n < floor {
		c.undecided(r, "floor", fmt.Sprintf("%d fallible calls examined, %d+ expected", n, floor))
	}
}

// c15WireIntegersSignExtended: PostgreSQL integers (int2, int4, int8) travel as big-endian two's complement. A decoder
// that widens the unsigned reading of a 2- or 4-byte integer straight to int64 turns every negative value into a large
// positive one: the widening goes through the signed type of the same width.
func c15WireIntegersSignExtended(c *Ctx, r string) {
	n := 0
	for _, f := range c.allFns {
		if !fnInPkgs(f, []string{"pkg/pgsql/server"}) || len(f.Blocks) == 0 {
			continue
		}
		res := f.Signature.Results()
		if res.Len() == 0 || res.At(0).Type().String() != "int64" {
			continue
		}
		k := 0
		allInstrs(f, false, func(in ssa.Instruction) {
			cv, ok := in.(*ssa.Convert)
			if !ok || cv.Type().String() != "int64" {
				return
			}
			from, ok := cv.X.Type().Underlying().(*types.Basic)
			if !ok {
				return
			}
			// only conversions of a wire reading (directly, or through the signed type of the same width)
			src := cv.X
			if inner, ok := src.(*ssa.Convert); ok {
				src = inner.X
			}
			cl, ok := src.(*ssa.Call)
			if !ok {
				return
			}
			name := calleeName(&cl.Call)
			if !(strings.HasSuffix(name, "Endian).Uint16") || strings.HasSuffix(name, "Endian).Uint32")) {
				return
			}
			k++
			n++
			signed := from.Kind() == types.Int16 || from.Kind() == types.Int32
			c.check(signed, r, fmt.Sprintf("%s:widening#%d", fnName(f), k), c.pos(in.Pos()), "widened through the signed type of the same width",
				"a 2/4-byte integer read from the wire is widened to int64 from its UNSIGNED reading ("+from.Name()+"): negative values sent by the client arrive as large positive ones")
		})
	}
	if n < 2 {
		c.undecided(r, "floor", fmt.Sprintf("%d widenings of 2/4-byte wire integers to int64 found in pkg/pgsql/server (getInt64: 2 confirmed by hand)", n))
	}
}

// typeConstsCompared: the SQLValueType constants a function compares (==) with a value accepted by isSubject
// (a `switch x { case A, B: ... }` is lowered to such comparisons).
func typeConstsCompared(f *ssa.Function, isSubject func(ssa.Value) bool) map[string]bool {
	out := map[string]bool{}
	allInstrs(f, false, func(in ssa.Instruction) {
		bo, ok := in.(*ssa.BinOp)
		if !ok || bo.Op != token.EQL {
			return
		}
		for _, pair := range [][2]ssa.Value{{bo.X, bo.Y}, {bo.Y, bo.X}} {
			k, ok := pair[1].(*ssa.Const)
			if !ok || k.Value == nil || k.Value.Kind() != constant.String || !isSubject(pair[0]) {
				continue
			}
			if !strings.HasSuffix(k.Type().String(), "sql.SQLValueType") {
				continue
			}
			out[constant.StringVal(k.Value)] = true
		}
	})
	return out
}

// c15BinaryResultsCoverEveryType: a result column is announced to the client with the PostgreSQL type of its SQL type;
// in binary format the value follows in that type's binary encoding. The encoder switches over the SQL type: a type
// that can be stored (the row value codec handles it) and has no case is sent as a zero-length value, which is neither
// the value nor NULL. Same for NULL itself: it is announced with length -1, never as an empty value.
func c15BinaryResultsCoverEveryType(c *Ctx, r string) {
	enc := c.mustFn(r, "embedded/sql.EncodeRawValue")
	dr := c.mustFn(r, "pkg/pgsql/server/bmessages.DataRow")
	if enc == nil || dr == nil {
		return
	}
	stor := typeConstsCompared(enc, func(v ssa.Value) bool { _, ok := v.(*ssa.Parameter); return ok })
	sent := typeConstsCompared(dr, func(v ssa.Value) bool {
		cl, ok := v.(*ssa.Call)
		return ok && cl.Call.IsInvoke() && cl.Call.Method.Name() == "Type"
	})
	if len(stor) < 5 {
		c.undecided(r, "storable-types", fmt.Sprintf("%d types found in EncodeRawValue", len(stor)))
		return
	}
	for _, t := range sortedKeys(stor) {
		c.check(sent[t], r, "binary-format:"+t, c.pos(dr.Pos()), "has a binary encoding in DataRow", "a value of type "+t+" can be stored and returned, but the binary result format has no case for it: it is sent as a zero-length value")
	}
}

// c15TempRowCodec: rows that do not fit the sort buffer travel through temporary files. Their codec has to give back
// what it was given: (a) the "nullable" value codec writes NULL as a zero length, which is also the encoding of the empty
// string and of the empty blob - it is not used to carry row values (no caller outside tests); (b) the size of a row is
// not narrowed to 16 bits on either side (a row can hold values up to MaxValueLen).
func c15TempRowCodec(c *Ctx, r string) {
	for _, name := range []string{"embedded/sql.EncodeNullableValue", "embedded/sql.DecodeNullableValue"} {
		if c.mustFn(r, name) == nil {
			continue
		}
		var callers []string
		for _, in := range c.callSites(callTo(name)) {
			callers = append(callers, fnName(topFn(in.Parent()))+" @"+c.pos(in.Pos()))
		}
		c.check(len(callers) == 0, r, "ambiguous-codec-not-used:"+lastSeg(name), "", "no caller", lastSeg(name)+" (NULL and the empty string both encode as a zero length) carries row values in "+strings.Join(callers, ", ")+": an empty string or blob comes back as NULL")
	}
	n := 0
	for _, name := range []string{"embedded/sql.(*fileSorter).encodeRow", "embedded/sql.(*fileRowReader).readValues"} {
		f := c.mustFn(r, name)
		if f == nil {
			continue
		}
		narrow := ""
		allInstrs(f, false, func(in ssa.Instruction) {
			switch x := in.(type) {
			case *ssa.Convert:
				if b, ok := x.Type().Underlying().(*types.Basic); ok && b.Kind() == types.Uint16 {
					narrow = c.pos(in.Pos())
				}
			case *ssa.Alloc:
				if p, ok := x.Type().Underlying().(*types.Pointer); ok {
					if b, ok := p.Elem().Underlying().(*types.Basic); ok && b.Kind() == types.Uint16 {
						narrow = c.pos(in.Pos())
					}
				}
			}
		})
		n++
		c.check(narrow == "", r, fnName(f)+":row-size-not-16-bit", c.pos(f.Pos()), "the row size is not carried in 16 bits", "the size of a sorted row is carried in 16 bits ("+narrow+"): a row larger than 64 KiB is cut, the file is read back as corrupted")
	}
	if n < 2 {
		c.undecided(r, "floor", "the row codec of the file sorter was not found")
	}
}

// c15LiteralsEscapeTheirDelimiter: defaults and CHECK expressions are kept in the catalog as SQL text (C15.9). A string
// literal is rendered between quotes: a quote INSIDE the value has to be doubled (what the lexer reads back as one quote),
// otherwise the text ends early, does not parse, and the default is dropped at the next catalog load.
func c15LiteralsEscapeTheirDelimiter(c *Ctx, r string) {
	f := c.mustFn(r, "embedded/sql.(*Varchar).String")
	if f == nil {
		return
	}
	isVal := func(v ssa.Value) bool {
		u, ok := v.(*ssa.UnOp)
		if !ok || u.Op != token.MUL {
			return false
		}
		fl, _ := fieldOf(u.X)
		return fl == "Varchar.val"
	}
	escaped := false
	raw := false
	allInstrs(f, false, func(in ssa.Instruction) {
		cl, ok := in.(*ssa.Call)
		if !ok {
			return
		}
		name := calleeName(&cl.Call)
		if (name == "strings.ReplaceAll" || name == "strings.Replace") && len(cl.Call.Args) >= 3 && dependsOn(cl.Call.Args[0], isVal) {
			if k1, ok := cl.Call.Args[1].(*ssa.Const); ok && k1.Value != nil && constant.StringVal(k1.Value) == "'" {
				if k2, ok := cl.Call.Args[2].(*ssa.Const); ok && k2.Value != nil && constant.StringVal(k2.Value) == "''" {
					escaped = true
				}
			}
			return
		}
		// the bare value handed to a formatting / concatenation call
		for _, a := range cl.Call.Args {
			if dependsOn(a, func(v ssa.Value) bool {
				if mi, ok := v.(*ssa.MakeInterface); ok {
					return isVal(mi.X)
				}
				return false
			}) {
				raw = true
			}
		}
	})
	c.check(escaped && !raw, r, fnName(f)+":quote-doubled", c.pos(f.Pos()), "quotes inside the value are doubled before the literal is rendered", "a string literal is rendered with its value as it is: a value holding a quote yields text that does not parse back (a column DEFAULT or a CHECK holding it is lost at the next catalog load)")
}
