package main

import (
	"fmt"
	"go/constant"
	"go/token"
	"go/types"
	"sort"
	"strings"

	"golang.org/x/tools/go/ssa"
)

// ---------------------------------------------------------------------------------------------
// E6: bounds obligations of decoders, discharged by dominating facts over linear forms.
//
// A linear form is c0 + Σ ci·ai where the atoms ai are opaque SSA values (or len(x) of an opaque
// slice value x). An inequality is a linear form L with the meaning L <= 0.

type atomKey struct {
	v   ssa.Value
	len bool // len(v)
}

type lin struct {
	c     int64
	terms map[atomKey]int64
}

func newLin(c int64) lin { return lin{c: c, terms: map[atomKey]int64{}} }

func (a lin) clone() lin {
	o := newLin(a.c)
	for k, v := range a.terms {
		o.terms[k] = v
	}
	return o
}

func (a lin) add(b lin, k int64) lin {
	o := a.clone()
	o.c += k * b.c
	for t, v := range b.terms {
		o.terms[t] += k * v
		if o.terms[t] == 0 {
			delete(o.terms, t)
		}
	}
	return o
}

func (a lin) String() string {
	var parts []string
	for t, v := range a.terms {
		n := desc(t.v)
		if len(n) > 60 {
			n = n[:60] + "…"
		}
		if t.len {
			n = "len(" + n + ")"
		}
		parts = append(parts, fmt.Sprintf("%+d*%s", v, n))
	}
	sort.Strings(parts)
	return fmt.Sprintf("%s %+d", strings.Join(parts, " "), a.c)
}

type prover struct {
	fn           *ssa.Function
	c            *Ctx
	nonneg       map[ssa.Value]bool
	upper        map[atomKey]int64 // known constant upper bounds of atoms
	contracts    map[string]contract
	depthCap     int
	canonLoads   map[[2]interface{}]ssa.Value
	storedFields map[string]bool
	requires     []lin // assumed at entry (checked at every call site)
}

// contract of a callee: on its success edge, 0 <= result[ret] <= len(arg[arg]).
type contract struct {
	ret int // index in the result tuple
	arg int // index in Call.Args (receiver included for methods / excluded for invoke)
}

func newProver(c *Ctx, fn *ssa.Function) *prover {
	p := &prover{fn: fn, c: c, nonneg: map[ssa.Value]bool{}, upper: map[atomKey]int64{}, depthCap: 3}
	p.contracts = c16Contracts
	// results that are non-negative on every return of a static callee
	for _, b := range fn.Blocks {
		for _, in := range b.Instrs {
			call, ok := in.(*ssa.Call)
			if !ok {
				continue
			}
			cal := call.Call.StaticCallee()
			if cal == nil || len(cal.Blocks) == 0 || cal == fn || !strings.Contains(cal.String(), modPrefix) {
				continue
			}
			for _, sf := range summaryOf(c, cal) {
				if sf.kind != "nonnegAll" {
					continue
				}
				if call.Call.Signature().Results().Len() == 1 && sf.i == 0 {
					p.nonneg[call] = true
				}
				for _, r := range *call.Referrers() {
					if e, ok := r.(*ssa.Extract); ok && e.Index == sf.i {
						p.nonneg[e] = true
					}
				}
			}
		}
	}
	for _, name := range c16NonnegParams[fnName(fn)] {
		for _, prm := range fn.Params {
			if prm.Name() == name {
				p.nonneg[prm] = true
			}
		}
	}
	return p
}

func constInt64(v ssa.Value) (int64, bool) {
	k, ok := v.(*ssa.Const)
	if !ok || k.Value == nil {
		return 0, false
	}
	if k.Value.Kind() != constant.Int {
		return 0, false
	}
	n, exact := constant.Int64Val(k.Value)
	return n, exact
}

func isUnsigned(t types.Type) bool {
	b, ok := t.Underlying().(*types.Basic)
	return ok && b.Info()&types.IsUnsigned != 0
}

func bitsOf(t types.Type) int {
	b, ok := t.Underlying().(*types.Basic)
	if !ok {
		return 64
	}
	switch b.Kind() {
	case types.Uint8, types.Int8:
		return 8
	case types.Uint16, types.Int16:
		return 16
	case types.Uint32, types.Int32:
		return 32
	}
	return 64
}

// forward: store-to-load forwarding of a field that is stored exactly once in the function, before the load.
func (p *prover) forward(u *ssa.UnOp) ssa.Value {
	fa, ok := u.X.(*ssa.FieldAddr)
	if !ok {
		return nil
	}
	var st *ssa.Store
	n := 0
	for _, b := range p.fn.Blocks {
		for _, in := range b.Instrs {
			s, ok := in.(*ssa.Store)
			if !ok {
				continue
			}
			f2, ok := s.Addr.(*ssa.FieldAddr)
			if ok && f2.Field == fa.Field && f2.X == fa.X {
				st = s
				n++
			}
		}
	}
	if n == 1 && instrDominates(st, u) {
		return st.Val
	}
	return nil
}

// canon: loads of the same field of the same object are one value when the function never stores to that field
// (decoders read their configuration/state fields repeatedly: entry.k, t.maxKeyLen, ...).
func (p *prover) canon(v ssa.Value) ssa.Value {
	u, ok := v.(*ssa.UnOp)
	if !ok || u.Op != token.MUL {
		return v
	}
	fa, ok := u.X.(*ssa.FieldAddr)
	if !ok {
		return v
	}
	if p.canonLoads == nil {
		p.canonLoads = map[[2]interface{}]ssa.Value{}
		p.storedFields = map[string]bool{}
		for _, b := range p.fn.Blocks {
			for _, in := range b.Instrs {
				if st, ok := in.(*ssa.Store); ok {
					if f2, ok := st.Addr.(*ssa.FieldAddr); ok {
						p.storedFields[structName(f2.X.Type())+"."+fieldName(f2.X.Type(), f2.Field)] = true
					}
				}
			}
		}
	}
	if p.storedFields[structName(fa.X.Type())+"."+fieldName(fa.X.Type(), fa.Field)] {
		return v
	}
	base := fa.X
	if bu, ok := base.(*ssa.UnOp); ok {
		base = p.canon(bu)
	}
	key := [2]interface{}{base, fa.Field}
	if first, ok := p.canonLoads[key]; ok {
		return first
	}
	p.canonLoads[key] = v
	return v
}

// linOf normalises an integer-valued SSA value.
func (p *prover) linOf(v ssa.Value) lin {
	v = p.canon(v)
	if n, ok := constInt64(v); ok {
		return newLin(n)
	}
	switch x := v.(type) {
	case *ssa.BinOp:
		switch x.Op {
		case token.ADD:
			return p.linOf(x.X).add(p.linOf(x.Y), 1)
		case token.SUB:
			return p.linOf(x.X).add(p.linOf(x.Y), -1)
		case token.MUL:
			if n, ok := constInt64(x.Y); ok {
				return newLin(0).add(p.linOf(x.X), n)
			}
			if n, ok := constInt64(x.X); ok {
				return newLin(0).add(p.linOf(x.Y), n)
			}
		}
	case *ssa.Convert:
		// widening or same-width conversions between integer types keep the value when the source is non-negative
		// int(uintN(..)): value preserved for N < 64; we treat int<->uint64 conversions of non-negative values as identity
		src := x.X
		if b, ok := src.Type().Underlying().(*types.Basic); ok && b.Info()&types.IsInteger != 0 {
			if b2, ok := x.Type().Underlying().(*types.Basic); ok && b2.Info()&types.IsInteger != 0 {
				if bitsOf(x.Type()) >= bitsOf(src.Type()) {
					l := p.linOf(src)
					if isUnsigned(src.Type()) {
						p.markNonneg(v)
						// bounded by the source width
						if bits := bitsOf(src.Type()); bits < 64 {
							if len(l.terms) == 1 && l.c == 0 {
								for k, coef := range l.terms {
									if coef == 1 {
										p.setUpper(k, (int64(1)<<uint(bits))-1)
									}
								}
							}
						}
					}
					return l
				}
			}
		}
	case *ssa.ChangeType:
		return p.linOf(x.X)
	case *ssa.Call:
		if b, ok := x.Call.Value.(*ssa.Builtin); ok && (b.Name() == "len" || b.Name() == "cap") && len(x.Call.Args) == 1 {
			return p.lenOf(x.Call.Args[0])
		}
		n := calleeName(&x.Call)
		if _, ok := c16NonnegCalls[n]; ok {
			p.markNonneg(v)
		}
		switch n {
		case "encoding/binary.(bigEndian).Uint16", "encoding/binary.(littleEndian).Uint16":
			p.markNonneg(v)
			p.setUpper(atomKey{v, false}, 65535)
		case "encoding/binary.(bigEndian).Uint32", "encoding/binary.(littleEndian).Uint32":
			p.markNonneg(v)
			p.setUpper(atomKey{v, false}, (1<<32)-1)
		case "encoding/binary.(bigEndian).Uint64", "encoding/binary.(littleEndian).Uint64":
			p.markNonneg(v)
		}
	case *ssa.UnOp:
		if x.Op == token.MUL {
			if fw := p.forward(x); fw != nil {
				return p.linOf(fw)
			}
			// element of a byte slice / uint field
			if isUnsigned(x.Type()) {
				p.markNonneg(v)
				if bits := bitsOf(x.Type()); bits < 64 {
					p.setUpper(atomKey{v, false}, (int64(1)<<uint(bits))-1)
				}
			}
		}
	case *ssa.Index, *ssa.Lookup, *ssa.Extract, *ssa.Field:
		if isUnsigned(v.Type()) {
			p.markNonneg(v)
			if bits := bitsOf(v.Type()); bits < 64 {
				p.setUpper(atomKey{v, false}, (int64(1)<<uint(bits))-1)
			}
		}
	}
	if isUnsigned(v.Type()) {
		p.markNonneg(v)
	}
	l := newLin(0)
	l.terms[atomKey{v, false}] = 1
	return l
}

func (p *prover) markNonneg(v ssa.Value) { p.nonneg[v] = true }
func (p *prover) setUpper(k atomKey, u int64) {
	if old, ok := p.upper[k]; !ok || u < old {
		p.upper[k] = u
	}
}

// lenOf: len of a slice-typed value, reduced through slicing and make.
func (p *prover) lenOf(v ssa.Value) lin {
	v = p.canon(v)
	switch x := v.(type) {
	case *ssa.Slice:
		var hi lin
		if x.High != nil {
			hi = p.linOf(x.High)
		} else {
			hi = p.lenOf(x.X)
		}
		if x.Low != nil {
			return hi.add(p.linOf(x.Low), -1)
		}
		return hi
	case *ssa.MakeSlice:
		return p.linOf(x.Len)
	case *ssa.Alloc:
		if n, ok := arrayLen(x.Type()); ok {
			return newLin(n)
		}
	case *ssa.Convert:
		return p.lenOf(x.X)
	case *ssa.ChangeType:
		return p.lenOf(x.X)
	case *ssa.UnOp:
		if x.Op == token.MUL {
			if fw := p.forward(x); fw != nil {
				return p.lenOf(fw)
			}
		}
	case *ssa.Call:
		// callee that returns a suffix of one of its parameters: p[c:]
		if cal := x.Call.StaticCallee(); cal != nil && len(cal.Blocks) == 1 {
			for _, in := range cal.Blocks[0].Instrs {
				rt, ok := in.(*ssa.Return)
				if !ok || len(rt.Results) != 1 {
					continue
				}
				if sl, ok := rt.Results[0].(*ssa.Slice); ok && sl.High == nil && sl.Low != nil {
					if c0, ok := constInt64(sl.Low); ok {
						for j, prm := range cal.Params {
							if sl.X == ssa.Value(prm) && j < len(x.Call.Args) {
								l := p.lenOf(x.Call.Args[j])
								l.c -= c0
								return l
							}
						}
					}
				}
			}
		}
	case *ssa.Const:
		if x.Value != nil && x.Value.Kind() == constant.String {
			return newLin(int64(len(constant.StringVal(x.Value))))
		}
		if x.IsNil() {
			return newLin(0)
		}
	}
	if n, ok := arrayLen(v.Type()); ok {
		return newLin(n)
	}
	l := newLin(0)
	l.terms[atomKey{v, true}] = 1
	return l
}

func arrayLen(t types.Type) (int64, bool) {
	for {
		if p, ok := t.Underlying().(*types.Pointer); ok {
			t = p.Elem()
			continue
		}
		break
	}
	if a, ok := t.Underlying().(*types.Array); ok {
		return a.Len(), true
	}
	return 0, false
}

// ---- facts -----------------------------------------------------------------------------------

// factsAt collects inequalities (L <= 0) that hold whenever control is at instruction `at`:
// for every branch in a dominating block, the outcome that every path to `at` must have taken last.
func (p *prover) factsAt(at ssa.Instruction) []lin {
	var out []lin
	b := at.Block()
	for _, blk := range p.fn.Blocks {
		if blk == b || len(blk.Instrs) == 0 || !blk.Dominates(b) {
			continue
		}
		ifi, ok := blk.Instrs[len(blk.Instrs)-1].(*ssa.If)
		if !ok {
			continue
		}
		for succ := 0; succ < 2; succ++ {
			if reaches(blk.Succs[succ], b, blk) && !reaches(blk.Succs[1-succ], b, blk) {
				out = append(out, p.factsOfCond(ifi.Cond, succ == 0)...)
			}
		}
	}
	out = append(out, p.contractFacts(at)...)
	out = append(out, p.summaryFacts(at)...)
	out = append(out, p.requires...)
	return out
}

// ---- callee summaries ------------------------------------------------------------------------------
//
// For a static callee of the repository, facts about its integer results that hold at every successful
// return are inferred from templates and proven inside the callee:
//   r_i >= 0;  r_i <= len(p_j);  r_i + r_k <= len(p_j);  r_i == const
// At a call site they are instantiated on the callee's success edge.

type sumFact struct {
	kind    string // "nonneg", "lelen", "sumlelen", "const"
	i, k, j int
	c       int64
}

var summaryMemo = map[*ssa.Function][]sumFact{}
var summaryBusy = map[*ssa.Function]bool{}

func summaryOf(c *Ctx, f *ssa.Function) []sumFact {
	if s, ok := summaryMemo[f]; ok {
		return s
	}
	if summaryBusy[f] || len(f.Blocks) == 0 {
		return nil
	}
	summaryBusy[f] = true
	defer func() { summaryBusy[f] = false }()
	res := f.Signature.Results()
	var intRes []int
	for i := 0; i < res.Len(); i++ {
		if b, ok := res.At(i).Type().Underlying().(*types.Basic); ok && b.Info()&types.IsInteger != 0 {
			intRes = append(intRes, i)
		}
	}
	var sliceParams []int
	for j, prm := range f.Params {
		if isByteSliceLike(prm.Type()) {
			sliceParams = append(sliceParams, j)
		}
	}
	if len(intRes) == 0 {
		summaryMemo[f] = nil
		return nil
	}
	var rets []*ssa.Return
	for _, b := range f.Blocks {
		for _, in := range b.Instrs {
			if rt, ok := in.(*ssa.Return); ok && retKind(rt) != "fail" {
				rets = append(rets, rt)
			}
		}
	}
	if len(rets) == 0 {
		summaryMemo[f] = nil
		return nil
	}
	p := newProver(c, f)
	p.contracts = c16Contracts
	if rq, ok := c16Requires[fnName(f)]; ok {
		p.requires = requiresFacts(p, f, rq)
	}
	holds := func(mk func(rt *ssa.Return) lin) bool {
		for _, rt := range rets {
			if !p.prove(mk(rt), p.factsAt(rt)) {
				return false
			}
		}
		return true
	}
	rv := func(rt *ssa.Return, i int) lin { return p.linOf(unspill(rt.Results[i], rt)) }
	var out []sumFact
	// non-negative on every return, failing ones included
	var allRets []*ssa.Return
	for _, b := range f.Blocks {
		for _, in := range b.Instrs {
			if rt, ok := in.(*ssa.Return); ok {
				allRets = append(allRets, rt)
			}
		}
	}
	for _, i := range intRes {
		okAll := true
		for _, rt := range allRets {
			if !p.prove(newLin(0).add(rv(rt, i), -1), p.factsAt(rt)) {
				okAll = false
			}
		}
		if okAll {
			out = append(out, sumFact{kind: "nonnegAll", i: i})
		}
	}
	for _, i := range intRes {
		i := i
		if holds(func(rt *ssa.Return) lin { return newLin(0).add(rv(rt, i), -1) }) {
			out = append(out, sumFact{kind: "nonneg", i: i})
		}
		// constant?
		if n, ok := constInt64(unspill(rets[0].Results[i], rets[0])); ok {
			same := true
			for _, rt := range rets {
				if m, ok := constInt64(unspill(rt.Results[i], rt)); !ok || m != n {
					same = false
				}
			}
			if same {
				out = append(out, sumFact{kind: "const", i: i, c: n})
			}
		}
		for _, j := range sliceParams {
			j := j
			if holds(func(rt *ssa.Return) lin { return rv(rt, i).add(p.lenOf(f.Params[j]), -1) }) {
				out = append(out, sumFact{kind: "lelen", i: i, j: j})
			}
			for _, k := range intRes {
				k := k
				if k <= i {
					continue
				}
				if holds(func(rt *ssa.Return) lin { return rv(rt, i).add(rv(rt, k), 1).add(p.lenOf(f.Params[j]), -1) }) {
					out = append(out, sumFact{kind: "sumlelen", i: i, k: k, j: j})
				}
			}
		}
	}
	summaryMemo[f] = out
	return out
}

// successDominates: the success edge of the error test of `call` is taken on every path to `at`.
func (p *prover) successDominates(call *ssa.Call, at ssa.Instruction) bool {
	sig := call.Call.Signature()
	if sig.Results().Len() == 0 || !isErrorType(sig.Results().At(sig.Results().Len()-1).Type()) {
		return instrDominates(call, at) // no error result: facts hold unconditionally
	}
	ee := errEdgeOf(call)
	if ee == nil {
		return false
	}
	for _, blk := range p.fn.Blocks {
		for si := range blk.Succs {
			if ee(blk, si) && blk.Dominates(at.Block()) && blk != at.Block() {
				if !reaches(blk.Succs[si], at.Block(), blk) {
					return true
				}
			}
		}
	}
	return false
}

func (p *prover) summaryFacts(at ssa.Instruction) []lin {
	var out []lin
	for _, b := range p.fn.Blocks {
		for _, in := range b.Instrs {
			call, ok := in.(*ssa.Call)
			if !ok {
				continue
			}
			cal := call.Call.StaticCallee()
			if cal == nil || len(cal.Blocks) == 0 || !strings.Contains(cal.String(), modPrefix) {
				continue
			}
			if !instrDominates(call, at) {
				continue
			}
			sum := summaryOf(p.c, cal)
			if len(sum) == 0 || !p.successDominates(call, at) {
				continue
			}
			res := map[int]ssa.Value{}
			if call.Call.Signature().Results().Len() == 1 {
				res[0] = call
			} else {
				for _, r := range *call.Referrers() {
					if e, ok := r.(*ssa.Extract); ok {
						res[e.Index] = e
					}
				}
			}
			for _, sf := range sum {
				ri, ok := res[sf.i]
				if !ok {
					continue
				}
				switch sf.kind {
				case "nonneg":
					p.markNonneg(ri)
				case "const":
					l := p.linOf(ri)
					l.c -= sf.c
					out = append(out, l, newLin(0).add(l, -1))
				case "lelen":
					out = append(out, p.linOf(ri).add(p.lenOf(call.Call.Args[sf.j]), -1))
				case "sumlelen":
					if rk, ok := res[sf.k]; ok {
						out = append(out, p.linOf(ri).add(p.linOf(rk), 1).add(p.lenOf(call.Call.Args[sf.j]), -1))
					}
				}
			}
		}
	}
	return out
}

// reaches: `to` is reachable from `from` without passing through `avoid`.
func reaches(from, to, avoid *ssa.BasicBlock) bool {
	seen := map[*ssa.BasicBlock]bool{avoid: true}
	work := []*ssa.BasicBlock{from}
	for len(work) > 0 {
		x := work[0]
		work = work[1:]
		if x == to {
			return true
		}
		if seen[x] {
			continue
		}
		seen[x] = true
		work = append(work, x.Succs...)
	}
	return false
}

// factsOfCond: inequalities implied by cond == val.
func (p *prover) factsOfCond(cond ssa.Value, val bool) []lin {
	switch x := cond.(type) {
	case *ssa.UnOp:
		if x.Op == token.NOT {
			return p.factsOfCond(x.X, !val)
		}
	case *ssa.BinOp:
		if b, ok := x.X.Type().Underlying().(*types.Basic); !ok || b.Info()&types.IsInteger == 0 {
			return nil
		}
		l, r := p.linOf(x.X), p.linOf(x.Y)
		op := x.Op
		if !val {
			switch op {
			case token.LSS:
				op = token.GEQ
			case token.LEQ:
				op = token.GTR
			case token.GTR:
				op = token.LEQ
			case token.GEQ:
				op = token.LSS
			case token.EQL:
				op = token.NEQ
			case token.NEQ:
				op = token.EQL
			}
		}
		switch op {
		case token.LSS: // l < r  =>  l - r + 1 <= 0
			f := l.add(r, -1)
			f.c++
			return []lin{f}
		case token.LEQ:
			return []lin{l.add(r, -1)}
		case token.GTR:
			f := r.add(l, -1)
			f.c++
			return []lin{f}
		case token.GEQ:
			return []lin{r.add(l, -1)}
		case token.EQL:
			return []lin{l.add(r, -1), r.add(l, -1)}
		case token.NEQ:
			// x != 0 for a non-negative x (a length, an unsigned value): x >= 1
			d := l.add(r, -1)
			if p.linNonneg(d) {
				f := newLin(1).add(d, -1)
				return []lin{f}
			}
			d = r.add(l, -1)
			if p.linNonneg(d) {
				f := newLin(1).add(d, -1)
				return []lin{f}
			}
		}
	}
	return nil
}

// contractFacts: for calls with a contract whose error result is tested and whose nil edge dominates `at`.
func (p *prover) contractFacts(at ssa.Instruction) []lin {
	var out []lin
	for _, b := range p.fn.Blocks {
		for _, in := range b.Instrs {
			call, ok := in.(*ssa.Call)
			if !ok {
				continue
			}
			ct, ok := p.contractFor(&call.Call)
			if !ok {
				continue
			}
			if !instrDominates(call, at) {
				continue
			}
			// success edge dominates?
			okEdge := false
			ee := errEdgeOf(call)
			if ee != nil {
				for _, blk := range p.fn.Blocks {
					for si := range blk.Succs {
						if ee(blk, si) {
							// the other edge is the success edge
							if edgeDominates(blk, 1-si, at.Block()) || !reaches(blk.Succs[si], at.Block(), blk) {
								okEdge = true
							}
						}
					}
				}
			}
			if !okEdge {
				continue
			}
			var rv ssa.Value
			for _, r := range *call.Referrers() {
				if e, ok := r.(*ssa.Extract); ok && e.Index == ct.ret {
					rv = e
				}
			}
			if rv == nil || ct.arg >= len(call.Call.Args) {
				continue
			}
			p.markNonneg(rv)
			f := p.linOf(rv).add(p.lenOf(call.Call.Args[ct.arg]), -1) // ret - len(arg) <= 0
			out = append(out, f)
		}
	}
	return out
}

func (p *prover) contractFor(cc *ssa.CallCommon) (contract, bool) {
	n := calleeName(cc)
	ct, ok := p.contracts[n]
	return ct, ok
}

// ---- proving -----------------------------------------------------------------------------------

// trivially: L <= 0 holds by non-negativity / constant upper bounds of its atoms alone.
func (p *prover) trivially(l lin) bool {
	c := l.c
	for k, coef := range l.terms {
		if coef <= 0 {
			if k.len || p.isNonneg(k.v) {
				continue // non-positive contribution
			}
			if lb, ok := p.lowerOf(k.v); ok {
				c += coef * lb
				continue
			}
			return false
		}
		// positive coefficient: need an upper bound
		if u, ok := p.upper[k]; ok {
			c += coef * u
			continue
		}
		return false
	}
	return c <= 0
}

func (p *prover) isNonneg(v ssa.Value) bool {
	if p.nonneg[v] {
		return true
	}
	if n, ok := constInt64(v); ok {
		return n >= 0
	}
	if isUnsigned(v.Type()) {
		return true
	}
	switch x := v.(type) {
	case *ssa.Phi:
		// optimistic fixpoint: assume and verify edges
		p.nonneg[v] = true
		for _, e := range x.Edges {
			if !p.linNonneg(p.linOf(e)) {
				delete(p.nonneg, v)
				return false
			}
		}
		return true
	case *ssa.BinOp:
		if x.Op == token.REM || x.Op == token.AND || x.Op == token.SHR {
			return p.isNonneg(x.X) || x.Op == token.AND && p.isNonneg(x.Y)
		}
	case *ssa.Convert:
		if isUnsigned(x.X.Type()) && bitsOf(x.X.Type()) < bitsOf(x.Type()) {
			return true
		}
		if isUnsigned(x.X.Type()) && !isUnsigned(x.Type()) {
			// unsigned -> signed of the same (or a smaller) width: negative when the top bit is set
			return false
		}
		return p.isNonneg(x.X) && bitsOf(x.Type()) >= bitsOf(x.X.Type())
	}
	return false
}

// linNonneg: every term of l is a non-negative multiple of a non-negative atom and the constant is >= 0.
func (p *prover) linNonneg(l lin) bool {
	if l.c < 0 {
		return false
	}
	for k, coef := range l.terms {
		if coef < 0 {
			return false
		}
		if !k.len && !p.isNonneg(k.v) {
			return false
		}
	}
	return true
}

// prove: L <= 0 follows from the facts (non-negative integer combinations, bounded depth).
func (p *prover) prove(l lin, facts []lin) bool {
	return p.proveD(l, facts, 0)
}

func (p *prover) proveD(l lin, facts []lin, d int) bool {
	if p.trivially(l) {
		return true
	}
	if d >= p.depthCap {
		return false
	}
	for _, f := range facts {
		// use f (f <= 0): l = (l - f) + f, so l <= 0 if (l - f) <= 0; only useful if it cancels a positive atom
		useful := false
		for k, coef := range l.terms {
			if coef > 0 && f.terms[k] > 0 {
				useful = true
			}
		}
		if !useful && !(l.c > 0 && f.c > 0) {
			continue
		}
		for _, mult := range []int64{1, 2} {
			if p.proveD(l.add(f, -mult), facts, d+1) {
				return true
			}
		}
	}
	return false
}

// ---- obligations -------------------------------------------------------------------------------

type boundsObl struct {
	in   ssa.Instruction
	what string
	l    lin // must be <= 0
}

// obligationsOf enumerates the bounds obligations of fn restricted to operations on values accepted by `scope`.
func (p *prover) obligationsOf(scope func(ssa.Value) bool) []boundsObl {
	var out []boundsObl
	for _, b := range p.fn.Blocks {
		for _, in := range b.Instrs {
			switch x := in.(type) {
			case *ssa.Slice:
				if !scope(x.X) {
					continue
				}
				if _, isStr := x.X.Type().Underlying().(*types.Basic); isStr {
					// strings slice the same way
				}
				capL := p.lenOf(x.X)
				var lo, hi lin
				if x.Low != nil {
					lo = p.linOf(x.Low)
				} else {
					lo = newLin(0)
				}
				if x.High != nil {
					hi = p.linOf(x.High)
					out = append(out, boundsObl{in, "slice high <= len", hi.add(capL, -1)})
				} else {
					hi = capL
				}
				if x.Low != nil {
					out = append(out, boundsObl{in, "slice low <= high", lo.add(hi, -1)})
					out = append(out, boundsObl{in, "slice low >= 0", newLin(0).add(lo, -1)})
				} else if x.High != nil && !isUnsigned(x.High.Type()) {
					// b[:n] with a computed n (e.g. len(b)-1 on an empty b) panics when n is negative
					if _, isConst := x.High.(*ssa.Const); !isConst {
						out = append(out, boundsObl{in, "slice high >= 0", newLin(0).add(hi, -1)})
					}
				}
			case *ssa.IndexAddr:
				if !scope(x.X) {
					continue
				}
				idx := p.linOf(x.Index)
				n := p.lenOf(x.X)
				f := idx.add(n, -1)
				f.c++
				out = append(out, boundsObl{in, "index < len", f})
				if !isUnsigned(x.Index.Type()) { // an index of unsigned type cannot be negative
					out = append(out, boundsObl{in, "index >= 0", newLin(0).add(idx, -1)})
				}
			case *ssa.Index:
				if !scope(x.X) {
					continue
				}
				idx := p.linOf(x.Index)
				n := p.lenOf(x.X)
				f := idx.add(n, -1)
				f.c++
				out = append(out, boundsObl{in, "index < len", f})
				if !isUnsigned(x.Index.Type()) { // an index of unsigned type cannot be negative
					out = append(out, boundsObl{in, "index >= 0", newLin(0).add(idx, -1)})
				}
			case *ssa.Call:
				n := calleeName(&x.Call)
				need := int64(0)
				switch {
				case strings.HasSuffix(n, "ndian).Uint16") || strings.HasSuffix(n, "ndian).PutUint16"):
					need = 2
				case strings.HasSuffix(n, "ndian).Uint32") || strings.HasSuffix(n, "ndian).PutUint32"):
					need = 4
				case strings.HasSuffix(n, "ndian).Uint64") || strings.HasSuffix(n, "ndian).PutUint64"):
					need = 8
				}
				if need > 0 && len(x.Call.Args) >= 1 {
					arg := x.Call.Args[0]
					if !x.Call.IsInvoke() && len(x.Call.Args) >= 2 {
						if cal := x.Call.StaticCallee(); cal != nil && cal.Signature.Recv() != nil {
							arg = x.Call.Args[1] // receiver first
						}
					}
					if !scope(arg) {
						continue
					}
					f := newLin(need).add(p.lenOf(arg), -1)
					out = append(out, boundsObl{in, fmt.Sprintf("len >= %d for fixed-size read", need), f})
				}
			case *ssa.MakeSlice:
				// make([]T, n) panics on a negative n (that n is bounded from above is rule alloc-bounded)
				l := p.linOf(x.Len)
				if len(l.terms) == 0 || p.isNonneg(x.Len) {
					continue
				}
				// only lengths computed from untrusted data: a decoded integer, or a difference involving a buffer length
				// (configuration values and object state are not this function's input)
				fromInput := dependsOn(x.Len, func(v ssa.Value) bool { return isWideDecode(v) || isNarrowDecode(v) })
				for k, coef := range l.terms {
					if k.len && coef != 0 {
						for _, c2 := range l.terms {
							if c2 < 0 {
								fromInput = true
							}
						}
						if coef < 0 {
							fromInput = true
						}
					}
				}
				if !fromInput {
					continue
				}
				out = append(out, boundsObl{in, "make len >= 0", newLin(0).add(l, -1)})
			case *ssa.Panic:
				out = append(out, boundsObl{in, "explicit panic", newLin(1)})
			}
		}
	}
	return out
}

// lowerOf: constant lower bound of a loop counter: every incoming edge is a constant, or another
// counter of the same family (mutually dependent phis) plus a non-negative increment.
func (p *prover) lowerOf(v ssa.Value) (int64, bool) {
	ph, ok := v.(*ssa.Phi)
	if !ok {
		return 0, false
	}
	family := map[*ssa.Phi]bool{}
	lb := int64(1 << 62)
	var visit func(x *ssa.Phi) bool
	visit = func(x *ssa.Phi) bool {
		if family[x] {
			return true
		}
		family[x] = true
		for _, e := range x.Edges {
			if n, ok := constInt64(e); ok {
				if n < lb {
					lb = n
				}
				continue
			}
			l := p.linOf(e)
			// exactly one phi term with coefficient 1, the rest non-negative
			var inner *ssa.Phi
			rest := l.clone()
			for k, coef := range l.terms {
				if ph2, ok := k.v.(*ssa.Phi); ok && !k.len && coef == 1 && inner == nil {
					if _, isInt := ph2.Type().Underlying().(*types.Basic); isInt {
						inner = ph2
						delete(rest.terms, k)
					}
				}
			}
			if inner == nil {
				if len(l.terms) == 0 {
					if l.c < lb {
						lb = l.c
					}
					continue
				}
				return false
			}
			if !p.linNonneg(rest) {
				return false
			}
			if !visit(inner) {
				return false
			}
		}
		return true
	}
	if !visit(ph) || lb == int64(1<<62) {
		return 0, false
	}
	return lb, true
}
