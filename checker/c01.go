package main

import (
	"fmt"
	"go/token"
	"go/types"
	"strings"

	"golang.org/x/tools/go/ssa"
)

const ahVerify = "embedded/ahtree."

// boolCallEdge: the edge on which the boolean result of a call to `callee` is `val`.
func boolCallEdge(callee string, val bool) edgePred {
	return whenCond(val, func(a string) bool { return strings.HasPrefix(a, "call:"+callee+"(") || a == "call:"+callee })
}

// returnsConstBool matches `return true` / `return false`.
func returnsConstBool(v string) sitePred {
	return func(in ssa.Instruction) bool {
		rt, ok := in.(*ssa.Return)
		return ok && len(rt.Results) == 1 && desc(unspill(rt.Results[0], rt)) == "const:"+v
	}
}

func c01(c *Ctx) {
	// ---- C01.1 hash coverage -------------------------------------------------------------------------------------
	r := "C01.1/hash-coverage"
	hdrT := c.namedType("embedded/store", "TxHeader")
	alh := c.mustFn(r, "embedded/store.(*TxHeader).Alh")
	inner := c.mustFn(r, "embedded/store.(*TxHeader).innerHash")
	if hdrT != nil && alh != nil && inner != nil {
		c.fieldsRead(r, hdrT, []*ssa.Function{alh, inner}, nil)
		for _, f := range []*ssa.Function{alh, inner} {
			c.check(len(sites(f, callTo("crypto/sha256.Sum256"))) > 0, r, fnName(f)+":sha256", c.pos(f.Pos()), "hashes with sha256", fnName(f)+" no longer hashes its buffer with sha256")
		}
		c.check(len(sites(alh, callTo("embedded/store.(*TxHeader).innerHash"))) > 0, r, fnName(alh)+":includes-innerHash", c.pos(alh.Pos()), "Alh covers innerHash()", "Alh no longer includes the inner hash")
	}
	if f := c.mustFn(r, "embedded/store.TxEntryDigest_v1_2"); f != nil {
		if t := c.namedType("embedded/store", "TxEntry"); t != nil {
			c.fieldsRead(r, t, []*ssa.Function{f}, map[string]string{
				"TxEntry.vLen": "value length is authenticated through hVal", "TxEntry.vOff": "physical location, not content",
				"TxEntry.readonly": "in-memory flag", "TxEntry.k": "read through key()/kLen", "TxEntry.kLen": "read through key()",
			})
			usesKey := len(sites(f, callTo("embedded/store.(*TxEntry).key", "embedded/store.(*TxEntry).Key"))) > 0
			c.check(usesKey || c.readsField(f, "TxEntry", "k"), r, fnName(f)+":key", c.pos(f.Pos()), "the key is hashed", "the entry digest no longer covers the key")
		}
	}
	if f := c.mustFn(r, "embedded/store.EntrySpecDigest_v1"); f != nil {
		if t := c.namedType("embedded/store", "EntrySpec"); t != nil {
			c.fieldsRead(r, t, []*ssa.Function{f}, nil)
		}
	}

	// ---- C01.3 verifier composition --------------------------------------------------------------------------------
	c01Verifiers(c)
	// ---- C01.4 client: verify and bind before trusting ---------------------------------------------------------------
	c01Client(c)
	c01VerdictTested(c)
	c01SignedState(c)
	c01RowColumns(c, "C01.7/row-columns-compared-with-proven-row")
	// a response that can not be verified is refused, it does not take the verifier down (analysis shared with C16.12)
	c16PeerMessages(c, "C01.8/incomplete-response-is-refused")
	c01ReturnedEntryIsTheProvenOne(c, "C01.9/returned-entry-is-the-proven-one")
	// ---- C01.5 proto conversions carry every field ---------------------------------------------------------------------
	c01Proto(c)
}

func (c *Ctx) readsField(f *ssa.Function, st, field string) bool {
	found := false
	allInstrs(f, true, func(in ssa.Instruction) {
		if fa, ok := in.(*ssa.FieldAddr); ok && structName(fa.X.Type()) == st && fieldName(fa.X.Type(), fa.Field) == field {
			found = true
		}
	})
	return found
}

// paramsUsed: every parameter of fn has a real use (a dropped check typically leaves one unused).
func (c *Ctx) paramsUsed(rule string, fn *ssa.Function) {
	for _, p := range fn.Params {
		used := false
		for _, r := range *p.Referrers() {
			if _, dbg := r.(*ssa.DebugRef); !dbg {
				used = true
			}
		}
		c.check(used, rule, fnName(fn)+":param-used:"+p.Name(), c.pos(fn.Pos()), "parameter is used", "parameter "+p.Name()+" of "+fnName(fn)+" is never read: whatever it was checked against is no longer checked")
	}
}

func c01Verifiers(c *Ctx) {
	r := "C01.3/verifier-composition"
	vdp := c.mustFn(r, "embedded/store.VerifyDualProof")
	vlp := c.mustFn(r, "embedded/store.VerifyLinearProof")
	vla := c.mustFn(r, "embedded/store.VerifyLinearAdvanceProof")
	vd2 := c.mustFn(r, "embedded/store.VerifyDualProofV2")
	for _, f := range []*ssa.Function{vdp, vlp, vla, vd2} {
		if f != nil {
			c.paramsUsed(r, f)
		}
	}
	retTrue := returnsConstBool("true")
	mustCross := func(f *ssa.Function, name string, alts ...edgePred) {
		q := &pathQ{fn: f, fromEntry: true, to: retTrue, barrier: anyEdge(alts...)}
		construct := fnName(f) + ":accept-requires:" + name
		if len(sites(f, retTrue)) == 0 {
			c.undecided(r, construct, "no `return true` in "+fnName(f))
			return
		}
		if w := q.bypass(); w != nil {
			c.fail(r, construct, c.pos(w[len(w)-1].Pos()), "the verifier can accept (return true) without "+name+": "+c.witnessStr(w))
		} else {
			c.ok(r, construct, c.pos(f.Pos()), "every accepting path crosses "+name)
		}
	}
	eq := func(subs ...string) edgePred {
		return whenCond(true, func(a string) bool {
			if !strings.Contains(a, " == ") {
				return false
			}
			for _, s := range subs {
				if !strings.Contains(a, s) {
					return false
				}
			}
			return true
		})
	}
	lt := func(holds bool, l, rr string) edgePred {
		return whenCond(holds, func(a string) bool {
			return strings.HasPrefix(a, "("+l) && strings.Contains(a, " < ") && strings.Contains(a[strings.Index(a, " < "):], rr)
		})
	}
	if vdp != nil {
		mustCross(vdp, "sourceAlh == SourceTxHeader.Alh()", eq("param:sourceAlh", "SourceTxHeader", ").Alh["))
		mustCross(vdp, "targetAlh == TargetTxHeader.Alh()", eq("param:targetAlh", "TargetTxHeader", ").Alh["))
		mustCross(vdp, "SourceTxHeader.ID == sourceTxID", eq("param:sourceTxID", "SourceTxHeader.ID"))
		mustCross(vdp, "TargetTxHeader.ID == targetTxID", eq("param:targetTxID", "TargetTxHeader.ID"))
		mustCross(vdp, "VerifyInclusion | sourceTxID >= Target.BlTxID", boolCallEdge(ahVerify+"VerifyInclusion", true), lt(false, "param:sourceTxID", "TargetTxHeader.BlTxID"))
		mustCross(vdp, "VerifyConsistency | Source.BlTxID == 0", boolCallEdge(ahVerify+"VerifyConsistency", true), lt(false, "const:0", "SourceTxHeader.BlTxID"))
		mustCross(vdp, "VerifyLastInclusion | Target.BlTxID == 0", boolCallEdge(ahVerify+"VerifyLastInclusion", true), lt(false, "const:0", "TargetTxHeader.BlTxID"))
		// when the trusted source IS the last leaf of the target's tree (the usual "trusted N -> N+1" step), the proven last leaf is
		// the trusted Alh: nothing else ties the target's tree to what the client trusts (the advance proof is empty in that case)
		neq := func(subs ...string) edgePred {
			return whenCond(false, func(a string) bool { return strings.Contains(a, " == ") && atomContains(subs...)(a) })
		}
		mustCross(vdp, "TargetBlTxAlh == sourceAlh | sourceTxID != Target.BlTxID", eq("TargetBlTxAlh", "param:sourceAlh"), neq("param:sourceTxID", "TargetTxHeader.BlTxID"), lt(true, "param:sourceTxID", "TargetTxHeader.BlTxID"))
		mustCross(vdp, "VerifyLinearProof", boolCallEdge("embedded/store.VerifyLinearProof", true))
		mustCross(vdp, "VerifyLinearAdvanceProof", boolCallEdge("embedded/store.VerifyLinearAdvanceProof", true))
		// floors and argument binding of the sub-verifiers
		for _, v := range []struct {
			callee string
			n      int
		}{{ahVerify + "VerifyInclusion", 1}, {ahVerify + "VerifyConsistency", 1}, {ahVerify + "VerifyLastInclusion", 1}, {"embedded/store.VerifyLinearProof", 2}, {"embedded/store.VerifyLinearAdvanceProof", 2}} {
			got := len(sites(vdp, callTo(v.callee)))
			c.check(got >= v.n, r, fnName(vdp)+":calls:"+lastSeg(v.callee), c.pos(vdp.Pos()), fmt.Sprintf("%d call(s)", got), fmt.Sprintf("VerifyDualProof calls %s %d time(s), expected %d", v.callee, got, v.n))
		}
		// the proven leaf/roots come from the (hash-checked) headers and arguments, not from free proof terms
		for _, in := range sites(vdp, callTo(ahVerify+"VerifyInclusion")) {
			a := callOf(in).Args
			c.check(desc(a[1]) == "param:sourceTxID" && strings.Contains(desc(a[2]), "TargetTxHeader.BlTxID") && strings.Contains(desc(a[3]), "leafFor(param:sourceAlh)") && strings.Contains(desc(a[4]), "TargetTxHeader.BlRoot"),
				r, fnName(vdp)+":VerifyInclusion-arguments", c.pos(in.Pos()), "inclusion of leaf(sourceAlh) at sourceTxID in target's BlRoot/BlTxID", fmt.Sprintf("VerifyInclusion arguments are %s, %s, %s, %s", desc(a[1]), desc(a[2]), desc(a[3]), desc(a[4])))
		}
		for _, in := range sites(vdp, callTo(ahVerify+"VerifyConsistency")) {
			a := callOf(in).Args
			c.check(strings.Contains(desc(a[1]), "SourceTxHeader.BlTxID") && strings.Contains(desc(a[2]), "TargetTxHeader.BlTxID") && strings.Contains(desc(a[3]), "SourceTxHeader.BlRoot") && strings.Contains(desc(a[4]), "TargetTxHeader.BlRoot"),
				r, fnName(vdp)+":VerifyConsistency-arguments", c.pos(in.Pos()), "consistency between the two headers' trees", "VerifyConsistency is not applied to the two headers' BlTxID/BlRoot")
		}
		for _, in := range sites(vdp, callTo(ahVerify+"VerifyLastInclusion")) {
			a := callOf(in).Args
			c.check(strings.Contains(desc(a[1]), "TargetTxHeader.BlTxID") && strings.Contains(desc(a[2]), "TargetBlTxAlh") && strings.Contains(desc(a[3]), "TargetTxHeader.BlRoot"),
				r, fnName(vdp)+":VerifyLastInclusion-arguments", c.pos(in.Pos()), "last inclusion of TargetBlTxAlh in target's tree", "VerifyLastInclusion arguments changed")
		}
		for i, in := range sites(vdp, callTo("embedded/store.VerifyLinearProof")) {
			a := callOf(in).Args
			okA := desc(a[2]) == "param:targetTxID" && desc(a[4]) == "param:targetAlh" &&
				((strings.Contains(desc(a[1]), "TargetTxHeader.BlTxID") && strings.Contains(desc(a[3]), "TargetBlTxAlh")) || (desc(a[1]) == "param:sourceTxID" && desc(a[3]) == "param:sourceAlh"))
			c.check(okA, r, fmt.Sprintf("%s:VerifyLinearProof-arguments#%d", fnName(vdp), i), c.pos(in.Pos()), "linear proof ends at (targetTxID, targetAlh)", "VerifyLinearProof arguments changed: "+desc(a[1])+","+desc(a[2])+","+desc(a[3])+","+desc(a[4]))
		}
		for i, in := range sites(vdp, callTo("embedded/store.VerifyLinearAdvanceProof")) {
			a := callOf(in).Args
			okA := strings.Contains(desc(a[1]), "SourceTxHeader.BlTxID") && strings.Contains(desc(a[4]), "TargetTxHeader.BlRoot") && strings.Contains(desc(a[5]), "TargetTxHeader.BlTxID") &&
				((desc(a[2]) == "param:sourceTxID" && desc(a[3]) == "param:sourceAlh") || (strings.Contains(desc(a[2]), "TargetTxHeader.BlTxID") && strings.Contains(desc(a[3]), "TargetBlTxAlh")))
			c.check(okA, r, fmt.Sprintf("%s:VerifyLinearAdvanceProof-arguments#%d", fnName(vdp), i), c.pos(in.Pos()), "advance proof from Source.BlTxID into the target tree", "VerifyLinearAdvanceProof arguments changed")
		}
	}
	if vla != nil {
		// the only unconditional accept is the documented "proof not needed" case
		q := &pathQ{fn: vla, fromEntry: true, to: retTrue, barrier: whenCond(false, func(a string) bool { return a == "((param:startTxID + const:1) < param:endTxID)" })}
		if len(sites(vla, retTrue)) > 0 {
			if w := q.bypass(); w != nil {
				c.fail(r, fnName(vla)+":unconditional-accept-only-when-adjacent", c.pos(w[len(w)-1].Pos()), "VerifyLinearAdvanceProof accepts without a proof although endTxID > startTxID+1: "+c.witnessStr(w))
			} else {
				c.ok(r, fnName(vla)+":unconditional-accept-only-when-adjacent", c.pos(vla.Pos()), "`return true` is dominated by endTxID <= startTxID+1")
			}
		}
		// every step of the chain is checked for inclusion before it is extended; a failed inclusion rejects
		incl := callTo(ahVerify + "VerifyInclusion")
		adv := callTo("embedded/store.advanceLinearHash")
		c.ruleOrder(r, vla, "VerifyInclusion", incl, "advanceLinearHash", adv, nil, 1)
		for _, in := range sites(vla, incl) {
			a := callOf(in).Args
			c.check(strings.Contains(desc(a[3]), "leafFor(") && desc(a[4]) == "param:treeRoot" && desc(a[2]) == "param:treeSize", r, fnName(vla)+":VerifyInclusion-arguments", c.pos(in.Pos()),
				"each intermediate Alh is proven included in (treeRoot, treeSize)", "inclusion of the intermediate Alh is checked against "+desc(a[4])+"/"+desc(a[2]))
		}
		q2 := &pathQ{fn: vla, fromEntry: true, to: adv, barrier: boolCallEdge(ahVerify+"VerifyInclusion", true)}
		c.check(q2.bypass() == nil, r, fnName(vla)+":chain-extended-only-after-verified-inclusion", c.pos(vla.Pos()), "advanceLinearHash is dominated by the verified edge", "the linear chain is advanced without a verified inclusion of the current node")
		// the final verdict compares with endAlh
		okEnd := false
		allInstrs(vla, false, func(in ssa.Instruction) {
			if rt, ok := in.(*ssa.Return); ok && len(rt.Results) == 1 {
				d := desc(unspill(rt.Results[0], rt))
				if strings.Contains(d, "param:endAlh") && strings.Contains(d, "==") {
					okEnd = true
				}
			}
		})
		c.check(okEnd, r, fnName(vla)+":final-compare-endAlh", c.pos(vla.Pos()), "result is calculatedAlh == endAlh", "VerifyLinearAdvanceProof no longer compares the chain's end with endAlh")
		// term counts are checked
		c.check(c.hasCondWith(vla, "len(", "LinearProofTerms", "param:endTxID", "param:startTxID") && c.hasCondWith(vla, "len(", "InclusionProofs", "param:endTxID"), r, fnName(vla)+":term-counts", c.pos(vla.Pos()), "both term counts are checked against endTxID-startTxID", "the number of proof terms is no longer checked against the tx range")
	}
	if vlp != nil {
		c.check(c.hasCondWith(vlp, "param:sourceAlh", "Terms", " == "), r, fnName(vlp)+":first-term-is-sourceAlh", c.pos(vlp.Pos()), "Terms[0] is compared with sourceAlh", "VerifyLinearProof no longer ties the first term to sourceAlh")
		c.check(c.hasCondWith(vlp, "len(", "Terms", "param:targetTxID", "param:sourceTxID"), r, fnName(vlp)+":term-count", c.pos(vlp.Pos()), "term count == targetTxID-sourceTxID+1", "VerifyLinearProof no longer checks the number of terms")
		c.check(c.hasCondWith(vlp, "SourceTxID", "param:sourceTxID", " == ") && c.hasCondWith(vlp, "TargetTxID", "param:targetTxID", " == "), r, fnName(vlp)+":ids-bound", c.pos(vlp.Pos()), "proof ids are compared with the arguments", "VerifyLinearProof no longer binds the proof's ids to the arguments")
		okEnd := false
		allInstrs(vlp, false, func(in ssa.Instruction) {
			if rt, ok := in.(*ssa.Return); ok && len(rt.Results) == 1 {
				d := desc(unspill(rt.Results[0], rt))
				if strings.Contains(d, "param:targetAlh") && strings.Contains(d, "==") {
					okEnd = true
				}
			}
		})
		c.check(okEnd, r, fnName(vlp)+":final-compare-targetAlh", c.pos(vlp.Pos()), "result is targetAlh == calculatedAlh", "VerifyLinearProof no longer compares the chain's end with targetAlh")
		c.check(len(sites(vlp, retTrue)) == 0, r, fnName(vlp)+":no-unconditional-accept", c.pos(vlp.Pos()), "no `return true`", "VerifyLinearProof has an unconditional accept")
	}
	if vd2 != nil {
		succ := func(in ssa.Instruction) bool {
			rt, ok := in.(*ssa.Return)
			return ok && retKind(rt) == "success"
		}
		cross := func(name string, alts ...edgePred) {
			q := &pathQ{fn: vd2, fromEntry: true, to: succ, barrier: anyEdge(alts...)}
			if w := q.bypass(); w != nil {
				c.fail(r, fnName(vd2)+":accept-requires:"+name, c.pos(w[len(w)-1].Pos()), "VerifyDualProofV2 can return nil without "+name+": "+c.witnessStr(w))
			} else {
				c.ok(r, fnName(vd2)+":accept-requires:"+name, c.pos(vd2.Pos()), "every nil return crosses "+name)
			}
		}
		same := whenCond(true, func(a string) bool { return a == "(param:sourceTxID == param:targetTxID)" })
		cross("sourceAlh == SourceTxHeader.Alh()", eq("param:sourceAlh", ").Alh["))
		cross("targetAlh == TargetTxHeader.Alh()", eq("param:targetAlh", ").Alh["))
		cross("VerifyInclusion", boolCallEdge(ahVerify+"VerifyInclusion", true), same)
		// VerifyConsistency result flows through a phi: require a call on every path instead
		q := &pathQ{fn: vd2, fromEntry: true, to: succ, via: callTo(ahVerify + "VerifyConsistency"), barrier: same}
		c.check(q.bypass() == nil, r, fnName(vd2)+":accept-requires:VerifyConsistency", c.pos(vd2.Pos()), "every nil return passes VerifyConsistency", "VerifyDualProofV2 can return nil without a consistency check")
	}

	// ---- per-tx entry tree ---------------------------------------------------------------------------------------------
	if f := c.mustFn(r, "embedded/store.VerifyInclusion"); f != nil {
		c.paramsUsed(r, f)
		c.check(len(sites(f, callTo("embedded/htree.VerifyInclusion"))) > 0, r, fnName(f)+":delegates", c.pos(f.Pos()), "delegates to htree.VerifyInclusion", "store.VerifyInclusion no longer verifies against the entries tree")
	}
	if f := c.mustFn(r, "embedded/htree.VerifyInclusion"); f != nil {
		c.paramsUsed(r, f)
	}
}

// hasCondWith: fn contains a branch whose normalised condition mentions all substrings.
func (c *Ctx) hasCondWith(fn *ssa.Function, subs ...string) bool {
	found := false
	allInstrs(fn, false, func(in ssa.Instruction) {
		ifi, ok := in.(*ssa.If)
		if !ok {
			return
		}
		a, _ := normCond(ifi.Cond)
		for _, s := range subs {
			if !strings.Contains(a, s) {
				return
			}
		}
		found = true
	})
	return found
}

// client functions that advance the trusted state
var c01ClientFns = map[string]string{
	"pkg/client.(*immuClient).verifiedGet":            "embedded/store.VerifyInclusion",
	"pkg/client.(*immuClient).VerifiedSet":            "embedded/store.VerifyInclusion",
	"pkg/client.(*immuClient).VerifiedTxByID":         "pkg/api/schema.TxFromProto",
	"pkg/client.(*immuClient).VerifiedSetReferenceAt": "embedded/store.VerifyInclusion",
	"pkg/client.(*immuClient).VerifiedZAddAt":         "embedded/store.VerifyInclusion",
	"pkg/client.(*immuClient).VerifyRow":              "embedded/store.VerifyInclusion",
	"pkg/client.(*immuClient)._streamVerifiedSet":     "pkg/api/schema.TxFromProto",
	"pkg/client.(*immuClient)._streamVerifiedGet":     "embedded/store.VerifyInclusion",
}

// reads can prove a tx older or newer than the trusted one: the trusted hash must be able to sit on either side
var c01Bidirectional = map[string]bool{
	"pkg/client.(*immuClient).verifiedGet": true, "pkg/client.(*immuClient).VerifiedTxByID": true,
	"pkg/client.(*immuClient).VerifyRow": true, "pkg/client.(*immuClient)._streamVerifiedGet": true,
}

func c01Client(c *Ctx) {
	r := "C01.4/verify-and-bind-before-trust"
	setState := callTo("(pkg/client/state.StateService).SetState")
	// every SetState caller in pkg/client is in the table
	for _, in := range c.callSites(setState) {
		owner := fnName(topFn(in.Parent()))
		if !fnInPkgs(in.Parent(), []string{"pkg/client"}) {
			continue
		}
		_, ok := c01ClientFns[owner]
		c.check(ok, r, "SetState:in:"+owner, c.pos(in.Pos()), "state advance in a function covered by the verify-and-bind rule", "the trusted state is advanced in "+owner+", which has no verification rule")
	}
	for _, name := range sortedKeys(c01ClientFns) {
		f := c.mustFn(r, name)
		if f == nil {
			continue
		}
		bind := c01ClientFns[name]
		if len(sites(f, setState)) == 0 {
			c.undecided(r, name+":SetState", "no SetState call")
			continue
		}
		firstTrust := whenCond(false, func(a string) bool { return strings.HasPrefix(a, "(const:0 < ") && strings.HasSuffix(a, ".TxId)") })
		vdp := callTo("pkg/client.(*immuClient).verifyDualProof")
		c.ruleOrder(r, f, "verifyDualProof", vdp, "SetState", setState, firstTrust, 1)
		c.ruleErrChecked(r, f, "verifyDualProof", vdp, 1)
		noKey := whenCond(true, func(a string) bool { return strings.Contains(a, "serverSigningPubKey") && strings.Contains(a, "nil") })
		c.ruleOrder(r, f, "CheckSignature", callTo("pkg/api/schema.(*ImmutableState).CheckSignature"), "SetState", setState, noKey, 1)
		c.ruleErrChecked(r, f, "CheckSignature", callTo("pkg/api/schema.(*ImmutableState).CheckSignature"), 1)
		// content binding
		c.ruleOrder(r, f, "bind:"+lastSeg(bind), callTo(bind), "SetState", setState, nil, 1)
		if bind == "embedded/store.VerifyInclusion" {
			q := &pathQ{fn: f, fromEntry: true, to: setState, barrier: boolCallEdge("embedded/store.VerifyInclusion", true)}
			c.check(q.bypass() == nil, r, name+":inclusion-verified-before-trust", c.pos(f.Pos()), "SetState is dominated by the verified edge of VerifyInclusion", "the trusted state advances although the returned entry's inclusion did not verify")
		} else {
			// the rebuilt tx's Alh is compared with (or used as) the proven hash
			okBind := false
			allInstrs(f, false, func(in ssa.Instruction) {
				if ifi, ok := in.(*ssa.If); ok {
					a, _ := normCond(ifi.Cond)
					if strings.Contains(a, "TxFromProto") && strings.Contains(a, ").Alh[") && strings.Contains(a, " == ") {
						okBind = true
					}
				}
				if cc := callOf(in); cc != nil && calleeName(cc) == "pkg/client.(*immuClient).verifyDualProof" {
					for _, a := range cc.Args {
						if dependsOn(a, func(v ssa.Value) bool {
							cl, ok := v.(*ssa.Call)
							return ok && calleeName(&cl.Call) == "pkg/api/schema.TxFromProto"
						}) {
							okBind = true
						}
					}
				}
			})
			c.check(okBind, r, name+":returned-tx-bound-to-proof", c.pos(f.Pos()), "the Alh of the tx rebuilt from the response is what the proof covers", "the returned transaction is not bound to the verified header")
		}
		// the dual proof is anchored in the trusted state: one of the two hashes on each side of the
		// state.TxId comparison is the trusted hash
		for _, in := range sites(f, vdp) {
			a := callOf(in).Args
			if len(a) < 7 {
				continue
			}
			trusted := func(v ssa.Value) bool {
				return dependsOn(v, func(x ssa.Value) bool {
					d := desc(x)
					return strings.HasSuffix(d, ".TxHash") && strings.Contains(d, "GetState")
				})
			}
			anchored := trusted(a[5]) || trusted(a[6])
			if c01Bidirectional[name] {
				anchored = trusted(a[5]) && trusted(a[6])
			}
			c.check(anchored, r, name+":proof-anchored-in-trusted-state", c.pos(in.Pos()),
				"both the sourceAlh and the targetAlh arguments can take the trusted state's hash (one per ordering of trusted/proven tx)",
				"the dual proof is verified against hashes none of which is the client's trusted hash on one side of the state.TxId comparison: a forked history would verify")
		}
		// the new state's hash is the proven target hash
		allInstrs(f, false, func(in ssa.Instruction) {
			st, ok := in.(*ssa.Store)
			if !ok {
				return
			}
			if fl, base := fieldOf(st.Addr); fl == "ImmutableState.TxHash" && isFreshAlloc(base) {
				var tgt ssa.Value
				for _, v := range sites(f, vdp) {
					tgt = callOf(v).Args[6]
				}
				if tgt != nil {
					okv := dependsOn(st.Val, func(x ssa.Value) bool { return x == tgt }) || derivesFromAllocOfVal(st.Val, tgt)
					c.check(okv, r, name+":new-state-hash-is-proven-target", c.pos(st.Pos()), "newState.TxHash is the targetAlh passed to the proof", "the stored state hash is not the hash that was proven: "+desc(st.Val))
				}
			}
		})
	}
	// verifyDualProof really verifies
	if f := c.mustFn(r, "pkg/client.(*immuClient).verifyDualProof"); f != nil {
		q := &pathQ{fn: f, fromEntry: true, to: func(in ssa.Instruction) bool {
			rt, ok := in.(*ssa.Return)
			return ok && retKind(rt) == "success"
		}, barrier: boolCallEdge("embedded/store.VerifyDualProof", true)}
		c.check(len(sites(f, callTo("embedded/store.VerifyDualProof"))) > 0 && q.bypass() == nil, r, fnName(f)+":nil-only-if-verified", c.pos(f.Pos()), "nil is returned only on the verified edge", "verifyDualProof returns nil although store.VerifyDualProof did not verify")
		for _, in := range sites(f, callTo("embedded/store.VerifyDualProof")) {
			a := callOf(in).Args
			okA := desc(a[1]) == "param:sourceID" && desc(a[2]) == "param:targetID" && desc(a[3]) == "param:sourceAlh" && desc(a[4]) == "param:targetAlh"
			c.check(okA, r, fnName(f)+":arguments-forwarded", c.pos(in.Pos()), "ids and hashes forwarded unchanged", "verifyDualProof forwards different ids/hashes to the verifier")
		}
	}
	// documents
	if f := c.fn("pkg/verification.VerifyDocument"); f != nil {
		succ := func(in ssa.Instruction) bool {
			rt, ok := in.(*ssa.Return)
			return ok && retKind(rt) == "success"
		}
		need := func(name string, e edgePred) {
			q := &pathQ{fn: f, fromEntry: true, to: succ, barrier: e}
			if w := q.bypass(); w != nil {
				c.fail(r, fnName(f)+":accept-requires:"+name, c.pos(w[len(w)-1].Pos()), "VerifyDocument can succeed without "+name+": "+c.witnessStr(w))
			} else {
				c.ok(r, fnName(f)+":accept-requires:"+name, c.pos(f.Pos()), "every successful return crosses "+name)
			}
		}
		// the match counter is incremented only on the edge where the document digest equals the entry's HValue
		hvalEq := whenCond(true, func(a string) bool { return strings.HasPrefix(a, "call:bytes.Equal(") && strings.Contains(a, "HValue") })
		ninc := 0
		allInstrs(f, false, func(in ssa.Instruction) {
			bo, ok := in.(*ssa.BinOp)
			if !ok || bo.Op != token.ADD || desc(bo.Y) != "const:1" {
				return
			}
			if _, isPhi := bo.X.(*ssa.Phi); !isPhi {
				return
			}
			// only the counter compared with 1 matters
			cmp := false
			for _, rr := range *bo.Referrers() {
				if ph, ok := rr.(*ssa.Phi); ok {
					for _, r2 := range *ph.Referrers() {
						if b2, ok := r2.(*ssa.BinOp); ok && strings.Contains(desc(b2), "const:1") && (b2.Op == token.EQL || b2.Op == token.NEQ) {
							cmp = true
						}
					}
				}
			}
			if !cmp {
				return
			}
			ninc++
			q := &pathQ{fn: f, fromEntry: true, to: func(x ssa.Instruction) bool { return x == in }, barrier: hvalEq}
			c.check(q.bypass() == nil, r, fnName(f)+":match-counted-only-if-digest-equals-HValue", c.pos(in.Pos()), "keyFound++ is dominated by the HValue equality edge", "a tx entry is counted as the document's entry without comparing the document digest with its HValue")
		})
		if ninc == 0 {
			c.fail(r, fnName(f)+":match-counted-only-if-digest-equals-HValue", c.pos(f.Pos()), "no counted match of the document entry found")
		}
		need("exactly one matching entry", whenCond(true, func(a string) bool {
			return strings.Contains(a, " == const:1)") || strings.HasPrefix(a, "(const:1 == ")
		}))
		need("document equals the proven document", whenCond(true, func(a string) bool { return strings.HasPrefix(a, "call:google.golang.org/protobuf/proto.Equal(") }))
		need("entries tree root == header Eh", whenCond(true, func(a string) bool {
			return strings.Contains(a, ".Eh") && strings.Contains(a, ").Root[") && strings.Contains(a, " == ")
		}))
		// the known state's hash is compared with both the source and the target Alh, and a mismatch rejects
		nk := 0
		allInstrs(f, false, func(in ssa.Instruction) {
			ifi, ok := in.(*ssa.If)
			if !ok {
				return
			}
			a, pol := normCond(ifi.Cond)
			if !(strings.HasPrefix(a, "call:bytes.Equal(") && strings.Contains(a, "knownState.TxHash")) {
				return
			}
			nk++
			succE := 1 // atom false = mismatch
			if !pol {
				succE = 0
			}
			b := ifi.Block().Succs[succE]
			rejects := false
			for _, x := range b.Instrs {
				if rt, ok := x.(*ssa.Return); ok && retKind(rt) == "fail" {
					rejects = true
				}
			}
			c.check(rejects, r, fmt.Sprintf("%s:known-state-hash-mismatch-rejects#%d", fnName(f), nk), c.pos(ifi.Cond.Pos()), "mismatch returns an error", "a known-state hash mismatch does not reject the proof")
		})
		c.check(nk >= 2, r, fnName(f)+":known-state-compared-with-source-and-target", c.pos(f.Pos()), fmt.Sprintf("%d comparisons", nk), "the known state's hash is no longer compared with both the source and the target Alh")
		c.ruleMustPass(r, f, nil, "VerifyDualProofV2", callTo("embedded/store.VerifyDualProofV2"), nil, false)
		c.ruleErrChecked(r, f, "VerifyDualProofV2", callTo("embedded/store.VerifyDualProofV2"), 1)
		noKey := whenCond(true, func(a string) bool { return strings.Contains(a, "serverSigningPubKey") && strings.Contains(a, "nil") })
		c.ruleMustPass(r, f, nil, "CheckSignature", callTo("pkg/api/schema.(*ImmutableState).CheckSignature"), noKey, false)
	}
}

func derivesFromAllocOfVal(v ssa.Value, src ssa.Value) bool {
	// v = slice of alloc that was stored src (or a phi containing src)
	var base ssa.Value = v
	for i := 0; i < 6; i++ {
		switch x := base.(type) {
		case *ssa.Slice:
			base = x.X
			continue
		case *ssa.Convert:
			base = x.X
			continue
		}
		break
	}
	a, ok := base.(*ssa.Alloc)
	if !ok {
		return false
	}
	for _, r := range *a.Referrers() {
		if st, ok := r.(*ssa.Store); ok && st.Addr == a {
			if st.Val == src || dependsOn(st.Val, func(x ssa.Value) bool { return x == src }) {
				return true
			}
			if ph, ok := src.(*ssa.Phi); ok {
				for _, e := range ph.Edges {
					if e == st.Val {
						return true
					}
				}
			}
		}
	}
	// the alloc may itself be what the proof call loaded from
	if u, ok := src.(*ssa.UnOp); ok && u.X == a {
		return true
	}
	return false
}

// c01Proto: conversion functions read every field of their source struct.
func c01Proto(c *Ctx) {
	r := "C01.5/proto-conversion-coverage"
	for _, p := range []struct{ fn, pkg, typ string }{
		{"pkg/api/schema.TxHeaderToProto", "embedded/store", "TxHeader"},
		{"pkg/api/schema.DualProofToProto", "embedded/store", "DualProof"},
		{"pkg/api/schema.LinearProofToProto", "embedded/store", "LinearProof"},
		{"pkg/api/schema.LinearAdvanceProofToProto", "embedded/store", "LinearAdvanceProof"},
		{"pkg/api/schema.TxHeaderFromProto", "pkg/api/schema", "TxHeader"},
		{"pkg/api/schema.DualProofFromProto", "pkg/api/schema", "DualProof"},
		{"pkg/api/schema.LinearProofFromProto", "pkg/api/schema", "LinearProof"},
		{"pkg/api/schema.LinearAdvanceProofFromProto", "pkg/api/schema", "LinearAdvanceProof"},
		{"pkg/api/schema.InclusionProofFromProto", "pkg/api/schema", "InclusionProof"},
		{"pkg/api/schema.InclusionProofToProto", "embedded/htree", "InclusionProof"},
	} {
		f := c.mustFn(r, p.fn)
		t := c.namedType(p.pkg, p.typ)
		if f == nil || t == nil {
			continue
		}
		st, ok := t.Underlying().(*types.Struct)
		if !ok {
			continue
		}
		ex := map[string]string{}
		for i := 0; i < st.NumFields(); i++ {
			n := st.Field(i).Name()
			if n == "state" || n == "sizeCache" || n == "unknownFields" {
				ex[p.typ+"."+n] = "protobuf runtime field"
			}
		}
		c.fieldsReadKeyed(r, lastSeg(p.fn), t, []*ssa.Function{f}, ex)
	}
}

// fieldsReadKeyed is fieldsRead with the converting function in the obligation key.
func (c *Ctx) fieldsReadKeyed(rule, who string, t types.Type, fns []*ssa.Function, exempt map[string]string) {
	st, ok := t.Underlying().(*types.Struct)
	if !ok {
		return
	}
	tn := structName(t)
	read := map[string]bool{}
	for _, fn := range fns {
		allInstrs(fn, true, func(in ssa.Instruction) {
			switch x := in.(type) {
			case *ssa.FieldAddr:
				if structName(x.X.Type()) == tn && sameNamed(x.X.Type(), t) {
					for _, r := range *x.Referrers() {
						if s, isStore := r.(*ssa.Store); !isStore || s.Addr != x {
							read[fieldName(x.X.Type(), x.Field)] = true
						}
					}
				}
			case *ssa.Field:
				if structName(x.X.Type()) == tn && sameNamed(x.X.Type(), t) {
					read[fieldName(x.X.Type(), x.Field)] = true
				}
			case *ssa.Call:
				// generated getters: GetX()
				if n := calleeName(&x.Call); strings.Contains(n, "(*"+tn+").Get") {
					read[strings.TrimPrefix(lastSeg(n), "Get")] = true
				}
			}
		})
	}
	for i := 0; i < st.NumFields(); i++ {
		f := st.Field(i).Name()
		key := tn + "." + f
		if reason, ok := exempt[key]; ok {
			c.okTrivial(rule, who+":reads:"+key, "", "exempt: "+reason)
			continue
		}
		c.check(read[f], rule, who+":reads:"+key, c.pos(fns[0].Pos()), "field is converted", fmt.Sprintf("%s drops field %s: the value is lost between the store and the wire, weakening or breaking verification", who, key))
	}
}

func sameNamed(a, b types.Type) bool {
	for {
		if p, ok := a.(*types.Pointer); ok {
			a = p.Elem()
			continue
		}
		break
	}
	na, ok1 := a.(*types.Named)
	nb, ok2 := b.(*types.Named)
	return ok1 && ok2 && na.Obj() == nb.Obj()
}

// c01VerdictTested: the boolean result of every verifier call made by client-side code is branched on before
// the same call executes again (a loop overwriting the verdict), before a success return and before the trusted
// state advances. A verdict that is merged into a later one (`verifies = Verify(...)` in a loop, tested once
// after the loop) authenticates the last element only.
func c01VerdictTested(c *Ctx) {
	r := "C01.4/verdict-tested"
	isVerifier := func(in ssa.Instruction) bool {
		call, ok := in.(*ssa.Call)
		if !ok {
			return false
		}
		cal := call.Call.StaticCallee()
		if cal == nil || cal.Pkg == nil {
			return false
		}
		p := short(cal.Pkg.Pkg.Path())
		if p != "embedded/store" && p != "embedded/ahtree" && p != "embedded/htree" {
			return false
		}
		if !strings.HasPrefix(cal.Name(), "Verify") {
			return false
		}
		res := cal.Signature.Results()
		if res.Len() != 1 {
			return false
		}
		b, ok := res.At(0).Type().Underlying().(*types.Basic)
		return ok && b.Kind() == types.Bool
	}
	setState := callTo("(pkg/client/state.StateService).SetState")
	n := 0
	for _, f := range c.allFns {
		if !fnInPkgs(f, []string{"pkg/client", "pkg/verification", "pkg/client/auditor", "pkg/integration"}) && !strings.HasPrefix(fnName(f), "pkg/client") {
			continue
		}
		if strings.HasPrefix(fnName(f), "pkg/integration") {
			continue
		}
		for i, in := range sites(f, isVerifier) {
			n++
			call := in.(*ssa.Call)
			tested := func(b *ssa.BasicBlock, succ int) bool {
				if len(b.Instrs) == 0 {
					return false
				}
				ifi, ok := b.Instrs[len(b.Instrs)-1].(*ssa.If)
				if !ok {
					return false
				}
				for _, leaf := range boolLeaves(ifi.Cond) {
					x := leaf
					for {
						if u, ok := x.(*ssa.UnOp); ok && u.Op == token.NOT {
							x = u.X
							continue
						}
						break
					}
					if x == ssa.Value(call) {
						return true
					}
					// a verdict kept in a variable that is captured by a closure lives in an alloc: a load of that
					// alloc tests the verdict stored into it (loop-overwrite is then not distinguished: stated limit)
					if ld, ok := x.(*ssa.UnOp); ok && ld.Op == token.MUL {
						if a, ok := ld.X.(*ssa.Alloc); ok {
							for _, ref := range *a.Referrers() {
								if st, ok := ref.(*ssa.Store); ok && st.Addr == a && st.Val == ssa.Value(call) {
									return true
								}
							}
						}
					}
				}
				return false
			}
			q := &pathQ{fn: f, from: []ssa.Instruction{in}, to: func(x ssa.Instruction) bool {
				return x == in || setState(x) || successReturn(x)
			}, barrier: tested}
			w := q.bypass()
			key := fmt.Sprintf("%s:%s#%d", fnName(f), lastSeg(calleeName(&call.Call)), i)
			// a verdict that is returned as is hands the decision to the caller
			returned := false
			for _, ref := range *call.Referrers() {
				if _, ok := ref.(*ssa.Return); ok {
					returned = true
				}
			}
			if returned {
				c.okTrivial(r, key, c.pos(in.Pos()), "the verdict is the function's result")
				continue
			}
			c.check(w == nil, r, key, c.pos(in.Pos()), "the verdict itself is branched on before the call repeats, before success and before SetState",
				"the result of this verifier call can be overwritten by a later call, or reach a successful return / SetState, without having been tested: "+c.witnessStr(w))
		}
	}
	c.count("client_verifier_calls", n)
	if n < 8 {
		c.undecided(r, "floor", fmt.Sprintf("only %d verifier calls found in client-side packages (9 confirmed by hand)", n))
	}
}

// c01SignedState: the state a server signs next to a proof is the state the proof leads to: its hash is computed from
// DualProof.TargetTxHeader in every handler (the client checks the signature over the target state; a state computed
// from another header of the response makes an honest, untampered answer unverifiable when the two differ).
func c01SignedState(c *Ctx) {
	r := "C01.6/signed-state-is-proof-target"
	n := 0
	for _, in := range c.callSites(callTo("pkg/api/schema.TxHeaderFromProto")) {
		f := in.Parent()
		if !fnInPkgs(f, []string{"pkg/server"}) {
			continue
		}
		// only headers whose Alh goes into an ImmutableState
		call, ok := in.(*ssa.Call)
		if !ok {
			continue
		}
		feeds := false
		allInstrs(f, false, func(x ssa.Instruction) {
			st, ok := x.(*ssa.Store)
			if !ok {
				return
			}
			if fl, _ := fieldOf(st.Addr); fl == "ImmutableState.TxHash" || fl == "ImmutableState.TxId" {
				if dependsOn(st.Val, func(v ssa.Value) bool { return v == ssa.Value(call) }) {
					feeds = true
				}
			}
		})
		if !feeds {
			continue
		}
		n++
		a := desc(call.Call.Args[0])
		c.check(strings.HasSuffix(a, "DualProof.TargetTxHeader"), r, fmt.Sprintf("%s:signed-header#%d", fnName(f), idxAmong(in, callTo("pkg/api/schema.TxHeaderFromProto"))), c.pos(in.Pos()),
			"signed state computed from "+a, "the signed state is computed from "+a+" instead of the proof's target header: when the returned tx is not the proof target the client rejects an honest answer (or accepts a signature over another state)")
	}
	if n < 8 {
		c.undecided(r, "floor", fmt.Sprintf("%d signed-state sites found in pkg/server (9 confirmed by hand)", n))
	}
}

// c01RowColumns: VerifyRow proves the encoded row and then accepts the row shown to the user only if each of its
// columns equals the proven one. In verifyRowAgainst every column of the shown row is looked up in the proven row
// before the loop moves on; a column found there is compared with Equal; a column absent from it is let through only
// after the shown value was tested to be NULL (NULLs are not encoded).
func c01RowColumns(c *Ctx, r string) {
	f := c.mustFn(r, "pkg/client.verifyRowAgainst")
	if f == nil {
		return
	}
	// the two maps are told apart by their types (column name -> id; column id -> proven value), not by their names
	lookupOn := func(which string) sitePred {
		return func(in ssa.Instruction) bool {
			l, ok := in.(*ssa.Lookup)
			if !ok {
				return false
			}
			if _, isParam := l.X.(*ssa.Parameter); !isParam {
				return false
			}
			m, ok := l.X.Type().Underlying().(*types.Map)
			if !ok {
				return false
			}
			kb, keyIsBasic := m.Key().Underlying().(*types.Basic)
			if !keyIsBasic {
				return false
			}
			if which == "colIdsByName" {
				return kb.Kind() == types.String
			}
			_, valIsPtr := m.Elem().Underlying().(*types.Pointer)
			return kb.Kind() == types.Uint32 && valIsPtr
		}
	}
	from := sites(f, lookupOn("colIdsByName"))
	proven := sites(f, lookupOn("decodedRow"))
	if len(from) != 1 || len(proven) != 1 {
		c.undecided(r, fnName(f), fmt.Sprintf("column-id lookup (%d) / proven-row lookup (%d) not found once each", len(from), len(proven)))
		return
	}
	next := func(in ssa.Instruction) bool { return in == from[0] || successReturn(in) }
	q := &pathQ{fn: f, from: from, to: next, via: lookupOn("decodedRow")}
	if w := q.bypass(); w != nil {
		c.fail(r, fnName(f)+":every-column-looked-up", c.pos(w[len(w)-1].Pos()), "a column of the shown row is accepted without consulting the proven row: "+c.witnessStr(w))
	} else {
		c.ok(r, fnName(f)+":every-column-looked-up", c.pos(from[0].Pos()), "every path to the next column or to success passes decodedRow[colID]")
	}
	// the comma-ok outcome of the proven-row lookup
	provenOk := func(v ssa.Value) bool {
		e, ok := v.(*ssa.Extract)
		return ok && e.Index == 1 && e.Tuple == ssa.Value(proven[0].(*ssa.Lookup))
	}
	foundEdge := func(want bool) edgePred {
		return func(b *ssa.BasicBlock, succ int) bool {
			if len(b.Instrs) == 0 {
				return false
			}
			ifi, ok := b.Instrs[len(b.Instrs)-1].(*ssa.If)
			if !ok {
				return false
			}
			v, pol := ifi.Cond, true
			for {
				u, ok := v.(*ssa.UnOp)
				if !ok || u.Op != token.NOT {
					break
				}
				v, pol = u.X, !pol
			}
			if !provenOk(v) {
				return false
			}
			return ((succ == 0) == pol) == want
		}
	}
	absent := foundEdge(false)
	present := foundEdge(true)
	isEqual := func(in ssa.Instruction) bool {
		cc := callOf(in)
		return cc != nil && cc.IsInvoke() && cc.Method.Name() == "Equal"
	}
	q = &pathQ{fn: f, from: proven, to: next, via: isEqual, barrier: absent}
	if w := q.bypass(); w != nil {
		c.fail(r, fnName(f)+":present-column-compared", c.pos(w[len(w)-1].Pos()), "a column present in the proven row is accepted without Equal: "+c.witnessStr(w))
	} else {
		c.ok(r, fnName(f)+":present-column-compared", c.pos(proven[0].Pos()), "a column found in the proven row reaches the next column only through Equal")
	}
	isNullTest := func(in ssa.Instruction) bool {
		ta, ok := in.(*ssa.TypeAssert)
		return ok && strings.Contains(ta.AssertedType.String(), "SQLValue_Null")
	}
	q = &pathQ{fn: f, from: proven, to: next, via: isNullTest, barrier: present}
	if w := q.bypass(); w != nil {
		c.fail(r, fnName(f)+":absent-column-is-null", c.pos(w[len(w)-1].Pos()), "a column absent from the proven row is accepted without testing that the shown value is NULL: "+c.witnessStr(w))
	} else {
		c.ok(r, fnName(f)+":absent-column-is-null", c.pos(proven[0].Pos()), "a column absent from the proven row is accepted only after the NULL test")
	}
	// ... and the outcome of each test decides: the next column is reached from the NULL test only on its true edge, and
	// from Equal only on the edge where it reported equality
	edgeWhere := func(want bool, src func(v ssa.Value) bool) edgePred {
		return func(b *ssa.BasicBlock, succ int) bool {
			if len(b.Instrs) == 0 {
				return false
			}
			ifi, ok := b.Instrs[len(b.Instrs)-1].(*ssa.If)
			if !ok {
				return false
			}
			v, pol := ifi.Cond, true
			for {
				u, ok := v.(*ssa.UnOp)
				if !ok || u.Op != token.NOT {
					break
				}
				v, pol = u.X, !pol
			}
			if !src(v) {
				return false
			}
			return ((succ == 0) == pol) == want
		}
	}
	nullOutcome := func(v ssa.Value) bool {
		e, ok := v.(*ssa.Extract)
		if !ok || e.Index != 1 {
			return false
		}
		ta, ok := e.Tuple.(*ssa.TypeAssert)
		return ok && isNullTest(ta)
	}
	equalOutcome := func(v ssa.Value) bool {
		e, ok := v.(*ssa.Extract)
		if !ok || e.Index != 0 {
			return false
		}
		cl, ok := e.Tuple.(*ssa.Call)
		return ok && isEqual(cl)
	}
	q = &pathQ{fn: f, from: proven, to: next, barrier: anyEdge(present, edgeWhere(true, nullOutcome))}
	if w := q.bypass(); w != nil {
		c.fail(r, fnName(f)+":absent-column-null-outcome", c.pos(w[len(w)-1].Pos()), "a column absent from the proven row is accepted although the shown value is not NULL: "+c.witnessStr(w))
	} else {
		c.ok(r, fnName(f)+":absent-column-null-outcome", c.pos(proven[0].Pos()), "the absent-column path continues only on the isNull edge")
	}
	q = &pathQ{fn: f, from: sites(f, isEqual), to: next, barrier: edgeWhere(true, equalOutcome)}
	if w := q.bypass(); w != nil {
		c.fail(r, fnName(f)+":equal-outcome", c.pos(w[len(w)-1].Pos()), "the next column is reached although Equal did not report equality: "+c.witnessStr(w))
	} else {
		c.ok(r, fnName(f)+":equal-outcome", c.pos(proven[0].Pos()), "the comparison path continues only on the equals edge")
	}
	for name, ep := range map[string]edgePred{"isNull": edgeWhere(true, nullOutcome), "equals": edgeWhere(true, equalOutcome), "found-in-proven-row": present} {
		ne := 0
		for _, b := range f.Blocks {
			for si := range b.Succs {
				if ep(b, si) {
					ne++
				}
			}
		}
		if ne == 0 {
			c.undecided(r, fnName(f)+":"+name+"-edge", "the branch on the "+name+" outcome was not recognised")
		}
	}
	// both verdict-bearing tests are acted upon
	n := 0
	for _, in := range sites(f, isEqual) {
		n++
		okk, d := errHandled(in)
		c.check(okk, r, fmt.Sprintf("%s:Equal#%d:error-handled", fnName(f), n), c.pos(in.Pos()), d, d)
	}
}

// c01ReturnedEntryIsTheProvenOne: a verified get proves the inclusion of a digest the client computes itself. What is
// handed to the caller is the server's message: every part of it the caller will rely on is either an input of that digest
// or compared with the request.
//   - the key the digest is computed for comes from the request, not from the answer;
//   - the key named by the answer (Entry.Key on the plain path, ReferencedBy.Key on the reference path) is compared with it;
//   - on the reference path the digest covers (alias -> referenced key, atTx): the VALUE shown, resolved by the server through
//     the reference, is covered by nothing (the protocol carries no proof for it): reported, known finding.
func c01ReturnedEntryIsTheProvenOne(c *Ctx, r string) {
	fromAnswer := func(v ssa.Value) bool {
		return dependsOn(v, func(x ssa.Value) bool {
			switch fa := x.(type) {
			case *ssa.FieldAddr:
				n := structName(fa.X.Type())
				return n == "Entry" || n == "Reference" || n == "VerifiableEntry"
			}
			return false
		})
	}
	n := 0
	for _, f := range c.allFns {
		if !fnInPkgs(f, []string{"pkg/client"}) || len(f.Blocks) == 0 {
			continue
		}
		for _, kind := range []struct{ callee, shown, name string }{
			{"pkg/database.EncodeEntrySpec", "Entry.Key", "plain"},
			{"pkg/database.EncodeReference", "Reference.Key", "reference"},
		} {
			for i, in := range sites(f, callTo(kind.callee)) {
				args := callOf(in).Args
				if !fromAnswer(args[len(args)-1]) && !fromAnswer(args[2]) {
					continue // a digest of what the client itself sends (verified set): nothing of an answer is shown
				}
				n++
				base := fmt.Sprintf("%s:%s-path#%d", fnName(f), kind.name, i)
				c.check(!fromAnswer(args[0]), r, base+":digest-key-is-the-requested-key", c.pos(in.Pos()), "the digest is computed for the key of the request",
					"the digest whose inclusion is proven is computed for a key taken from the ANSWER: the server chooses which entry it proves, whatever was asked")
				// the key named by the answer is compared with something on an edge dominating the digest
				cmp := false
				allInstrs(f, false, func(x ssa.Instruction) {
					cl, ok := x.(*ssa.Call)
					if !ok || calleeName(&cl.Call) != "bytes.Equal" {
						return
					}
					hit := false
					for _, a := range cl.Call.Args {
						dependsOn(a, func(v ssa.Value) bool {
							if fa, ok := v.(*ssa.FieldAddr); ok && structName(fa.X.Type())+"."+fieldName(fa.X.Type(), fa.Field) == kind.shown {
								hit = true
								return true
							}
							return false
						})
					}
					if !hit {
						return
					}
					for _, rf := range *cl.Referrers() {
						var ifi *ssa.If
						pol := true
						switch y := rf.(type) {
						case *ssa.If:
							ifi = y
						case *ssa.UnOp:
							if y.Op == token.NOT {
								pol = false
								for _, r2 := range *y.Referrers() {
									if z, ok := r2.(*ssa.If); ok {
										ifi = z
									}
								}
							}
						}
						if ifi == nil {
							continue
						}
						succ := 0
						if !pol {
							succ = 1
						}
						if edgeDominates(ifi.Block(), succ, in.Block()) {
							cmp = true
						}
					}
				})
				c.check(cmp, r, base+":answer-key-compared", c.pos(in.Pos()), "the key named by the answer is compared before the answer is used",
					"the "+kind.shown+" of the answer is handed to the caller without having been compared with the requested key (the proven digest is computed from the request): the caller is shown an entry under a name nothing proves")
				if kind.name == "reference" {
					c.fail(r, base+":resolved-value-proven", c.pos(in.Pos()), "the value shown for a key reached through a reference is the server's: the proven digest covers the reference (alias, referenced key, atTx) only, no proof is requested or checked for the referenced entry")
				}
			}
		}
	}
	if n < 4 {
		c.undecided(r, "floor", fmt.Sprintf("%d digests computed from an answer found in pkg/client (verifiedGet and _streamVerifiedGet, two paths each, confirmed by hand)", n))
	}
}
