package main

import (
	"fmt"

	"golang.org/x/tools/go/ssa"
)

// reachPath returns one static call path from fn to a function satisfying target.
func reachPath(fn *ssa.Function, depth int, target func(*ssa.Function) bool) []string {
	type item struct {
		f *ssa.Function
		p []string
	}
	seen := map[*ssa.Function]bool{fn: true}
	q := []item{{fn, []string{fnName(fn)}}}
	for len(q) > 0 {
		it := q[0]
		q = q[1:]
		if target(it.f) {
			return it.p
		}
		if len(it.p) > depth {
			continue
		}
		allInstrs(it.f, true, func(in ssa.Instruction) {
			if cc := callOf(in); cc != nil {
				if cal := cc.StaticCallee(); cal != nil && len(cal.Blocks) > 0 && !seen[cal] {
					seen[cal] = true
					np := append(append([]string{}, it.p...), fnName(cal))
					q = append(q, item{cal, np})
				}
			}
		})
	}
	return nil
}

func debugReach(c *Ctx, from string) {
	f := c.fn(from)
	if f == nil {
		fmt.Println("no such fn", from)
		return
	}
	fmt.Println(reachPath(f, 8, func(g *ssa.Function) bool { return commitSinks[fnName(g)] }))
}
