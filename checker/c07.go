package main

import (
	"fmt"
	"go/constant"
	"go/types"
	"sort"
	"strings"

	"golang.org/x/tools/go/ssa"
)

const dbT = "pkg/database.(*db)."

// replica-side operations: they must run only ON a replica (negated gate), or are primary-side
// bookkeeping that commits nothing locally
var replicaSideOps = map[string]string{
	"ReplicateTx":                 "replica-only: negated gate (ErrNotReplica)",
	"AllowCommitUpto":             "replica-only: negated gate (ErrNotReplica)",
	"DiscardPrecommittedTxsSince": "replica-side recovery of diverged precommits; commits nothing",
	"ExportTxByID":                "primary side: only updates the commit allowance from replica acknowledgements",
	"TruncateUptoTx":              "deletes value-log chunks only; history and hashes unchanged (C14)",
}

func c07(c *Ctx) {
	// a transaction without entries is produced on one condition (it carries metadata of its own, not only the client's
	// "extra"): the primary commits and exports it. The receiving side decides on the same condition, or the replica
	// refuses what the primary committed and replication stops at that transaction for ever.
	{
		r := "C07.13/empty-transaction-accepted-as-it-is-produced"
		for _, name := range []string{storeT + "precommit", "embedded/store.(*TxHeader).ReadFrom"} {
			f := c.mustFn(r, name)
			if f == nil {
				continue
			}
			okc := false
			for _, leaves := range condClusters(f) {
				count, empty, extraOnly := false, false, false
				for _, leaf := range leaves {
					d := desc(leaf)
					if strings.Contains(d, ".NEntries") || (strings.Contains(d, "len(") && strings.Contains(d, "entries")) {
						count = true
					}
					if strings.Contains(d, "(*TxMetadata).IsEmpty") {
						empty = true
					}
					if strings.Contains(d, "(*TxMetadata).HasExtraOnly") {
						extraOnly = true
					}
				}
				if count && empty && extraOnly {
					okc = true
				}
			}
			c.check(okc, r, fnName(f)+":empty-tx-condition", c.pos(f.Pos()), "zero entries are judged together with TxMetadata.IsEmpty() / HasExtraOnly()",
				"the number of entries is judged without looking at the tx metadata: a transaction that carries only the truncation marker is committed and exported by the primary and refused by the replica")
		}
	}
	// a primary that is demoted stops counting acknowledgements: the table of replica states, whose mere existence makes
	// ExportTxByID accept a ReplicaState and turn it into a commit allowance, is dropped on the asReplica path
	if f := c.mustFn("C07.12/demotion-drops-replica-states", "pkg/database.(*db).AsReplica"); f != nil {
		r := "C07.12/demotion-drops-replica-states"
		isRep := whenCond(true, func(a string) bool { return a == "param:asReplica" })
		var edges []cfgEdge
		for _, b := range f.Blocks {
			for si := range b.Succs {
				if isRep(b, si) {
					edges = append(edges, cfgEdge{b, si})
				}
			}
		}
		if len(edges) == 0 {
			c.fail(r, fnName(f)+":replicaStates", c.pos(f.Pos()), "AsReplica no longer branches on asReplica: the replica-state table of a demoted primary is kept, and acknowledgements of downstream replicas still raise its commit allowance")
		} else {
			q := &pathQ{fn: f, fromEdges: edges, to: isReturn, via: storeTo("db.replicaStates")}
			c.check(q.bypass() == nil, r, fnName(f)+":replicaStates", c.pos(f.Pos()), "every path of a demotion resets db.replicaStates", "a database that becomes a replica keeps its table of replica states: ExportTxByID still accepts a ReplicaState from a downstream node and calls AllowCommitUpto with it, so the demoted node commits before its new primary did")
		}
	}
	c07PartialMessage(c, "C07.11/partial-message-is-never-enqueued")
	// "a replica [reports a transaction committed] only after the primary did": with external commit allowance the store
	// commits up to commitAllowedUpToTxID. Only AllowCommitUpto (driven by the primary's committed state / the acks)
	// raises it; every other writer (re)starts it at the committed frontier, never at the precommitted one
	{
		r := "C07.10/allowance-raised-only-by-allow"
		n := 0
		for _, f := range c.allFns {
			if !fnInPkgs(f, []string{"embedded/store"}) || len(f.Blocks) == 0 {
				continue
			}
			for i, in := range sites(f, storeTo("ImmuStore.commitAllowedUpToTxID")) {
				if isFreshAlloc(storeBase(in)) {
					continue // constructor
				}
				n++
				construct := fmt.Sprintf("%s:commitAllowedUpToTxID#%d", fnName(f), i)
				if fnName(f) == storeT+"AllowCommitUpto" {
					c.okTrivial(r, construct, c.pos(in.Pos()), "the allowance entry point")
					continue
				}
				d := desc(in.(*ssa.Store).Val)
				c.check(hasFieldSuffix(d, "committedTxID"), r, construct, c.pos(in.Pos()), "restarts at the committed frontier", "the commit allowance is set to "+d+" outside AllowCommitUpto: transactions nobody allowed become committable")
			}
		}
		if n < 2 {
			c.undecided(r, "floor", fmt.Sprintf("%d writers of commitAllowedUpToTxID found (SetExternalCommitAllowance, AllowCommitUpto confirmed by hand)", n))
		}
	}
	// the replication pipeline hands two boolean flags (skipIntegrityCheck, waitForIndexing) through five layers:
	// at no call are two same-typed arguments passed under each other's name
	if n := c.ruleNoSwappedArgs("C07.9/flags-forwarded-in-order", []string{"pkg/replication", "pkg/database", "pkg/server", "embedded/store"}, nil); n < 20 {
		c.undecided("C07.9/flags-forwarded-in-order", "floor", fmt.Sprintf("%d calls with named same-typed arguments analysed", n))
	} else {
		c.ok("C07.9/flags-forwarded-in-order", "all-calls", "", fmt.Sprintf("%d calls passing named variables to same-typed parameters: none under another parameter's name", n))
	}
	// ---- C07.1 nothing else is written on a replica ----------------------------------------------------------
	r := "C07.1/replica-gate"
	pp, ok := c.byPath[modPrefix+"pkg/database"]
	if !ok {
		c.undecided(r, "pkg/database", "package not loaded")
		return
	}
	obj := pp.Types.Scope().Lookup("db")
	if obj == nil {
		c.undecided(r, "pkg/database.db", "type does not resolve")
		return
	}
	// functions from which a commit sink is statically reachable
	reaches := map[*ssa.Function]bool{}
	var reach func(f *ssa.Function, d int) bool
	memo := map[*ssa.Function]int{}
	reach = func(f *ssa.Function, d int) bool {
		if f == nil || len(f.Blocks) == 0 {
			return false
		}
		if commitSinks[fnName(f)] {
			return true
		}
		if v, ok := memo[f]; ok {
			return v == 1
		}
		if d > 8 {
			return false
		}
		memo[f] = 0
		res := false
		allInstrs(f, true, func(in ssa.Instruction) {
			if res {
				return
			}
			if cc := callOf(in); cc != nil {
				if cal := cc.StaticCallee(); cal != nil && !queryOfReadOnlyStmt(cc) && reach(cal, d+1) {
					res = true
				}
			}
		})
		if res {
			memo[f] = 1
			reaches[f] = true
		}
		return res
	}
	isReplicaFalse := whenCond(false, atomIsCall(dbT+"isReplica"))
	isReplicaTrue := whenCond(true, atomIsCall(dbT+"isReplica"))
	// guarded(F): every sink-reaching call in F is dominated by isReplica()==false, or goes to a guarded callee in pkg/database
	gmemo := map[*ssa.Function]int{}
	var guarded func(f *ssa.Function, d int) (bool, string)
	guarded = func(f *ssa.Function, d int) (bool, string) {
		if v, ok := gmemo[f]; ok {
			return v == 1, ""
		}
		if d > 5 {
			return false, "call chain too deep"
		}
		gmemo[f] = 1
		why := ""
		okAll := true
		for _, g := range append([]*ssa.Function{f}, f.AnonFuncs...) {
			for _, b := range g.Blocks {
				for _, in := range b.Instrs {
					cc := callOf(in)
					if cc == nil {
						continue
					}
					cal := cc.StaticCallee()
					if cal == nil || queryOfReadOnlyStmt(cc) || !reach(cal, 0) {
						continue
					}
					// dominated by the not-a-replica edge?
					q := &pathQ{fn: g, fromEntry: true, to: func(x ssa.Instruction) bool { return x == in }, barrier: isReplicaFalse}
					if g == f && q.bypass() == nil {
						continue
					}
					if fnInPkgs(cal, []string{"pkg/database"}) && cal.Signature.Recv() != nil && structName(cal.Signature.Recv().Type()) == "db" {
						if ok2, w := guarded(cal, d+1); ok2 {
							continue
						} else if w != "" {
							why = w
						}
					}
					okAll = false
					if why == "" {
						why = fmt.Sprintf("%s reaches a commit through %s at %s without a dominating isReplica() check", fnName(f), fnName(cal), "")
					}
				}
			}
		}
		if !okAll {
			gmemo[f] = 0
		}
		return okAll, why
	}
	ms := c.Prog.MethodSets.MethodSet(types.NewPointer(obj.Type()))
	nw := 0
	for i := 0; i < ms.Len(); i++ {
		f := c.Prog.MethodValue(ms.At(i))
		if f == nil || len(f.Blocks) == 0 || !ms.At(i).Obj().Exported() {
			continue
		}
		if !reach(f, 0) {
			continue
		}
		nw++
		name := f.Name()
		construct := "db." + name
		if reason, ok := replicaSideOps[name]; ok {
			switch name {
			case "ReplicateTx", "AllowCommitUpto":
				// negated gate: the store call is dominated by isReplica()==true
				sink := callTo(storeT+"ReplicateTx", storeT+"AllowCommitUpto")
				q := &pathQ{fn: f, fromEntry: true, to: sink, barrier: isReplicaTrue}
				c.check(len(sites(f, sink)) > 0 && q.bypass() == nil, r, construct+":replica-only", c.pos(f.Pos()), "store call dominated by isReplica()==true", name+" reaches the store on a non-replica")
			default:
				c.okTrivial(r, construct, c.pos(f.Pos()), "documented: "+reason)
			}
			continue
		}
		if conditionalWriters[name] {
			c.okTrivial(r, construct, c.pos(f.Pos()), "query path: commits only without a supplied transaction and for DML ... RETURNING (the SQL engine then runs a read-write tx, refused below by NewSQLTx on replicas)")
			continue
		}
		okg, why := guarded(f, 0)
		c.check(okg, r, construct, c.pos(f.Pos()), "every commit-reaching call is behind an isReplica() check that refuses replicas", "exported method "+name+" can commit locally on a replica: "+why)
	}
	c.count("db_write_class_methods", nw)
	if nw < 20 {
		c.undecided(r, "floor", fmt.Sprintf("expected >=20 commit-reaching exported *db methods, found %d", nw))
	}
	// the isReplica()==true edge of a gate returns an error (the check is not inverted)
	ngates := 0
	for i := 0; i < ms.Len(); i++ {
		f := c.Prog.MethodValue(ms.At(i))
		if f == nil || len(f.Blocks) == 0 {
			continue
		}
		name := f.Name()
		allInstrs(f, false, func(in ssa.Instruction) {
			ifi, ok := in.(*ssa.If)
			if !ok {
				return
			}
			a, pol := normCond(ifi.Cond)
			if !strings.HasPrefix(a, "call:"+dbT+"isReplica") {
				return
			}
			ngates++
			// edge on which the atom is true
			succ := 0
			if !pol {
				succ = 1
			}
			_, neg := replicaSideOps[name]
			if neg && (name == "ReplicateTx" || name == "AllowCommitUpto") {
				succ = 1 - succ // these fail on the NOT-a-replica edge
			}
			q := &pathQ{fn: f, fromEdges: []cfgEdge{{ifi.Block(), succ}}, to: func(x ssa.Instruction) bool {
				rt, ok := x.(*ssa.Return)
				return ok && retKind(rt) == "success"
			}}
			c.check(q.bypass() == nil, r, "db."+name+":gate-polarity", c.pos(ifi.Cond.Pos()), "the refused edge reaches no successful return", "the replica gate of "+name+" lets the refused role through")
		})
	}
	c.count("isReplica_gates", ngates)

	// ---- C07.2 the replicated header is fully pinned ------------------------------------------------------------
	r = "C07.2/header-pinned"
	hdrT := c.namedType("embedded/store", "TxHeader")
	pre := c.mustFn(r, storeT+"precommit")
	val := c.mustFn(r, otxT+"validateAgainst")
	if hdrT != nil && pre != nil && val != nil {
		st := hdrT.Underlying().(*types.Struct)
		read := map[string][]ssa.Instruction{}
		for _, f := range []*ssa.Function{pre, val} {
			allInstrs(f, true, func(in ssa.Instruction) {
				fa, ok := in.(*ssa.FieldAddr)
				if !ok || structName(fa.X.Type()) != "TxHeader" {
					return
				}
				root, _ := rootOf(fa.X)
				if p, ok := root.(*ssa.Parameter); ok && p.Name() == "hdr" {
					read[fieldName(fa.X.Type(), fa.Field)] = append(read[fieldName(fa.X.Type(), fa.Field)], in)
				}
			})
		}
		for i := 0; i < st.NumFields(); i++ {
			f := st.Field(i).Name()
			c.check(len(read[f]) > 0, r, "expected-header-field:"+f, c.pos(pre.Pos()), "field is compared with or copied into the local header",
				"field "+f+" of the replicated header is neither checked nor copied during precommit: a replica could commit a tx whose Alh differs from the primary's")
		}
		// the identity-defining fields are compared and a mismatch fails
		for _, f := range []string{"ID", "PrevAlh", "BlRoot", "Eh"} {
			found, bad := 0, ""
			for _, fn := range []*ssa.Function{pre, val} {
				allInstrs(fn, false, func(in ssa.Instruction) {
					ifi, ok := in.(*ssa.If)
					if !ok {
						return
					}
					a, _ := normCond(ifi.Cond)
					if !strings.Contains(a, "param:hdr."+f) {
						return
					}
					found++
				})
			}
			c.check(found > 0 && bad == "", r, "expected-header-compared:"+f, c.pos(pre.Pos()), "compared on a branch", "the replicated header's "+f+" is no longer compared during precommit")
		}
		// Eh comparison may only be skipped through skipIntegrityCheck
		allInstrs(pre, false, func(in ssa.Instruction) {
			ifi, ok := in.(*ssa.If)
			if !ok {
				return
			}
			a, pol := normCond(ifi.Cond)
			if !strings.Contains(a, "param:hdr.Eh") || !strings.Contains(a, " == ") {
				return
			}
			succ := 1
			if !pol {
				succ = 0
			}
			q := &pathQ{fn: pre, fromEdges: []cfgEdge{{ifi.Block(), succ}}, to: callTo(storeT + "performPrecommit")}
			c.check(q.bypass() == nil, r, "Eh-mismatch-rejected", c.pos(ifi.Cond.Pos()), "an Eh mismatch never reaches performPrecommit", "a transaction whose entries hash differs from the primary's header is precommitted")
			q2 := &pathQ{fn: pre, fromEntry: true, to: callTo(storeT + "performPrecommit"), barrier: anyEdge(
				whenCond(true, func(x string) bool { return x == "param:skipIntegrityCheck" }),
				whenCond(true, func(x string) bool { return x == "(nil == param:hdr)" || x == "(param:hdr == nil)" }),
				func(b *ssa.BasicBlock, s int) bool { return b == ifi.Block() })}
			c.check(q2.bypass() == nil, r, "Eh-check-dominates-precommit", c.pos(ifi.Cond.Pos()), "with a header and integrity checks on, performPrecommit is only reached through the Eh comparison", "performPrecommit can be reached with a replicated header without comparing Eh")
		})
		// copied fields: Ts, BlTxID go to performPrecommit; Version to the local header
		for _, in := range sites(pre, callTo(storeT+"performPrecommit")) {
			a := callOf(in).Args
			c.check(strings.Contains(desc(a[3]), "hdr.Ts"), r, "copied:Ts", c.pos(in.Pos()), "ts = hdr.Ts on the replicated path", "performPrecommit timestamp is "+desc(a[3]))
			c.check(strings.Contains(desc(a[4]), "hdr.BlTxID"), r, "copied:BlTxID", c.pos(in.Pos()), "blTxID = hdr.BlTxID on the replicated path", "performPrecommit blTxID is "+desc(a[4]))
		}
	}

	// ---- C07.3 commit allowance ---------------------------------------------------------------------------------
	r = "C07.3/commit-allowance"
	c.ruleWhoMayStore(r, "ImmuStore.commitAllowedUpToTxID", []string{storeT + "AllowCommitUpto", storeT + "SetExternalCommitAllowance"}, []string{"embedded/store"})
	if f := c.mustFn(r, dbT+"mayUpdateReplicaState"); f != nil {
		acks := whenCond(false, func(a string) bool { return strings.Contains(a, " < ") && strings.HasSuffix(a, "syncAcks)") })
		q := &pathQ{fn: f, fromEntry: true, to: callTo(storeT + "AllowCommitUpto"), barrier: acks}
		c.check(len(sites(f, callTo(storeT+"AllowCommitUpto"))) > 0 && q.bypass() == nil, r, fnName(f)+":allowance-needs-enough-acks", c.pos(f.Pos()),
			"AllowCommitUpto is dominated by allowances >= syncAcks", "the primary raises the commit allowance without the required number of replica acknowledgements")
		// the allowed tx is the minimum over the replicas' precommitted ids
		for _, in := range sites(f, callTo(storeT+"AllowCommitUpto")) {
			dep := dependsOn(callOf(in).Args[1], func(v ssa.Value) bool { d, _ := fieldOf(v); return d == "replicaState.precommittedTxID" })
			c.check(dep, r, fnName(f)+":allowance-derives-from-replica-states", c.pos(in.Pos()), "allowance derives from the replicas' precommitted ids", "allowance is "+desc(callOf(in).Args[1]))
		}
		c.ruleErrChecked(r, f, "st.AllowCommitUpto", callTo(storeT+"AllowCommitUpto"), 1)
	}
	if f := c.mustFn(r, dbT+"AllowCommitUpto"); f != nil {
		// forwarded only after the Alh comparison
		alhEq := whenCond(true, func(a string) bool { return strings.Contains(a, "param:alh") && strings.Contains(a, " == ") })
		q := &pathQ{fn: f, fromEntry: true, to: anyOf(callTo(storeT+"AllowCommitUpto"), func(in ssa.Instruction) bool {
			rt, ok := in.(*ssa.Return)
			return ok && retKind(rt) == "success"
		}), barrier: alhEq}
		c.check(q.bypass() == nil, r, fnName(f)+":alh-compared-before-allowing", c.pos(f.Pos()), "success and the store call are dominated by an Alh equality edge", "a replica accepts a commit allowance without comparing the primary's Alh with its own")
	}
	for _, n := range []string{"sync", "mayCommit"} {
		if f := c.mustFn(r, storeT+n); f != nil {
			c.ruleOrder(r, f, "commitAllowedUpTo", callTo(storeT+"commitAllowedUpTo"), "cLog.Append", callTo(appAppend+"@cLog"), nil, 1)
		}
	}
	if f := c.mustFn(r, storeT+"commitAllowedUpTo"); f != nil {
		// with external allowance on, the bound is commitAllowedUpToTxID
		q := &pathQ{fn: f, fromEntry: true, to: func(in ssa.Instruction) bool {
			rt, ok := in.(*ssa.Return)
			return ok && hasFieldSuffix(desc(rt.Results[0]), "inmemPrecommittedTxID")
		}, barrier: whenCond(false, func(a string) bool { return hasFieldSuffix(a, "useExternalCommitAllowance") })}
		c.check(q.bypass() == nil, r, fnName(f)+":external-allowance-respected", c.pos(f.Pos()), "the precommit frontier is the bound only without external allowance", "commitAllowedUpTo ignores the external commit allowance")
	}

	// ---- C07.5 primary-side validation ----------------------------------------------------------------------------
	r = "C07.5/primary-validates-replica-state"
	if f := c.mustFn(r, dbT+"ExportTxByID"); f != nil {
		upd := callTo(dbT + "mayUpdateReplicaState")
		n := 0
		allInstrs(f, false, func(in ssa.Instruction) {
			ifi, ok := in.(*ssa.If)
			if !ok {
				return
			}
			a, _ := normCond(ifi.Cond)
			if strings.Contains(a, ").Alh[") && strings.Contains(a, "Alh") && strings.Contains(a, " == ") && strings.Contains(a, "DigestFromProto") {
				n++
			}
		})
		c.check(n >= 2, r, fnName(f)+":replica-alh-compared", c.pos(f.Pos()), fmt.Sprintf("%d Alh comparisons of the replica's commit/precommit state", n), "ExportTxByID no longer compares both the replica's committed and precommitted Alh with its own history")
		c.ruleErrChecked(r, f, "mayUpdateReplicaState", upd, 1)
		// the replica's acknowledgement is only taken into account after its state has been validated
		for _, g := range []struct{ n, fld, id string }{{"committed", ".CommittedAlh)", "ReplicaState.CommittedTxID"}, {"precommitted", ".PrecommittedAlh)", "ReplicaState.PrecommittedTxID"}} {
			g := g
			alhEq := whenCond(true, func(a string) bool {
				return strings.Contains(a, " == ") && strings.Contains(a, ").Alh[") && strings.Contains(a, g.fld)
			})
			none := whenCond(false, func(a string) bool { return strings.HasPrefix(a, "(const:0 < ") && strings.HasSuffix(a, g.id+")") })
			q := &pathQ{fn: f, fromEntry: true, to: upd, barrier: anyEdge(alhEq, none)}
			if w := q.bypass(); w != nil {
				c.fail(r, fnName(f)+":replica-"+g.n+"-state-validated-before-ack", c.pos(w[len(w)-1].Pos()), "the replica's "+g.n+" state is counted as an acknowledgement without comparing its Alh with the primary's history: "+c.witnessStr(w))
			} else {
				c.ok(r, fnName(f)+":replica-"+g.n+"-state-validated-before-ack", c.pos(f.Pos()), "mayUpdateReplicaState is dominated by the "+g.n+" Alh equality edge (or the id is 0)")
			}
		}
	}

	// ---- C07.6 discarding diverged precommits keeps the committed prefix and the durable watermark consistent ----------
	c02DiscardGuard(c, "C07.6/discard-guard")
	// ---- C07.4 agreement with the replicator ------------------------------------------------------------------------
	c07Strings(c)
	c07PrecommitBufferIndex(c)
	c14ExportBuffer(c, "C07.8/export-buffer-under-lock")
}

// c07Strings: literals matched by the replicator against error texts, and stream-metadata keys.
func c07Strings(c *Ctx) {
	r := "C07.4/replicator-agreement"
	// all constant strings that become error texts
	var errTexts []string
	for _, fn := range c.allFns {
		allInstrs(fn, false, func(in ssa.Instruction) {
			cc := callOf(in)
			if cc == nil {
				return
			}
			n := calleeName(cc)
			isCtor := false
			for _, suf := range []string{"errors.New", "fmt.Errorf", "status.Error", "status.Errorf", "errors.Wrap", "errors.Errorf"} {
				if strings.HasSuffix(n, suf) {
					isCtor = true
				}
			}
			if !isCtor {
				return
			}
			for _, a := range cc.Args {
				if k, ok := a.(*ssa.Const); ok && k.Value != nil && k.Value.Kind() == constant.String {
					errTexts = append(errTexts, constant.StringVal(k.Value))
				}
			}
		})
	}
	// package-level error variables initialised in init functions are covered above (errors.New in init)
	c.count("error_text_literals", len(errTexts))
	nm := 0
	for _, fn := range c.allFns {
		if !fnInPkgs(fn, []string{"pkg/replication"}) {
			continue
		}
		allInstrs(fn, false, func(in ssa.Instruction) {
			cc := callOf(in)
			if cc == nil || calleeName(cc) != "strings.Contains" || len(cc.Args) != 2 {
				return
			}
			if !strings.Contains(desc(cc.Args[0]), ".Error") {
				return
			}
			k, ok := cc.Args[1].(*ssa.Const)
			if !ok || k.Value == nil {
				return // compared with another error's text: agrees by construction
			}
			lit := constant.StringVal(k.Value)
			nm++
			found := false
			for _, t := range errTexts {
				if strings.Contains(t, lit) {
					found = true
					break
				}
			}
			c.check(found, r, "matched-error-text:"+lit, c.pos(in.Pos()), "some error constructed in the repository contains this text",
				fmt.Sprintf("the replicator recognises errors by the text %q, which no error constructor in the repository produces any more: the condition can never be recognised", lit))
		})
	}
	if nm < 4 {
		c.undecided(r, "matched-error-text:floor", fmt.Sprintf("expected >=4 literal error-text matches in pkg/replication, found %d", nm))
	}
	// stream metadata keys
	written := map[string]bool{}
	read := map[string][]ssa.Instruction{}
	for _, fn := range c.allFns {
		if !fnInPkgs(fn, []string{"pkg/replication", "pkg/server", "pkg/client"}) {
			continue
		}
		allInstrs(fn, false, func(in ssa.Instruction) {
			switch x := in.(type) {
			case *ssa.Lookup:
				if strings.HasSuffix(short(x.X.Type().String()), "metadata.MD") || fnInPkgs(fn, []string{"pkg/replication"}) {
					if k, ok := x.Index.(*ssa.Const); ok && k.Value != nil && k.Value.Kind() == constant.String {
						read[constant.StringVal(k.Value)] = append(read[constant.StringVal(k.Value)], in)
					}
				}
			}
			cc := callOf(in)
			if cc == nil {
				return
			}
			switch calleeName(cc) {
			case "google.golang.org/grpc/metadata.Pairs", "google.golang.org/grpc/metadata.AppendToOutgoingContext":
				// variadic: constants stored into the varargs array
				for _, a := range cc.Args {
					collectConstStrings(a, written)
				}
			case "google.golang.org/grpc/metadata.(MD).Get", "google.golang.org/grpc/metadata.MD.Get":
				if len(cc.Args) == 2 {
					if k, ok := cc.Args[1].(*ssa.Const); ok && k.Value != nil {
						read[constant.StringVal(k.Value)] = append(read[constant.StringVal(k.Value)], in)
					}
				}
			}
		})
	}
	// ("skip-integrity-check" / "wait-for-indexing" are optional request keys no component of the repository sets; not part of the agreement)
	repKeys := []string{"may-commit-up-to-txid-bin", "may-commit-up-to-alh-bin", "committed-txid-bin"}
	for _, k := range repKeys {
		ins, isRead := read[k]
		if !isRead {
			c.undecided(r, "metadata-key-read:"+k, "replication stream metadata key is no longer read anywhere")
			continue
		}
		c.check(written[k], r, "metadata-key:"+k, c.pos(ins[0].Pos()), "key is written by the peer", fmt.Sprintf("replication stream metadata key %q is read but never written by the peer", k))
	}
	ks := sortedKeys(written)
	sort.Strings(ks)
	c.Notes = append(c.Notes, "metadata keys written: "+strings.Join(ks, ","))
}

func collectConstStrings(v ssa.Value, out map[string]bool) {
	switch x := v.(type) {
	case *ssa.Const:
		if x.Value != nil && x.Value.Kind() == constant.String {
			out[constant.StringVal(x.Value)] = true
		}
	case *ssa.Slice:
		collectConstStrings(x.X, out)
	case *ssa.Alloc:
		for _, r := range *x.Referrers() {
			if ia, ok := r.(*ssa.IndexAddr); ok {
				for _, rr := range *ia.Referrers() {
					if st, ok := rr.(*ssa.Store); ok {
						collectConstStrings(st.Val, out)
					}
				}
			}
		}
	}
}

// c07PrecommitBufferIndex: the precommit buffer holds the transactions after the commit frontier; readAhead(n) returns
// transaction committedTxID+n+1. Call sites that fetch a specific transaction T therefore pass T-committedTxID-1.
// PrecommittedAlh() is what a replica reports to the primary as its durable state (the acknowledgement the primary
// counts): an index that is off by one acknowledges a transaction that is not durable yet.
func c07PrecommitBufferIndex(c *Ctx) {
	r := "C07.7/precommit-buffer-index"
	// per function: the transaction fetched, as (constant offset from the minuend): T = <minuend> + k
	want := map[string]int64{
		storeT + "PrecommittedAlh":             0,  // T = durablePrecommittedTxID
		storeT + "readTxAt":                    0,  // T = txID  (resolved below to whichever function holds the site)
		storeT + "DiscardPrecommittedTxsSince": -1, // T = txID-1, the last transaction kept
	}
	n := 0
	for _, in := range c.callSites(callTo("embedded/store.(*precommitBuffer).readAhead")) {
		f := in.Parent()
		if !fnInPkgs(f, []string{"embedded/store"}) {
			continue
		}
		arg := callOf(in).Args[1]
		p := newProver(c, f)
		l := p.linOf(arg)
		// loops over the buffer (mayCommit / sync: readAhead(i)) are positional, not addressed by transaction id
		cm := int64(0)
		hasCommitted := false
		for k, coef := range l.terms {
			if !k.len && hasFieldSuffix(desc(k.v), "committedTxID") {
				hasCommitted = true
				cm = coef
			}
		}
		if !hasCommitted {
			continue
		}
		n++
		k, known := want[fnName(f)]
		if !known {
			k = 0
		}
		c.check(cm == -1 && l.c == -1+k, r, fmt.Sprintf("%s:readAhead#%d", fnName(f), idxAmong(in, callTo("embedded/store.(*precommitBuffer).readAhead"))), c.pos(in.Pos()),
			"index = T - committedTxID - 1: "+l.String(), fmt.Sprintf("the precommit buffer is addressed with %s; for the transaction this site fetches the index must be T - committedTxID - 1 (constant %d)", l.String(), -1+k))
	}
	if n < 3 {
		c.undecided(r, "floor", fmt.Sprintf("%d id-addressed readAhead sites found (3 confirmed by hand)", n))
	}
}

// c07PartialMessage: the stream receiver hands back what it got together with io.EOF when the stream ends in the
// middle of a message. The replicator tolerates io.EOF from that call (a stream that ended between two messages), so
// before anything is put on the queue of transactions to replicate there is a branch that, when the error is io.EOF
// AND bytes were received, leaves without enqueuing: a fragment that is enqueued is retried forever and replication
// never resumes.
func c07PartialMessage(c *Ctx, r string) {
	f := c.mustFn(r, "pkg/replication.(*TxReplicator).fetchNextTx")
	if f == nil {
		return
	}
	var sends []ssa.Instruction
	allInstrs(f, false, func(in ssa.Instruction) {
		if sd, ok := in.(*ssa.Send); ok && hasFieldSuffix(desc(sd.Chan), "prefetchTxBuffer") {
			sends = append(sends, in)
		}
	})
	if len(sends) == 0 {
		c.undecided(r, fnName(f), "the send on prefetchTxBuffer was not found")
		return
	}
	isEOFTest := func(v ssa.Value) bool {
		cl, ok := v.(*ssa.Call)
		return ok && calleeName(&cl.Call) == "errors.Is" && len(cl.Call.Args) == 2 && strings.Contains(desc(cl.Call.Args[1]), "EOF")
	}
	guarded := false
	for _, eb := range f.Blocks {
		if len(eb.Instrs) == 0 {
			continue
		}
		eif, ok := eb.Instrs[len(eb.Instrs)-1].(*ssa.If)
		if !ok || !isEOFTest(eif.Cond) || !eb.Dominates(sends[0].Block()) {
			continue
		}
		// on the EOF edge: a test of the received length whose "bytes were received" edge never reaches the send
		for _, lb := range f.Blocks {
			if len(lb.Instrs) == 0 || !edgeDominates(eb, 0, lb) {
				continue
			}
			lif, ok := lb.Instrs[len(lb.Instrs)-1].(*ssa.If)
			if !ok {
				continue
			}
			a, pol := normCond(lif.Cond)
			if !strings.Contains(a, "len(") || !strings.Contains(a, "ReadFully") {
				continue
			}
			for succ := 0; succ < 2; succ++ {
				q := &pathQ{fn: f, fromEdges: []cfgEdge{{lb, succ}}, to: func(x ssa.Instruction) bool { _, isSend := x.(*ssa.Send); return isSend }}
				if q.bypass() == nil {
					guarded = true
					_ = pol
				}
			}
		}
	}
	c.check(guarded, r, fnName(f)+":eof-with-bytes-leaves-before-enqueue", c.pos(sends[0].Pos()), "when the receiver reports io.EOF together with bytes, the function leaves before the send on prefetchTxBuffer",
		"io.EOF from ReadFully is tolerated and nothing tells a stream that ended between two messages from one that ended inside a message: the received fragment is enqueued as a transaction, replicateSingleTx retries it forever and replication does not resume")
}

// condClusters groups the branch conditions of fn that belong to one source-level condition: `a && (b || c)` used in
// an `if` is lowered to a chain of blocks ("cond.true" / "cond.false" / "binop.rhs"), each ending in its own If on one
// operand. A cluster is the set of leaf conditions of such a chain.
func condClusters(fn *ssa.Function) [][]ssa.Value {
	isCondBlock := func(b *ssa.BasicBlock) bool {
		return strings.HasPrefix(b.Comment, "cond.") || strings.HasPrefix(b.Comment, "binop.")
	}
	ifOf := func(b *ssa.BasicBlock) *ssa.If {
		if len(b.Instrs) == 0 {
			return nil
		}
		ifi, _ := b.Instrs[len(b.Instrs)-1].(*ssa.If)
		return ifi
	}
	seen := map[*ssa.BasicBlock]bool{}
	var out [][]ssa.Value
	for _, b := range fn.Blocks {
		if seen[b] || ifOf(b) == nil || isCondBlock(b) {
			continue
		}
		var leaves []ssa.Value
		var walk func(x *ssa.BasicBlock)
		walk = func(x *ssa.BasicBlock) {
			if seen[x] {
				return
			}
			seen[x] = true
			ifi := ifOf(x)
			if ifi == nil {
				return
			}
			leaves = append(leaves, boolLeaves(ifi.Cond)...)
			for _, s := range x.Succs {
				if isCondBlock(s) && ifOf(s) != nil {
					walk(s)
				}
			}
		}
		walk(b)
		out = append(out, leaves)
	}
	// chains that start in a cond block not reached above (defensive)
	for _, b := range fn.Blocks {
		if !seen[b] && ifOf(b) != nil {
			out = append(out, boolLeaves(ifOf(b).Cond))
		}
	}
	return out
}
