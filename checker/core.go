package main

import (
	"encoding/json"
	"fmt"
	"go/token"
	"go/types"
	"os"
	"path/filepath"
	"sort"
	"strings"
	"time"

	"golang.org/x/tools/go/packages"
	"golang.org/x/tools/go/ssa"
	"golang.org/x/tools/go/ssa/ssautil"
)

const modPrefix = "github.com/codenotary/immudb/"

// Obl is one obligation: a rule instance evaluated at one construct.
type Obl struct {
	Rule       string `json:"rule"`
	Key        string `json:"key"` // rule + construct, no line numbers
	Pos        string `json:"pos,omitempty"`
	Status     string `json:"status"` // ok | violation | undecided | known
	Detail     string `json:"detail,omitempty"`
	Nontrivial bool   `json:"nontrivial,omitempty"`
}

type Ctx struct {
	// caller-lock inference (lockset.go)
	callIndex    map[*ssa.Function][]ssa.Instruction
	usedAsValue  map[*ssa.Function]bool
	invokedNames map[string]bool
	inferMemo    map[string]lockState
	inferDepth   int

	Prop    string
	Tier    string
	Seed    int
	Repo    string
	Verif   string
	Tags    string
	Env     []string
	Overlay map[string][]byte

	Pkgs   []*packages.Package
	Prog   *ssa.Program
	Fset   *token.FileSet
	byPath map[string]*packages.Package
	allFns []*ssa.Function

	Obls        []*Obl
	seen        map[string]*Obl
	Analysed    map[string]int
	Notes       []string
	Explanation string
	Assumptions []string
	start       time.Time
	variants    []string
	fixtures    []fixtureResult
}

func (c *Ctx) count(k string, n int) { c.Analysed[k] += n }

func (c *Ctx) add(rule, construct, pos, status, detail string, nontrivial bool) *Obl {
	key := rule + ":" + construct
	if o, ok := c.seen[key]; ok {
		// same rule+construct evaluated again (e.g. another build variant): keep the worst
		if rank(status) > rank(o.Status) {
			o.Status, o.Detail, o.Pos = status, detail, pos
		}
		return o
	}
	o := &Obl{Rule: rule, Key: key, Pos: pos, Status: status, Detail: detail, Nontrivial: nontrivial}
	c.seen[key] = o
	c.Obls = append(c.Obls, o)
	return o
}

func rank(s string) int {
	switch s {
	case "ok":
		return 0
	case "undecided":
		return 2
	case "violation":
		return 3
	}
	return 1
}

func (c *Ctx) ok(rule, construct, pos, witness string) {
	c.add(rule, construct, pos, "ok", witness, true)
}
func (c *Ctx) okTrivial(rule, construct, pos, w string) { c.add(rule, construct, pos, "ok", w, false) }
func (c *Ctx) fail(rule, construct, pos, detail string) {
	c.add(rule, construct, pos, "violation", detail, true)
}
func (c *Ctx) undecided(rule, construct, detail string) {
	c.add(rule, construct, "", "undecided", detail, true)
}
func (c *Ctx) check(cond bool, rule, construct, pos, okw, faild string) {
	if cond {
		c.ok(rule, construct, pos, okw)
	} else {
		c.fail(rule, construct, pos, faild)
	}
}

func (c *Ctx) pos(p token.Pos) string {
	if !p.IsValid() {
		return ""
	}
	pp := c.Fset.Position(p)
	f := pp.Filename
	if rel, err := filepath.Rel(c.Repo, f); err == nil && !strings.HasPrefix(rel, "..") {
		f = rel
	}
	return fmt.Sprintf("%s:%d", f, pp.Line)
}

// load type-checks the given package patterns of the repository (from its current working
// tree) and builds SSA for them and all their dependencies.
func (c *Ctx) load(patterns ...string) error {
	env := append(os.Environ(), "GOFLAGS=-mod=mod", "GOPROXY=off", "GOWORK=off")
	env = append(env, c.Env...)
	cfg := &packages.Config{
		Mode:    packages.LoadAllSyntax,
		Dir:     c.Repo,
		Env:     env,
		Tests:   false,
		Overlay: c.Overlay,
	}
	if c.Tags != "" {
		cfg.BuildFlags = []string{"-tags=" + c.Tags}
	}
	pkgs, err := packages.Load(cfg, patterns...)
	if err != nil {
		return err
	}
	if len(pkgs) == 0 {
		return fmt.Errorf("no packages loaded for %v", patterns)
	}
	nerr := 0
	packages.Visit(pkgs, nil, func(p *packages.Package) {
		if strings.HasPrefix(p.PkgPath, modPrefix) {
			for _, e := range p.Errors {
				nerr++
				c.undecided("load/typecheck", p.PkgPath, e.Error())
			}
		}
	})
	c.Pkgs = pkgs
	c.byPath = map[string]*packages.Package{}
	npk := 0
	packages.Visit(pkgs, nil, func(p *packages.Package) {
		c.byPath[p.PkgPath] = p
		if strings.HasPrefix(p.PkgPath, modPrefix) {
			npk++
		}
	})
	if len(pkgs) > 0 {
		c.Fset = pkgs[0].Fset
	}
	prog, _ := ssautil.AllPackages(pkgs, ssa.InstantiateGenerics)
	prog.Build()
	c.Prog = prog
	c.allFns = nil
	for fn := range ssautil.AllFunctions(prog) {
		if fn.Pkg != nil && strings.HasPrefix(fn.Pkg.Pkg.Path(), modPrefix) {
			c.allFns = append(c.allFns, fn)
		} else if fn.Pkg == nil && fn.Parent() != nil {
			// anonymous functions have Pkg set through parent; generics instances may not
			if p := fn.Parent(); p.Pkg != nil && strings.HasPrefix(p.Pkg.Pkg.Path(), modPrefix) {
				c.allFns = append(c.allFns, fn)
			}
		}
	}
	// AllFunctions only reaches methods of types that are converted to interfaces inside the loaded program;
	// add every declared function and every method of every named type of the repository's packages
	seenFn := map[*ssa.Function]bool{}
	for _, f := range c.allFns {
		seenFn[f] = true
	}
	var addFn func(f *ssa.Function)
	addFn = func(f *ssa.Function) {
		if f == nil || seenFn[f] {
			return
		}
		seenFn[f] = true
		c.allFns = append(c.allFns, f)
		for _, a := range f.AnonFuncs {
			addFn(a)
		}
	}
	for _, sp := range prog.AllPackages() {
		if !strings.HasPrefix(sp.Pkg.Path(), modPrefix) {
			continue
		}
		for _, mem := range sp.Members {
			switch m := mem.(type) {
			case *ssa.Function:
				addFn(m)
			case *ssa.Type:
				for _, t := range []types.Type{m.Type(), types.NewPointer(m.Type())} {
					if _, isIface := m.Type().Underlying().(*types.Interface); isIface {
						continue
					}
					if tp, ok := m.Type().(*types.Named); ok && tp.TypeParams().Len() > 0 {
						continue
					}
					ms := prog.MethodSets.MethodSet(t)
					for i := 0; i < ms.Len(); i++ {
						fn := prog.MethodValue(ms.At(i))
						if fn != nil && fn.Pkg == sp {
							addFn(fn)
						}
					}
				}
			}
		}
	}
	for _, f := range append([]*ssa.Function{}, c.allFns...) {
		for _, a := range f.AnonFuncs {
			addFn(a)
		}
	}
	sort.Slice(c.allFns, func(i, j int) bool { return c.allFns[i].String() < c.allFns[j].String() })
	c.Analysed["packages_repo"] = npk
	c.Analysed["functions_repo"] = len(c.allFns)
	if npk == 0 {
		return fmt.Errorf("zero repository packages loaded")
	}
	return nil
}

// ---------------------------------------------------------------------------------------------
// known findings

type KnownFinding struct {
	Property string `json:"property"`
	Key      string `json:"key"`
	What     string `json:"what"`
}
type FixedFinding struct {
	Property string `json:"property"`
	Commit   string `json:"commit"`
	Key      string `json:"key"`
	What     string `json:"what"`
}
type KnownFile struct {
	Known []KnownFinding `json:"known"`
	Fixed []FixedFinding `json:"fixed"`
}

func (c *Ctx) loadKnown() (*KnownFile, error) {
	b, err := os.ReadFile(filepath.Join(c.Verif, "known_findings.json"))
	if err != nil {
		if os.IsNotExist(err) {
			return &KnownFile{}, nil
		}
		return nil, err
	}
	var k KnownFile
	if err := json.Unmarshal(b, &k); err != nil {
		return nil, err
	}
	return &k, nil
}

// finish prints the verdict, writes evidence and replay files, and returns the exit code.
func (c *Ctx) finish() int {
	known, err := c.loadKnown()
	if err != nil {
		fmt.Printf("cannot read known_findings.json: %v\n", err)
		c.undecided("known-findings", "file", err.Error())
		known = &KnownFile{}
	}
	kmap := map[string]KnownFinding{}
	for _, k := range known.Known {
		if k.Property == c.Prop {
			kmap[k.Key] = k
		}
	}
	outDir := filepath.Join(c.Verif, "out", c.Prop)
	os.RemoveAll(outDir)
	os.MkdirAll(outDir, 0o755)
	sort.SliceStable(c.Obls, func(i, j int) bool { return c.Obls[i].Key < c.Obls[j].Key })

	nviol, nknown, nund, nok, nontriv := 0, 0, 0, 0, 0
	var matchedKnown []string
	distinct := map[string]bool{}
	for _, o := range c.Obls {
		if o.Nontrivial {
			distinct[o.Key] = true
		}
		switch o.Status {
		case "ok":
			nok++
		case "violation":
			if k, ok := kmap[o.Key]; ok {
				o.Status = "known"
				nknown++
				matchedKnown = append(matchedKnown, o.Key)
				fmt.Printf("KNOWN-FINDING: property=%s %s — %s [%s] %s\n", c.Prop, o.Key, k.What, o.Pos, o.Detail)
				continue
			}
			nviol++
			p := filepath.Join(outDir, fmt.Sprintf("%d.json", nviol))
			b, _ := json.MarshalIndent(map[string]any{"property": c.Prop, "obligation": o}, "", " ")
			os.WriteFile(p, b, 0o644)
			fmt.Printf("%s: %s: %s\n", o.Pos, o.Key, o.Detail)
			fmt.Printf("VIOLATION property=%s replay=%s\n", c.Prop, p)
		case "undecided":
			nund++
			nviol++
			p := filepath.Join(outDir, fmt.Sprintf("%d.json", nviol))
			b, _ := json.MarshalIndent(map[string]any{"property": c.Prop, "obligation": o}, "", " ")
			os.WriteFile(p, b, 0o644)
			fmt.Printf("UNDECIDED %s: %s\n", o.Key, o.Detail)
			fmt.Printf("VIOLATION property=%s replay=%s\n", c.Prop, p)
		}
	}
	nontriv = len(distinct)
	// a listed known finding that no longer matches is reported (informational only)
	for k := range kmap {
		found := false
		for _, m := range matchedKnown {
			if m == k {
				found = true
			}
		}
		if !found {
			fmt.Printf("note: known finding %q not reproduced on this tree\n", k)
			c.Notes = append(c.Notes, "known finding not reproduced: "+k)
		}
	}

	// evidence
	var samples []any
	step := 1
	if len(c.Obls) > 12 {
		step = len(c.Obls) / 12
	}
	for i := 0; i < len(c.Obls); i += step {
		samples = append(samples, c.Obls[i])
	}
	for _, o := range c.Obls { // always show non-ok ones
		if o.Status != "ok" && len(samples) < 40 {
			samples = append(samples, o)
		}
	}
	rules := map[string]int{}
	for _, o := range c.Obls {
		rules[o.Rule]++
	}
	ev := map[string]any{
		"property_id": c.Prop,
		"tier":        c.Tier,
		"seed":        c.Seed,
		"level":       "other",
		"wall_s":      time.Since(c.start).Seconds(),
		"violations":  nviol,
		"assumptions": c.Assumptions,
		"coverage": map[string]any{
			"explanation":         c.Explanation,
			"obligations":         len(c.Obls),
			"discharged":          nok,
			"evaluations":         len(c.Obls),
			"distinct_nontrivial": nontriv,
			"rule":                "one obligation per (rule, construct) pair found in the loaded program; non-trivial = decided by a path / dataflow / table argument rather than by mere existence of the construct",
			"samples":             samples,
			"exhaustive":          true,
			"per_rule":            rules,
			"analysed":            c.Analysed,
			"build_variants":      c.variants,
			"seeded_fixtures":     c.fixtures,
			"known_findings":      matchedKnown,
			"undecided":           nund,
			"notes":               c.Notes,
			"checker_cmd":         strings.Join(os.Args, " "),
			"trusted_base":        []string{"go/types type checker", "golang.org/x/tools/go/ssa v0.29.0 lowering", "frozen rule tables in /verif/checker"},
			"all_obligations":     c.Obls,
		},
	}
	os.MkdirAll(filepath.Join(c.Verif, "evidence"), 0o755)
	b, _ := json.MarshalIndent(ev, "", " ")
	if err := os.WriteFile(filepath.Join(c.Verif, "evidence", c.Prop+".json"), b, 0o644); err != nil {
		fmt.Printf("cannot write evidence: %v\n", err)
		return 2
	}
	fmt.Printf("%s tier=%s: obligations=%d ok=%d known=%d violations=%d (undecided %d) packages=%d functions=%d wall=%.1fs\n",
		c.Prop, c.Tier, len(c.Obls), nok, nknown, nviol, nund, c.Analysed["packages_repo"], c.Analysed["functions_repo"], time.Since(c.start).Seconds())
	if nviol > 0 {
		return 1
	}
	return 0
}
