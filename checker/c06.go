package main

import (
	"fmt"
	"strings"

	"golang.org/x/tools/go/ssa"
)

// helpers of pkg/database that read the index on behalf of a caller that has already waited
var c06CallerWaits = map[string]string{
	dbT + "getAtRevision": "called by Get after the indexing wait",
}

// call sites that may read precommitted transactions
var c06PrecommittedAllowed = map[string]string{
	"embedded/store.(*ImmuStore).syncBinaryLinking -> embedded/store.(*ImmuStore).newTxReader":         "recovery: the hash tree covers precommitted transactions too",
	"embedded/store.(*ImmuStore).rewindStaleBinaryLinking -> embedded/store.(*ImmuStore).ReadTxHeader": "recovery (called by OpenWith only): compares hash-tree leaves with the chain, precommitted transactions included",
	"pkg/database.(*db).AllowCommitUpto -> embedded/store.(*ImmuStore).ReadTxHeader":                   "replica: validates the Alh of a precommitted tx before allowing its commit",
	"pkg/database.(*db).ExportTxByID -> embedded/store.(*ImmuStore).ReadTxHeader":                      "primary: validates the precommitted state a replica reports",
}

// index reads that are not part of the KV API the property lists
var c06NotKV = map[string]string{
	dbT + "VerifiableSQLGet": "SQL point read, not one of the KV operations C06 quantifies over (it reads the live index without waiting; SQL commits are asynchronous w.r.t. indexing, so it may observe the previous version of a row — noted in DESIGN.md, not claimed)",
}

func isStoreAsIndex(v ssa.Value) bool {
	mi, ok := v.(*ssa.MakeInterface)
	if !ok {
		return false
	}
	return hasFieldSuffix(desc(mi.X), "st") && strings.HasSuffix(short(mi.X.Type().String()), "store.ImmuStore")
}

func c06(c *Ctx) {
	// ---- C06.7 the index never changes what an open snapshot references (analysis shared with C10.1) ------------------------
	c10CopyOnWrite(c, "C06.7")
	// ---- C06.6 a read assembled from two indexes is assembled under the db lock -------------------------------------------
	// (ExecAll / ZAdd / SetReference write several indexes in one transaction under db.mutex held for writing; a reader that
	// takes one snapshot per index lets such a transaction commit between the two unless it holds the lock for reading:
	// it would return the set membership of one state resolved against the values of another)
	{
		r := "C06.6/multi-index-read-under-the-db-lock"
		snap := callTo(dbT+"snapshotSince", storeT+"SnapshotMustIncludeTxID", storeT+"SnapshotMustIncludeTxIDWithRenewalPeriod")
		n := 0
		for _, fn := range c.allFns {
			if !fnInPkgs(fn, []string{"pkg/database"}) || len(fn.Blocks) == 0 || fn.Signature.Recv() == nil || structName(fn.Signature.Recv().Type()) != "db" {
				continue
			}
			if len(sites(fn, snap)) < 2 {
				continue
			}
			n++
			c.ruleHeldAt(r, fn, "snapshot", snap, "db.mutex", false, nil)
		}
		if n < 1 {
			c.undecided(r, "floor", "no db method taking two snapshots found (ZScan confirmed by hand)")
		}
	}
	// ---- C06.1 reads wait for the index ---------------------------------------------------------------------
	r := "C06.1/reads-wait"
	wait := callTo(dbT+"WaitForIndexingUpto", storeT+"WaitForIndexingUpto", dbT+"snapshotSince", storeT+"SnapshotMustIncludeTxID", storeT+"SnapshotMustIncludeTxIDWithRenewalPeriod")
	noWait := whenCond(true, func(a string) bool { return strings.HasSuffix(a, ".NoWait") })
	atTx := whenCond(false, func(a string) bool {
		return strings.Contains(a, ".AtTx == const:0") || strings.Contains(a, "const:0 == ") && strings.Contains(a, ".AtTx")
	})
	storeReads := []string{storeT + "Get", storeT + "GetBetween", storeT + "GetWithFilters", storeT + "GetWithPrefix", storeT + "GetWithPrefixAndFilters", storeT + "History"}
	nsinks := 0
	for _, fn := range c.allFns {
		if !fnInPkgs(fn, []string{"pkg/database"}) || len(fn.Blocks) == 0 {
			continue
		}
		top := topFn(fn)
		if top.Signature.Recv() == nil || structName(top.Signature.Recv().Type()) != "db" {
			continue
		}
		sinks := sites(fn, func(in ssa.Instruction) bool {
			cc := callOf(in)
			if cc == nil {
				return false
			}
			if matchCall(cc, storeReads) && hasFieldSuffix(desc(cc.Args[0]), "st") {
				return true
			}
			for _, a := range cc.Args {
				if isStoreAsIndex(a) {
					return true
				}
			}
			return false
		})
		for i, s := range sinks {
			nsinks++
			construct := fmt.Sprintf("%s:index-read#%d:%s", fnName(fn), i, lastSeg(calleeName(callOf(s))))
			if reason, ok := c06NotKV[fnName(top)]; ok {
				c.okTrivial(r, construct, c.pos(s.Pos()), "outside the KV operation list of the property: "+reason)
				continue
			}
			if reason, ok := c06CallerWaits[fnName(top)]; ok {
				c.okTrivial(r, construct, c.pos(s.Pos()), "caller waits: "+reason)
				continue
			}
			q := &pathQ{fn: fn, fromEntry: true, to: func(x ssa.Instruction) bool { return x == s }, via: wait, barrier: anyEdge(noWait, atTx)}
			if w := q.bypass(); w != nil {
				c.fail(r, construct, c.pos(s.Pos()), "the index is read without first waiting for indexing (and the request did not ask for NoWait / AtTx): "+c.witnessStr(w))
			} else {
				c.ok(r, construct, c.pos(s.Pos()), "preceded on every path by an indexing wait, except across NoWait / AtTx!=0")
			}
		}
	}
	if nsinks < 7 {
		c.undecided(r, "floor", fmt.Sprintf("expected >=7 direct index reads in pkg/database, found %d", nsinks))
	}
	for h := range c06CallerWaits {
		f := c.mustFn(r, h)
		if f == nil {
			continue
		}
		for _, in := range c.callSites(callTo(h)) {
			g := in.Parent()
			q := &pathQ{fn: g, fromEntry: true, to: func(x ssa.Instruction) bool { return x == in }, via: wait, barrier: anyEdge(noWait, atTx)}
			c.check(q.bypass() == nil, r, fnName(g)+":calls:"+lastSeg(h), c.pos(in.Pos()), "the caller waited", "caller-waits helper "+h+" is called without a preceding indexing wait")
		}
	}
	// the wait target derives from the committed frontier observed at call time (or the request's SinceTx)
	nwaits := 0
	for _, fn := range c.allFns {
		if !fnInPkgs(fn, []string{"pkg/database"}) || len(fn.Blocks) == 0 {
			continue
		}
		for i, in := range sites(fn, callTo(dbT+"WaitForIndexingUpto", storeT+"WaitForIndexingUpto", storeT+"SnapshotMustIncludeTxID")) {
			cc := callOf(in)
			arg := cc.Args[len(cc.Args)-1]
			if fnName(fn) == dbT+"WaitForIndexingUpto" {
				continue // the thin wrapper
			}
			nwaits++
			okArg := dependsOn(arg, func(v ssa.Value) bool {
				cl, ok := v.(*ssa.Call)
				if ok {
					n := calleeName(&cl.Call)
					if n == storeT+"CommittedAlh" || n == storeT+"LastPrecommittedTxID" || n == storeT+"LastCommittedTxID" || n == storeT+"PrecommittedAlh" {
						return true
					}
				}
				d := desc(v)
				return strings.HasSuffix(d, ".SinceTx") || strings.HasPrefix(d, "param:") || strings.Contains(d, ".Id") || strings.Contains(d, "header.ID") || strings.Contains(d, "hdr.ID") || strings.Contains(d, "TxID")
			})
			c.check(okArg, "C06.1/wait-target", fmt.Sprintf("%s:wait#%d", fnName(fn), i), c.pos(in.Pos()), "wait target derives from the commit frontier / SinceTx / a tx id: "+desc(arg), "indexing wait target is "+desc(arg))
		}
	}
	c.count("wait_sites_pkg_database", nwaits)
	// snapshotSince waits up to SinceTx or the committed frontier
	if f := c.mustFn(r, dbT+"snapshotSince"); f != nil {
		for _, in := range sites(f, callTo(storeT+"SnapshotMustIncludeTxID")) {
			arg := callOf(in).Args[3]
			dep := dependsOn(arg, func(v ssa.Value) bool {
				cl, ok := v.(*ssa.Call)
				return ok && calleeName(&cl.Call) == storeT+"CommittedAlh"
			})
			c.check(dep && strings.Contains(desc(arg), "param:txID"), r, fnName(f)+":snapshot-floor", c.pos(in.Pos()), "snapshot must include SinceTx or, when 0, the committed frontier", "snapshotSince floor is "+desc(arg))
		}
		c.ruleMustPass(r, f, nil, "SnapshotMustIncludeTxID", callTo(storeT+"SnapshotMustIncludeTxID"), nil, false)
	}
	// the store-level wait really waits on every indexer
	if f := c.mustFn(r, storeT+"WaitForIndexingUpto"); f != nil {
		c.check(len(sites(f, callTo("embedded/store.(*indexer).WaitForIndexingUpto"))) > 0, r, fnName(f)+":waits-on-indexers", c.pos(f.Pos()), "delegates to each indexer", "ImmuStore.WaitForIndexingUpto no longer waits on the indexers")
		c.ruleErrChecked(r, f, "indexer.WaitForIndexingUpto", callTo("embedded/store.(*indexer).WaitForIndexingUpto"), 1)
	}
	if f := c.mustFn(r, "embedded/store.(*indexer).WaitForIndexingUpto"); f != nil {
		c.ruleMustPass(r, f, nil, "wHub.WaitFor", callTo(whWaitFor+"@wHub"), nil, false)
	}

	// ---- C06.4 one read, one state: a function that took a snapshot reads through it, never through the live index
	r = "C06.4/snapshot-consistency"
	snapAcq := callTo(dbT+"snapshotSince", storeT+"SnapshotMustIncludeTxID", storeT+"SnapshotMustIncludeTxIDWithRenewalPeriod")
	nsnapFns := 0
	for _, fn := range c.allFns {
		if !fnInPkgs(fn, []string{"pkg/database"}) || len(fn.Blocks) == 0 {
			continue
		}
		acq := sites(fn, snapAcq)
		if len(acq) == 0 || fnName(fn) == dbT+"snapshotSince" {
			continue
		}
		nsnapFns++
		live := func(in ssa.Instruction) bool {
			cc := callOf(in)
			if cc == nil {
				return false
			}
			if matchCall(cc, storeReads) && hasFieldSuffix(desc(cc.Args[0]), "st") {
				return true
			}
			for _, a := range cc.Args {
				if isStoreAsIndex(a) {
					return true
				}
			}
			return false
		}
		q := &pathQ{fn: fn, from: acq, to: live}
		if w := q.bypass(); w != nil {
			c.fail(r, fnName(fn)+":reads-through-its-snapshot", c.pos(w[len(w)-1].Pos()), "after taking a snapshot the function also reads the live index: one response can mix two states of the database")
		} else {
			c.ok(r, fnName(fn)+":reads-through-its-snapshot", c.pos(fn.Pos()), "no live-index read is reachable after the snapshot was taken")
		}
	}
	if nsnapFns < 5 {
		c.undecided(r, "floor", fmt.Sprintf("expected >=5 snapshot-based readers in pkg/database, found %d", nsnapFns))
	}
	// ---- C06.5 no dirty reads: precommitted (not yet committed) transactions are readable only where listed ---------
	r = "C06.5/allow-precommitted"
	npc := 0
	for _, fn := range c.allFns {
		if len(fn.Blocks) == 0 || !(fnInPkgs(fn, []string{"embedded/store", "pkg/database", "pkg/server", "pkg/replication", "embedded/sql", "embedded/document"})) {
			continue
		}
		allInstrs(fn, false, func(in ssa.Instruction) {
			cc := callOf(in)
			if cc == nil || cc.StaticCallee() == nil {
				return
			}
			for i, p := range cc.StaticCallee().Params {
				if p.Name() != "allowPrecommitted" || i >= len(cc.Args) || desc(cc.Args[i]) != "const:true" {
					continue
				}
				npc++
				key := fnName(topFn(fn)) + " -> " + fnName(cc.StaticCallee())
				reason, ok := c06PrecommittedAllowed[key]
				c.check(ok, r, "allowPrecommitted=true:"+key, c.pos(in.Pos()), "allowed: "+reason, "a not-yet-committed transaction is made readable at a call site that is not in the allow-list: "+key)
			}
		})
	}
	c.count("allowPrecommitted_true_sites", npc)

	// ---- C06.2 writes return after commit and indexing -----------------------------------------------------------
	r = "C06.2/writes-wait"
	na := 0
	for _, in := range c.callSites(callTo(otxT + "AsyncCommit")) {
		fn := in.Parent()
		if !fnInPkgs(fn, []string{"pkg/database"}) {
			continue
		}
		na++
		q := &pathQ{fn: fn, fromEntry: true, to: func(x ssa.Instruction) bool { return x == in }, barrier: noWait}
		c.check(q.bypass() == nil, r, fnName(fn)+":AsyncCommit-only-with-NoWait", c.pos(in.Pos()), "AsyncCommit is dominated by the NoWait==true edge", "a write returns without waiting for indexing although the request did not set NoWait")
	}
	if na < 4 {
		c.undecided(r, "AsyncCommit:floor", fmt.Sprintf("expected >=4 AsyncCommit sites in pkg/database, found %d", na))
	}
	for _, in := range c.callSites(callTo(storeT + "CommitWith")) {
		fn := in.Parent()
		if !fnInPkgs(fn, []string{"pkg/database"}) {
			continue
		}
		a := desc(callOf(in).Args[3])
		c.check(strings.HasPrefix(a, "!") && strings.HasSuffix(a, ".NoWait"), r, fnName(fn)+":CommitWith(waitForIndexing=!NoWait)", c.pos(in.Pos()), "waitForIndexing = !req.NoWait", "CommitWith waitForIndexing argument is "+a)
	}
	for _, n := range []struct{ fn, arg string }{{"Commit", "const:true"}, {"AsyncCommit", "const:false"}} {
		if f := c.mustFn(r, otxT+n.fn); f != nil {
			for _, in := range sites(f, callTo(otxT+"commit")) {
				a := desc(callOf(in).Args[2])
				c.check(a == n.arg, r, fnName(f)+":waitForIndexing", c.pos(in.Pos()), "commit(ctx, "+a+")", n.fn+" calls commit with waitForIndexing="+a)
			}
		}
	}
	for _, n := range []string{"commit", "CommitWith"} {
		if f := c.mustFn(r, storeT+n); f != nil {
			// after the commit wait, indexing is awaited when asked
			w := callTo(storeT + "WaitForIndexingUpto")
			q := &pathQ{fn: f, fromEntry: true, to: func(in ssa.Instruction) bool {
				rt, ok := in.(*ssa.Return)
				return ok && retKind(rt) == "success"
			}, via: w, barrier: whenCond(false, func(a string) bool { return a == "param:waitForIndexing" })}
			c.check(len(sites(f, w)) > 0 && q.bypass() == nil, r, fnName(f)+":indexing-awaited-when-asked", c.pos(f.Pos()), "success passes WaitForIndexingUpto unless waitForIndexing is false", n+" returns success without waiting for indexing although asked to")
			c.ruleOrder(r, f, "commitWHub.WaitFor", callTo(whWaitFor+"@commitWHub"), "WaitForIndexingUpto", w, nil, 1)
			for _, in := range sites(f, w) {
				a := desc(callOf(in).Args[2])
				c.check(strings.HasSuffix(a, ".ID"), r, fnName(f)+":waits-for-own-tx", c.pos(in.Pos()), "waits for hdr.ID", "waits for "+a)
			}
		}
	}
	// ---- C06.3 preconditions inside the lock: shared with C05.3 ------------------------------------------------------
	for _, name := range []string{"precommit", "preCommitWith"} {
		if f := c.mustFn("C06.3/preconditions-in-lock", storeT+name); f != nil {
			c.ruleHeldAt("C06.3/preconditions-in-lock", f, "checkPreconditions", callTo(otxT+"checkPreconditions"), "ImmuStore.mutex", true, nil)
			c.ruleOrder("C06.3/preconditions-in-lock", f, "WaitForIndexingUpto", callTo(storeT+"WaitForIndexingUpto"), "checkPreconditions", callTo(otxT+"checkPreconditions"), nil, 1)
		}
	}
	// read transactions opened by the database layer start from the store's default options: those carry the snapshot
	// floor (the snapshot must include the last precommitted tx, i.e. every write that has returned); a hand-made
	// TxOptions literal has no floor and is served from whatever index root was dumped last
	rt := "C06.1/tx-options-carry-snapshot-floor"
	nt := 0
	for _, in := range c.callSites(callTo(storeT+"NewTx", "pkg/database.(*db).newTx")) {
		if !fnInPkgs(in.Parent(), []string{"pkg/database"}) {
			continue
		}
		nt++
		a := callOf(in).Args
		opt := a[len(a)-1]
		fromDefault := dependsOn(opt, func(v ssa.Value) bool {
			cl, ok := v.(*ssa.Call)
			return ok && calleeName(&cl.Call) == "embedded/store.DefaultTxOptions"
		})
		_, isParam := opt.(*ssa.Parameter)
		c.check(fromDefault || isParam, rt, fmt.Sprintf("%s:NewTx#%d", fnName(in.Parent()), idxAmong(in, callTo(storeT+"NewTx", "pkg/database.(*db).newTx"))), c.pos(in.Pos()),
			"options derive from store.DefaultTxOptions()", "a transaction is opened with options that do not derive from store.DefaultTxOptions() ("+desc(opt)+"): its snapshot is not required to include the writes that have already returned")
	}
	if nt < 2 {
		c.undecided(rt, "floor", fmt.Sprintf("%d store transactions opened by pkg/database found", nt))
	}
	// check-then-write handlers: an existence pre-check on the index followed by the commit of a write-only
	// transaction (no read-set, so nothing is validated at commit) is atomic only under the exclusive database lock,
	// which keeps out Set/Delete/ExecAll (they hold the shared lock for their whole commit)
	rx := "C06.3/check-then-write-exclusive"
	nx := 0
	for _, f := range c.allFns {
		if !fnInPkgs(f, []string{"pkg/database"}) || f.Signature.Recv() == nil || len(f.Blocks) == 0 {
			continue
		}
		wo := sites(f, callTo(storeT+"NewWriteOnlyTx"))
		pre := sites(f, callTo("pkg/database.(*db).getAtTx", "pkg/database.(*db).get", "pkg/database.(*db).getAtRevision"))
		if len(wo) == 0 || len(pre) == 0 {
			continue
		}
		nx++
		c.ruleHeldAt(rx, f, "pre-check", callTo("pkg/database.(*db).getAtTx", "pkg/database.(*db).get", "pkg/database.(*db).getAtRevision"), "db.mutex", true, nil)
		c.ruleHeldAt(rx, f, "commit", callTo(otxT+"Commit", otxT+"AsyncCommit"), "db.mutex", true, nil)
	}
	if nx < 2 {
		c.undecided(rx, "floor", fmt.Sprintf("%d check-then-write handlers found (SetReference, ZAdd confirmed by hand; ExecAll evaluates its checks inside the store's commit callback, C06.3/preconditions-in-lock)", nx))
	}
	if f := c.mustFn("C06.3/preconditions-in-lock", storeT+"preCommitWith"); f != nil {
		// the callback (which evaluates KV preconditions against the index) runs under the lock, after the wait
		cb := func(in ssa.Instruction) bool {
			cc := callOf(in)
			return cc != nil && !cc.IsInvoke() && cc.StaticCallee() == nil && desc(cc.Value) == "param:callback"
		}
		c.ruleHeldAt("C06.3/preconditions-in-lock", f, "callback", cb, "ImmuStore.mutex", true, nil)
	}
	// KV preconditions are evaluated by the same checkPreconditions call as the MVCC read-set: under the store mutex,
	// on an index awaited up to the precommit frontier that was read inside that critical section
	validationInCriticalSection(c, "C06.3/preconditions-on-current-index")
}
