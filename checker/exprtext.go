package main

import (
	"fmt"
	"go/types"
	"sort"
	"strings"

	"golang.org/x/tools/go/ssa"
)

// recvFieldsRead: names of the receiver's fields that fn reads (directly, in the function itself).
func recvFieldsRead(fn *ssa.Function) map[string]bool {
	out := map[string]bool{}
	if fn == nil || len(fn.Params) == 0 {
		return out
	}
	recv := fn.Params[0]
	allInstrs(fn, true, func(in ssa.Instruction) {
		switch x := in.(type) {
		case *ssa.FieldAddr:
			if x.X == ssa.Value(recv) {
				out[fieldName(x.X.Type(), x.Field)] = true
			}
		case *ssa.Field:
			if x.X == ssa.Value(recv) {
				out[fieldName(x.X.Type(), x.Field)] = true
			}
		}
	})
	return out
}

// ruleExprTextCarriesFields: CHECK constraints and column defaults are persisted as the text String() renders and
// parsed back when the catalog is loaded. For every expression node, a field that evaluation (reduce) looks at is a
// field the text must carry: String() reads it too. A field String() ignores (the NOT of NOT IN) is lost by the
// round trip through the catalog: the stored constraint is not the declared one.
func (c *Ctx) ruleExprTextCarriesFields(rule string, exempt map[string]string) int {
	n := 0
	p, ok := c.byPath[modPrefix+"embedded/sql"]
	if !ok {
		c.undecided(rule, "embedded/sql", "package not loaded")
		return 0
	}
	scope := p.Types.Scope()
	names := scope.Names()
	sort.Strings(names)
	for _, name := range names {
		tn, ok := scope.Lookup(name).(*types.TypeName)
		if !ok {
			continue
		}
		if _, isStruct := tn.Type().Underlying().(*types.Struct); !isStruct {
			continue
		}
		red := c.fn("embedded/sql.(*" + name + ").reduce")
		str := c.fn("embedded/sql.(*" + name + ").String")
		if red == nil || str == nil || len(red.Blocks) == 0 || len(str.Blocks) == 0 {
			continue
		}
		inRed, inStr := recvFieldsRead(red), recvFieldsRead(str)
		if len(inStr) == 0 {
			// a node that renders a fixed placeholder (sub-queries): its text does not parse back into it, a constraint
			// holding one is refused when the catalog is loaded rather than silently changed
			c.okTrivial(rule, name, c.pos(str.Pos()), "String() renders a placeholder, no field at all")
			continue
		}
		for _, fld := range sortedKeys(inRed) {
			n++
			construct := name + "." + fld
			if reason, ok := exempt[construct]; ok {
				c.okTrivial(rule, construct, c.pos(str.Pos()), "not part of the text: "+reason)
				continue
			}
			c.check(inStr[fld], rule, construct, c.pos(str.Pos()), "rendered by String()", fmt.Sprintf("%s.reduce evaluates field %s but %s.String() does not render it: an expression persisted as text (CHECK constraint, column default) comes back from the catalog without it", name, fld, name))
		}
	}
	return n
}

func init() {
	register("DBGEXPRTEXT", &propDef{patterns: []string{"./embedded/sql"}, run: func(c *Ctx) {
		n := c.ruleExprTextCarriesFields("DBG/exprtext", nil)
		fmt.Println("fields examined", n, strings.Repeat("-", 3))
	}})
}

var exprTextExempt = map[string]string{
	"ColSelector.table":   "the table of a column reference is implicit where text is persisted (CHECK and DEFAULT refer to the table they belong to)",
	"CaseWhenExp.resType": "derived by inferType from the arms, not part of the expression",
}

func exprTextRule(c *Ctx, rule string) {
	if n := c.ruleExprTextCarriesFields(rule, exprTextExempt); n < 25 {
		c.undecided(rule, "floor", fmt.Sprintf("%d fields of expression nodes examined (35 when the rule was armed)", n))
	}
}
