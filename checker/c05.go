package main

import (
	"fmt"
	"go/token"
	"go/types"
	"strings"

	"golang.org/x/tools/go/ssa"
)

const otxT = "embedded/store.(*OngoingTx)."
const otxKR = "embedded/store.(*ongoingTxKeyReader)."

// appendTo matches the store that appends a record into the read-set slice field T.f
// (`x.f = append(x.f, rec)`), or into an element of a slice-of-slices field (`x.f[i] = append(x.f[i], rec)`).
func appendTo(field string) sitePred {
	return func(in ssa.Instruction) bool {
		st, ok := in.(*ssa.Store)
		if !ok {
			return false
		}
		f, _ := fieldOf(st.Addr)
		if f == field {
			return isAppendResult(st.Val)
		}
		if ia, ok := st.Addr.(*ssa.IndexAddr); ok {
			if ff, _ := fieldOf(ia.X); ff == field {
				return isAppendResult(st.Val)
			}
		}
		return false
	}
}

func isAppendResult(v ssa.Value) bool {
	c, ok := v.(*ssa.Call)
	if !ok {
		return false
	}
	b, ok := c.Call.Value.(*ssa.Builtin)
	return ok && b.Name() == "append"
}

// returnsErrOf: a return whose error operand is (derived from) the error result of call `read`.
func returnsErrOf(read ssa.Instruction) sitePred {
	call, _ := read.(*ssa.Call)
	evs := map[ssa.Value]bool{}
	if call != nil {
		for _, e := range errResults(call) {
			evs[e] = true
		}
	}
	return func(in ssa.Instruction) bool {
		r, ok := in.(*ssa.Return)
		if !ok || len(r.Results) == 0 {
			return false
		}
		last := unspill(r.Results[len(r.Results)-1], r)
		if evs[last] {
			return true
		}
		return dependsOn(last, func(v ssa.Value) bool { return evs[v] })
	}
}

func atomIsCall(name string) func(string) bool {
	return func(a string) bool { return strings.HasPrefix(a, "call:"+name) }
}

// recordingRule: after the snapshot read `read` in fn:
//   - every possibly-successful return passes an append into `field`, except across the given
//     exemption edges (read-only tx, own write);
//   - every return of the read's own error passes the append, except across the edge on which
//     errors.Is(err, <notFound>) is false (other errors are not observations), the read-only edge and
//     the read-set-limit failure.
func (c *Ctx) recordingRule(rule string, fn *ssa.Function, readName string, read sitePred, field string, notFound string, okExempt edgePred) {
	if fn == nil {
		return
	}
	rs := sites(fn, read)
	if len(rs) == 0 {
		c.undecided(rule, fnName(fn)+":"+readName, "snapshot read site not found")
		return
	}
	rec := appendTo(field)
	if len(sites(fn, rec)) == 0 {
		c.fail(rule, fnName(fn)+":"+readName+":records:"+field, c.pos(fn.Pos()), "no append into "+field+" in "+fnName(fn))
		return
	}
	readOnly := whenCond(true, atomIsCall(otxT+"IsReadOnly"))
	for i, r := range rs {
		// found
		q := &pathQ{fn: fn, from: []ssa.Instruction{r}, to: successReturn, via: rec, barrier: anyEdge(readOnly, okExempt)}
		construct := fmt.Sprintf("%s:%s#%d:found-is-recorded:%s", fnName(fn), readName, i, field)
		if w := q.bypass(); w != nil {
			c.fail(rule, construct, c.pos(w[len(w)-1].Pos()), "data read from the snapshot is returned to the transaction without a read-set record: "+c.witnessStr(w))
		} else {
			c.ok(rule, construct, c.pos(r.Pos()), "every successful return after the read passes an append to "+field)
		}
		// not found
		notObs := whenCond(false, func(a string) bool {
			return strings.HasPrefix(a, "call:errors.Is(") && strings.HasSuffix(a, ",global:"+notFound+")")
		})
		// a key the transaction has written itself (and that was filtered out: deleted by it) is not an observation of the
		// committed state: the edge on which the lookup in tx.entriesByKey succeeded
		ownWrite := func(b *ssa.BasicBlock, si int) bool {
			if len(b.Instrs) == 0 {
				return false
			}
			ifi, ok := b.Instrs[len(b.Instrs)-1].(*ssa.If)
			if !ok {
				return false
			}
			cond, pol := ifi.Cond, true
			if u, ok := cond.(*ssa.UnOp); ok && u.Op == token.NOT {
				cond, pol = u.X, false
			}
			ex, ok := cond.(*ssa.Extract)
			if !ok || ex.Index != 1 {
				return false
			}
			lk, ok := ex.Tuple.(*ssa.Lookup)
			if !ok || !lk.CommaOk || !hasFieldSuffix(desc(lk.X), "entriesByKey") {
				return false
			}
			return (si == 0) == pol
		}
		q2 := &pathQ{fn: fn, from: []ssa.Instruction{r}, to: returnsErrOf(r), via: rec, barrier: anyEdge(readOnly, notObs, ownWrite)}
		construct = fmt.Sprintf("%s:%s#%d:%s-is-recorded:%s", fnName(fn), readName, i, notFound, field)
		if w := q2.bypass(); w != nil {
			c.fail(rule, construct, c.pos(w[len(w)-1].Pos()), "a not-found style answer ("+notFound+" or an error wrapping it) is returned without a read-set record: "+c.witnessStr(w))
		} else {
			c.ok(rule, construct, c.pos(r.Pos()), "every return of the read's error passes the append unless errors.Is(err,"+notFound+") is false")
		}
	}
}

func c05(c *Ctx) {
	c05OwnWritesBeforeFilters(c, "C05.7/own-writes-substituted-before-filters")
	snapT := "embedded/store.(*Snapshot)."
	ownWrite := whenCond(false, func(a string) bool { return strings.HasPrefix(a, "(const:0 < call:(embedded/store.ValueRef).Tx") })

	// ---- C05.1 every observation is recorded --------------------------------------------------------
	c05RecordedKeysAreCopies(c)
	c05SpecCopies(c)
	c05FingerprintCoversTx(c)
	r := "C05.1/reads-recorded"
	c.recordingRule(r, c.mustFn(r, otxT+"GetWithFilters"), "snap.GetWithFilters", callTo(snapT+"GetWithFilters"), "mvccReadSet.expectedGets", "ErrKeyNotFound", ownWrite)
	c.recordingRule(r, c.mustFn(r, otxT+"GetWithPrefixAndFilters"), "snap.GetWithPrefixAndFilters", callTo(snapT+"GetWithPrefixAndFilters"), "mvccReadSet.expectedGetsWithPrefix", "ErrKeyNotFound", ownWrite)
	c.recordingRule(r, c.mustFn(r, otxKR+"ReadBetween"), "keyReader.Read*", callTo("(embedded/store.KeyReader).Read", "(embedded/store.KeyReader).ReadBetween"), "expectedReader.expectedReads", "ErrNoMoreEntries", nil)
	if f := c.mustFn(r, otxKR+"Reset"); f != nil {
		c.ruleMustPass(r, f, nil, "append(expectedReads, nil)", appendTo("expectedReader.expectedReads"), nil, false)
		c.ruleMustPass(r, f, nil, "expectedReader.i++", storeTo("expectedReader.i"), nil, false)
	}
	if f := c.mustFn(r, "embedded/store.newOngoingTxKeyReader"); f != nil {
		c.ruleMustPass(r, f, nil, "append(expectedReaders)", appendTo("mvccReadSet.expectedReaders"), nil, false)
		// the reader handed to the program wraps the recorded expectedReader
	}
	if f := c.mustFn(r, otxT+"NewKeyReader"); f != nil {
		// a raw snapshot reader is only handed out to read-only transactions
		raw := callTo(snapT + "NewKeyReader")
		q := &pathQ{fn: f, fromEntry: true, to: raw, barrier: whenCond(true, atomIsCall(otxT+"IsReadOnly"))}
		c.check(len(sites(f, raw)) > 0 && q.bypass() == nil, r, fnName(f)+":raw-reader-only-for-read-only-tx", c.pos(f.Pos()),
			"snap.NewKeyReader is dominated by the IsReadOnly()==true edge", "a read-write transaction can obtain an unrecorded snapshot reader")
		c.ruleMustPass(r, f, nil, "newOngoingTxKeyReader|snap.NewKeyReader", callTo("embedded/store.newOngoingTxKeyReader", snapT+"NewKeyReader"), nil, false)
	}
	if f := c.mustFn(r, otxT+"MarkPrefixScanned"); f != nil {
		c.ruleMustPass(r, f, nil, "append(expectedPrefixFPs)", appendTo("mvccReadSet.expectedPrefixFPs"), whenCond(true, atomIsCall(otxT+"IsReadOnly")), false)
		c.ruleOrder(r, f, "prefixFingerprint", callTo("embedded/store.prefixFingerprint"), "append(expectedPrefixFPs)", appendTo("mvccReadSet.expectedPrefixFPs"), nil, 1)
	}
	// who reads snapshots on behalf of a transaction: frozen list (a new read shape must come with recording)
	allowedReaders := map[string]bool{
		otxT + "GetWithFilters": true, otxT + "GetWithPrefixAndFilters": true, otxT + "NewKeyReader": true,
		"embedded/store.newOngoingTxKeyReader": true, "embedded/store.prefixFingerprint": true, otxT + "checkPreconditions": true,
	}
	nread := 0
	for _, fn := range c.allFns {
		top := topFn(fn)
		rn := ""
		if recv := top.Signature.Recv(); recv != nil {
			rn = structName(recv.Type())
		}
		if !fnInPkgs(fn, []string{"embedded/store"}) || (rn != "OngoingTx" && rn != "ongoingTxKeyReader" && fnName(top) != "embedded/store.prefixFingerprint" && fnName(top) != "embedded/store.newOngoingTxKeyReader") {
			continue
		}
		for _, in := range sites(fn, func(x ssa.Instruction) bool {
			cc := callOf(x)
			if cc == nil {
				return false
			}
			n := calleeName(cc)
			return strings.HasPrefix(n, snapT+"Get") || n == snapT+"NewKeyReader" || n == snapT+"History"
		}) {
			nread++
			owner := fnName(top)
			c.check(allowedReaders[owner], "C05.1/snapshot-read-sites", "snapshot-read:in:"+owner+":"+lastSeg(calleeName(callOf(in))), c.pos(in.Pos()),
				"snapshot read in a function covered by a recording rule", "transaction code reads the snapshot in "+owner+", which has no recording rule")
		}
	}
	if nread < 5 {
		c.undecided("C05.1/snapshot-read-sites", "floor", fmt.Sprintf("expected >=5 snapshot reads in transaction code, found %d", nread))
	}
	// read-your-own-writes: the snapshot used by a tx resolves keys written by the tx through the interceptor
	if f := c.mustFn(r, otxT+"snap"); f != nil {
		c.ruleMustPass("C05.1/own-writes", f, sites(f, callTo(storeT+"SnapshotMustIncludeTxIDWithRenewalPeriod")), "snap.refInterceptor=", storeTo("Snapshot.refInterceptor"), nil, false)
	}

	c05OwnWrites(c, "C05.1/own-writes")

	// ---- C05.2 every record kind is validated and counted ---------------------------------------------
	r = "C05.2/records-validated"
	rsType := c.namedType("embedded/store", "mvccReadSet")
	check := c.mustFn(r, otxT+"checkPreconditions")
	isEmpty := c.mustFn(r, "embedded/store.(*mvccReadSet).isEmpty")
	fp := c.mustFn(r, "embedded/store.prefixFingerprint")
	if rsType != nil && check != nil && isEmpty != nil && fp != nil {
		st := rsType.Underlying().(*types.Struct)
		nslices := 0
		for i := 0; i < st.NumFields(); i++ {
			fld := st.Field(i)
			sl, ok := fld.Type().Underlying().(*types.Slice)
			if !ok {
				continue
			}
			nslices++
			fname := "mvccReadSet." + fld.Name()
			// ranged over in checkPreconditions
			ranged := false
			lenTested := false
			allInstrs(check, true, func(in ssa.Instruction) {
				// range over a slice lowers to len() + index loop
				if cl, ok := in.(*ssa.Call); ok {
					if b, ok := cl.Call.Value.(*ssa.Builtin); ok && b.Name() == "len" {
						if f, _ := fieldOf(cl.Call.Args[0]); f == fname {
							ranged = true
						}
					}
				}
			})
			allInstrs(isEmpty, false, func(in ssa.Instruction) {
				if cl, ok := in.(*ssa.Call); ok {
					if b, ok := cl.Call.Value.(*ssa.Builtin); ok && b.Name() == "len" {
						if f, _ := fieldOf(cl.Call.Args[0]); f == fname {
							for _, rr := range *cl.Referrers() {
								if bo, ok := rr.(*ssa.BinOp); ok && strings.Contains(desc(bo), "const:0") {
									lenTested = true
								}
							}
						}
					}
				}
			})
			c.check(ranged, r, "checkPreconditions:iterates:"+fname, c.pos(check.Pos()), "validated at commit", "read-set records in "+fname+" are never validated by checkPreconditions")
			c.check(lenTested, r, "isEmpty:counts:"+fname, c.pos(isEmpty.Pos()), "counted by isEmpty()", fname+" is not counted by isEmpty(): a transaction whose only reads are of this kind commits without validation")
			// every field of the record struct is read during validation
			elem := sl.Elem()
			if p, ok := elem.(*types.Pointer); ok {
				elem = p.Elem()
			}
			c.fieldsRead(r, elem, []*ssa.Function{check, fp}, map[string]string{
				"expectedReader.i": "write cursor used only while recording",
			})
		}
		if nslices < 4 {
			c.undecided(r, "mvccReadSet:slices", fmt.Sprintf("expected >=4 record slices in mvccReadSet, found %d", nslices))
		}
		// nested records
		if t := c.namedType("embedded/store", "expectedRead"); t != nil {
			c.fieldsRead(r, t, []*ssa.Function{check}, nil)
		}
		if t := c.namedType("embedded/store", "KeyReaderSpec"); t != nil {
			_ = t
		}
	}
	if f := c.mustFn(r, otxT+"hasPreconditions"); f != nil {
		c.check(len(sites(f, callTo("embedded/store.(*mvccReadSet).isEmpty"))) > 0, r, fnName(f)+":uses-isEmpty", c.pos(f.Pos()), "hasPreconditions consults the read-set", "hasPreconditions ignores the MVCC read-set")
	}
	// a conflict found during validation fails the commit: every comparison of an expected tx with the
	// current one leads to ErrTxReadConflict on mismatch
	if check != nil {
		n := 0
		allInstrs(check, false, func(in ssa.Instruction) {
			ifi, ok := in.(*ssa.If)
			if !ok {
				return
			}
			a, pol := normCond(ifi.Cond)
			if !(strings.Contains(a, ".expectedTx == call:(embedded/store.ValueRef).Tx") || strings.Contains(a, "call:(embedded/store.ValueRef).Tx") && strings.Contains(a, "expectedTx") && strings.Contains(a, " == ")) {
				return
			}
			n++
			succ := 1
			if !pol {
				succ = 0
			}
			q := &pathQ{fn: check, fromEdges: []cfgEdge{{ifi.Block(), succ}}, to: func(x ssa.Instruction) bool {
				rt, ok := x.(*ssa.Return)
				return ok && retKind(rt) != "fail"
			}}
			// only the immediate continuation matters: mismatch must return an error before anything else succeeds
			c.check(func() bool {
				// the mismatch edge block must end in a failing return
				b := ifi.Block().Succs[succ]
				for _, x := range b.Instrs {
					if rt, ok := x.(*ssa.Return); ok {
						return retKind(rt) == "fail"
					}
				}
				return q.bypass() == nil
			}(), r, fmt.Sprintf("%s:expectedTx-mismatch-conflicts#%d", fnName(check), n), c.pos(ifi.Cond.Pos()), "mismatch returns an error", "an expectedTx mismatch does not fail validation")
		})
		// every answer of a validation read is compared with the recorded one before validation moves on: a found
		// answer with the recorded tx (expectedTx == valRef.Tx()), a not-found answer with "was recorded as not found"
		// (expectedTx > 0 conflicts). A comparison that is skipped for some records lets phantoms through.
		cmpTx := func(a string) bool {
			return strings.Contains(a, "expectedTx") && strings.Contains(a, "ValueRef).Tx") && strings.Contains(a, " == ")
		}
		cmpPos := func(a string) bool { return strings.HasPrefix(a, "(const:0 < ") && strings.Contains(a, "expectedTx") }
		notFound := whenCond(true, func(a string) bool { return strings.Contains(a, "errors.Is") && strings.Contains(a, "ErrKeyNotFound") })
		for _, vn := range []string{snapT + "GetWithFilters", snapT + "GetWithPrefixAndFilters"} {
			for i, v := range sites(check, callTo(vn)) {
				v := v
				next := func(x ssa.Instruction) bool {
					if x == v {
						return true
					}
					rt, ok := x.(*ssa.Return)
					return ok && retKind(rt) != "fail"
				}
				q := &pathQ{fn: check, from: []ssa.Instruction{v}, to: next, barrier: anyEdge(notFound, whenCond(true, cmpTx), whenCond(false, cmpTx))}
				w := q.bypass()
				c.check(w == nil, r, fmt.Sprintf("%s:found-answer-compared:%s#%d", fnName(check), lastSeg(vn), i), c.pos(v.Pos()), "a found answer always reaches the expectedTx == valRef.Tx() comparison",
					"validation can move on after a successful lookup without comparing it with the recorded tx (a key created under a prefix recorded as empty is not detected): "+c.witnessStr(w))
				var nf []cfgEdge
				for _, b := range check.Blocks {
					for si := range b.Succs {
						if notFound(b, si) && instrDominatesBlock(v, b) {
							nf = append(nf, cfgEdge{b, si})
						}
					}
				}
				if len(nf) == 0 {
					c.undecided(r, fmt.Sprintf("%s:notfound-answer-compared:%s#%d", fnName(check), lastSeg(vn), i), "no ErrKeyNotFound edge after the validation read")
					continue
				}
				q2 := &pathQ{fn: check, fromEdges: nf[:1], to: next, barrier: anyEdge(whenCond(true, cmpPos), whenCond(false, cmpPos))}
				w2 := q2.bypass()
				c.check(w2 == nil, r, fmt.Sprintf("%s:notfound-answer-compared:%s#%d", fnName(check), lastSeg(vn), i), c.pos(v.Pos()), "a not-found answer is compared with the recorded expectedTx",
					"a key that disappeared is not compared with the recorded version: "+c.witnessStr(w2))
			}
		}
		if n < 3 {
			c.undecided(r, fnName(check)+":expectedTx-comparisons", fmt.Sprintf("expected >=3 expectedTx comparisons, found %d", n))
		}
		// validation reads the live index, not a cached snapshot
		c.ruleOrder("C05.3/validation-on-live-index", check, "st.syncSnapshot", callTo(storeT+"syncSnapshot"), "snap.GetWithFilters", callTo(snapT+"GetWithFilters"), nil, 1)
		for _, in := range sites(check, callTo(snapT+"GetWithFilters", snapT+"GetWithPrefixAndFilters", snapT+"NewKeyReader")) {
			recv := callOf(in).Args[0]
			c.check(strings.Contains(desc(recv), "syncSnapshot"), "C05.3/validation-on-live-index", fnName(check)+":reads-through-syncSnapshot:"+lastSeg(calleeName(callOf(in))), c.pos(in.Pos()),
				"validation read goes through the sync snapshot", "validation reads through "+desc(recv)+" instead of the sync snapshot")
		}
	}

	// ---- C05.3 validation in the critical section on a current index -------------------------------------
	validationInCriticalSection(c, "C05.3/validation-in-critical-section")

	c05EverySnapshotValidated(c, "C05.3/every-snapshot-validated")
	// the "nothing was committed since this snapshot" shortcut of the validation compares Snapshot.Ts() with the precommit
	// frontier: it is sound only if that time describes the root the snapshot was built on (analysis shared with C10.9)
	c10SnapshotTime(c, "C05.3/snapshot-time-follows-its-root")
	// a scan made inside a read-write transaction returns what the same scan returns outside of it: the recording
	// wrapper and the plain store reader agree on what Reset restarts (analysis shared with C10.7)
	readerRestart(c, "C05.2/key-readers-restart-alike", "embedded/store.(*storeKeyReader).", "storeKeyReader", []string{"Read", "ReadBetween"}, false, 2)
	readerRestart(c, "C05.2/key-readers-restart-alike", "embedded/store.(*ongoingTxKeyReader).", "ongoingTxKeyReader", []string{"ReadBetween"}, false, 1)

	// ---- C05.4 snapshot floor -----------------------------------------------------------------------------
	r = "C05.4/mandatory-mvcc"
	if f := c.mustFn(r, otxT+"snap"); f != nil {
		for _, in := range sites(f, callTo(storeT+"SnapshotMustIncludeTxIDWithRenewalPeriod")) {
			arg := callOf(in).Args[3]
			dep := dependsOn(arg, func(v ssa.Value) bool {
				cl, ok := v.(*ssa.Call)
				return ok && calleeName(&cl.Call) == storeT+"MandatoryMVCCUpToTxID"
			})
			c.check(dep, r, fnName(f)+":snapshot-includes-mandatory-mvcc-tx", c.pos(in.Pos()), "snapshot floor takes MandatoryMVCCUpToTxID() into account", "transaction snapshots no longer include the mandatory-MVCC transaction")
			c05FloorIsMax(c, r, f, in, arg)
		}
	}
	if f := c.mustFn(r, storeT+"precommit"); f != nil {
		sts := sites(f, storeTo("ImmuStore.mandatoryMVCCUpToTxID"))
		c.check(len(sts) > 0, r, fnName(f)+":records-mandatory-mvcc", c.pos(f.Pos()), "catalog-changing txs raise mandatoryMVCCUpToTxID", "precommit no longer records requireMVCCOnFollowingTxs")
		for _, st := range sts {
			c.check(strings.Contains(desc(st.(*ssa.Store).Val), "header.ID"), r, fnName(f)+":mandatory-mvcc-value", c.pos(st.Pos()), "set to the new tx id", "mandatoryMVCCUpToTxID set to "+desc(st.(*ssa.Store).Val))
		}
	}
	if f := c.fn("embedded/sql.(*SQLTx).Commit"); f != nil {
		c.ruleOrder(r, f, "RequireMVCCOnFollowingTxs", callTo(otxT+"RequireMVCCOnFollowingTxs"), "tx.Commit", callTo(otxT+"Commit", otxT+"AsyncCommit"), nil, 1)
		for _, in := range sites(f, callTo(otxT+"RequireMVCCOnFollowingTxs")) {
			c.check(hasFieldSuffix(desc(callOf(in).Args[1]), "mutatedCatalog"), r, fnName(f)+":passes-mutatedCatalog", c.pos(in.Pos()), "RequireMVCCOnFollowingTxs(mutatedCatalog)", "SQL commit passes "+desc(callOf(in).Args[1]))
		}
	}
}

func (c *Ctx) namedType(pkg, name string) types.Type {
	p, ok := c.byPath[modPrefix+pkg]
	if !ok {
		return nil
	}
	o := p.Types.Scope().Lookup(name)
	if o == nil {
		c.undecided("anchor/type", pkg+"."+name, "type does not resolve")
		return nil
	}
	return o.Type()
}

// fieldsRead: every field of struct type t is loaded somewhere in fns (closures included).
func (c *Ctx) fieldsRead(rule string, t types.Type, fns []*ssa.Function, exempt map[string]string) {
	st, ok := t.Underlying().(*types.Struct)
	if !ok {
		return
	}
	tn := structName(t)
	read := map[string]bool{}
	for _, fn := range fns {
		allInstrs(fn, true, func(in ssa.Instruction) {
			switch x := in.(type) {
			case *ssa.FieldAddr:
				if structName(x.X.Type()) == tn {
					// must be loaded (not only stored)
					for _, r := range *x.Referrers() {
						if _, isStore := r.(*ssa.Store); !isStore {
							read[fieldName(x.X.Type(), x.Field)] = true
						} else if r.(*ssa.Store).Addr != x {
							read[fieldName(x.X.Type(), x.Field)] = true
						}
					}
				}
			case *ssa.Field:
				if structName(x.X.Type()) == tn {
					read[fieldName(x.X.Type(), x.Field)] = true
				}
			}
		})
	}
	for i := 0; i < st.NumFields(); i++ {
		f := st.Field(i).Name()
		key := tn + "." + f
		if reason, ok := exempt[key]; ok {
			c.okTrivial(rule, "validation-reads:"+key, "", "exempt: "+reason)
			continue
		}
		c.check(read[f], rule, "validation-reads:"+key, c.pos(fns[0].Pos()), "field is read during validation", "recorded field "+key+" is never read during validation: whatever it recorded is not re-checked at commit")
	}
}

// c05OwnWrites: OngoingTx.set records the latest EntrySpec under every mapped (index) key of the write, so that
// reads of the transaction resolve to its own latest write; the main key always ends up in entries/transientEntries.
// c05RecordedKeysAreCopies: what the read-set records is replayed at commit time, possibly long after the read;
// every key / prefix / bound kept in a record is a private copy (store.cp), never the caller's slice.
func c05RecordedKeysAreCopies(c *Ctx) {
	r := "C05.1/recorded-keys-are-copies"
	recs := map[string]bool{"expectedGet": true, "expectedGetWithPrefix": true, "expectedRead": true, "expectedPrefixFingerprint": true}
	isCp := func(v ssa.Value) bool {
		if cl, ok := v.(*ssa.Call); ok && calleeName(&cl.Call) == "embedded/store.cp" {
			return true
		}
		if k, ok := v.(*ssa.Const); ok && k.IsNil() {
			return true
		}
		return false
	}
	n := 0
	for _, fn := range c.allFns {
		if !fnInPkgs(fn, []string{"embedded/store"}) {
			continue
		}
		per := map[string]int{}
		allInstrs(fn, false, func(in ssa.Instruction) {
			st, ok := in.(*ssa.Store)
			if !ok {
				return
			}
			fa, ok := st.Addr.(*ssa.FieldAddr)
			if !ok {
				return
			}
			sn := structName(fa.X.Type())
			fname := fieldName(fa.X.Type(), fa.Field)
			if recs[sn] && isByteSlice(st.Val.Type()) {
				n++
				per[fname]++
				c.check(isCp(st.Val), r, fmt.Sprintf("%s:%s#%d", fnName(fn), fname, per[fname]), c.pos(st.Pos()), "stored value is cp(...)",
					"a read-set record keeps "+desc(st.Val)+" as is: if the caller reuses that buffer before commit, validation checks something else than what was read")
			}
			if sn == "expectedReader" && fname == "spec" {
				// the spec is stored as a whole: each of its byte-slice fields must have been replaced by a copy first
				n++
				ld, ok := st.Val.(*ssa.UnOp)
				var src ssa.Value
				if ok && ld.Op == token.MUL {
					src = ld.X
				}
				for _, want := range []string{"SeekKey", "EndKey", "Prefix"} {
					okc := false
					if src != nil {
						for _, ref := range *src.Referrers() {
							if sfa, ok := ref.(*ssa.FieldAddr); ok && fieldName(sfa.X.Type(), sfa.Field) == want {
								for _, r2 := range *sfa.Referrers() {
									if s2, ok := r2.(*ssa.Store); ok && s2.Addr == sfa && isCp(s2.Val) && instrDominates(s2, st) {
										okc = true
									}
								}
							}
						}
					}
					c.check(okc, r, fmt.Sprintf("%s:spec.%s", fnName(fn), want), c.pos(st.Pos()), "spec."+want+" is replaced by cp(...) before the spec is recorded",
						"the key reader spec is recorded with the caller's "+want+" slice")
				}
			}
		})
	}
	if n < 8 {
		c.undecided(r, "floor", fmt.Sprintf("%d key fields of read-set records found (10 confirmed by hand)", n))
	}
}

func isByteSlice(t types.Type) bool {
	sl, ok := t.Underlying().(*types.Slice)
	if !ok {
		return false
	}
	b, ok := sl.Elem().Underlying().(*types.Basic)
	return ok && b.Kind() == types.Byte
}

// c05SpecCopies: a reader spec that is rebuilt field by field from another spec (the scan itself, and its replay at
// commit time) copies every field from the field of the same name: the replay must walk exactly the range that
// was observed.
func c05SpecCopies(c *Ctx) {
	r := "C05.2/replayed-spec-is-the-recorded-spec"
	n := 0
	// the structs that carry a scan range from the read to its replay: the caller's spec, the recorded expectation,
	// the spec handed to the index and the index reader itself
	specLike := map[string]bool{"KeyReaderSpec": true, "expectedPrefixFingerprint": true, "ReaderSpec": true, "Reader": true}
	for _, fn := range c.allFns {
		if !fnInPkgs(fn, []string{"embedded/store", "embedded/tbtree"}) || len(fn.Blocks) == 0 {
			continue
		}
		per := 0
		allInstrs(fn, false, func(in ssa.Instruction) {
			st, ok := in.(*ssa.Store)
			if !ok {
				return
			}
			fa, ok := st.Addr.(*ssa.FieldAddr)
			if !ok || !specLike[structName(fa.X.Type())] {
				return
			}
			if _, isAlloc := fa.X.(*ssa.Alloc); !isAlloc {
				return
			}
			v := st.Val
			// the recorded copy of a key goes through cp()
			if call, ok := v.(*ssa.Call); ok && len(call.Call.Args) == 1 && strings.HasSuffix(calleeName(&call.Call), "embedded/store.cp") {
				v = call.Call.Args[0]
			}
			ld, ok := v.(*ssa.UnOp)
			if !ok || ld.Op != token.MUL {
				return
			}
			sfa, ok := ld.X.(*ssa.FieldAddr)
			if !ok || !specLike[structName(sfa.X.Type())] || sfa.X == fa.X {
				return
			}
			n++
			per++
			dst, src := fieldName(fa.X.Type(), fa.Field), fieldName(sfa.X.Type(), sfa.Field)
			c.check(strings.EqualFold(dst, src), r, fmt.Sprintf("%s:%s#%d", fnName(fn), dst, per), c.pos(st.Pos()), dst+" copied from "+src, "field "+dst+" of the rebuilt reader spec is taken from field "+src+" of the recorded one: the range replayed at commit is not the range that was read")
		})
	}
	if n < 25 {
		c.undecided(r, "floor", fmt.Sprintf("%d field-by-field copies of a reader spec found (12 KeyReaderSpec copies confirmed by hand, plus the prefix-fingerprint record and the tbtree reader)", n))
	}
}

// c05FingerprintCoversTx: the prefix fingerprint is a hash over (key length, key, tx id) of every entry under the
// prefix; a version overwritten by another transaction changes only the tx id, so all eight bytes written by
// PutUint64 (and all four of PutUint32) must go into the hash.
func c05FingerprintCoversTx(c *Ctx) {
	r := "C05.2/fingerprint-covers-what-was-encoded"
	f := c.mustFn(r, "embedded/store.prefixFingerprint")
	if f == nil {
		return
	}
	n := 0
	for _, b := range f.Blocks {
		pending := int64(0) // width of the last PutUintN into the scratch buffer not yet hashed
		var putPos ssa.Instruction
		for _, in := range b.Instrs {
			call, ok := in.(*ssa.Call)
			if !ok {
				continue
			}
			cn := calleeName(&call.Call)
			switch {
			case strings.HasSuffix(cn, "ndian).PutUint32"):
				pending, putPos = 4, in
			case strings.HasSuffix(cn, "ndian).PutUint64"):
				pending, putPos = 8, in
			case call.Call.IsInvoke() && call.Call.Method.Name() == "Write" && pending > 0:
				arg := call.Call.Args[0]
				w := int64(-1)
				if sl, ok := arg.(*ssa.Slice); ok {
					lo, hi := int64(0), int64(-1)
					if sl.Low != nil {
						lo, _ = constInt64(sl.Low)
					}
					if sl.High != nil {
						hi, _ = constInt64(sl.High)
					} else if pt, ok := sl.X.Type().Underlying().(*types.Pointer); ok {
						if at, ok := pt.Elem().Underlying().(*types.Array); ok {
							hi = at.Len()
						}
					}
					if hi >= 0 {
						w = hi - lo
					}
				}
				n++
				c.check(w == pending, r, fmt.Sprintf("%s:hashed-width#%d", fnName(f), n), c.pos(in.Pos()), fmt.Sprintf("%d bytes encoded, %d hashed", pending, w),
					fmt.Sprintf("%d bytes were encoded at %s but %d go into the fingerprint: part of the value (the low bytes of the tx id) does not influence it", pending, c.pos(putPos.Pos()), w))
				pending = 0
			}
		}
	}
	if n < 2 {
		c.undecided(r, "floor", fmt.Sprintf("%d encode-then-hash pairs found in prefixFingerprint (2 confirmed by hand)", n))
	}
	// the tx id of every entry goes into it
	okTx := false
	allInstrs(f, false, func(in ssa.Instruction) {
		if call, ok := in.(*ssa.Call); ok && strings.HasSuffix(calleeName(&call.Call), "ndian).PutUint64") {
			if strings.Contains(desc(call.Call.Args[len(call.Call.Args)-1]), "ValueRef).Tx") {
				okTx = true
			}
		}
	})
	c.check(okTx, r, fnName(f)+":tx-id-encoded", c.pos(f.Pos()), "the entry's tx id is encoded", "the fingerprint no longer includes the tx id of the entries: overwrites under the prefix do not change it")
}

func c05OwnWrites(c *Ctx, r string) {
	f := c.mustFn(r, otxT+"set")
	if f == nil {
		return
	}
	var spec ssa.Value
	allInstrs(f, false, func(in ssa.Instruction) {
		if a, ok := in.(*ssa.Alloc); ok && short(a.Type().String()) == "*embedded/store.EntrySpec" {
			spec = a
		}
	})
	if spec == nil {
		c.undecided(r, fnName(f)+":EntrySpec", "the EntrySpec built by set() was not found")
		return
	}
	recMapped := func(in ssa.Instruction) bool {
		mu, ok := in.(*ssa.MapUpdate)
		return ok && hasFieldSuffix(desc(mu.Map), "transientEntries") && mu.Value == spec
	}
	maps := sites(f, callTo("embedded/store.mapKey"))
	if len(maps) < 2 {
		c.undecided(r, fnName(f)+":mapKey", "expected the source and target mapKey calls")
		return
	}
	same := whenCond(true, func(a string) bool { return strings.HasPrefix(a, "call:bytes.Equal(param:key,") })
	q := &pathQ{fn: f, from: maps[len(maps)-1:], to: successReturn, via: recMapped, barrier: anyEdge(same, errEdgeOf(maps[len(maps)-1]))}
	if w := q.bypass(); w != nil {
		c.fail(r, fnName(f)+":mapped-key-records-latest-write", c.pos(w[len(w)-1].Pos()), "a write can complete without recording its EntrySpec under the mapped (index) key: later reads of the same transaction resolve to an older write: "+c.witnessStr(w))
	} else {
		c.ok(r, fnName(f)+":mapped-key-records-latest-write", c.pos(f.Pos()), "every path from the key mapping to a return records the EntrySpec under the mapped key unless it equals the key")
	}
	// the main key: stored in entries[...] or transientEntries[...] on every successful path
	recMain := func(in ssa.Instruction) bool {
		if recMapped(in) {
			return true
		}
		if st, ok := in.(*ssa.Store); ok && st.Val == spec {
			if ia, ok := st.Addr.(*ssa.IndexAddr); ok {
				if fl, _ := fieldOf(ia.X); fl == "OngoingTx.entries" {
					return true
				}
			}
		}
		if st, ok := in.(*ssa.Store); ok {
			if fl, _ := fieldOf(st.Addr); fl == "OngoingTx.entries" {
				return true
			}
		}
		return false
	}
	c.ruleMustPass(r, f, nil, "entries/transientEntries[key]=e", recMain, nil, false)
}

// validationInCriticalSection: read-set and precondition validation runs under the store mutex, after an indexing
// wait for the precommit frontier read inside that critical section, and is not bypassed. Shared by C05 (MVCC
// read-set) and C06 (KV preconditions): both are evaluated by checkPreconditions.
func validationInCriticalSection(c *Ctx, r string) {
	for _, name := range []string{"precommit", "preCommitWith"} {
		f := c.mustFn(r, storeT+name)
		if f == nil {
			continue
		}
		chk := callTo(otxT + "checkPreconditions")
		c.ruleHeldAt(r, f, "checkPreconditions", chk, "ImmuStore.mutex", true, nil)
		c.ruleHeldAt(r, f, "performPrecommit", callTo(storeT+"performPrecommit"), "ImmuStore.mutex", true, nil)
		c.ruleOrder(r, f, "WaitForIndexingUpto", callTo(storeT+"WaitForIndexingUpto"), "checkPreconditions", chk, nil, 1)
		c.ruleErrChecked(r, f, "checkPreconditions", chk, 1)
		c.ruleErrChecked(r, f, "WaitForIndexingUpto", callTo(storeT+"WaitForIndexingUpto"), 1)
		// from the lock to performPrecommit, validation is passed unless there is nothing to validate
		locks := sites(f, func(in ssa.Instruction) bool {
			k, op, ok := lockEvent(in)
			_, isDefer := in.(*ssa.Defer)
			return ok && !isDefer && op.acquire && k == "ImmuStore.mutex"
		})
		if len(locks) == 0 {
			c.undecided(r, fnName(f)+":lock", "s.mutex.Lock() not found")
			continue
		}
		noPre := whenCond(false, atomIsCall(otxT+"hasPreconditions"))
		q := &pathQ{fn: f, from: locks, to: callTo(storeT + "performPrecommit"), via: chk, barrier: noPre}
		if w := q.bypass(); w != nil {
			c.fail(r, fnName(f)+":validation-before-precommit", c.pos(w[len(w)-1].Pos()), "performPrecommit is reachable from the lock without checkPreconditions although the tx has preconditions: "+c.witnessStr(w))
		} else {
			c.ok(r, fnName(f)+":validation-before-precommit", c.pos(f.Pos()), "every path lock -> performPrecommit passes checkPreconditions unless hasPreconditions() is false")
		}
		// the index is awaited up to the precommit frontier read inside the critical section
		for i, in := range sites(f, callTo(storeT+"WaitForIndexingUpto")) {
			if !instrDominates(locks[0], in) {
				continue // the post-commit wait of commit paths
			}
			arg := callOf(in).Args[2]
			dep := dependsOn(arg, func(v ssa.Value) bool {
				cl, ok := v.(*ssa.Call)
				return ok && (calleeName(&cl.Call) == storeT+"precommittedAlh" || calleeName(&cl.Call) == storeT+"LastPrecommittedTxID") && instrDominates(locks[0], cl)
			})
			c.check(dep, r, fmt.Sprintf("%s:wait-target-is-precommit-frontier#%d", fnName(f), i), c.pos(in.Pos()),
				"waits for indexing up to the precommitted frontier read after the lock", "validation waits for indexing up to "+desc(arg)+", not the precommit frontier read inside the critical section")
			// ... and to nothing lower: every value the target can take is the frontier itself (or, in unsafe-MVCC
			// mode, the mandatory-MVCC floor); a target lowered by a min() with another quantity validates on a stale index
			var bad []string
			seen := map[ssa.Value]bool{}
			var leaves func(v ssa.Value)
			leaves = func(v ssa.Value) {
				if seen[v] {
					return
				}
				seen[v] = true
				switch x := v.(type) {
				case *ssa.Phi:
					for _, e := range x.Edges {
						leaves(e)
					}
					return
				case *ssa.Extract:
					if cl, ok := x.Tuple.(*ssa.Call); ok && calleeName(&cl.Call) == storeT+"precommittedAlh" && x.Index == 0 {
						return
					}
				case *ssa.Call:
					if calleeName(&x.Call) == storeT+"LastPrecommittedTxID" {
						return
					}
				case *ssa.UnOp:
					if fl, _ := fieldOf(x.X); x.Op == token.MUL && fl == "ImmuStore.mandatoryMVCCUpToTxID" {
						return
					}
				}
				bad = append(bad, desc(v))
			}
			leaves(arg)
			c.check(len(bad) == 0, r, fmt.Sprintf("%s:wait-target-not-lowered#%d", fnName(f), i), c.pos(in.Pos()),
				"every value of the wait target is the precommit frontier (or the mandatory-MVCC floor in unsafe mode)", "the indexing wait before validation can be for "+strings.Join(bad, ", ")+": transactions precommitted before this one may be missing from the index the reads are validated against")
		}
	}
}

// c05EverySnapshotValidated: a transaction holds one snapshot per index it touched and its read-set is validated
// snapshot by snapshot. Nothing inside the loop over tx.snapshots may end validation with success: whatever is
// concluded about one snapshot (e.g. "nothing was committed since it was taken") says nothing about the reads made
// through the others, which may have been taken from an index that was lagging.
func c05EverySnapshotValidated(c *Ctx, r string) {
	f := c.mustFn(r, otxT+"checkPreconditions")
	if f == nil {
		return
	}
	n := 0
	for _, b := range f.Blocks {
		if len(b.Instrs) == 0 || len(b.Succs) != 2 {
			continue
		}
		ifi, ok := b.Instrs[len(b.Instrs)-1].(*ssa.If)
		if !ok {
			continue
		}
		bo, ok := ifi.Cond.(*ssa.BinOp)
		if !ok || bo.Op != token.LSS {
			continue
		}
		d := desc(bo.Y)
		if !strings.HasPrefix(d, "len(") || !strings.Contains(d, "snapshots") {
			continue
		}
		n++
		q := &pathQ{fn: f, fromEdges: []cfgEdge{{b, 0}}, to: successReturn, via: func(in ssa.Instruction) bool { return in == ssa.Instruction(ifi) }}
		if w := q.bypass(); w != nil {
			c.fail(r, fmt.Sprintf("%s:snapshots-loop#%d", fnName(f), n), c.pos(w[len(w)-1].Pos()), "validation ends with success from inside the loop over the transaction's snapshots, the remaining snapshots are not validated: "+c.witnessStr(w))
		} else {
			c.ok(r, fmt.Sprintf("%s:snapshots-loop#%d", fnName(f), n), c.pos(ifi.Pos()), "success is reported only after the loop over tx.snapshots has run out")
		}
	}
	if n != 1 {
		c.undecided(r, fnName(f)+":loop", fmt.Sprintf("%d loops over tx.snapshots recognised, expected 1", n))
	}
}

// c05FloorIsMax: the snapshot floor handed to the index is max(requested, mandatory): the only way the requested value
// is passed on is the false edge of the comparison `mandatory > requested`. Any other way around the mandatory floor
// (a transaction mode, an option) lets a transaction read data older than a catalog change it already sees.
func c05FloorIsMax(c *Ctx, r string, f *ssa.Function, call ssa.Instruction, arg ssa.Value) {
	construct := fnName(f) + ":floor-is-max-of-requested-and-mandatory"
	ph, ok := arg.(*ssa.Phi)
	if !ok {
		c.undecided(r, construct, "the snapshot floor is not a choice between two values ("+desc(arg)+")")
		return
	}
	isMand := func(v ssa.Value) bool {
		cl, ok := v.(*ssa.Call)
		return ok && calleeName(&cl.Call) == storeT+"MandatoryMVCCUpToTxID"
	}
	var bad []string
	nm := 0
	for i, e := range ph.Edges {
		if isMand(e) {
			nm++
			continue
		}
		p := ph.Block().Preds[i]
		okEdge := false
		if len(p.Instrs) > 0 {
			if ifi, isIf := p.Instrs[len(p.Instrs)-1].(*ssa.If); isIf {
				if bo, isBo := ifi.Cond.(*ssa.BinOp); isBo {
					var mandGreaterOnTrue, recognised bool
					switch {
					case isMand(bo.X) && bo.Y == e && (bo.Op == token.GTR || bo.Op == token.GEQ):
						mandGreaterOnTrue, recognised = true, true
					case isMand(bo.Y) && bo.X == e && (bo.Op == token.LSS || bo.Op == token.LEQ):
						mandGreaterOnTrue, recognised = true, true
					case isMand(bo.X) && bo.Y == e && (bo.Op == token.LSS || bo.Op == token.LEQ):
						mandGreaterOnTrue, recognised = false, true
					case isMand(bo.Y) && bo.X == e && (bo.Op == token.GTR || bo.Op == token.GEQ):
						mandGreaterOnTrue, recognised = false, true
					}
					if recognised {
						keep := 1 // the successor taken when mandatory is NOT greater
						if !mandGreaterOnTrue {
							keep = 0
						}
						okEdge = p.Succs[keep] == ph.Block()
					}
				}
			}
		}
		if !okEdge {
			bad = append(bad, "block "+p.String()+" ending with "+p.Instrs[len(p.Instrs)-1].String())
		}
	}
	if nm == 0 {
		bad = append(bad, "the mandatory floor is never selected")
	}
	c.check(len(bad) == 0, r, construct, c.pos(call.Pos()), "the requested floor is kept only on the edge where the mandatory one is not greater",
		"the requested snapshot floor is passed on without having been compared with the mandatory-MVCC floor (from "+strings.Join(bad, ", ")+"): such a transaction reads data older than the last catalog change")
}

// c05OwnWritesBeforeFilters: a transaction reads its own pending writes through the "interceptor" of its snapshots,
// which replaces the value found in the index by the value the transaction is about to write. Filters (ignore deleted,
// ignore expired) decide about what the reader is GIVEN: applied to the indexed value before the substitution, a key
// the transaction deleted is still found by it, and a key it re-created over a deleted one is not.
// Sibling agreement: the key readers substitute first and filter afterwards.
func c05OwnWritesBeforeFilters(c *Ctx, r string) {
	n := 0
	isInterceptorCall := func(v ssa.Value) bool {
		cl, ok := v.(*ssa.Call)
		if !ok || cl.Call.IsInvoke() || cl.Call.StaticCallee() != nil {
			return false
		}
		return hasFieldSuffix(desc(cl.Call.Value), "refInterceptor")
	}
	for _, f := range c.allFns {
		if !fnInPkgs(f, []string{"embedded/store"}) || len(f.Blocks) == 0 {
			continue
		}
		k := 0
		allInstrs(f, false, func(in ssa.Instruction) {
			cl, ok := in.(*ssa.Call)
			if !ok || cl.Call.IsInvoke() || cl.Call.StaticCallee() != nil {
				return
			}
			if nt, ok := cl.Call.Value.Type().(*types.Named); !ok || nt.Obj().Name() != "FilterFn" {
				return
			}
			if len(cl.Call.Args) == 0 {
				return
			}
			// does this function substitute own writes at all?
			has := false
			allInstrs(f, false, func(x ssa.Instruction) {
				if v, ok := x.(ssa.Value); ok && isInterceptorCall(v) {
					has = true
				}
			})
			if !has {
				return
			}
			k++
			n++
			// no substitution AFTER the filter was applied to the same entry (a new entry starts with valueRefFrom)
			q := &pathQ{fn: f, from: []ssa.Instruction{in}, to: func(x ssa.Instruction) bool {
				v, ok := x.(ssa.Value)
				return ok && isInterceptorCall(v)
			}, via: callTo(storeT + "valueRefFrom")}
			c.check(q.bypass() == nil, r, fmt.Sprintf("%s:filter#%d", fnName(f), k), c.pos(in.Pos()), "the transaction's own write is substituted before the filter is applied, not after",
				"filters are applied to the value found in the index, the transaction's own pending write is substituted afterwards: a key the transaction deleted is still found by it, a key it wrote over a deleted one is not")
		})
	}
	if n < 4 {
		c.undecided(r, "floor", fmt.Sprintf("%d filter applications next to an interceptor found (5 confirmed by hand)", n))
	}
}
