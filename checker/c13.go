package main

import (
	"go/constant"
	"fmt"
	"go/token"
	"go/types"
	"strings"

	"golang.org/x/tools/go/ssa"
)

// catalog loaders double as the catalog copier used by value-log truncation (C14.4): under copyToTx they
// re-write catalog entries into a dedicated store transaction, not into a SQL transaction
var c13CatalogCopy = map[string]string{
	"embedded/sql.(*Catalog).loadCatalog": "catalog copy (copyToTx)", "embedded/sql.(*Table).loadIndexes": "catalog copy (copyToTx)",
	"embedded/sql.loadCheckConstraints": "catalog copy (copyToTx)", "embedded/sql.loadColSpecs": "catalog copy (copyToTx)",
}

func c13(c *Ctx) {
	// BEGIN reuses the implicit transaction it is executed in only if that transaction has done nothing yet: whatever was
	// executed before BEGIN (rows written OR catalog changes) is not part of the transaction being opened and must not be
	// undone by its ROLLBACK. RequireExplicitClose succeeds only past a test of every "something was done" indicator.
	if f := c.mustFn("C13.1/begin-reuses-only-an-untouched-tx", sqlTxT+"RequireExplicitClose"); f != nil {
		r := "C13.1/begin-reuses-only-an-untouched-tx"
		for _, ind := range []string{"updatedRows", "mutatedCatalog"} {
			ind := ind
			tested := func(in ssa.Instruction) bool {
				x, ok := in.(*ssa.If)
				if !ok {
					return false
				}
				for _, leaf := range boolLeaves(x.Cond) {
					if strings.Contains(desc(leaf), "."+ind) {
						return true
					}
				}
				return false
			}
			q := &pathQ{fn: f, fromEntry: true, to: successReturn, via: tested}
			c.check(q.bypass() == nil, r, fnName(f)+":tests:"+ind, c.pos(f.Pos()), "success only past a test of "+ind,
				"BEGIN turns the current implicit transaction into the explicit one without looking at "+ind+": statements executed before BEGIN become part of the transaction and are undone by its ROLLBACK")
		}
	}
	c13EngineStateAtCommit(c, "C13.8/statements-write-no-engine-wide-state")
	// a transaction takes its catalog at NewTx and its data snapshots lazily: what keeps the two consistent is the
	// mandatory-MVCC floor (the last catalog-changing tx), applied to EVERY snapshot a transaction takes, read-only or
	// not (analysis shared with C05.4)
	if f := c.mustFn("C13.7/data-snapshot-not-older-than-catalog", otxT+"snap"); f != nil {
		ns := 0
		for _, in := range sites(f, callTo(storeT+"SnapshotMustIncludeTxIDWithRenewalPeriod")) {
			ns++
			c05FloorIsMax(c, "C13.7/data-snapshot-not-older-than-catalog", f, in, callOf(in).Args[3])
		}
		if ns == 0 {
			c.undecided("C13.7/data-snapshot-not-older-than-catalog", "floor", "OngoingTx.snap no longer takes its snapshot through SnapshotMustIncludeTxIDWithRenewalPeriod")
		}
	}
	// ---- C13.1 one commit; cancel on failure / rollback / session end ---------------------------------------------
	r := "C13.1/one-commit"
	n := 0
	for _, in := range c.callSites(callTo(otxT+"Commit", otxT+"AsyncCommit")) {
		if !fnInPkgs(in.Parent(), []string{"embedded/sql"}) {
			continue
		}
		n++
		owner := fnName(topFn(in.Parent()))
		c.check(owner == sqlTxT+"Commit", r, "store-commit:in:"+owner, c.pos(in.Pos()), "the store transaction is committed by SQLTx.Commit only", "the store transaction of a SQL transaction is committed from "+owner)
	}
	if n == 0 {
		c.undecided(r, "store-commit:floor", "no commit of the store transaction found in embedded/sql")
	}
	if f := c.mustFn(r, sqlTxT+"Commit"); f != nil {
		// exactly one commit call on the path, and its error leaves
		cs := sites(f, callTo(otxT+"Commit", otxT+"AsyncCommit"))
		c.check(len(cs) == 1, r, fnName(f)+":single-commit-site", c.pos(f.Pos()), "one commit site", fmt.Sprintf("SQLTx.Commit has %d commit sites", len(cs)))
		c.ruleMustPass(r, f, nil, "tx.(Async)Commit", callTo(otxT+"Commit", otxT+"AsyncCommit"), nil, false)
	}
	if f := c.mustFn(r, sqlTxT+"Cancel"); f != nil {
		c.ruleMustPass(r, f, nil, "tx.Cancel", callTo(otxT+"Cancel"), nil, false)
	}
	if f := c.mustFn(r, "embedded/sql.(*RollbackStmt).execAt"); f != nil {
		c.ruleMustPass(r, f, nil, "tx.Cancel", callTo(sqlTxT+"Cancel"), nil, false)
	}
	if f := c.mustFn(r, otxT+"Cancel"); f != nil {
		// cancelling closes the snapshots and marks the tx closed so nothing can be committed later
		c.ruleMustPass(r, f, nil, "closed=true", storeTo("OngoingTx.closed"), whenCond(true, func(a string) bool { return hasFieldSuffix(a, "closed") }), false)
	}
	if f := c.mustFn(r, otxT+"commit"); f != nil {
		// a closed (cancelled or already committed) tx is refused before anything else
		q := &pathQ{fn: f, fromEntry: true, to: callTo(storeT + "commit"), barrier: whenCond(false, func(a string) bool { return hasFieldSuffix(a, "closed") })}
		c.check(q.bypass() == nil, r, fnName(f)+":closed-tx-refused", c.pos(f.Pos()), "store commit is dominated by closed==false", "a cancelled or already committed transaction can be committed")
		c.ruleOrder(r, f, "closed=true", storeTo("OngoingTx.closed"), "st.commit", callTo(storeT+"commit"), nil, 1)
	}
	c13DeletionMarksEveryIndex(c, "C13.14/in-transaction-deletion-marks-every-index")
	c13IndexKeySlots(c, "C13.13/index-key-parts-are-filled-in-place")
	c13OnlyCommittedReported(c, "C13.12/only-committed-transactions-are-reported")
	c13PgDescribeDoesNotExecute(c, "C13.11/pgsql-describe-does-not-execute")
	c12QueryFailureAborts(c, "C13.1/query-path-failure-aborts")
	c13PgAbortedBlock(c, "C13.10/pgsql-failed-block-runs-nothing-on-its-own")
	c13DmlFailureIsReported(c, "C13.9/failed-dml-is-reported")
	// execPreparedStmts: failure cancels (shared with C12.4), explicit-close transactions are not auto-committed
	if f := c.mustFn(r, "embedded/sql.(*Engine).execPreparedStmts"); f != nil {
		commits := sites(f, callTo(sqlTxT+"Commit"))
		c.check(len(commits) >= 1, r, fnName(f)+":commit-sites", c.pos(f.Pos()), fmt.Sprintf("%d commit sites", len(commits)), "execPreparedStmts no longer commits")
		// an explicit BEGIN ... block is committed by its COMMIT statement only: every commit the statement loop performs
		// on its own is on the IsExplicitCloseRequired()==false edge (implicit / auto-commit transactions)
		implicit := whenCond(false, atomIsCall(sqlTxT+"IsExplicitCloseRequired"))
		for i, cm := range commits {
			cm := cm
			q := &pathQ{fn: f, fromEntry: true, to: func(x ssa.Instruction) bool { return x == cm }, barrier: implicit}
			w := q.bypass()
			c.check(w == nil, r, fmt.Sprintf("%s:commit#%d:only-implicit-transactions", fnName(f), i), c.pos(cm.Pos()), "dominated by IsExplicitCloseRequired()==false",
				"the statement loop can commit a transaction that was opened with BEGIN and not yet closed by COMMIT (what was executed so far becomes durable although the block fails or is rolled back): "+c.witnessStr(w))
		}
		for i, cm := range commits {
			okk, d := errHandled(cm)
			c.check(okk, r, fmt.Sprintf("%s:commit#%d:error-propagated", fnName(f), i), c.pos(cm.Pos()), d, "a failed COMMIT is reported as success: "+d)
		}
	}
	// a failed COMMIT is reported to whoever asked for it: the error of every SQLTx.Commit call is consumed
	// (returned, tested with the non-nil edge leaving with an error, or recorded) wherever the call is made
	r6 := "C13.6/commit-outcome-reported"
	nc := 0
	for _, in := range c.callSites(callTo(sqlTxT + "Commit")) {
		if _, isCall := in.(*ssa.Call); !isCall {
			// `defer tx.Commit()` / `go tx.Commit()` cannot report anything
			c.fail(r6, "commit:in:"+fnName(in.Parent())+":deferred", c.pos(in.Pos()), "the outcome of a deferred COMMIT cannot be reported")
			continue
		}
		nc++
		okk, d := errHandled(in)
		c.check(okk, r6, fmt.Sprintf("commit:in:%s#%d", fnName(in.Parent()), idxAmong(in, callTo(sqlTxT+"Commit"))), c.pos(in.Pos()), d,
			"the result of COMMIT is dropped: a failed commit (read conflict, constraint) is indistinguishable from success: "+d)
	}
	if nc < 3 {
		c.undecided(r6, "floor", fmt.Sprintf("only %d SQLTx.Commit call sites found", nc))
	}
	// session layer
	if f := c.fn("pkg/server/sessions/internal/transactions.(*transaction).Rollback"); f != nil {
		c.ruleMustPass(r, f, nil, "sqlTx.Cancel", callTo(sqlTxT+"Cancel"), nil, false)
	} else {
		c.undecided(r, "transactions.Rollback", "session transaction Rollback does not resolve")
	}
	if f := c.fn("pkg/server/sessions.(*Session).RollbackTransactions"); f != nil {
		c.check(len(sites(f, callTo("(pkg/server/sessions/internal/transactions.Transaction).Rollback"))) > 0, r, fnName(f)+":rolls-back-each", c.pos(f.Pos()), "every open transaction is rolled back", "RollbackTransactions no longer rolls transactions back")
	}
	// whoever drops a session rolls its transactions back
	nd := 0
	for _, fn := range c.allFns {
		if !fnInPkgs(fn, []string{"pkg/server/sessions"}) || len(fn.Blocks) == 0 {
			continue
		}
		dels := sites(fn, func(in ssa.Instruction) bool {
			cl, ok := in.(*ssa.Call)
			if !ok {
				return false
			}
			b, ok := cl.Call.Value.(*ssa.Builtin)
			return ok && b.Name() == "delete" && strings.HasSuffix(desc(cl.Call.Args[0]), ".sessions")
		})
		if len(dels) == 0 {
			continue
		}
		nd++
		reach := staticReach(fn, 2, nil)
		okR := false
		for g := range reach {
			if fnName(g) == "pkg/server/sessions.(*Session).RollbackTransactions" {
				okR = true
			}
		}
		c.check(okR, r, fnName(fn)+":dropped-session-is-rolled-back", c.pos(fn.Pos()), "the function that removes sessions reaches RollbackTransactions", fnName(fn)+" removes sessions without rolling their transactions back")
	}
	if f := c.fn("pkg/server/sessions.(*manager).DeleteSession"); f != nil {
		c.ruleMustPass(r, f, nil, "releaseSession", callTo("pkg/server/sessions.releaseSession"), nil, false)
	}
	if f := c.fn("pkg/server/sessions.releaseSession"); f != nil {
		c.ruleMustPass(r, f, nil, "RollbackTransactions", callTo("pkg/server/sessions.(*Session).RollbackTransactions"), nil, false)
	}
	if nd < 3 {
		c.undecided(r, "session-removal:floor", fmt.Sprintf("expected >=3 functions removing sessions, found %d", nd))
	}

	// ---- C13.2 writes go only through the SQL tx wrappers ------------------------------------------------------------
	r = "C13.2/writes-through-tx"
	for _, w := range []struct{ callee, wrapper string }{{otxT + "Set", sqlTxT + "set"}, {otxT + "SetTransient", sqlTxT + "setTransient"}, {otxT + "Delete", sqlTxT + "delete"}} {
		for _, in := range c.callSites(callTo(w.callee)) {
			if !fnInPkgs(in.Parent(), []string{"embedded/sql", "embedded/document"}) {
				continue
			}
			owner := fnName(topFn(in.Parent()))
			if reason, ok := c13CatalogCopy[owner]; ok && w.callee == otxT+"Set" {
				fn := in.Parent()
				q := &pathQ{fn: fn, fromEntry: true, to: func(x ssa.Instruction) bool { return x == in }, barrier: whenCond(true, func(a string) bool { return a == "param:copyToTx" || a == "free:copyToTx" || a == "*free:copyToTx" })}
				c.check(q.bypass() == nil, r, "Set:in:"+owner+":only-when-copying-catalog", c.pos(in.Pos()), reason, "catalog loader writes to the store transaction outside the copyToTx branch")
				continue
			}
			if owner == "embedded/sql.(*Engine).CopyCatalogToTx" && w.callee == otxT+"Set" {
				// the catalog copy entry point: it is handed the store transaction the copy is committed in (no SQLTx exists),
				// and re-commits views and sequences the same way the loaders re-commit tables, columns, indexes and checks
				c.okTrivial(r, "Set:in:"+owner, c.pos(in.Pos()), "catalog copy made before value-log truncation (fix C14.6)")
				continue
			}
			c.check(owner == w.wrapper, r, lastSeg(w.callee)+":in:"+owner, c.pos(in.Pos()), "store write issued by the SQLTx wrapper", "SQL code writes to the store transaction outside the SQLTx wrappers, in "+owner)
		}
	}
	// the SQL layer never opens a second store transaction for a statement of an ongoing SQL tx
	for _, in := range c.callSites(callTo(storeT+"NewTx", storeT+"NewWriteOnlyTx")) {
		if !fnInPkgs(in.Parent(), []string{"embedded/sql"}) {
			continue
		}
		owner := fnName(topFn(in.Parent()))
		c.check(owner == "embedded/sql.(*Engine).NewTx", r, "store.NewTx:in:"+owner, c.pos(in.Pos()), "store transactions are opened by Engine.NewTx only", "a store transaction is opened in "+owner)
	}

	// ---- C13.4 committed DDL is visible to every later transaction: catalog cache coherence ---------------------------
	c13CatalogCache(c, "C13.4/catalog-cache-coherence")
	c13CloneIsDeep(c, "C13.4/catalog-clone-is-deep")
	// ---- C13.5 a transaction sees its own latest write of every (mapped) key ------------------------------------------------
	c05OwnWrites(c, "C13.5/own-writes")

	// ---- C13.3 ROLLBACK TO SAVEPOINT must undo the writes ---------------------------------------------------------------
	r = "C13.3/savepoint-effect"
	if f := c.mustFn(r, sqlTxT+"RollbackToSavepoint"); f != nil {
		reach := staticReach(f, 4, nil)
		undo := false
		for g := range reach {
			allInstrs(g, false, func(in ssa.Instruction) {
				if st, ok := in.(*ssa.Store); ok {
					fl, _ := fieldOf(st.Addr)
					switch fl {
					case "OngoingTx.entries", "OngoingTx.entriesByKey", "OngoingTx.transientEntries", "SQLTx.tx":
						undo = true
					}
				}
				if cl, ok := in.(*ssa.Call); ok {
					if b, ok := cl.Call.Value.(*ssa.Builtin); ok && b.Name() == "delete" && (strings.HasSuffix(desc(cl.Call.Args[0]), ".entriesByKey") || strings.HasSuffix(desc(cl.Call.Args[0]), ".transientEntries")) {
						undo = true
					}
				}
			})
		}
		c.check(undo, r, fnName(f)+":reaches-store-write-set", c.pos(f.Pos()), "rolling back to a savepoint rewinds the store transaction's write-set",
			"RollbackToSavepoint restores only SQL-level counters: the entries written after the savepoint stay in the store transaction and are committed")
	}
	if t := c.namedType("embedded/sql", "savepointState"); t != nil {
		_ = t
	}
}

// c13CatalogCache: a committed DDL always bumps the catalog version and clears the cached catalog; a catalog is
// published into the cache only if the version did not change since the publishing tx opened.
func c13CatalogCache(c *Ctx, r string) {
	if f := c.mustFn(r, "embedded/sql.(*Engine).invalidateCatalogCache"); f != nil {
		bump := callTo("sync/atomic.(*Uint64).Add@cachedCatalogVersion")
		c.ruleMustPass(r, f, nil, "cachedCatalogVersion.Add(1)", bump, nil, false)
		c.ruleMustPass(r, f, nil, "cachedCatalog=nil", storeTo("Engine.cachedCatalog"), nil, false)
		for _, st := range sites(f, storeTo("Engine.cachedCatalog")) {
			c.check(desc(st.(*ssa.Store).Val) == "nil", r, fnName(f)+":clears-cache", c.pos(st.Pos()), "cache cleared", "invalidateCatalogCache stores "+desc(st.(*ssa.Store).Val))
		}
	}
	if f := c.mustFn(r, "embedded/sql.(*Engine).tryPopulateCatalogCache"); f != nil {
		sameVersion := whenCond(true, func(a string) bool {
			return strings.Contains(a, "cachedCatalogVersion") && strings.Contains(a, "param:openVersion") && strings.Contains(a, " == ")
		})
		q := &pathQ{fn: f, fromEntry: true, to: storeTo("Engine.cachedCatalog"), barrier: sameVersion}
		c.check(len(sites(f, storeTo("Engine.cachedCatalog"))) > 0 && q.bypass() == nil, r, fnName(f)+":publish-only-if-version-unchanged", c.pos(f.Pos()), "the cache is filled only on the version-equal edge", "a catalog can be published into the cache although a DDL was committed since the transaction opened")
	}
	// every publication, wherever it is made: a catalog loaded by a transaction is put into the cache only on an edge
	// where the version is still the one observed when that transaction opened (otherwise a DDL committed meanwhile was
	// just invalidated away and the catalog published is older than it: later transactions clone a catalog without
	// the new unique index / table)
	{
		np := 0
		for _, f := range c.allFns {
			if !fnInPkgs(f, []string{"embedded/sql"}) || len(f.Blocks) == 0 {
				continue
			}
			for i, st := range sites(f, storeTo("Engine.cachedCatalog")) {
				if desc(st.(*ssa.Store).Val) == "nil" {
					continue
				}
				np++
				versionEq := func(b *ssa.BasicBlock, si int) bool {
					if len(b.Instrs) == 0 {
						return false
					}
					ifi, ok := b.Instrs[len(b.Instrs)-1].(*ssa.If)
					if !ok {
						return false
					}
					bo, ok := ifi.Cond.(*ssa.BinOp)
					if !ok || (bo.Op != token.EQL && bo.Op != token.NEQ) {
						return false
					}
					isLoad := func(v ssa.Value) bool {
						cl, ok := v.(*ssa.Call)
						return ok && strings.HasSuffix(calleeName(&cl.Call), "atomic.(*Uint64).Load") && strings.Contains(desc(cl.Call.Args[0]), "cachedCatalogVersion")
					}
					if !isLoad(bo.X) && !isLoad(bo.Y) {
						return false
					}
					return (bo.Op == token.EQL && si == 0) || (bo.Op == token.NEQ && si == 1)
				}
				dom := false
				for _, b := range f.Blocks {
					for si := range b.Succs {
						if versionEq(b, si) && edgeDominates(b, si, st.Block()) {
							dom = true
						}
					}
				}
				c.check(dom, r, fmt.Sprintf("%s:publication#%d:version-unchanged", fnName(f), i), c.pos(st.Pos()), "published on the version-equal edge",
					"a catalog is put into the engine's cache without comparing the cache version with the one observed when the transaction opened: a DDL committed in between is lost from the cache, later transactions work on a catalog without it (a UNIQUE index created meanwhile is not enforced)")
			}
		}
		if np < 1 {
			c.undecided(r, "publications", "no publication into Engine.cachedCatalog found")
		}
	}
	if f := c.mustFn(r, sqlTxT+"Commit"); f != nil {
		mut := whenCond(false, func(a string) bool { return hasFieldSuffix(a, "mutatedCatalog") })
		// on the mutatedCatalog edge the cache is invalidated before Commit returns successfully
		q := &pathQ{fn: f, from: sites(f, callTo(otxT+"AsyncCommit", otxT+"Commit")), to: successReturn, via: callTo("embedded/sql.(*Engine).invalidateCatalogCache"), barrier: mut}
		c.check(q.bypass() == nil, r, fnName(f)+":ddl-commit-invalidates-cache", c.pos(f.Pos()), "a committed DDL passes invalidateCatalogCache", "a transaction that changed the catalog can commit without invalidating the cached catalog")
		for _, in := range sites(f, callTo("embedded/sql.(*Engine).tryPopulateCatalogCache")) {
			a := desc(callOf(in).Args[2])
			c.check(hasFieldSuffix(a, "openCatalogVersion"), r, fnName(f)+":publishes-with-open-version", c.pos(in.Pos()), "publishes with the version observed when the tx opened", "tryPopulateCatalogCache is given "+a)
		}
	}
}

// c13CloneIsDeep: a transaction works on a private clone of the cached catalog and mutates it in place (DDL);
// the clone must not share any map or slice with its source, or an uncommitted / rolled-back DDL shows through
// to every other transaction.
func c13CloneIsDeep(c *Ctx, r string) {
	n := 0
	for _, name := range []string{"embedded/sql.cloneTable", "embedded/sql.(*Catalog).Clone"} {
		f := c.mustFn(r, name)
		if f == nil {
			continue
		}
		per := map[string]int{}
		allInstrs(f, false, func(in ssa.Instruction) {
			st, ok := in.(*ssa.Store)
			if !ok {
				return
			}
			fa, ok := st.Addr.(*ssa.FieldAddr)
			if !ok {
				return
			}
			sn := structName(fa.X.Type())
			if sn != "Table" && sn != "Index" && sn != "Catalog" {
				return
			}
			if _, fresh := fa.X.(*ssa.Alloc); !fresh {
				if cl, ok := fa.X.(*ssa.Call); !ok || calleeName(&cl.Call) != "embedded/sql.newCatalog" {
					return
				}
			}
			switch st.Val.Type().Underlying().(type) {
			case *types.Map, *types.Slice:
			default:
				return
			}
			n++
			fname := sn + "." + fieldName(fa.X.Type(), fa.Field)
			per[fname]++
			shared := false
			if ld, ok := st.Val.(*ssa.UnOp); ok && ld.Op == token.MUL {
				if sfa, ok := ld.X.(*ssa.FieldAddr); ok && sfa.X != fa.X {
					shared = true
				}
			}
			c.check(!shared, r, fmt.Sprintf("%s:%s#%d", fnName(f), fname, per[fname]), c.pos(st.Pos()), "fresh container ("+desc(st.Val)+")",
				"the cloned "+sn+" shares its "+fname+" container with the source ("+desc(st.Val)+"): in-place DDL on the clone alters the cached catalog")
		})
	}
	if n < 8 {
		c.undecided(r, "floor", fmt.Sprintf("%d container fields initialised by the catalog clone found (10 confirmed by hand)", n))
	}
}

// idxAmong: ordinal of `in` among the sites of its function matching p (position-free construct key)
func idxAmong(in ssa.Instruction, p sitePred) int {
	for i, x := range sites(in.Parent(), p) {
		if x == in {
			return i
		}
	}
	return -1
}

// c13EngineStateAtCommit: what a statement does stays inside its transaction until COMMIT and vanishes with ROLLBACK.
// The engine keeps views (and CTE names) in a map shared by every session (Engine.tableResolvers) and sequences in
// another (Engine.sequences). Whoever writes such a map outside the engine's set-up and catalog loading does it while a
// statement is executed: the effect is visible to every session before COMMIT, survives ROLLBACK, and the unsynchronised
// map is shared with concurrent sessions. Writers are: direct map updates / deletes, and calls of the engine's mutator
// helpers (registerTableResolver, CreateSequence, DropSequence).
func c13EngineStateAtCommit(c *Ctx, r string) {
	setUp := map[string]string{
		"embedded/sql.NewEngine":                       "engine construction",
		"embedded/sql.(*Engine).loadViews":             "catalog loading",
		"embedded/sql.(*Engine).loadSequences":         "catalog loading",
		"embedded/sql.(*Engine).registerTableResolver": "the mutator itself (its callers are examined)",
		"embedded/sql.(*Engine).CreateSequence":        "the mutator itself (its callers are examined)",
		"embedded/sql.(*Engine).DropSequence":          "the mutator itself (its callers are examined)",
		"embedded/sql.(*Engine).RegisterTableResolver": "public registration API used at set-up",
	}
	mutators := callTo("embedded/sql.(*Engine).registerTableResolver", "embedded/sql.(*Engine).CreateSequence", "embedded/sql.(*Engine).DropSequence")
	n := 0
	for _, f := range c.allFns {
		if !fnInPkgs(f, []string{"embedded/sql"}) || len(f.Blocks) == 0 {
			continue
		}
		top := fnName(topFn(f))
		per := map[string]int{}
		allInstrs(f, false, func(in ssa.Instruction) {
			what, fld := "", ""
			switch x := in.(type) {
			case *ssa.MapUpdate:
				if fl, _ := fieldOf(x.Map); fl == "Engine.tableResolvers" || fl == "Engine.sequences" {
					what, fld = "write", fl
				}
			case *ssa.Call:
				if b, ok := x.Call.Value.(*ssa.Builtin); ok && b.Name() == "delete" && len(x.Call.Args) > 0 {
					if fl, _ := fieldOf(x.Call.Args[0]); fl == "Engine.tableResolvers" || fl == "Engine.sequences" {
						what, fld = "delete", fl
					}
				}
			}
			if what == "" && mutators(in) {
				what, fld = lastSeg(calleeName(callOf(in))), "Engine.tableResolvers"
				if strings.Contains(what, "Sequence") {
					fld = "Engine.sequences"
				}
			}
			if what == "" {
				return
			}
			n++
			if reason, ok := setUp[top]; ok {
				c.okTrivial(r, top+":"+fld, c.pos(in.Pos()), reason)
				return
			}
			per[fld]++
			c.fail(r, fmt.Sprintf("%s:%s#%d", top, fld, per[fld]), c.pos(in.Pos()), fmt.Sprintf("%s of the engine-wide %s during statement execution: the effect is visible to every session before COMMIT and survives ROLLBACK", what, fld))
		})
	}
	if n < 6 {
		c.undecided(r, "floor", fmt.Sprintf("%d writes of the engine-wide view / sequence maps found", n))
	}
}

// c13DmlFailureIsReported: a data-modifying statement that failed may have written part of its rows into the transaction
// already; the error is the only thing that makes the caller (QueryPreparedStmt) cancel the transaction. Where the
// statement is executed on behalf of a query (DML ... RETURNING), every edge on which its error is non-nil leads to
// returns that report an error: an empty, successful result leaves the partial writes to be committed.
func c13DmlFailureIsReported(c *Ctx, r string) {
	f := c.mustFn(r, "embedded/sql.(*ReturningStmt).Resolve")
	if f == nil {
		return
	}
	runs := sites(f, func(in ssa.Instruction) bool {
		cc := callOf(in)
		_, isDefer := in.(*ssa.Defer)
		return cc != nil && !isDefer && cc.IsInvoke() && cc.Method.Name() == "execAt"
	})
	if len(runs) == 0 {
		c.undecided(r, fnName(f)+":execAt", "the execution of the statement was not found")
		return
	}
	for i, in := range runs {
		ee := errEdgeOf(in)
		var edges []cfgEdge
		for _, b := range f.Blocks {
			for si := range b.Succs {
				if ee != nil && ee(b, si) {
					edges = append(edges, cfgEdge{b, si})
				}
			}
		}
		construct := fmt.Sprintf("%s:execAt#%d:failure-is-reported", fnName(f), i)
		if len(edges) == 0 {
			c.fail(r, construct, c.pos(in.Pos()), "the error of the statement is not examined")
			continue
		}
		q := &pathQ{fn: f, fromEdges: edges, to: func(x ssa.Instruction) bool {
			rt, ok := x.(*ssa.Return)
			return ok && retKind(rt) != "fail"
		}}
		if w := q.bypass(); w != nil {
			c.fail(r, construct, c.pos(in.Pos()), "after the statement failed a result is returned that does not carry an error ("+c.witnessStr(w)+"): the rows it had already written stay in the transaction and are committed with it")
		} else {
			c.ok(r, construct, c.pos(in.Pos()), "every return after a failed execution reports an error")
		}
	}
}

// c13PgAbortedBlock: PostgreSQL wire front-end. A statement that fails inside BEGIN ... COMMIT releases the engine
// transaction; the statements the client sends next still belong to the block it opened. Run on their own (the session
// has no transaction any more: autocommit) they take effect although the block is rolled back, or never committed.
//   (a) after a failing statement the session records the failed block (txStatus = 'E'), on every path to the return;
//   (b) a statement reaches the engine only across the edge "the block has not failed".
func c13PgAbortedBlock(c *Ctx, r string) {
	f := c.mustFn(r, "pkg/pgsql/server.(*session).fetchAndWriteResults")
	if f == nil {
		return
	}
	const failed = 69 // bmessages.TxStatusFailed 'E'
	storesFailed := func(g *ssa.Function) bool {
		hit := false
		allInstrs(g, false, func(in ssa.Instruction) {
			st, ok := in.(*ssa.Store)
			if !ok {
				return
			}
			if fl, _ := fieldOf(st.Addr); fl != "session.txStatus" {
				return
			}
			if k, ok := st.Val.(*ssa.Const); ok && k.Value != nil && k.Value.Kind() == constant.Int {
				if v, _ := constant.Int64Val(k.Value); v == failed {
					hit = true
				}
			}
		})
		return hit
	}
	marks := func(in ssa.Instruction) bool {
		if _, isDefer := in.(*ssa.Defer); isDefer {
			return false
		}
		if cc := callOf(in); cc != nil {
			if g := cc.StaticCallee(); g != nil && len(g.Blocks) > 0 && storesFailed(g) {
				return true
			}
		}
		if st, ok := in.(*ssa.Store); ok {
			if fl, _ := fieldOf(st.Addr); fl == "session.txStatus" {
				if k, ok := st.Val.(*ssa.Const); ok && k.Value != nil {
					if v, _ := constant.Int64Val(k.Value); v == failed {
						return true
					}
				}
			}
		}
		return false
	}
	runs := callTo("pkg/pgsql/server.(*session).exec", "pkg/pgsql/server.(*session).query")
	rs := sites(f, runs)
	if len(rs) < 2 {
		c.undecided(r, fnName(f)+":statements", fmt.Sprintf("%d dispatches of statements to the engine found, 2 expected", len(rs)))
	}
	for i, in := range rs {
		ee := errEdgeOf(in)
		var edges []cfgEdge
		for _, b := range f.Blocks {
			for si := range b.Succs {
				if ee != nil && ee(b, si) {
					edges = append(edges, cfgEdge{b, si})
				}
			}
		}
		construct := fmt.Sprintf("%s:%s#%d:failure-marks-the-block", fnName(f), lastSeg(calleeName(callOf(in))), i)
		q := &pathQ{fn: f, fromEdges: edges, to: isReturn, via: marks}
		c.check(len(edges) > 0 && q.bypass() == nil, r, construct, c.pos(in.Pos()), "a failed statement records the failed block before returning",
			"a statement that fails inside a transaction block leaves the session as if no block was open: the statements that follow run in autocommit and stay committed whatever ends the block")
	}
	notFailed := whenCond(false, func(a string) bool {
		return strings.Contains(a, "txStatus") && strings.Contains(a, " == ") && strings.Contains(a, fmt.Sprintf("const:%d", failed))
	})
	q := &pathQ{fn: f, fromEntry: true, to: runs, barrier: notFailed}
	if w := q.bypass(); w != nil {
		c.fail(r, fnName(f)+":no-statement-runs-in-a-failed-block", c.pos(f.Pos()), "a statement reaches the engine without the session having looked at whether the current block has failed: "+c.witnessStr(w))
	} else {
		c.ok(r, fnName(f)+":no-statement-runs-in-a-failed-block", c.pos(f.Pos()), "statements reach the engine only across `txStatus != failed`")
	}
}

// c13PgDescribeDoesNotExecute: to tell the client the shape of a result the session runs the statement with no
// parameters and reads the columns of the reader. For DML ... RETURNING that IS the execution: done in the session's
// transaction (or in autocommit) the statement takes effect at Parse/Describe time and again at Execute. The describe
// step therefore runs in a transaction of its own that is cancelled on every path.
func c13PgDescribeDoesNotExecute(c *Ctx, r string) {
	f := c.mustFn(r, "pkg/pgsql/server.(*session).inferParamAndResultCols")
	if f == nil {
		return
	}
	isNewTx := func(v ssa.Value) bool {
		ex, ok := v.(*ssa.Extract)
		if !ok || ex.Index != 0 {
			return false
		}
		cl, ok := ex.Tuple.(*ssa.Call)
		return ok && (cl.Call.IsInvoke() && cl.Call.Method.Name() == "NewSQLTx" || strings.HasSuffix(calleeName(&cl.Call), ".NewSQLTx"))
	}
	runs := sites(f, func(in ssa.Instruction) bool {
		cc := callOf(in)
		return cc != nil && cc.IsInvoke() && cc.Method.Name() == "SQLQueryPrepared"
	})
	if len(runs) == 0 {
		c.okTrivial(r, fnName(f)+":describe", c.pos(f.Pos()), "the describe step does not run the statement")
		return
	}
	for i, in := range runs {
		args := callOf(in).Args
		own := len(args) >= 2 && dependsOn(args[1], isNewTx)
		c.check(own, r, fmt.Sprintf("%s:SQLQueryPrepared#%d:in-a-transaction-of-its-own", fnName(f), i), c.pos(in.Pos()), "the statement described may run in a transaction opened for that purpose",
			"the describe step runs the statement in the session's own transaction (or in autocommit): an INSERT ... RETURNING takes effect when it is parsed, and again when it is executed")
	}
	n := 0
	allInstrs(f, false, func(in ssa.Instruction) {
		cl, ok := in.(*ssa.Call)
		if !ok || !(cl.Call.IsInvoke() && cl.Call.Method.Name() == "NewSQLTx") {
			return
		}
		n++
		q := &pathQ{fn: f, from: []ssa.Instruction{in}, to: isReturn, via: callTo(sqlTxT + "Cancel"), deferVia: true, barrier: errEdgeOf(in)}
		c.check(q.bypass() == nil, r, fmt.Sprintf("%s:describe-transaction#%d:cancelled", fnName(f), n), c.pos(in.Pos()), "cancelled on every path", "the transaction opened to describe a statement is not cancelled on every path: what the statement wrote can be committed")
	})
}

// c13OnlyCommittedReported: what execPreparedStmts lists as committed transactions is what the caller reports to the
// client (headers, updated rows, generated keys). A transaction closed by ROLLBACK is closed too: it is listed only
// where the code has just committed it, or has looked at whether it was cancelled.
func c13OnlyCommittedReported(c *Ctx, r string) {
	f := c.mustFn(r, "embedded/sql.(*Engine).execPreparedStmts")
	if f == nil {
		return
	}
	commit := callTo(sqlTxT + "Commit")
	notCancelled := whenCond(false, func(a string) bool { return strings.Contains(a, ").Cancelled[") || hasFieldSuffix(a, "cancelled") })
	n := 0
	allInstrs(f, false, func(in ssa.Instruction) {
		cl, ok := in.(*ssa.Call)
		if !ok {
			return
		}
		b, ok := cl.Call.Value.(*ssa.Builtin)
		if !ok || b.Name() != "append" || !strings.HasSuffix(cl.Type().String(), "[]*github.com/codenotary/immudb/embedded/sql.SQLTx") {
			return
		}
		n++
		construct := fmt.Sprintf("%s:listed-as-committed#%d", fnName(f), n)
		okc := false
		for _, cm := range sites(f, commit) {
			if !instrDominates(cm, in) {
				continue
			}
			okc = true // (a failed Commit returns: the listing below it is on its success edge, C13.2 decides that)
		}
		if !okc {
			for _, bb := range f.Blocks {
				for si := range bb.Succs {
					if notCancelled(bb, si) && edgeDominates(bb, si, in.Block()) {
						okc = true
					}
				}
			}
		}
		c.check(okc, r, construct, c.pos(in.Pos()), "listed after its Commit, or after Cancelled() was found false", "a transaction is listed among the committed ones because it is closed: one closed by ROLLBACK is reported to the client with its updated rows and generated keys although nothing of it was applied")
	})
	if n < 2 {
		c.undecided(r, "floor", fmt.Sprintf("%d places listing a transaction as committed found in execPreparedStmts", n))
	}
}

// c13IndexKeySlots: the key of an index (or row) entry is assembled from a slice of parts: K leading identifiers at
// constant positions 0..K-1, one part per indexed column written by a loop at position i+B, possibly the primary key in
// the last position. The loop starts where the identifiers end (B == K): one further and a part is never filled while
// the last one is overwritten, and the entry written (a deletion marker for the OLD index entry of an updated row) goes
// to a key no reader looks at - the transaction keeps seeing the old entry next to the new one.
func c13IndexKeySlots(c *Ctx, r string) {
	n := 0
	for _, f := range c.allFns {
		if !fnInPkgs(f, []string{"embedded/sql"}) || len(f.Blocks) == 0 {
			continue
		}
		k := 0
		allInstrs(f, false, func(in ssa.Instruction) {
			ms, ok := in.(*ssa.MakeSlice)
			if !ok || ms.Type().String() != "[][]byte" {
				return
			}
			consts := map[int64]bool{}
			var loopBase []int64
			for _, rf := range *ms.Referrers() {
				ia, ok := rf.(*ssa.IndexAddr)
				if !ok {
					continue
				}
				stored := false
				for _, r2 := range *ia.Referrers() {
					if st, ok := r2.(*ssa.Store); ok && st.Addr == ia {
						stored = true
					}
				}
				if !stored {
					continue
				}
				switch ix := ia.Index.(type) {
				case *ssa.Const:
					if v, ok := constant.Int64Val(ix.Value); ok {
						consts[v] = true
					}
				case *ssa.BinOp:
					if ix.Op == token.ADD {
						if kc, ok := ix.Y.(*ssa.Const); ok {
							if _, isPhi := ix.X.(*ssa.Phi); isPhi || true {
								if v, ok := constant.Int64Val(kc.Value); ok {
									if _, xc := ix.X.(*ssa.Const); !xc {
										loopBase = append(loopBase, v)
									}
								}
							}
						}
					}
				}
			}
			if len(loopBase) == 0 || len(consts) == 0 {
				return
			}
			lead := int64(0)
			for consts[lead] {
				lead++
			}
			for _, b := range loopBase {
				k++
				n++
				c.check(b == lead, r, fmt.Sprintf("%s:key-parts#%d", fnName(f), k), c.pos(in.Pos()), fmt.Sprintf("%d leading parts, the per-column parts start at %d", lead, b),
					fmt.Sprintf("the key has %d leading parts (positions 0..%d) but the per-column parts are written from position %d on: position %d is never filled and the last part is overwritten, the entry goes to a key that is not the index entry's", lead, lead-1, b, lead))
			}
		})
	}
	if n < 3 {
		c.undecided(r, "floor", fmt.Sprintf("%d keys assembled from parts found (doUpsert, deprecateIndexEntries, deleteIndexEntries confirmed by hand)", n))
	}
}

// c13DeletionMarksEveryIndex: a row deleted inside a transaction is hidden from the transaction's later statements by
// deletion markers written at the row's own keys: the row entry (primary index) AND its entry in every secondary index
// (the indexer tombstones those only after the commit). deleteIndexEntries writes both kinds.
func c13DeletionMarksEveryIndex(c *Ctx, r string) {
	f := c.mustFn(r, "embedded/sql.(*SQLTx).deleteIndexEntries")
	if f == nil {
		return
	}
	kinds := map[string]bool{}
	for _, in := range sites(f, callTo(sqlTxT+"set")) {
		args := callOf(in).Args
		if len(args) < 2 {
			continue
		}
		for _, pfx := range []string{"R.", "M."} {
			if dependsOn(args[1], func(v ssa.Value) bool {
				k, ok := v.(*ssa.Const)
				return ok && k.Value != nil && k.Value.Kind() == constant.String && constant.StringVal(k.Value) == pfx
			}) {
				kinds[pfx] = true
			}
		}
	}
	c.check(kinds["R."], r, fnName(f)+":row-entry-marked", c.pos(f.Pos()), "a deletion marker is written at the row's key", "DELETE no longer writes a deletion marker at the row's key")
	c.check(kinds["M."], r, fnName(f)+":secondary-index-entries-marked", c.pos(f.Pos()), "a deletion marker is written at the row's key in every secondary index", "DELETE writes no deletion marker at the keys of the row in the secondary indexes: a scan through such an index by the same transaction still returns the deleted row")
}
