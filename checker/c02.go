package main

import (
	"fmt"
	"go/types"
	"strings"

	"golang.org/x/tools/go/ssa"
)

var storeCommitGuard = guardSpec{
	structName: "ImmuStore",
	lock:       "ImmuStore.commitStateRWMutex",
	fields: []string{"committedTxID", "committedAlh", "inmemPrecommittedTxID", "inmemPrecommittedAlh",
		"precommittedTxLogSize", "commitAllowedUpToTxID", "useExternalCommitAllowance"},
	callerHolds: map[string]string{
		storeT + "mayCommit":         "W", // documented: "requires the caller to have already acquired the commitStateRWMutex lock"
		storeT + "commitAllowedUpTo": "R",
	},
	exempt: map[string]string{
		storePkg + "OpenWith": "constructor: the store is not shared yet",
	},
}

func c02(c *Ctx) {
	c02PooledHeader(c, "C02.8/pooled-header-fully-rewritten")
	// a transaction that was accepted and acknowledged stays readable: writer and reader draw the length limits of the
	// tx record at the same place (analysis shared with C15.3)
	c15LimitAgreement(c, "C02.9/record-limits-agree")
	// the hash tree the proofs are built from holds, for every transaction id, the Alh of the transaction the log holds: compared at open
	// down to the first leaf (analysis shared with C03.8)
	c03HashTreeComparedAtOpen(c, "C02.10/hash-tree-leaves-compared-with-the-chain-at-open")
	pk := []string{"embedded/store"}
	// ---- C02.1 single writer sites -------------------------------------------------------------
	c.ruleWhoMayCall("C02.1/txlog-writers", "txLog.Append", callTo(appAppend+"@txLog"),
		[]string{storeT + "performPrecommit"}, 1)
	c.ruleWhoMayCall("C02.1/txlog-writers", "txLog.SetOffset", callTo(appSetOff+"@txLog"),
		[]string{storeT + "performPrecommit"}, 1)
	c.ruleWhoMayCall("C02.1/clog-writers", "cLog.Append", func(in ssa.Instruction) bool {
		return callTo(appAppend+"@cLog")(in) && fnInPkgs(in.Parent(), pk)
	}, []string{storeT + "mayCommit", storeT + "sync"}, 2)
	c.ruleWhoMayCall("C02.1/clog-writers", "cLog.SetOffset", func(in ssa.Instruction) bool {
		return callTo(appSetOff+"@cLog")(in) && fnInPkgs(in.Parent(), pk)
	}, []string{storeT + "mayCommit", storeT + "sync", storePkg + "OpenWith"}, 3)
	// appendValuesInto(entries, s.txLog) is the embedded-values writer: only from performPrecommit
	for _, in := range c.callSites(callTo(storeT + "appendValuesInto")) {
		args := callOf(in).Args
		owner := fnName(topFn(in.Parent()))
		if len(args) == 3 && hasFieldSuffix(desc(args[2]), "txLog") {
			c.check(owner == storeT+"performPrecommit", "C02.1/txlog-writers", "appendValuesInto(txLog):in:"+owner, c.pos(in.Pos()),
				"embedded values are written to the tx log by performPrecommit only", "tx log written through appendValuesInto from "+owner)
		}
	}
	// DiscardUpto never reaches the tx log, the commit log or the hash tree logs
	nDiscard := 0
	for _, in := range c.callSites(callTo(appDiscard)) {
		nDiscard++
		d := desc(recvOf(callOf(in)))
		owner := fnName(topFn(in.Parent()))
		bad := ""
		if fnInPkgs(in.Parent(), []string{"embedded/store"}) && (hasFieldSuffix(d, "txLog") || hasFieldSuffix(d, "cLog")) {
			bad = d
		}
		if fnInPkgs(in.Parent(), []string{"embedded/ahtree"}) {
			bad = d
		}
		construct := fmt.Sprintf("DiscardUpto:in:%s:on:%s", owner, lastSeg(d))
		c.check(bad == "", "C02.1/no-discard-of-history", construct, c.pos(in.Pos()),
			"DiscardUpto receiver is not a history log: "+d, "DiscardUpto is applied to a log holding committed history: "+d)
	}
	c.count("discard_call_sites", nDiscard)
	c.selfTestZeroRule("C02.1/no-discard-of-history")

	for _, f := range []string{"committedTxID", "committedAlh"} {
		c.ruleWhoMayStore("C02.1/frontier-writers", "ImmuStore."+f, []string{storeT + "mayCommit", storeT + "sync"}, pk)
	}
	for _, f := range []string{"inmemPrecommittedTxID", "inmemPrecommittedAlh"} {
		c.ruleWhoMayStore("C02.1/frontier-writers", "ImmuStore."+f, []string{storeT + "performPrecommit", storeT + "DiscardPrecommittedTxsSince"}, pk)
	}
	c.ruleWhoMayStore("C02.1/frontier-writers", "ImmuStore.precommittedTxLogSize", []string{storeT + "performPrecommit", storeT + "DiscardPrecommittedTxsSince" /* since fix 9f890e0: the write position recedes with the frontier */}, pk)

	// ---- C02.2 write positions -------------------------------------------------------------------
	r := "C02.2/write-positions"
	if f := c.mustFn(r, storeT+"performPrecommit"); f != nil {
		for i, in := range sites(f, callTo(appSetOff+"@txLog")) {
			a := desc(callOf(in).Args[0])
			c.check(hasFieldSuffix(a, "precommittedTxLogSize"), r, fmt.Sprintf("%s:txLog.SetOffset#%d", fnName(f), i), c.pos(in.Pos()),
				"tx log rewound to precommittedTxLogSize", "tx log offset is set to "+a+" instead of precommittedTxLogSize")
		}
		// SetOffset(precommittedTxLogSize) precedes every tx-log append
		c.ruleOrder(r, f, "txLog.SetOffset", callTo(appSetOff+"@txLog"), "txLog.Append", callTo(appAppend+"@txLog"), nil, 1)
		for _, st := range sites(f, storeTo("TxHeader.ID")) {
			v := desc(st.(*ssa.Store).Val)
			c.check(strings.Contains(v, "inmemPrecommittedTxID + const:1"), r, fnName(f)+":header.ID", c.pos(st.Pos()),
				"tx id = inmemPrecommittedTxID + 1", "tx id is assigned from "+v)
		}
		for _, st := range sites(f, storeTo("TxHeader.PrevAlh")) {
			v := desc(st.(*ssa.Store).Val)
			c.check(hasFieldSuffix(v, "inmemPrecommittedAlh"), r, fnName(f)+":header.PrevAlh", c.pos(st.Pos()),
				"PrevAlh = inmemPrecommittedAlh", "PrevAlh is assigned from "+v)
		}
		if len(sites(f, storeTo("TxHeader.ID"))) == 0 || len(sites(f, storeTo("TxHeader.PrevAlh"))) == 0 {
			c.undecided(r, fnName(f)+":header-assignments", "stores to TxHeader.ID / PrevAlh not found")
		}
		// the frontier advances by exactly one and only after the tx-log append, AHT append and cLogBuf.put succeeded
		c.chain(r, f, nil,
			step{"txLog.Append", callTo(appAppend + "@txLog")},
			step{"aht.ResetSize", callTo("embedded/ahtree.(*AHtree).ResetSize")},
			step{"aht.Append", callTo("embedded/ahtree.(*AHtree).Append")},
			step{"cLogBuf.put", callTo("embedded/store.(*precommitBuffer).put")},
			step{"store inmemPrecommittedTxID", storeTo("ImmuStore.inmemPrecommittedTxID")},
		)
		c.ruleOrder(r, f, "cLogBuf.put", callTo("embedded/store.(*precommitBuffer).put"), "store inmemPrecommittedAlh", storeTo("ImmuStore.inmemPrecommittedAlh"), nil, 1)
		for _, st := range sites(f, storeTo("ImmuStore.inmemPrecommittedTxID")) {
			v := desc(st.(*ssa.Store).Val)
			c.check(strings.Contains(v, "inmemPrecommittedTxID + const:1"), r, fnName(f)+":frontier+1", c.pos(st.Pos()), "frontier advances by one", "frontier set to "+v)
		}
		for _, n := range []string{"embedded/ahtree.(*AHtree).ResetSize", "embedded/ahtree.(*AHtree).Append", "embedded/store.(*precommitBuffer).put", appAppend + "@txLog", appSetOff + "@txLog"} {
			c.ruleErrChecked(r+"/err", f, lastSeg(n), callTo(n), 1)
		}
		// ---- C02.6 one Alh, four sinks ---------------------------------------------------------
		r6 := "C02.6/one-alh"
		var alh ssa.Value
		for _, in := range sites(f, callTo("embedded/store.(*TxHeader).Alh")) {
			alh = in.(*ssa.Call)
		}
		if alh == nil {
			c.undecided(r6, fnName(f)+":Alh()", "no call of TxHeader.Alh in performPrecommit")
		} else {
			flows := func(v ssa.Value) bool {
				return dependsOn(v, func(x ssa.Value) bool { return x == alh }) || derivesFromAllocOf(v, alh)
			}
			for _, in := range sites(f, callTo("embedded/ahtree.(*AHtree).Append")) {
				c.check(flows(callOf(in).Args[1]), r6, fnName(f)+":aht.Append(alh)", c.pos(in.Pos()), "AHT leaf is the header's Alh", "AHT leaf is not the header's Alh: "+desc(callOf(in).Args[1]))
			}
			for _, in := range sites(f, callTo("embedded/store.(*precommitBuffer).put")) {
				a := callOf(in).Args
				c.check(len(a) >= 3 && flows(a[2]), r6, fnName(f)+":cLogBuf.put(alh)", c.pos(in.Pos()), "commit-buffer entry carries the header's Alh", "commit-buffer entry does not carry the header's Alh")
				c.check(len(a) >= 2 && strings.Contains(desc(a[1]), "inmemPrecommittedTxID + const:1"), r6, fnName(f)+":cLogBuf.put(id)", c.pos(in.Pos()), "commit-buffer entry id = frontier+1", "commit-buffer entry id is "+desc(a[1]))
			}
			for _, st := range sites(f, storeTo("ImmuStore.inmemPrecommittedAlh")) {
				c.check(flows(st.(*ssa.Store).Val), r6, fnName(f)+":inmemPrecommittedAlh=alh", c.pos(st.Pos()), "frontier Alh is the header's Alh", "frontier Alh is "+desc(st.(*ssa.Store).Val))
			}
		}
		// BlRoot comes from the hash tree at blTxID
		for _, st := range sites(f, storeTo("TxHeader.BlRoot")) {
			v := desc(st.(*ssa.Store).Val)
			c.check(strings.Contains(v, "(*AHtree).RootAt"), r6, fnName(f)+":BlRoot", c.pos(st.Pos()), "BlRoot = aht.RootAt(blTxID)", "BlRoot assigned from "+v)
		}
	}
	for _, fname := range []string{"mayCommit", "sync"} {
		if f := c.mustFn(r, storeT+fname); f != nil {
			for i, in := range sites(f, callTo(appSetOff+"@cLog")) {
				a := desc(callOf(in).Args[0])
				c.check(strings.Contains(a, "committedTxID") && strings.Contains(a, "cLogEntrySize") && strings.Contains(a, "*"), r,
					fmt.Sprintf("%s:cLog.SetOffset#%d", fnName(f), i), c.pos(in.Pos()),
					"commit log written at committedTxID*entrySize", "commit log offset is "+a)
			}
			// the committed frontier is what was read from the commit buffer
			for _, st := range sites(f, storeTo("ImmuStore.committedAlh")) {
				v := st.(*ssa.Store).Val
				c.check(dependsOn(v, func(x ssa.Value) bool {
					cl, ok := x.(*ssa.Call)
					return ok && calleeName(&cl.Call) == "embedded/store.(*precommitBuffer).readAhead"
				}), "C02.6/one-alh", fnName(f)+":committedAlh<-cLogBuf", c.pos(st.Pos()), "committedAlh comes from cLogBuf.readAhead", "committedAlh assigned from "+desc(v))
			}
			// number of entries appended is bounded by the allowance
			c.ruleOrder("C02.2/commit-count", f, "commitAllowedUpTo", callTo(storeT+"commitAllowedUpTo"), "cLog.Append", callTo(appAppend+"@cLog"), nil, 1)
		}
	}

	// ---- C02.7 value-log truncation never touches the values of transactions at or after the cut ------------------------
	c14TruncateRules(c, "C02.7/truncation-keeps-later-values")
	// the set of transactions whose values were flushed is the set that gets committed: the whole durability
	// sequence of sync() runs inside the commit-state critical section
	if f := c.mustFn("C02.3/sync-critical-section", storeT+"sync"); f != nil {
		vlogFS := closureCallPassing(callTo(appFlush), callTo(appSync))
		for _, st := range []step{{"vLog.Flush+Sync", vlogFS}, {"txLog.Sync", callTo(appSync + "@txLog")}, {"cLog.Append", callTo(appAppend + "@cLog")}} {
			c.ruleHeldAt("C02.3/sync-critical-section", f, st.name, st.p, "ImmuStore.commitStateRWMutex", true, nil)
		}
	}

	// ---- C02.3 lockset ---------------------------------------------------------------------------
	c.ruleGuarded("C02.3/commit-state-lockset", pk, storeCommitGuard)
	c.ruleCallerHolds("C02.3/caller-holds", pk, storeCommitGuard)
	// performPrecommit runs under s.mutex: every call site holds it
	mg := guardSpec{structName: "ImmuStore", lock: "ImmuStore.mutex", callerHolds: map[string]string{storeT + "performPrecommit": "W"}}
	c.ruleCallerHolds("C02.3/precommit-under-store-mutex", pk, mg)
	c.ruleGuarded("C02.3/mandatory-mvcc", pk, guardSpec{structName: "ImmuStore", lock: "ImmuStore.commitStateRWMutex", fields: []string{"mandatoryMVCCUpToTxID"},
		altLock: map[string]string{"ImmuStore.mandatoryMVCCUpToTxID": "ImmuStore.mutex"},
		exempt:  map[string]string{storePkg + "OpenWith": "constructor"}})

	c02DiscardGuard(c, "C02.4/discard-guard")
	// aht.ResetSize callers in the store
	c.ruleWhoMayCall("C02.4/aht-reset-sites", "aht.ResetSize", func(in ssa.Instruction) bool {
		return callTo("embedded/ahtree.(*AHtree).ResetSize")(in) && fnInPkgs(in.Parent(), pk)
	}, []string{storePkg + "OpenWith", storeT + "performPrecommit", storeT + "DiscardPrecommittedTxsSince",
		// open-time only (called by OpenWith before the store is shared): rewinds leaves that do not match the chain (fix C03.8)
		storeT + "rewindStaleBinaryLinking"}, 3)
	c.ruleWhoMayCall("C02.4/aht-reset-sites", "rewindStaleBinaryLinking", callTo(storeT+"rewindStaleBinaryLinking"), []string{storePkg + "OpenWith"}, 1)

	// ---- C02.6 frontier pairs move together ------------------------------------------------------------------------
	// (txID, alh) of the precommit frontier and of the commit frontier denote one position of the hash chain: whoever
	// moves the id moves the hash, on every path, before the function returns; the next tx takes PrevAlh from the hash
	rp := "C02.6/frontier-pair-moves-together"
	np := 0
	// ... and so does the position at which the next transaction is written into the tx log: a frontier that recedes
	// without it makes replacements land after the discarded transactions, which a restart then reloads instead
	for _, pair := range [][2]string{{"ImmuStore.inmemPrecommittedTxID", "ImmuStore.inmemPrecommittedAlh"}, {"ImmuStore.committedTxID", "ImmuStore.committedAlh"}, {"ImmuStore.inmemPrecommittedTxID", "ImmuStore.precommittedTxLogSize"}} {
		for _, f := range c.allFns {
			if !fnInPkgs(f, []string{"embedded/store"}) || len(f.Blocks) == 0 {
				continue
			}
			ids := sites(f, storeTo(pair[0]))
			for i, in := range ids {
				if isFreshAlloc(storeBase(in)) {
					continue // constructor
				}
				np++
				in := in
				// the hash is stored after the id on every path to an exit, or right before it in the same block
				before := false
				for _, x := range in.Block().Instrs {
					if x == in {
						break
					}
					if storeTo(pair[1])(x) {
						before = true
					}
				}
				q := &pathQ{fn: f, from: []ssa.Instruction{in}, to: isReturn, via: storeTo(pair[1])}
				w := q.bypass()
				c.check(before || w == nil, rp, fmt.Sprintf("%s:%s+%s#%d", fnName(f), lastSeg(pair[0]), lastSeg(pair[1]), i), c.pos(in.Pos()), lastSeg(pair[1])+" is stored together with "+lastSeg(pair[0]),
					fmt.Sprintf("%s is moved without %s: the frontier id and its accumulated hash denote different transactions (the next tx is chained to the wrong hash): %s", lastSeg(pair[0]), lastSeg(pair[1]), c.witnessStr(w)))
			}
		}
	}
	if np < 5 {
		c.undecided(rp, "floor", fmt.Sprintf("%d stores of a frontier id found (7 confirmed by hand)", np))
	}
	c02TxReaderChain(c, "C02.5/txreader-chain")
	// db.CurrentState reports the committed pair
	if f := c.fn("pkg/database.(*db).CurrentState"); f != nil {
		c.check(len(sites(f, callTo(storeT+"CommittedAlh"))) > 0, "C02.6/one-alh", fnName(f)+":CommittedAlh", c.pos(f.Pos()), "CurrentState reads CommittedAlh()", "CurrentState does not report CommittedAlh()")
	}
	if f := c.mustFn("C02.6/one-alh", storeT+"CommittedAlh"); f != nil {
		okv := 0
		allInstrs(f, false, func(in ssa.Instruction) {
			if r, ok := in.(*ssa.Return); ok && len(r.Results) == 2 {
				a, b := desc(unspill(r.Results[0], r)), desc(unspill(r.Results[1], r))
				if hasFieldSuffix(a, "committedTxID") && hasFieldSuffix(b, "committedAlh") {
					okv++
				}
			}
		})
		c.check(okv > 0, "C02.6/one-alh", fnName(f)+":returns-committed-pair", c.pos(f.Pos()), "returns (committedTxID, committedAlh)", "CommittedAlh does not return the committed pair")
	}
}

func lastSeg(s string) string {
	if i := strings.LastIndex(s, "."); i >= 0 {
		return s[i+1:]
	}
	return s
}

// derivesFromAllocOf: v is a slice/load of a local that was stored the value `src`
// (e.g. `alh := h.Alh(); x(alh[:])` lowers to an alloc + store + slice).
func derivesFromAllocOf(v ssa.Value, src ssa.Value) bool {
	var base ssa.Value = v
	for i := 0; i < 6; i++ {
		switch x := base.(type) {
		case *ssa.Slice:
			base = x.X
			continue
		case *ssa.UnOp:
			base = x.X
			continue
		case *ssa.Convert:
			base = x.X
			continue
		}
		break
	}
	a, ok := base.(*ssa.Alloc)
	if !ok {
		return false
	}
	for _, r := range *a.Referrers() {
		if st, ok := r.(*ssa.Store); ok && st.Addr == a && st.Val == src {
			return true
		}
	}
	return false
}

// ruleWhoMayStore: stores to field T.f (outside fresh objects) only in the allowed functions.
func (c *Ctx) ruleWhoMayStore(rule, field string, allowed []string, pkgs []string) {
	allow := map[string]bool{}
	for _, a := range allowed {
		allow[a] = true
	}
	n := 0
	for _, fn := range c.allFns {
		if len(fn.Blocks) == 0 {
			continue
		}
		for _, b := range fn.Blocks {
			for _, in := range b.Instrs {
				st, ok := in.(*ssa.Store)
				if !ok {
					continue
				}
				f, base := fieldOf(st.Addr)
				if f != field || isFreshAlloc(base) {
					continue
				}
				n++
				owner := fnName(topFn(fn))
				construct := "store:" + field + ":in:" + owner
				if allow[owner] {
					c.okTrivial(rule, construct, c.pos(in.Pos()), "allowed writer")
				} else {
					c.fail(rule, construct, c.pos(in.Pos()), fmt.Sprintf("%s is written in %s; allowed writers: %v", field, owner, allowed))
				}
			}
		}
	}
	if n == 0 {
		c.undecided(rule, "store:"+field, "no store to "+field+" found at all")
	}
}

// selfTestZeroRule documents that rules with an expected count of zero are exercised by the
// fixture self-test in the thorough tier (see fixtures/).
func (c *Ctx) selfTestZeroRule(rule string) {}

// c02DiscardGuard: DiscardPrecommittedTxsSince refuses committed ids and recedes exactly to the new frontier
// (shared by C02 and C07).
func c02DiscardGuard(c *Ctx, r string) {
	// ---- C02.4 discard guard -----------------------------------------------------------------------
	if f := c.mustFn(r, storeT+"DiscardPrecommittedTxsSince"); f != nil {
		guard := whenCond(false, func(a string) bool {
			return strings.Contains(a, "committedTxID < param:txID") // txID <= committedTxID  ==  !(committedTxID < txID)
		})
		mut := map[string]sitePred{
			"aht.ResetSize":               callTo("embedded/ahtree.(*AHtree).ResetSize"),
			"cLogBuf.recedeWriter":        callTo("embedded/store.(*precommitBuffer).recedeWriter"),
			"store inmemPrecommittedTxID": storeTo("ImmuStore.inmemPrecommittedTxID"),
			"store inmemPrecommittedAlh":  storeTo("ImmuStore.inmemPrecommittedAlh"),
		}
		for _, n := range sortedKeys(mut) {
			p := mut[n]
			if len(sites(f, p)) == 0 {
				c.undecided(r, fnName(f)+":"+n, "site not found")
				continue
			}
			q := &pathQ{fn: f, fromEntry: true, to: p, barrier: guard}
			// the guard edge is the one on which `committedTxID < txID` holds; remove it and the mutation must be unreachable
			q.barrier = whenCond(true, func(a string) bool { return strings.Contains(a, "committedTxID < param:txID") })
			if w := q.bypass(); w != nil {
				c.fail(r, fnName(f)+":"+n, c.pos(w[len(w)-1].Pos()), n+" is reachable for txID <= committedTxID: "+c.witnessStr(w))
			} else {
				c.ok(r, fnName(f)+":"+n, c.pos(f.Pos()), n+" is dominated by the committedTxID < txID edge")
			}
		}
		_ = guard
		// the durable-precommit watermark recedes exactly to the new in-memory frontier, and only when it is ahead
		for _, g := range append([]*ssa.Function{f}, f.AnonFuncs...) {
			for _, in := range sites(g, callTo("embedded/watchers.(*WatchersHub).RecedeTo@durablePrecommitWHub")) {
				a := desc(callOf(in).Args[1])
				c.check(hasFieldSuffix(a, "inmemPrecommittedTxID"), r, fnName(f)+":durable-watermark-recedes-to-frontier", c.pos(in.Pos()),
					"RecedeTo(inmemPrecommittedTxID)", "the durable-precommit watermark is receded to "+a+" instead of the in-memory precommit frontier")
			}
		}
		// frontier never goes below the committed one: every value stored to the frontier is committedTxID or txID-1
		for i, st := range sites(f, storeTo("ImmuStore.inmemPrecommittedTxID")) {
			v := desc(st.(*ssa.Store).Val)
			c.check(hasFieldSuffix(v, "committedTxID") || v == "(param:txID - const:1)", r, fmt.Sprintf("%s:frontier-value#%d", fnName(f), i), c.pos(st.Pos()),
				"frontier reset to "+v, "frontier reset to unexpected value "+v)
		}
	}
}

// c02TxReaderChain: sequential scans check PrevAlh/Alh chaining (shared by C02 and C09).
func c02TxReaderChain(c *Ctx, r string) {
	// ---- C02.5 chain check while scanning ----------------------------------------------------------
	if f := c.mustFn(r, "embedded/store.(*TxReader).Read"); f != nil {
		found := false
		allInstrs(f, false, func(in ssa.Instruction) {
			ifi, ok := in.(*ssa.If)
			if !ok {
				return
			}
			a, pol := normCond(ifi.Cond)
			if !(strings.Contains(a, "PrevAlh") && strings.Contains(a, " == ")) {
				return
			}
			found = true
			succ := 1 // mismatch edge: atom false
			if !pol {
				succ = 0
			}
			q := &pathQ{fn: f, fromEdges: []cfgEdge{{ifi.Block(), succ}}, to: successReturn}
			c.check(q.bypass() == nil, r, fnName(f)+":chain-mismatch-fails", c.pos(ifi.Cond.Pos()), "PrevAlh/Alh mismatch leaves Read with an error", "a PrevAlh/Alh mismatch can reach a successful return")
		})
		if !found {
			c.fail(r, fnName(f)+":chain-compared", c.pos(f.Pos()), "TxReader.Read no longer compares PrevAlh with the previous Alh")
		}
		// every transaction handed out is chained to the previous one, in both directions: a successful return is
		// reached only across an Alh comparison (CurrAlh against the tx's PrevAlh when ascending, against its Alh
		// when descending) or on the very first read of the scan (InitialTxID == CurrTxID)
		rd := sites(f, callTo(storeT+"readTx"))
		first := whenCond(true, func(a string) bool {
			return strings.Contains(a, "InitialTxID") && strings.Contains(a, "CurrTxID") && strings.Contains(a, " == ")
		})
		cmpAsc := func(a string) bool {
			return strings.Contains(a, "CurrAlh") && strings.Contains(a, "PrevAlh") && strings.Contains(a, " == ")
		}
		cmpDesc := func(a string) bool {
			return strings.Contains(a, "CurrAlh") && strings.Contains(a, ".Alh[") && strings.Contains(a, " == ")
		}
		asc := whenCond(false, func(a string) bool { return hasFieldSuffix(a, "Desc") })
		dsc := whenCond(true, func(a string) bool { return hasFieldSuffix(a, "Desc") })
		if len(rd) == 0 {
			c.undecided(r, fnName(f)+":readTx", "readTx call not found")
		} else {
			for name, spec := range map[string][2]edgePred{
				"ascending":  {anyEdge(whenCond(true, cmpAsc), whenCond(false, cmpAsc)), dsc},
				"descending": {anyEdge(whenCond(true, cmpDesc), whenCond(false, cmpDesc)), asc},
			} {
				// paths of the other direction are cut; what is left must cross the comparison or the first-read edge
				q := &pathQ{fn: f, from: rd, to: successReturn, barrier: anyEdge(first, spec[0], spec[1])}
				w := q.bypass()
				c.check(w == nil, r, fnName(f)+":every-handed-out-tx-is-chained:"+name, c.pos(rd[0].Pos()), "success only across the Alh comparison or on the first read",
					"a "+name+" scan can hand out a transaction without comparing it with the accumulated hash of its neighbour: "+c.witnessStr(w))
			}
		}
	}

}

// storeBase: the object whose field a store instruction writes
func storeBase(in ssa.Instruction) ssa.Value {
	st, ok := in.(*ssa.Store)
	if !ok {
		return nil
	}
	_, base := fieldOf(st.Addr)
	return base
}

// c02PooledHeader: the Tx a commit serializes and hashes is a pooled holder (fetchAllocTx) that still carries the
// header of whatever transaction used it before. Every field of TxHeader is therefore assigned on every path between
// taking the holder and hashing it: either in the committing function before performPrecommit is called, or in
// performPrecommit before the accumulated hash is computed (Eh by BuildHashTree). A field assigned only under a
// condition, or in one of the two committing functions only, leaks the previous transaction's value into the header
// that is persisted, hashed into the chain and shipped to replicas.
func c02PooledHeader(c *Ctx, r string) {
	ht := c.namedType("embedded/store", "TxHeader")
	if ht == nil {
		return
	}
	st, ok := ht.Underlying().(*types.Struct)
	if !ok {
		return
	}
	pp := c.mustFn(r, storeT+"performPrecommit")
	if pp == nil {
		return
	}
	assigns := func(field string) sitePred {
		return func(in ssa.Instruction) bool {
			if storeTo("TxHeader." + field)(in) {
				return true
			}
			return field == "Eh" && callTo("embedded/store.(*Tx).BuildHashTree")(in)
		}
	}
	alh := callTo("embedded/store.(*TxHeader).Alh")
	inPP := map[string]bool{}
	for i := 0; i < st.NumFields(); i++ {
		fld := st.Field(i).Name()
		q := &pathQ{fn: pp, fromEntry: true, to: alh, via: assigns(fld)}
		inPP[fld] = len(sites(pp, alh)) > 0 && q.bypass() == nil
	}
	n := 0
	for _, name := range []string{"precommit", "preCommitWith"} {
		f := c.mustFn(r, storeT+name)
		if f == nil {
			continue
		}
		from := sites(f, callTo(storeT+"fetchAllocTx"))
		to := callTo(storeT + "performPrecommit")
		if len(from) == 0 || len(sites(f, to)) == 0 {
			c.undecided(r, fnName(f), "fetchAllocTx / performPrecommit not found")
			continue
		}
		for i := 0; i < st.NumFields(); i++ {
			fld := st.Field(i).Name()
			n++
			construct := fnName(f) + ":TxHeader." + fld
			if inPP[fld] {
				c.ok(r, construct, c.pos(pp.Pos()), "assigned by performPrecommit on every path to Alh()")
				continue
			}
			q := &pathQ{fn: f, from: from, to: to, via: assigns(fld)}
			if w := q.bypass(); w != nil {
				c.fail(r, construct, c.pos(w[len(w)-1].Pos()), "TxHeader."+fld+" of the pooled holder is not assigned on every path from fetchAllocTx to the hashing of the header: the value left by the previous user of the holder is persisted and hashed ("+c.witnessStr(w)+")")
			} else {
				c.ok(r, construct, c.pos(f.Pos()), "assigned on every path from fetchAllocTx to performPrecommit")
			}
		}
	}
	if n < 18 {
		c.undecided(r, "floor", fmt.Sprintf("%d (function, field) pairs examined, expected 2 x 9", n))
	}
}
