package main

import (
	"fmt"
	"go/token"
	"go/types"
	"os"
	"sort"
	"strings"

	"golang.org/x/tools/go/ssa"
)

// decoder roots: functions that parse untrusted / possibly corrupted bytes. Frozen by reading; each entry names a
// resolved function (closures are analysed with their parent).
var c16Decoders = []string{
	// tx log records, headers, metadata (disk and replication input)
	"embedded/store.(*TxHeader).ReadFrom",
	"embedded/store.(*TxMetadata).ReadFrom",
	"embedded/store.(*KVMetadata).unsafeReadFrom",
	"embedded/store.(*extraAttribute).deserialize",
	"embedded/store.(*truncatedUptoTxAttribute).deserialize",
	"embedded/store.(*deletedAttribute).deserialize",
	"embedded/store.(*expiresAtAttribute).deserialize",
	"embedded/store.(*nonIndexableAttribute).deserialize",
	"embedded/store.(*ImmuStore).ReplicateTx",
	"embedded/store.(*ImmuStore).valueRefFrom",
	"embedded/store.(*txDataReader).readHeader",
	"embedded/store.(*txDataReader).readEntry",
	"embedded/store.OpenWith",
	// appendable metadata, index logs
	"embedded/appendable.(*Metadata).ReadFrom",
	"embedded/appendable.(*Metadata).GetInt",
	"embedded/appendable.(*Metadata).GetBool",
	"embedded/appendable.readField",
	"embedded/tbtree.(*cLogEntry).deserialize",
	"embedded/tbtree.(*TBtree).readTsFile",
	"embedded/tbtree.OpenWith",
	"embedded/ahtree.OpenWith",
	// proofs (client side: the server is untrusted)
	"embedded/store.VerifyDualProof",
	"embedded/store.VerifyDualProofV2",
	"embedded/store.VerifyLinearProof",
	"embedded/store.VerifyLinearAdvanceProof",
	"embedded/ahtree.EvalInclusion",
	"embedded/ahtree.EvalLastInclusion",
	"embedded/htree.VerifyInclusion",
	// SQL values, keys and catalog entries
	"embedded/sql.DecodeValueLength",
	"embedded/sql.decodeValue",
	"embedded/sql.DecodeValueFromKey",
	"embedded/sql.indexEntryMapperFor",
	"embedded/sql.unmapIndexEntry",
	"embedded/sql.unmapIndex",
	"embedded/sql.unmapTableID",
	"embedded/sql.unmapColSpec",
	"embedded/sql.unmapCheckID",
	"embedded/sql.loadColSpec",
	"embedded/sql.parseCheckConstraint",
	"embedded/sql.ParseExpFromString",
	"embedded/sql.trimPrefix",
	// protocol front-ends
	"pkg/api/schema.(Metadata).Unmarshal",
	"pkg/pgsql/server.(*messageReader).ReadRawMessage",
	"pkg/pgsql/server.parseProtocolVersion",
	"pkg/pgsql/server/fmessages.ParseBindMsg",
	"pkg/pgsql/server/fmessages.ParseCopyDataMsg",
	"pkg/pgsql/server/fmessages.ParseCopyFailMsg",
	"pkg/pgsql/server/fmessages.ParseDescribeMsg",
	"pkg/pgsql/server/fmessages.ParseExecuteMsg",
	"pkg/pgsql/server/fmessages.ParseParseMsg",
	"pkg/pgsql/server/fmessages.ParsePasswordMsg",
	"pkg/pgsql/server/fmessages.ParseQueryMsg",
	"pkg/database.(*db).resolveValue",
	"pkg/verification.VerifyDocument",
	"pkg/database.(*db).serializeTx",
	// stream chunks
	"pkg/stream.(*msgReceiver).Read",
	"pkg/stream.(*msgReceiver).ReadFully",
}

// verifiers of server-provided proofs: all slice accesses are in scope, not only byte slices
var c16ProofVerifiers = map[string]bool{
	"embedded/store.VerifyDualProof": true, "embedded/store.VerifyDualProofV2": true, "embedded/store.VerifyLinearProof": true,
	"embedded/store.VerifyLinearAdvanceProof": true, "embedded/ahtree.EvalInclusion": true, "embedded/ahtree.EvalLastInclusion": true,
	"embedded/htree.VerifyInclusion": true,
	// wire messages of the PostgreSQL front end: format-code and parameter slices are indexed by counts found in the message
	// (ParseBindMsg is not listed: its only non-byte index, parameterFormatCodes[i], is safe because of a correlation between
	// two boolean flags and the length of that slice, which needs path-sensitive reasoning the prover does not have)
	"pkg/pgsql/server/fmessages.ParseParseMsg": true, "pkg/pgsql/server/fmessages.ParseExecuteMsg": true,
	"pkg/pgsql/server/fmessages.ParseDescribeMsg": true,
}

// single-result type assertions whose operand has one possible dynamic type (one named site each, with the reason)
var c16SafeAssertions = map[string]string{
	"pkg/verification.VerifyDocument:type assertion#1": "sql.DecodeValue(b, BLOBType) returns a *Blob on success and Blob.RawValue() is its []byte",
}

// callee contracts: on success, 0 <= result[ret] <= len(arg)
var c16Contracts = map[string]contract{
	"(embedded/store.attribute).deserialize": {ret: 0, arg: 0},
}

// preconditions: len(param[idx]) >= min; assumed inside the function and proven at every call site
type requireSpec struct {
	param int
	min   int64
}

var c16Requires = map[string]requireSpec{
	"embedded/tbtree.(*cLogEntry).deserialize": {param: 1, min: 100}, // cLogEntrySize; callers pass the fixed-size record buffer
	"pkg/pgsql/server.parseProtocolVersion":    {param: 0, min: 4},
}

func requiresFacts(p *prover, f *ssa.Function, rq requireSpec) []lin {
	if rq.param >= len(f.Params) {
		return nil
	}
	return []lin{newLin(rq.min).add(p.lenOf(f.Params[rq.param]), -1)}
}

// calls whose integer result is non-negative by construction
var c16NonnegCalls = map[string]string{
	"embedded/sql.(*Column).MaxLen": "declared column length (validated >= 0 when the column is created) or a per-type constant",
}

// parameters that are non-negative by the function's contract
var c16NonnegParams = map[string][]string{
	"embedded/sql.DecodeValueFromKey": {"maxLen"},
}

// implementations whose contract is checked
var c16ContractImpls = map[string]contract{
	"embedded/store.(*extraAttribute).deserialize":           {ret: 0, arg: 1},
	"embedded/store.(*truncatedUptoTxAttribute).deserialize": {ret: 0, arg: 1},
	"embedded/store.(*deletedAttribute).deserialize":         {ret: 0, arg: 1},
	"embedded/store.(*expiresAtAttribute).deserialize":       {ret: 0, arg: 1},
	"embedded/store.(*nonIndexableAttribute).deserialize":    {ret: 0, arg: 1},
}

func isByteSliceLike(t types.Type) bool {
	switch u := t.Underlying().(type) {
	case *types.Slice:
		b, ok := u.Elem().Underlying().(*types.Basic)
		return ok && (b.Kind() == types.Uint8 || b.Kind() == types.Byte)
	case *types.Pointer:
		if a, ok := u.Elem().Underlying().(*types.Array); ok {
			b, ok := a.Elem().Underlying().(*types.Basic)
			return ok && b.Kind() == types.Uint8
		}
	case *types.Array:
		b, ok := u.Elem().Underlying().(*types.Basic)
		return ok && b.Kind() == types.Uint8
	case *types.Basic:
		return u.Kind() == types.String
	}
	return false
}

// proveObl tries a direct proof, then a split over the incoming edges of a loop phi (induction step).
func (p *prover) proveObl(o boundsObl) (bool, string) {
	facts := p.factsAt(o.in)
	if p.prove(o.l, facts) {
		return true, "direct"
	}
	// phi split
	for k := range o.l.terms {
		ph, ok := k.v.(*ssa.Phi)
		if !ok {
			continue
		}
		// other atoms must be loop invariant w.r.t. the phi
		inv := true
		for k2 := range o.l.terms {
			if k2 == k {
				continue
			}
			if in, ok := k2.v.(ssa.Instruction); ok {
				if !instrDominatesBlock(in, ph.Block()) {
					inv = false
				}
			}
		}
		if !inv {
			continue
		}
		all := true
		for i, e := range ph.Edges {
			pred := ph.Block().Preds[i]
			if len(pred.Instrs) == 0 {
				all = false
				break
			}
			sub := o.l.clone()
			coef := sub.terms[k]
			delete(sub.terms, k)
			if k.len {
				sub = sub.add(p.lenOf(e), coef) // len(phi(a, b)) on the edge coming from a is len(a)
			} else {
				sub = sub.add(p.linOf(e), coef)
			}
			f2 := p.factsAt(pred.Instrs[len(pred.Instrs)-1])
			// the branch the predecessor itself took to enter the phi block
			if ifi, ok := pred.Instrs[len(pred.Instrs)-1].(*ssa.If); ok {
				for s := 0; s < 2; s++ {
					if pred.Succs[s] == ph.Block() && pred.Succs[1-s] != ph.Block() {
						f2 = append(f2, p.factsOfCond(ifi.Cond, s == 0)...)
					}
				}
			}
			if !p.prove(sub, f2) {
				all = false
				break
			}
		}
		if all {
			return true, "induction over " + desc(ph)
		}
	}
	return false, ""
}

func instrDominatesBlock(in ssa.Instruction, b *ssa.BasicBlock) bool {
	if in.Block() == nil {
		return true
	}
	return in.Block() == b || in.Block().Dominates(b)
}

func c16(c *Ctx) {
	if os.Getenv("C16_DISCOVER") != "" {
		c16Discover(c, func(v ssa.Value) bool { return isByteSliceLike(v.Type()) })
		return
	}
	c16Run(c, "C16", c16Decoders, true)
	c09EntryCountBounded(c, "C16.9/entry-count-bounded")
	c16PeerMessages(c, "C16.12/peer-messages-nil-checked")
	c16ReadLoopsEnd(c, "C16.13/read-loops-end-with-the-input")
	c16DecodedCountBoundsAllocation(c, "C16.16/decoded-size-is-bounded-before-it-allocates")
	c16TxRecordWithinLog(c, "C16.17/tx-record-lies-within-the-log")
	c16InnerNodeNotEmpty(c, "C16.15/decoded-inner-node-is-not-empty")
	c16NoNilNil(c, "C16.14/no-nil-result-without-error", []string{"embedded/appendable/singleapp", "embedded/appendable/multiapp", "embedded/appendable/remoteapp", "embedded/appendable/fileutils", "embedded/appendable", "embedded/store", "embedded/tbtree", "embedded/ahtree", "embedded/htree", "embedded/cache", "embedded/multierr", "embedded/watchers", "pkg/database", "pkg/truncator", "pkg/replication", "pkg/stream", "pkg/verification"})
}

// c16PeerMessages: proof messages are decoded by protobuf into trees of optional sub-messages; what verification
// dereferences (transaction, headers, dual proof, entries) must have been found present first, by a nil test on the
// same access path or by an error-checked Validate() whose summary covers it. Scope: the verified operations of the
// client and the auditor, document verification, and the message converters / validators of pkg/api/schema (which also
// run server side on requests).
func c16PeerMessages(c *Ctx, r string) {
	var fns []*ssa.Function
	for _, f := range c.allFns {
		if fnInPkgs(f, []string{"pkg/client", "pkg/client/auditor", "pkg/verification", "pkg/api/schema"}) {
			fns = append(fns, f)
		}
	}
	n := c.ruleMsgFieldsNilChecked(r, fns)
	if n < 100 {
		c.undecided(r, "floor", fmt.Sprintf("%d dereferences of sub-messages found in the client, the auditor, pkg/verification and pkg/api/schema (131 when the rule was armed)", n))
	}
}

// c16Run decides the bounds obligations of the given decoders (shared by C16 and, for the tx-record decoders, C09).
func c16Run(c *Ctx, pfx string, decoders []string, full bool) {
	r := pfx + "/bounds"
	byteScope := func(v ssa.Value) bool { return isByteSliceLike(v.Type()) }
	// proof verifiers index slices of digests / sub-proofs supplied by an untrusted server: every slice counts
	anyScope := func(v ssa.Value) bool {
		if isByteSliceLike(v.Type()) {
			return true
		}
		_, ok := v.Type().Underlying().(*types.Slice)
		return ok
	}
	ndec, nobl := 0, 0
	for _, name := range decoders {
		scope := byteScope
		if c16ProofVerifiers[name] {
			scope = anyScope
		}
		f := c.mustFn(r, name)
		if f == nil {
			continue
		}
		ndec++
		for _, g := range append([]*ssa.Function{f}, allAnon(f)...) {
			p := newProver(c, g)
			p.contracts = c16Contracts
			if rq, ok := c16Requires[fnName(g)]; ok {
				p.requires = requiresFacts(p, g, rq)
			}
			perKind := map[string]int{}
			// a single-result type assertion panics when the dynamic type differs: decoders use the comma-ok form
			nta := 0
			allInstrs(g, false, func(in ssa.Instruction) {
				ta, ok := in.(*ssa.TypeAssert)
				if !ok || ta.CommaOk {
					return
				}
				nta++
				nobl++
				construct := fmt.Sprintf("%s:type assertion#%d", fnName(g), nta)
				if reason, ok := c16SafeAssertions[construct]; ok {
					c.okTrivial(pfx+"/no-unchecked-type-assertion", construct, c.pos(in.Pos()), "confirmed by reading: "+reason)
					return
				}
				if mi, isMI := ta.X.(*ssa.MakeInterface); isMI && types.Identical(mi.X.Type(), ta.AssertedType) {
					c.ok(pfx+"/no-unchecked-type-assertion", construct, c.pos(in.Pos()), "asserts the type it was just built from")
					return
				}
				c.fail(pfx+"/no-unchecked-type-assertion", construct, c.pos(in.Pos()), "single-result type assertion to "+ta.AssertedType.String()+" on a value decided by the input: it panics instead of returning an error")
			})
			for _, o := range p.obligationsOf(scope) {
				nobl++
				perKind[o.what]++
				construct := fmt.Sprintf("%s:%s#%d", fnName(g), o.what, perKind[o.what])
				if o.what == "explicit panic" {
					c.fail(pfx+"/no-panic", construct, c.pos(o.in.Pos()), "explicit panic in a decoder of untrusted input")
					continue
				}
				ok, how := p.proveObl(o)
				if ok {
					c.ok(r, construct, c.pos(o.in.Pos()), how+": "+o.l.String()+" <= 0")
				} else {
					c.fail(r, construct, c.pos(o.in.Pos()), fmt.Sprintf("cannot establish `%s` from the checks that dominate this access: need %s <= 0", o.what, o.l.String()))
				}
			}
		}
	}
	// contracts of implementations
	for name, ct := range c16ContractImpls {
		f := c.mustFn(pfx+"/contract", name)
		if f == nil {
			continue
		}
		p := newProver(c, f)
		p.contracts = c16Contracts
		n := 0
		allInstrs(f, false, func(in ssa.Instruction) {
			rt, ok := in.(*ssa.Return)
			if !ok || retKind(rt) == "fail" || ct.ret >= len(rt.Results) {
				return
			}
			n++
			rv := unspill(rt.Results[ct.ret], rt)
			l := p.linOf(rv).add(p.lenOf(f.Params[ct.arg]), -1)
			facts := p.factsAt(in)
			okp := p.prove(l, facts) && p.linNonnegOrProven(p.linOf(rv), facts)
			c.check(okp, pfx+"/contract", fmt.Sprintf("%s:consumed<=len(input)#%d", name, n), c.pos(in.Pos()), "0 <= consumed <= len(input) on success: "+l.String()+" <= 0",
				"a decoder reports more bytes consumed than its input holds (callers advance their cursor by this amount): need "+l.String()+" <= 0")
		})
		if n == 0 {
			c.undecided(pfx+"/contract", name, "no successful return found")
		}
	}
	if full {
		c16Panics(c)
		c16RecvLoops(c, pfx)
		c16AllocRules(c, pfx)
		c16ValueLogID(c, pfx)
	}
	c16VersionGate(c, pfx)
	c.count("decoder_roots", ndec)
	c.count("bounds_obligations", nobl)
	if ndec < len(decoders) {
		c.Notes = append(c.Notes, "some decoder roots did not resolve")
	}
}

func (p *prover) linNonnegOrProven(l lin, facts []lin) bool {
	if p.linNonneg(l) {
		return true
	}
	return p.prove(newLin(0).add(l, -1), facts)
}

func allAnon(f *ssa.Function) []*ssa.Function {
	var out []*ssa.Function
	for _, a := range f.AnonFuncs {
		out = append(out, a)
		out = append(out, allAnon(a)...)
	}
	return out
}

// c16Discover prints, for every function of the decoder packages that slices/indexes byte data, how many
// obligations it has and how many are proven (used to build and review the frozen root list).
func c16Discover(c *Ctx, scope func(ssa.Value) bool) {
	type row struct {
		name          string
		total, proven int
		hasByteParam  bool
	}
	var rows []row
	for _, fn := range c.allFns {
		if len(fn.Blocks) == 0 {
			continue
		}
		p := newProver(c, fn)
		p.contracts = c16Contracts
		if rq, ok := c16Requires[fnName(fn)]; ok {
			p.requires = requiresFacts(p, fn, rq)
		}
		obls := p.obligationsOf(scope)
		if len(obls) == 0 {
			continue
		}
		rw := row{name: fnName(fn)}
		for _, prm := range fn.Params {
			if isByteSliceLike(prm.Type()) {
				rw.hasByteParam = true
			}
		}
		for _, o := range obls {
			rw.total++
			if o.what == "explicit panic" {
				continue
			}
			if ok, _ := p.proveObl(o); ok {
				rw.proven++
			} else if os.Getenv("C16_DISCOVER") == "v" {
				fmt.Printf("   UNPROVEN %s %s: %s: %s\n", rw.name, c.pos(o.in.Pos()), o.what, o.l.String())
			}
		}
		rows = append(rows, rw)
	}
	sort.Slice(rows, func(i, j int) bool { return rows[i].name < rows[j].name })
	for _, rw := range rows {
		fmt.Printf("%-90s byteParam=%v obligations=%d proven=%d\n", rw.name, rw.hasByteParam, rw.total, rw.proven)
	}
	_ = strings.Join
}

// c16Panics: explicit panics in functions statically reachable from the decoder roots.
func c16Panics(c *Ctx) {
	r := "C16/no-panic"
	seen := map[*ssa.Function]bool{}
	var owner = map[*ssa.Function]string{}
	for _, name := range c16Decoders {
		f := c.fn(name)
		if f == nil {
			continue
		}
		for g := range staticReach(f, 4, func(x *ssa.Function) bool {
			return !strings.Contains(x.String(), modPrefix) && x.Pkg != nil && !strings.HasPrefix(x.Pkg.Pkg.Path(), modPrefix)
		}) {
			if !seen[g] {
				seen[g] = true
				owner[g] = name
			}
		}
	}
	n := 0
	for g := range seen {
		if g.Pkg == nil || !strings.HasPrefix(g.Pkg.Pkg.Path(), modPrefix) {
			continue
		}
		for i, in := range sites(g, func(x ssa.Instruction) bool { _, ok := x.(*ssa.Panic); return ok }) {
			n++
			construct := fmt.Sprintf("%s:panic#%d", fnName(g), i)
			if !in.Pos().IsValid() {
				n--
				continue // synthesised by go/ssa (e.g. the unreachable tail of a blocking select)
			}
			if reason, ok := c16PanicExempt[fnName(g)]; ok {
				c.okTrivial(r, construct, c.pos(in.Pos()), "documented: "+reason)
				continue
			}
			c.fail(r, construct, c.pos(in.Pos()), "explicit panic reachable from decoder "+owner[g])
		}
	}
	c.count("reachable_functions_from_decoders", len(seen))
	c.count("explicit_panics_reachable", n)
}

var c16PanicExempt = map[string]string{
	"embedded/store.(*ImmuStore).performPrecommit": "header version is 0 or 1 here: ReplicateTx only proceeds after TxHeader.ReadFrom, which rejects other versions (checked below); local commits use the configured version",
}

// c16VersionGate: decoders of tx headers accept only the known header versions.
func c16VersionGate(c *Ctx, pfx string) {
	r := pfx + "/version-gate"
	for _, name := range []string{"embedded/store.(*TxHeader).ReadFrom", "embedded/store.(*txDataReader).readHeader"} {
		f := c.mustFn(r, name)
		if f == nil {
			continue
		}
		known := whenCond(true, func(a string) bool {
			return strings.Contains(a, "ersion") && (strings.Contains(a, "== const:0)") || strings.Contains(a, "== const:1)") || strings.HasPrefix(a, "(const:0 == ") || strings.HasPrefix(a, "(const:1 == "))
		})
		q := &pathQ{fn: f, fromEntry: true, to: func(in ssa.Instruction) bool {
			rt, ok := in.(*ssa.Return)
			return ok && retKind(rt) == "success"
		}, barrier: known}
		c.check(q.bypass() == nil, r, name+":unknown-version-rejected", c.pos(f.Pos()), "success requires Version == 0 or Version == 1", "a tx header with an unknown version is accepted (later code panics on it)")
	}
}

// c16RecvLoops: a receiver that keeps reading a chunk stream in a loop must not come back to Recv()
// after the stream reported io.EOF unless it consulted a flag it recorded on that EOF edge: a gRPC
// stream keeps answering io.EOF, so an iteration that neither returns nor looks at the flag repeats
// with the same state for ever (the "hang" half of the property, for the one shape that is visible
// in the code; general termination is not decided).
func c16RecvLoops(c *Ctx, pfx string) {
	r := pfx + "/recv-eof-leaves-loop"
	isRecv := func(in ssa.Instruction) bool {
		cc := callOf(in)
		if cc == nil {
			return false
		}
		if _, ok := in.(*ssa.Call); !ok {
			return false
		}
		if cc.IsInvoke() {
			return cc.Method.Name() == "Recv"
		}
		if f := cc.StaticCallee(); f != nil {
			return f.Name() == "Recv"
		}
		return false
	}
	isEOFAtom := func(a string) bool { return strings.Contains(a, "global:EOF") }
	n := 0
	for _, f := range c.allFns {
		if len(f.Blocks) == 0 {
			continue
		}
		recvs := sites(f, isRecv)
		if len(recvs) == 0 {
			continue
		}
		// EOF edges
		var eofEdges []cfgEdge
		for _, b := range f.Blocks {
			for si := range b.Succs {
				if whenCond(true, isEOFAtom)(b, si) {
					eofEdges = append(eofEdges, cfgEdge{b, si})
				}
			}
		}
		if len(eofEdges) == 0 {
			continue
		}
		// flags recorded on an EOF edge: fields stored inside the region the edge dominates
		flags := map[string]bool{}
		allInstrs(f, false, func(in ssa.Instruction) {
			st, ok := in.(*ssa.Store)
			if !ok {
				return
			}
			fl, _ := fieldOf(st.Addr)
			if fl == "" {
				return
			}
			for _, e := range eofEdges {
				if edgeDominates(e.b, e.succ, st.Block()) {
					flags[fl] = true
				}
			}
		})
		consult := func(a string) bool {
			for fl := range flags {
				if i := strings.LastIndex(fl, "."); i >= 0 && hasFieldSuffix(a, fl[i+1:]) {
					return true
				}
			}
			return false
		}
		q := &pathQ{fn: f, fromEdges: eofEdges, to: isRecv, barrier: anyEdge(whenCond(true, consult), whenCond(false, consult))}
		n++
		w := q.bypass()
		c.check(w == nil, r, fnName(f), c.pos(recvs[0].Pos()), fmt.Sprintf("after io.EOF no path returns to Recv() without a return or a test of the recorded flag %v (%d Recv sites, %d EOF edges)", sortedKeys(flags), len(recvs), len(eofEdges)),
			"after the stream reported io.EOF the function can call Recv() again without returning and without consulting the end-of-stream flag: on a truncated stream this loop never ends: "+c.witnessStr(w))
	}
	c.count("recv_loops", n)
	for _, must := range []string{"pkg/stream.(*msgReceiver).Read", "pkg/stream.(*msgReceiver).ReadFully"} {
		if _, ok := c.seen[r+":"+must]; !ok {
			c.undecided(r, must, "the chunk-stream receiver loop was not found (confirmed by hand on the pinned tree)")
		}
	}
}

// ---- allocation bounded ---------------------------------------------------------------------------------------

// isWideDecode: a call that produces an integer of 32 bits or more out of untrusted bytes
func isWideDecode(v ssa.Value) bool {
	call, ok := v.(*ssa.Call)
	if !ok {
		return false
	}
	n := calleeName(&call.Call)
	switch n {
	case "encoding/binary.(bigEndian).Uint32", "encoding/binary.(bigEndian).Uint64", "encoding/binary.(littleEndian).Uint32", "encoding/binary.(littleEndian).Uint64",
		"embedded/appendable.(*Reader).ReadUint32", "embedded/appendable.(*Reader).ReadUint64":
		return true
	}
	return false
}

func isNarrowDecode(v ssa.Value) bool {
	call, ok := v.(*ssa.Call)
	if !ok {
		return false
	}
	n := calleeName(&call.Call)
	return strings.HasSuffix(n, "ndian).Uint16") || n == "embedded/appendable.(*Reader).ReadUint16"
}

// allocSites lists, for every function of the loaded repository packages, the make([]T, n) whose n derives from a
// wide decoded integer, and whether an ordering comparison on a value derived from the same decode dominates it.
func (c *Ctx) allocSites(visit func(f *ssa.Function, mk *ssa.MakeSlice, ord int, bounded bool, how string)) {
	for _, f := range c.allFns {
		if len(f.Blocks) == 0 {
			continue
		}
		ord := 0
		for _, b := range f.Blocks {
			for _, in := range b.Instrs {
				mk, ok := in.(*ssa.MakeSlice)
				if !ok {
					continue
				}
				var src ssa.Value
				if !dependsOn(mk.Len, func(v ssa.Value) bool {
					if isWideDecode(v) {
						src = v
						return true
					}
					return false
				}) {
					continue
				}
				bounded, how := false, ""
				for _, bb := range f.Blocks {
					if len(bb.Instrs) == 0 {
						continue
					}
					ifi, ok := bb.Instrs[len(bb.Instrs)-1].(*ssa.If)
					if !ok {
						continue
					}
					for _, leaf := range boolLeaves(ifi.Cond) {
						bo, ok := leaf.(*ssa.BinOp)
						if !ok || (bo.Op != token.LSS && bo.Op != token.GTR && bo.Op != token.LEQ && bo.Op != token.GEQ) {
							continue
						}
						onSrc := func(v ssa.Value) bool { return v == src }
						if !dependsOn(bo.X, onSrc) && !dependsOn(bo.Y, onSrc) {
							continue
						}
						for si := range bb.Succs {
							if edgeDominates(bb, si, mk.Block()) {
								bounded, how = true, c.pos(ifi.Pos())+": "+desc(bo)
							}
						}
					}
				}
				visit(f, mk, ord, bounded, how)
				ord++
			}
		}
	}
}

func init() {
	register("DBGALLOC", &propDef{patterns: props0("C16"), run: func(c *Ctx) {
		c.allocSites(func(f *ssa.Function, mk *ssa.MakeSlice, ord int, bounded bool, how string) {
			fmt.Printf("ALLOC %s#%d %s bounded=%v %s | len=%s\n", fnName(f), ord, c.pos(mk.Pos()), bounded, how, desc(mk.Len))
		})
	}})
}

// signConvSites: conversions of a decoded unsigned 64-bit integer to a signed integer (the result is negative when
// the top bit is set) and whether an ordering comparison on the decoded value or on the converted one dominates
// any use as a length/index.
func (c *Ctx) signConvSites(visit func(f *ssa.Function, cv *ssa.Convert, ord int, bounded bool, how string)) {
	for _, f := range c.allFns {
		ord := 0
		for _, b := range f.Blocks {
			for _, in := range b.Instrs {
				cv, ok := in.(*ssa.Convert)
				if !ok || !isWideDecode(cv.X) {
					continue
				}
				from, ok1 := cv.X.Type().Underlying().(*types.Basic)
				to, ok2 := cv.Type().Underlying().(*types.Basic)
				if !ok1 || !ok2 || from.Kind() != types.Uint64 || to.Kind() != types.Int {
					continue
				}
				bounded, how := false, ""
				for _, bb := range f.Blocks {
					if len(bb.Instrs) == 0 {
						continue
					}
					ifi, ok := bb.Instrs[len(bb.Instrs)-1].(*ssa.If)
					if !ok {
						continue
					}
					for _, leaf := range boolLeaves(ifi.Cond) {
						bo, ok := leaf.(*ssa.BinOp)
						if !ok || (bo.Op != token.LSS && bo.Op != token.GTR && bo.Op != token.LEQ && bo.Op != token.GEQ) {
							continue
						}
						on := func(v ssa.Value) bool { return v == cv.X }
						if dependsOn(bo.X, on) || dependsOn(bo.Y, on) {
							bounded, how = true, c.pos(ifi.Pos())+": "+desc(bo)
						}
					}
				}
				visit(f, cv, ord, bounded, how)
				ord++
			}
		}
	}
}

func init() {
	register("DBGCONV", &propDef{patterns: props0("C16"), run: func(c *Ctx) {
		c.signConvSites(func(f *ssa.Function, cv *ssa.Convert, ord int, bounded bool, how string) {
			fmt.Printf("CONV %s#%d %s bounded=%v %s\n", fnName(f), ord, c.pos(cv.Pos()), bounded, how)
		})
	}})
}

// c16ValueLogID: value offsets are read from the tx log and are not covered by any hash; the value-log id in their top
// byte selects an entry of the map ImmuStore.vLogs, whose elements are pointers: a lookup with an id that is not in the
// map yields nil and the field access that follows panics. Every such lookup in fetchVLog is preceded by the comma-ok form.
func c16ValueLogID(c *Ctx, pfx string) {
	r := pfx + "/decoded-map-key-checked"
	f := c.mustFn(r, storeT+"fetchVLog")
	if f == nil {
		return
	}
	n := 0
	var oks []*ssa.Lookup
	allInstrs(f, false, func(in ssa.Instruction) {
		if lk, ok := in.(*ssa.Lookup); ok && lk.CommaOk && hasFieldSuffix(desc(lk.X), "vLogs") {
			oks = append(oks, lk)
		}
	})
	allInstrs(f, false, func(in ssa.Instruction) {
		lk, ok := in.(*ssa.Lookup)
		if !ok || lk.CommaOk || !hasFieldSuffix(desc(lk.X), "vLogs") {
			return
		}
		if _, isConst := lk.Index.(*ssa.Const); isConst {
			return
		}
		n++
		guarded := false
		for _, g := range oks {
			if desc(g.Index) != desc(lk.Index) {
				continue
			}
			// the ok == true edge dominates the lookup
			for _, ref := range *g.Referrers() {
				ex, isEx := ref.(*ssa.Extract)
				if !isEx || ex.Index != 1 {
					continue
				}
				for _, r2 := range *ex.Referrers() {
					if ifi, isIf := r2.(*ssa.If); isIf && edgeDominates(ifi.Block(), 0, lk.Block()) {
						guarded = true
					}
					if u, isNot := r2.(*ssa.UnOp); isNot && u.Op == token.NOT {
						for _, r3 := range *u.Referrers() {
							if ifi, isIf := r3.(*ssa.If); isIf && edgeDominates(ifi.Block(), 1, lk.Block()) {
								guarded = true
							}
						}
					}
				}
			}
		}
		c.check(guarded, r, fmt.Sprintf("%s:vLogs[%s]#%d", fnName(f), desc(lk.Index), n), c.pos(lk.Pos()), "dominated by the ok edge of a comma-ok lookup with the same key", "s.vLogs["+desc(lk.Index)+"] is dereferenced without a check that the value log exists: a damaged value offset makes the reader panic")
	})
	if n == 0 {
		c.undecided(r, fnName(f)+":lookups", "no lookup of the value-log map with a decoded id found")
	}
}

// exemptions of the allocation / sign rules: one named function each, with the reason
var c16AllocExempt = map[string]string{
	"embedded/appendable/remoteapp.(*remoteStorageReader).readAtCompressedFrame": "reader of objects in remote (S3) storage: not one of the components the property lists (on-disk logs), and the reader does not know the object size; same shape as the repaired singleapp.ReadAt",
}

func init() {
	c16AllocExempt["cmd/immuadmin/command.nextTx"] = "immuadmin hot-backup restore (seen by the whole-program load only): parses a backup file picked by the operator, not one of the components the property lists"
}

var c16SignExempt = map[string]string{
	"embedded/appendable.(*Metadata).GetInt": "accessor: returns the stored integer as is; the consumers validate it (multiapp: C16/metadata-limits; store: tx-pool option validation refuses non-positive limits; tbtree: requiredNodeSize comparison)",
}

func c16AllocRules(c *Ctx, pfx string) {
	r := pfx + "/alloc-bounded"
	n := 0
	c.allocSites(func(f *ssa.Function, mk *ssa.MakeSlice, ord int, bounded bool, how string) {
		n++
		key := fmt.Sprintf("%s:make#%d", fnName(f), ord)
		if why, ok := c16AllocExempt[fnName(f)]; ok {
			c.okTrivial(r, key, c.pos(mk.Pos()), "exempt: "+why)
			return
		}
		c.check(bounded, r, key, c.pos(mk.Pos()), "length derives from a decoded 32/64-bit integer and is compared first: "+how,
			"make([]T, n) with n taken from a decoded 32/64-bit integer ("+desc(mk.Len)+") and no ordering comparison on that integer dominates the allocation: one damaged length field allocates gigabytes")
	})
	c.count("decoded_length_allocations", n)
	if n < 8 {
		c.undecided(r, "floor", fmt.Sprintf("only %d allocations driven by a decoded length found (12 confirmed by hand)", n))
	}
	r = pfx + "/decoded-length-sign"
	m := 0
	c.signConvSites(func(f *ssa.Function, cv *ssa.Convert, ord int, bounded bool, how string) {
		m++
		key := fmt.Sprintf("%s:int(uint64)#%d", fnName(f), ord)
		if why, ok := c16SignExempt[fnName(f)]; ok {
			c.okTrivial(r, key, c.pos(cv.Pos()), "exempt: "+why)
			return
		}
		c.check(bounded, r, key, c.pos(cv.Pos()), "the decoded value is range-checked: "+how,
			"a decoded uint64 is converted to int (negative when the top bit is set) and never compared: lengths and indices computed from it can be negative (makeslice / slice bounds panic)")
	})
	if m < 3 {
		c.undecided(r, "floor", fmt.Sprintf("only %d int(uint64) conversions of decoded values found (4 confirmed by hand)", m))
	}
	// the chunk size read back from a chunk header is validated before use (division by it, rotation arithmetic)
	r = pfx + "/metadata-limits"
	if f := c.mustFn(r, "embedded/appendable/multiapp.OpenWithHooks"); f != nil {
		pos := whenCond(true, func(a string) bool { return strings.Contains(a, "const:0 < ") && strings.Contains(a, "GetInt") })
		okE := whenCond(true, func(a string) bool {
			return strings.Contains(a, "GetInt") && !strings.Contains(a, "<") && !strings.Contains(a, "==")
		})
		for name, e := range map[string]edgePred{"fileSize>0": pos, "FILE_SIZE present": okE} {
			q := &pathQ{fn: f, fromEntry: true, to: successReturn, barrier: e}
			w := q.bypass()
			c.check(w == nil, r, fnName(f)+":"+name, c.pos(f.Pos()), "every successful open crosses the "+name+" edge", "a multi-file appendable can be opened without "+name+" (ReadAt/SetOffset divide by the chunk size): "+c.witnessStr(w))
		}
	}
}

// c16ReadLoopsEnd: termination on every input. The SQL lexer reads its input one byte at a time in `for {}` loops whose
// only way out on a truncated input (unterminated comment, string, ...) is the reader's error: the ahead-reader keeps
// answering (0, io.EOF) for ever, so a loop that goes on after it has SEEN the error never ends. Rule: from every edge on
// which the error of a read is known to be non-nil (err != nil, err == io.EOF), the same read is not reached again, except
// through another read whose error is examined (that one then decides).
func c16ReadLoopsEnd(c *Ctx, r string) {
	isRead := callTo("embedded/sql.(*aheadByteReader).ReadByte", "embedded/sql.(*aheadByteReader).NextByte")
	errOf := func(in ssa.Instruction) ssa.Value {
		call, ok := in.(*ssa.Call)
		if !ok {
			return nil
		}
		for _, rf := range *call.Referrers() {
			if ex, ok := rf.(*ssa.Extract); ok && ex.Index == 1 {
				for _, u := range *ex.Referrers() {
					if _, dbg := u.(*ssa.DebugRef); !dbg {
						return ex
					}
				}
			}
		}
		return nil
	}
	n := 0
	for _, f := range c.allFns {
		if !fnInPkgs(f, []string{"embedded/sql"}) || len(f.Blocks) == 0 {
			continue
		}
		reads := sites(f, isRead)
		if len(reads) == 0 {
			continue
		}
		checked := map[*ssa.BasicBlock]ssa.Instruction{}
		for _, in := range reads {
			if errOf(in) != nil {
				if _, dup := checked[in.Block()]; !dup {
					checked[in.Block()] = in
				}
			}
		}
		k := 0
		for _, in := range reads {
			ev := errOf(in)
			if ev == nil || !reaches2(in.Block(), in.Block()) {
				continue // error discarded (the byte is a look-ahead already examined) or not in a loop
			}
			k++
			n++
			// edges on which ev is known non-nil
			var bad string
			for _, b := range f.Blocks {
				if len(b.Instrs) == 0 {
					continue
				}
				ifi, ok := b.Instrs[len(b.Instrs)-1].(*ssa.If)
				if !ok {
					continue
				}
				bo, ok := ifi.Cond.(*ssa.BinOp)
				if !ok || (bo.X != ev && bo.Y != ev) {
					continue
				}
				succ := 0
				if bo.Op == token.NEQ {
					other := bo.Y
					if bo.Y == ev {
						other = bo.X
					}
					if cst, isC := other.(*ssa.Const); !(isC && cst.IsNil()) {
						continue // err != io.EOF: true edge says nothing
					}
				} else if bo.Op == token.EQL {
					other := bo.Y
					if bo.Y == ev {
						other = bo.X
					}
					if cst, isC := other.(*ssa.Const); isC && cst.IsNil() {
						succ = 1
					}
				} else {
					continue
				}
				// search from the edge
				seen := map[*ssa.BasicBlock]bool{}
				work := []*ssa.BasicBlock{b.Succs[succ]}
				for len(work) > 0 && bad == "" {
					x := work[0]
					work = work[1:]
					if seen[x] {
						continue
					}
					seen[x] = true
					if x == in.Block() {
						bad = c.pos(bo.Pos())
						if bad == "" {
							bad = "block " + fmt.Sprint(b.Index)
						}
						break
					}
					if _, stop := checked[x]; stop {
						continue
					}
					work = append(work, x.Succs...)
				}
			}
			construct := fmt.Sprintf("%s:read#%d:not-read-again-after-its-error", fnName(f), k)
			c.check(bad == "", r, construct, c.pos(in.Pos()), "once the read has failed (end of input included) the loop is left", "after the read has failed (condition at "+bad+") the loop goes on and reads again: the reader answers io.EOF for ever, the lexer never returns on an input that ends here")
		}
	}
	if n < 5 {
		c.undecided(r, "floor", fmt.Sprintf("%d error-checked reads inside loops found in the SQL lexer, 5+ expected", n))
	}
}

// reaches2: b2 is reachable from a successor of b1 (so reaches2(b,b) means b lies on a cycle).
func reaches2(b1, b2 *ssa.BasicBlock) bool {
	seen := map[*ssa.BasicBlock]bool{}
	work := append([]*ssa.BasicBlock{}, b1.Succs...)
	for len(work) > 0 {
		x := work[0]
		work = work[1:]
		if x == b2 {
			return true
		}
		if seen[x] {
			continue
		}
		seen[x] = true
		work = append(work, x.Succs...)
	}
	return false
}

// c16NoNilNil: a constructor-like function of the storage layers that answers (nil, nil) hands its caller a nil it
// has no reason to test (the error was nil): the next method call on it is a nil dereference. Decided per function:
// a return whose first result is nil and whose error is nil on the same incoming path.
var c16NilNilAllowed = map[string]string{
	"embedded/tbtree.Open": "t is nil at `return t, nil` only on paths where discardSnapshotsFolder was set, and those `continue` before the return (correlated flag, confirmed by reading)",
}

func c16NoNilNil(c *Ctx, r string, pkgs []string) {
	n := 0
	for _, f := range c.allFns {
		if !fnInPkgs(f, pkgs) || len(f.Blocks) == 0 || f.Synthetic != "" {
			continue
		}
		res := f.Signature.Results()
		if res.Len() != 2 || res.At(1).Type().String() != "error" {
			continue
		}
		switch res.At(0).Type().Underlying().(type) {
		case *types.Interface, *types.Pointer:
		default:
			continue
		}
		n++
		var bad []string
		for _, b := range f.Blocks {
			if len(b.Instrs) == 0 {
				continue
			}
			rt, ok := b.Instrs[len(b.Instrs)-1].(*ssa.Return)
			if !ok || len(rt.Results) != 2 {
				continue
			}
			if nilOnSamePath(rt.Results[0], rt.Results[1], b, 0) || (isNilConst(rt.Results[0]) && knownNilAt(rt.Results[1], b)) {
				bad = append(bad, c.pos(rt.Pos()))
			}
		}
		if _, okA := c16NilNilAllowed[fnName(f)]; okA {
			continue
		}
		c.check(len(bad) == 0, r, fnName(f), c.pos(f.Pos()), "never answers (nil, nil)", "can answer (nil, nil) (return at "+strings.Join(bad, ", ")+"): the caller sees no error and calls a method on nil")
	}
	if n == 0 {
		c.undecided(r, "floor", "no function examined")
	}
}

// nilOnSamePath: values a and b (as seen at the end of block at) can both be nil along one incoming path.
func nilOnSamePath(a, b ssa.Value, at *ssa.BasicBlock, depth int) bool {
	isNil := func(v ssa.Value) bool {
		cst, ok := v.(*ssa.Const)
		return ok && cst.IsNil()
	}
	if depth > 6 {
		return false
	}
	pa, aPhi := a.(*ssa.Phi)
	pb, bPhi := b.(*ssa.Phi)
	switch {
	case isNil(a) && isNil(b):
		return true
	case aPhi && bPhi && pa.Block() == pb.Block():
		for i := range pa.Edges {
			if nilOnSamePath(pa.Edges[i], pb.Edges[i], pa.Block().Preds[i], depth+1) {
				return true
			}
		}
	case aPhi && isNil(b):
		for i := range pa.Edges {
			if nilOnSamePath(pa.Edges[i], b, pa.Block().Preds[i], depth+1) {
				return true
			}
		}
	case bPhi && isNil(a):
		for i := range pb.Edges {
			if nilOnSamePath(a, pb.Edges[i], pb.Block().Preds[i], depth+1) {
				return true
			}
		}
	}
	return false
}

// c16InnerNodeNotEmpty: every method of an inner node of the index tree addresses nodes[0] / nodes[indexOf(key)] without
// looking at len(nodes): "an inner node has at least one child" is an invariant of the tree, established by whoever
// builds the node. The writer never produces an empty inner node; the reader of the nodes log has to refuse one
// (a zeroed region of the file decodes as node type 0 = inner, 0 children).
func c16InnerNodeNotEmpty(c *Ctx, r string) {
	n := 0
	for _, f := range c.allFns {
		if !fnInPkgs(f, []string{"embedded/tbtree"}) || len(f.Blocks) == 0 {
			continue
		}
		var count ssa.Value
		allInstrs(f, false, func(in ssa.Instruction) {
			st, ok := in.(*ssa.Store)
			if !ok {
				return
			}
			if fl, _ := fieldOf(st.Addr); fl != "innerNode.nodes" {
				return
			}
			ms, ok := st.Val.(*ssa.MakeSlice)
			if !ok {
				return
			}
			dependsOn(ms.Len, func(v ssa.Value) bool {
				if ex, ok := v.(*ssa.Extract); ok {
					if cl, ok := ex.Tuple.(*ssa.Call); ok && strings.Contains(calleeName(&cl.Call), "appendable.(*Reader).Read") {
						count = ex
						return true
					}
				}
				return false
			})
		})
		if count == nil {
			continue
		}
		n++
		cd := desc(count)
		nonZero := anyEdge(
			whenCond(false, func(a string) bool { return strings.Contains(a, cd) && strings.Contains(a, " == ") && strings.Contains(a, "const:0") }),
			whenCond(true, func(a string) bool { return strings.HasPrefix(a, "(const:0 < ") && strings.Contains(a, cd) }),
			whenCond(false, func(a string) bool { return strings.Contains(a, cd) && strings.HasSuffix(a, " < const:1)") }),
		)
		q := &pathQ{fn: f, fromEntry: true, to: successReturn, barrier: nonZero}
		construct := fnName(f) + ":decoded-child-count-is-not-zero"
		if w := q.bypass(); w != nil {
			c.fail(r, construct, c.pos(f.Pos()), "an inner node is built from the child count read from the nodes log ("+cd+") without refusing 0: the node's methods address nodes[0], a zeroed region of the file makes the next lookup panic with index out of range")
		} else {
			c.ok(r, construct, c.pos(f.Pos()), "a child count of 0 never reaches a successful return")
		}
	}
	if n == 0 {
		c.undecided(r, "floor", "the decoder of inner nodes was not found")
	}
}

// c16DecodedCountBoundsAllocation: memory. A 4- or 8-byte count or length decoded from the input sizes an allocation
// (make of a slice or a map): 2^32 announced elements are a multi-gigabyte allocation made before a single element was
// looked at. Rule: such a size is compared with something on an edge that dominates the allocation (the limit itself is
// the author's: remaining input, a configured maximum, ...).
var c16AllocAllowed = map[string]string{}

func c16DecodedCountBoundsAllocation(c *Ctx, r string) {
	wide := func(v ssa.Value) ssa.Value {
		var src ssa.Value
		dependsOn(v, func(x ssa.Value) bool {
			cl, ok := x.(*ssa.Call)
			if !ok {
				if ex, okE := x.(*ssa.Extract); okE {
					if cl2, ok2 := ex.Tuple.(*ssa.Call); ok2 {
						n := calleeName(&cl2.Call)
						if ex.Index == 0 && (strings.HasSuffix(n, "appendable.(*Reader).ReadUint32") || strings.HasSuffix(n, "appendable.(*Reader).ReadUint64")) {
							src = x
							return true
						}
					}
				}
				return false
			}
			n := calleeName(&cl.Call)
			if strings.HasSuffix(n, "Endian).Uint32") || strings.HasSuffix(n, "Endian).Uint64") {
				src = x
				return true
			}
			return false
		})
		return src
	}
	n := 0
	for _, f := range c.allFns {
		if tp := topFn(f).Pkg; tp == nil || !strings.HasPrefix(tp.Pkg.Path(), modPrefix) || len(f.Blocks) == 0 {
			continue
		}
		if fn := c.Fset.Position(f.Pos()).Filename; strings.HasSuffix(fn, ".pb.go") || strings.HasSuffix(fn, ".pb.gw.go") || strings.HasSuffix(fn, "_test.go") {
			continue
		}
		k := 0
		allInstrs(f, false, func(in ssa.Instruction) {
			var size ssa.Value
			switch x := in.(type) {
			case *ssa.MakeSlice:
				size = x.Len
				if wide(x.Cap) != nil && wide(x.Len) == nil {
					size = x.Cap
				}
			case *ssa.MakeMap:
				size = x.Reserve
			}
			if size == nil {
				return
			}
			src := wide(size)
			if src == nil {
				return
			}
			k++
			n++
			construct := fmt.Sprintf("%s:allocation#%d", fnName(f), k)
			if _, okA := c16AllocAllowed[construct]; okA {
				return
			}
			// a comparison mentioning the decoded value (or the size computed from it) on an edge dominating the allocation
			guarded := false
			ds, dz := strings.TrimPrefix(desc(src), "convert:"), strings.TrimPrefix(desc(size), "convert:")
			for _, b := range f.Blocks {
				if len(b.Instrs) == 0 {
					continue
				}
				ifi, ok := b.Instrs[len(b.Instrs)-1].(*ssa.If)
				if !ok {
					continue
				}
				if !(edgeDominates(b, 0, in.Block()) || edgeDominates(b, 1, in.Block())) {
					continue
				}
				for _, leaf := range boolLeaves(ifi.Cond) {
					bo, ok := leaf.(*ssa.BinOp)
					if !ok {
						continue
					}
					switch bo.Op {
					case token.LSS, token.GTR, token.LEQ, token.GEQ:
					default:
						continue
					}
					d := desc(leaf)
					if strings.Contains(d, ds) || strings.Contains(d, dz) || dependsOn(bo.X, func(v ssa.Value) bool { return v == src }) || dependsOn(bo.Y, func(v ssa.Value) bool { return v == src }) {
						guarded = true
					}
				}
			}
			c.check(guarded, r, construct, c.pos(in.Pos()), "the decoded size is compared with a limit before it sizes the allocation",
				"an allocation is sized by "+desc(size)+", a 32/64-bit number taken from the input, and nothing compares it with a limit first: a few bytes of input ask for gigabytes")
		})
	}
	if n < 3 {
		c.undecided(r, "floor", fmt.Sprintf("%d allocations sized by a decoded 32/64-bit number found", n))
	}
}

func isNilConst(v ssa.Value) bool {
	cst, ok := v.(*ssa.Const)
	return ok && cst.IsNil()
}

// knownNilAt: block at is dominated by an edge on which `v == nil` holds (v is not a constant: the error variable of a
// `for err == nil { ... return nil, err ... }` loop).
func knownNilAt(v ssa.Value, at *ssa.BasicBlock) bool {
	if v == nil || v.Referrers() == nil {
		return false
	}
	for _, rf := range *v.Referrers() {
		bo, ok := rf.(*ssa.BinOp)
		if !ok || (bo.Op != token.EQL && bo.Op != token.NEQ) {
			continue
		}
		other := bo.Y
		if bo.Y == v {
			other = bo.X
		}
		if !isNilConst(other) {
			continue
		}
		for _, r2 := range *bo.Referrers() {
			ifi, ok := r2.(*ssa.If)
			if !ok {
				continue
			}
			succ := 0
			if bo.Op == token.NEQ {
				succ = 1
			}
			if edgeDominates(ifi.Block(), succ, at) {
				return true
			}
		}
	}
	return false
}

// c16TxRecordWithinLog: the commit log tells where a transaction lies in the transaction log (offset, size). Only its
// last entry is validated when the store is opened; the size of any other entry sizes the read buffer of the
// transaction. It is compared with what the transaction log holds before a reader is built from it.
func c16TxRecordWithinLog(c *Ctx, r string) {
	f := c.mustFn(r, storeT+"appendableReaderForTx")
	if f == nil {
		return
	}
	src := sites(f, callTo(storeT+"txOffsetAndSize"))
	mk := callTo("embedded/appendable.NewReaderFrom")
	if len(src) == 0 || len(sites(f, mk)) == 0 {
		c.undecided(r, fnName(f)+":sites", "txOffsetAndSize / NewReaderFrom not found")
		return
	}
	fromCLog := func(v ssa.Value) bool {
		return dependsOn(v, func(x ssa.Value) bool {
			ex, ok := x.(*ssa.Extract)
			if !ok {
				return false
			}
			cl, ok := ex.Tuple.(*ssa.Call)
			return ok && calleeName(&cl.Call) == storeT+"txOffsetAndSize"
		})
	}
	fromLogSize := func(v ssa.Value) bool {
		return dependsOn(v, func(x ssa.Value) bool {
			ex, ok := x.(*ssa.Extract)
			if !ok {
				return false
			}
			cl, ok := ex.Tuple.(*ssa.Call)
			return ok && cl.Call.IsInvoke() && cl.Call.Method.Name() == "Size"
		})
	}
	cmp := func(in ssa.Instruction) bool {
		bo, ok := in.(*ssa.BinOp)
		if !ok {
			return false
		}
		switch bo.Op {
		case token.LSS, token.GTR, token.LEQ, token.GEQ:
		default:
			return false
		}
		return (fromCLog(bo.X) && fromLogSize(bo.Y)) || (fromCLog(bo.Y) && fromLogSize(bo.X))
	}
	q := &pathQ{fn: f, from: src, to: mk, via: cmp, barrier: errEdgeOf(src[0])}
	if w := q.bypass(); w != nil {
		c.fail(r, fnName(f)+":size-compared-with-the-log", c.pos(src[0].Pos()), "the size found in a commit-log entry reaches the reader of the transaction (which allocates it) without having been compared with the size of the transaction log: "+c.witnessStr(w))
	} else {
		c.ok(r, fnName(f)+":size-compared-with-the-log", c.pos(src[0].Pos()), "offset and size of the record are compared with the size of the transaction log first")
	}
}
