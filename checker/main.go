package main

import (
	"flag"
	"fmt"
	"os"
	"sort"
	"strconv"
	"time"
)

type propDef struct {
	patterns    []string // packages loaded in the quick tier
	run         func(c *Ctx)
	explanation string
	assumptions []string
}

var props = map[string]*propDef{}

func register(id string, p *propDef) { props[id] = p }

func main() {
	prop := flag.String("property", "", "property id (C01..C19)")
	tier := flag.String("tier", os.Getenv("VERIF_TIER"), "quick|thorough")
	repo := flag.String("repo", "/repo", "repository root")
	verif := flag.String("verif", "/verif", "verif root")
	seed := flag.Int("seed", 0, "seed (unused: the analysis is deterministic)")
	replay := flag.String("replay", "", "pretty-print a recorded violation")
	list := flag.Bool("list", false, "list properties")
	overlay := flag.String("overlay", "", "JSON file {path: replacement path} applied as a go/packages overlay (fixture self-test)")
	noEvidence := flag.Bool("no-evidence", false, "do not write evidence (fixture self-test runs)")
	flag.Parse()
	if *list {
		var ids []string
		for k := range props {
			ids = append(ids, k)
		}
		sort.Strings(ids)
		for _, k := range ids {
			fmt.Println(k)
		}
		return
	}
	if *replay != "" {
		b, err := os.ReadFile(*replay)
		if err != nil {
			fmt.Println(err)
			os.Exit(2)
		}
		fmt.Println(string(b))
		return
	}
	if *tier == "" {
		*tier = "quick"
	}
	if s := os.Getenv("VERIF_SEED"); s != "" && *seed == 0 {
		if n, err := strconv.Atoi(s); err == nil {
			*seed = n
		}
	}
	pd, ok := props[*prop]
	if !ok {
		fmt.Printf("unknown property %q\n", *prop)
		os.Exit(2)
	}
	c := &Ctx{Prop: *prop, Tier: *tier, Seed: *seed, Repo: *repo, Verif: *verif,
		seen: map[string]*Obl{}, Analysed: map[string]int{}, start: time.Now(),
		Explanation: pd.explanation, Assumptions: pd.assumptions}
	if *overlay != "" {
		if err := c.readOverlay(*overlay); err != nil {
			fmt.Println("overlay:", err)
			os.Exit(2)
		}
	}
	// watchdog: an analysis that does not terminate is a checker bug, reported as such
	limit := 15 * time.Minute
	if c.Tier == "thorough" {
		limit = 60 * time.Minute
	}
	time.AfterFunc(limit, func() {
		fmt.Printf("UNDECIDED checker/timeout:%s: analysis did not finish within %s\n", c.Prop, limit)
		fmt.Printf("VIOLATION property=%s replay=%s\n", c.Prop, "/verif/out/"+c.Prop+"/timeout")
		os.Exit(1)
	})
	code := runProp(c, pd)
	if *noEvidence {
		// fixture self-test: print failing obligation keys only
		for _, o := range c.Obls {
			if o.Status != "ok" {
				fmt.Printf("FIRED %s | %s | %s\n", o.Key, o.Pos, o.Detail)
			}
		}
		os.Exit(0)
	}
	if c.Tier == "thorough" {
		runThoroughExtras(c, pd)
	}
	if code == 0 {
		code = c.finish()
	} else {
		c.finish()
	}
	os.Exit(code)
}

func runProp(c *Ctx, pd *propDef) (code int) {
	defer func() {
		if r := recover(); r != nil {
			c.undecided("checker/panic", c.Prop, fmt.Sprint(r))
			code = 0
		}
	}()
	patterns := pd.patterns
	if c.Tier == "thorough" {
		patterns = []string{"./embedded/...", "./pkg/...", "./cmd/..."}
	}
	c.variants = append(c.variants, "linux/amd64")
	if err := c.load(patterns...); err != nil {
		c.undecided("load", c.Prop, err.Error())
		return 0
	}
	pd.run(c)
	return 0
}
