package main

import (
	"fmt"
	"go/constant"
	"go/token"
	"go/types"
	"strings"

	"golang.org/x/tools/go/ssa"
)

// functions of embedded/store that hand a held lock to their caller (released by the named counterpart)
var storeReturnsHolding = map[string]string{
	storeT + "fetchVLog:ImmuStore.singleVLogMu/W":       "single value-log fast path: released by releaseVLog",
	storeT + "fetchAnyVLog:ImmuStore.singleVLogMu/W":    "single value-log fast path: released by releaseVLog",
	storeT + "fetchVLog:ImmuStore.commitStateRWMutex/W": "embedded values: the tx log is handed out under the commit-state lock; released by releaseVLog",
}

func c14(c *Ctx) {
	c14CutOffset(c, "C14.5/cut-offset-is-the-first-value-of-the-tx")
	c14CatalogCopyComplete(c, "C14.6/catalog-copy-covers-every-persisted-kind")
	// the transaction committed by the catalog copy is the only one carrying the "truncated up to" attribute: a header
	// converted without it hashes to another Alh, no proof through that transaction verifies (shared with C15.12)
	c15ValueUsedOnSuccessOnly(c, "C14.7/truncation-attribute-is-converted", func(f *ssa.Function) bool {
		return fnInPkgs(f, []string{"pkg/api/schema"}) && strings.HasSuffix(c.Fset.Position(f.Pos()).Filename, "database_protoconv.go")
	}, 0)
	if f := c.mustFn("C14.7/truncation-attribute-is-converted", "pkg/api/schema.TxMetadataToProto"); f != nil {
		ok := false
		for _, st := range sites(f, storeTo("TxMetadata.TruncatedTxID")) {
			if dependsOn(st.(*ssa.Store).Val, func(v ssa.Value) bool {
				ex, isEx := v.(*ssa.Extract)
				if !isEx {
					return false
				}
				cl, isCall := ex.Tuple.(*ssa.Call)
				return isCall && strings.HasSuffix(calleeName(&cl.Call), "(*TxMetadata).GetTruncatedTxID")
			}) {
				ok = true
			}
		}
		c.check(ok, "C14.7/truncation-attribute-is-converted", fnName(f)+":TruncatedTxID<-GetTruncatedTxID", c.pos(f.Pos()), "the message's TruncatedTxID is what GetTruncatedTxID answers", "TxMetadataToProto no longer stores the value of GetTruncatedTxID into the message")
	}
	// ---- C14.1 lock pairing in the store (ExportTx in particular) -------------------------------------
	c.rulePairing("C14.1/lock-pairing", []string{"embedded/store"}, storeReturnsHolding)
	// every fetchVLog is paired with a releaseVLog on all paths
	r := "C14.1/vlog-release"
	nfetch := 0
	for _, fn := range c.allFns {
		if !fnInPkgs(fn, []string{"embedded/store"}) {
			continue
		}
		for i, in := range sites(fn, callTo(storeT+"fetchVLog", storeT+"fetchAnyVLog")) {
			nfetch++
			construct := fmt.Sprintf("%s:fetch#%d", fnName(fn), i)
			rel := callTo(storeT + "releaseVLog")
			q := &pathQ{fn: fn, from: []ssa.Instruction{in}, to: isReturn, via: rel, deferVia: true, barrier: errEdgeOf(in)}
			if w := q.bypass(); w != nil {
				c.fail(r, construct, c.pos(in.Pos()), "a value log fetched here is not released on the path to "+c.pos(w[len(w)-1].Pos()))
			} else {
				c.ok(r, construct, c.pos(in.Pos()), "released (directly or by defer) on every path, except the fetch-failed edge")
			}
		}
	}
	if nfetch < 5 {
		c.undecided(r, "floor", fmt.Sprintf("expected >=5 fetchVLog sites, found %d", nfetch))
	}

	// "repeated or concurrent truncation is harmless": a value log is an exclusive resource; a release deferred from
	// inside a loop keeps every value log taken so far until the function returns, so two callers that take them in
	// different orders (a map is ranged in random order) wait for each other forever, with every value log locked
	r = "C14.1/vlogs-not-accumulated"
	nrel := 0
	for _, fn := range c.allFns {
		if !fnInPkgs(fn, []string{"embedded/store"}) || len(fn.Blocks) == 0 {
			continue
		}
		per := 0
		allInstrs(fn, false, func(in ssa.Instruction) {
			d, ok := in.(*ssa.Defer)
			if !ok || calleeName(&d.Call) != storeT+"releaseVLog" {
				return
			}
			nrel++
			per++
			inLoop := false
			for _, succ := range in.Block().Succs {
				if reaches(succ, in.Block(), nil) {
					inLoop = true
				}
			}
			c.check(!inLoop, r, fmt.Sprintf("%s:deferred-release#%d", fnName(fn), per), c.pos(in.Pos()), "the deferred release is not inside a loop",
				"releaseVLog is deferred from inside a loop: every value log fetched by the loop stays locked until the function returns, concurrent callers taking them in another order deadlock")
		})
	}
	if nrel < 2 {
		c.undecided(r, "floor", fmt.Sprintf("%d deferred releaseVLog calls found", nrel))
	}

	// ---- C14.2 only value logs (and the index's own logs) are ever discarded ----------------------------
	r = "C14.2/discard-sites"
	for _, in := range c.callSites(callTo(appDiscard)) {
		owner := fnName(topFn(in.Parent()))
		d := desc(recvOf(callOf(in)))
		construct := "DiscardUpto:in:" + owner + ":on:" + lastSeg(d)
		switch owner {
		case storeT + "TruncateUptoTx":
			c.check(strings.Contains(d, "fetchVLog"), r, construct, c.pos(in.Pos()), "receiver is the value log handed out by fetchVLog", "TruncateUptoTx discards something that is not a fetched value log: "+d)
		case "embedded/tbtree.(*TBtree).flushTree":
			c.check(hasFieldSuffix(d, "nLog") || hasFieldSuffix(d, "cLog"), r, construct, c.pos(in.Pos()), "index discards its own node/commit log", "flushTree discards "+d)
		case mfT + "DiscardUpto", "embedded/appendable/remoteapp.(*RemoteStorageAppendable).DiscardUpto":
			c.okTrivial(r, construct, c.pos(in.Pos()), "delegation inside an appendable")
		default:
			c.fail(r, construct, c.pos(in.Pos()), "DiscardUpto called from "+owner+", which is not an allowed truncation site")
		}
	}
	c14TruncateRules(c, r)

	// ---- C14.3 chunk deletion strictly below the chunk of the offset ---------------------------------
	c14DiscardGuard(c, "C14.3/discard-guard")

	// ---- C14.4 catalog first, single entry ---------------------------------------------------------------
	r = "C14.4/catalog-before-truncation"
	if f := c.mustFn(r, "pkg/database.(*vlogTruncator).TruncateUptoTx"); f != nil {
		cp := callTo("(pkg/database.DB).CopySQLCatalog")
		tr := callTo("(pkg/database.DB).TruncateUptoTx")
		c.ruleOrder(r, f, "CopySQLCatalog", cp, "db.TruncateUptoTx", tr, nil, 1)
		c.ruleErrChecked(r, f, "CopySQLCatalog", cp, 1)
		// the failing edge of CopySQLCatalog does not reach the truncation
		for _, in := range sites(f, cp) {
			q := &pathQ{fn: f, from: []ssa.Instruction{in}, to: tr, barrier: func(b *ssa.BasicBlock, s int) bool { return !errEdgeOf(in)(b, s) && isIfOn(b, in) }}
			c.check(q.bypass() == nil, r, fnName(f)+":copy-failure-skips-truncation", c.pos(in.Pos()), "truncation is unreachable from the CopySQLCatalog error edge", "truncation proceeds although the catalog copy failed")
		}
	}
	// the copy covers both catalogs (SQL tables and document collections) and is committed
	if f := c.mustFn(r, "pkg/database.(*db).CopyCatalogToTx"); f != nil {
		c.ruleMustPass(r, f, nil, "sqlEngine.CopyCatalogToTx", callTo("embedded/sql.(*Engine).CopyCatalogToTx"), nil, false)
		c.ruleMustPass(r, f, nil, "documentEngine.CopyCatalogToTx", callTo("embedded/document.(*Engine).CopyCatalogToTx"), nil, false)
	}
	// every catalog loader doubles as the copier: what it reads under copyToTx it re-writes into the copy transaction.
	// A loader that parses a kind of catalog entry without re-writing it leaves the only stored copy of that entry in
	// the part of the value log that is about to be discarded (the catalog then fails to load after a restart).
	nl := 0
	for _, f := range c.allFns {
		if !fnInPkgs(f, []string{"embedded/sql"}) || f.Parent() != nil || len(f.Blocks) == 0 {
			continue
		}
		has := false
		for _, p := range f.Params {
			if p.Name() == "copyToTx" {
				has = true
			}
		}
		if !has {
			continue
		}
		nl++
		sets := 0
		for _, g := range append([]*ssa.Function{f}, allAnon(f)...) {
			sets += len(sites(g, callTo("embedded/store.(*OngoingTx).Set")))
		}
		c.check(sets > 0, r, fnName(f)+":copies-what-it-loads", c.pos(f.Pos()), fmt.Sprintf("%d re-write site(s)", sets), "a catalog loader with a copyToTx mode never writes into the copy transaction: the entries it loads are lost by value-log truncation")
	}
	if nl < 4 {
		c.undecided(r, "catalog-loaders", fmt.Sprintf("%d catalog loaders with a copyToTx mode found (4 confirmed by hand)", nl))
	}
	if f := c.mustFn(r, "pkg/database.(*db).CopySQLCatalog"); f != nil {
		c.ruleMustPass(r, f, nil, "CopyCatalogToTx", callTo("pkg/database.(*db).CopyCatalogToTx"), nil, false)
		c.ruleMustPass(r, f, nil, "tx.Commit", callTo("embedded/store.(*OngoingTx).Commit"), nil, false)
		c.ruleOrder(r, f, "CopyCatalogToTx", callTo("pkg/database.(*db).CopyCatalogToTx"), "tx.Commit", callTo("embedded/store.(*OngoingTx).Commit"), nil, 1)
	}
	c.ruleWhoMayCall(r, "DB.TruncateUptoTx", callTo("(pkg/database.DB).TruncateUptoTx", "pkg/database.(*db).TruncateUptoTx"),
		[]string{"pkg/database.(*vlogTruncator).TruncateUptoTx", "pkg/database.(*lazyDB).TruncateUptoTx"}, 1)
	c.ruleWhoMayCall(r, "ImmuStore.TruncateUptoTx", callTo(storeT+"TruncateUptoTx"), []string{"pkg/database.(*db).TruncateUptoTx"}, 1)

	c14ExportBuffer(c, "C14.1/export-buffer-under-lock")
	c14TxHolders(c, "C14.1/tx-holders-released")
	c14OngoingTxReleased(c, "C14.8/store-transactions-are-closed")
	c14FrontWalkCoversWriters(c, "C14.10/front-walk-covers-every-writer")
	// the truncation plan is a header or an error: the truncator dereferences what it is given (analysis shared with C16.14)
	c16NoNilNil(c, "C14.9/truncation-plan-is-a-header-or-an-error", []string{"pkg/database", "pkg/truncator"})
	// ---- C14.5 export of truncated transactions terminates ----------------------------------------------
	r = "C14.5/truncated-export"
	if f := c.mustFn(r, storeT+"readValueAt"); f != nil {
		bar := anyEdge(
			whenCond(true, func(a string) bool { return hasFieldSuffix(a, "embeddedValues") }),
			whenCond(false, func(a string) bool {
				return strings.Contains(a, "decodeOffset(") && strings.Contains(a, ")#0") && strings.Contains(a, "const:0") && strings.Contains(a, " == ")
			}),
			whenCond(false, func(a string) bool { return strings.HasPrefix(a, "(const:0 < len(") }),
		)
		q := &pathQ{fn: f, fromEntry: true, to: callTo(storeT + "fetchVLog"), barrier: bar}
		if w := q.bypass(); w != nil {
			c.fail(r, fnName(f)+":no-vlog-maps-to-EOF", c.pos(w[len(w)-1].Pos()), "a value with vLogID 0 (truncated/replicated without value) reaches fetchVLog instead of io.EOF: "+c.witnessStr(w))
		} else {
			c.ok(r, fnName(f)+":no-vlog-maps-to-EOF", c.pos(f.Pos()), "fetchVLog is reachable only for embedded values, vLogID != 0 or empty values")
		}
		// digest check unless skipped (shared with C09)
		c09ValueDigest(c, r, f)
	}
	if f := c.mustFn(r, storeT+"ExportTx"); f != nil {
		// the EOF branch marks the export as truncated: a store/phi to the flag reaches the trailer byte
		okFlag := false
		allInstrs(f, false, func(in ssa.Instruction) {
			if st, ok := in.(*ssa.Store); ok {
				if ia, ok := st.Addr.(*ssa.IndexAddr); ok && strings.Contains(desc(ia.X), "truncatedValByte") && desc(st.Val) == "const:1" {
					okFlag = true
				}
			}
		})
		c.check(okFlag, r, fnName(f)+":trailer-flag", c.pos(f.Pos()), "trailer byte is set to 1 for truncated exports", "ExportTx no longer writes the truncated flag")
		// errors other than EOF from readValueAt leave the function
		for i, in := range sites(f, callTo(storeT+"readValueAt")) {
			okk, d := errUsed(in)
			c.check(okk, r, fmt.Sprintf("%s:readValueAt#%d:error-used", fnName(f), i), c.pos(in.Pos()), d, d)
		}
	}
}

// isIfOn: block b ends with an If testing the error result of call `in`.
func isIfOn(b *ssa.BasicBlock, in ssa.Instruction) bool {
	p := errEdgeOf(in)
	if p == nil {
		return false
	}
	for i := range b.Succs {
		if p(b, i) {
			return true
		}
	}
	return false
}

// c09ValueDigest: unless the skip flag is set, success is dominated by the length-and-digest comparison.
func c09ValueDigest(c *Ctx, r string, f *ssa.Function) {
	skip := whenCond(true, func(a string) bool { return a == "param:skipIntegrityCheck" })
	lenEq := whenCond(true, func(a string) bool { return strings.Contains(a, "len(param:b)") && strings.Contains(a, " == ") })
	dig := whenCond(true, func(a string) bool {
		return strings.Contains(a, "crypto/sha256.Sum256") && strings.Contains(a, "param:hvalue") && strings.Contains(a, " == ")
	})
	for _, g := range []struct {
		n string
		e edgePred
	}{{"length", lenEq}, {"digest", dig}} {
		q := &pathQ{fn: f, fromEntry: true, to: func(in ssa.Instruction) bool {
			rt, ok := in.(*ssa.Return)
			return ok && retKind(rt) == "success"
		}, barrier: anyEdge(skip, g.e, whenCond(true, func(a string) bool { return strings.Contains(a, "io.EOF") }))}
		// the early io.EOF return is not a success return (EOF is a sentinel global → fail kind)
		if w := q.bypass(); w != nil {
			c.fail(r, fnName(f)+":value-"+g.n+"-checked", c.pos(w[len(w)-1].Pos()), "a value is returned as valid without the "+g.n+" comparison although integrity checks are on: "+c.witnessStr(w))
		} else {
			c.ok(r, fnName(f)+":value-"+g.n+"-checked", c.pos(f.Pos()), "every successful return crosses the "+g.n+"-match edge or the skip flag")
		}
	}
}

// c14TruncateRules: TruncateUptoTx never runs with embedded values, and its forward walk covers every transaction
// up to and including the committed frontier (shared by C14 and C02).
func c14TruncateRules(c *Ctx, r string) {
	if f := c.mustFn(r, storeT+"TruncateUptoTx"); f != nil {
		emb := whenCond(false, func(a string) bool { return hasFieldSuffix(a, "embeddedValues") })
		for _, p := range []struct {
			n string
			p sitePred
		}{{"fetchVLog", callTo(storeT + "fetchVLog")}, {"DiscardUpto", callTo(appDiscard)}} {
			q := &pathQ{fn: f, fromEntry: true, to: p.p, barrier: emb}
			c.check(len(sites(f, p.p)) > 0 && q.bypass() == nil, r, fnName(f)+":"+p.n+":only-without-embedded-values", c.pos(f.Pos()),
				p.n+" is dominated by the embeddedValues==false edge", p.n+" reachable with embedded values (the tx log would be discarded)")
		}
		// the forward walk covers everything up to the last committed tx
		c.check(len(sites(f, callTo(storeT+"LastCommittedTxID"))) > 0, r, fnName(f)+":forward-walk-to-committed-frontier", c.pos(f.Pos()),
			"forward walk is bounded by LastCommittedTxID()", "TruncateUptoTx no longer walks forward to the committed frontier")
		c.ruleOrder(r, f, "LastCommittedTxID", callTo(storeT+"LastCommittedTxID"), "DiscardUpto", callTo(appDiscard), nil, 1)
		// the forward walk is inclusive of the last committed tx and bounded by nothing smaller
		inclusive := false
		allInstrs(f, false, func(in ssa.Instruction) {
			if ifi, ok := in.(*ssa.If); ok {
				a, _ := normCond(ifi.Cond)
				if strings.HasPrefix(a, "(call:embedded/store.(*ImmuStore).LastCommittedTxID[") && strings.Contains(a, "] < phi(") {
					inclusive = true // j <= LastCommittedTxID()  ==  !(LastCommittedTxID() < j)
				}
				if strings.HasPrefix(a, "(phi(") && strings.Contains(a, " < (call:embedded/store.(*ImmuStore).LastCommittedTxID[") && strings.HasSuffix(a, "+ const:1))") {
					inclusive = true // j < LastCommittedTxID()+1
				}
			}
		})
		c.check(inclusive, r, fnName(f)+":forward-walk-inclusive-of-committed-frontier", c.pos(f.Pos()),
			"forward loop continues while j <= LastCommittedTxID()", "the forward walk of TruncateUptoTx is no longer `j <= LastCommittedTxID()`: later transactions' values may be discarded")
		// errors of both walks abort the truncation
		for i, in := range f.AnonFuncs {
			_ = i
			_ = in
		}
	}

}

// c14ExportBuffer: ExportTx reads every value into the shared scratch buffer ImmuStore._valBs under _valBsMux; the
// bytes are still in that buffer when they are copied into the export, so the copy happens under the same lock
// (another export may refill the buffer as soon as the lock is released).
func c14ExportBuffer(c *Ctx, r string) {
	f := c.mustFn(r, storeT+"ExportTx")
	if f == nil {
		return
	}
	uses := func(in ssa.Instruction) bool {
		call, ok := in.(*ssa.Call)
		if !ok {
			return false
		}
		cn := calleeName(&call.Call)
		if cn != "bytes.(*Buffer).Write" && cn != storeT+"readValueAt" {
			return false
		}
		for _, a := range call.Call.Args {
			if dependsOn(a, func(v ssa.Value) bool {
				fl, _ := fieldOf(v) // &s._valBs (an array field: slicing it needs no load)
				if fl == "ImmuStore._valBs" {
					return true
				}
				if ld, ok := v.(*ssa.UnOp); ok {
					fl, _ = fieldOf(ld.X)
				}
				return fl == "ImmuStore._valBs"
			}) {
				return true
			}
		}
		return false
	}
	if len(sites(f, uses)) < 2 {
		c.undecided(r, fnName(f)+":shared-buffer-uses", "uses of the shared value buffer not found (readValueAt into it, buf.Write from it)")
		return
	}
	c.ruleHeldAt(r, f, "use of shared value buffer", uses, "ImmuStore._valBsMux", true, nil)
}

// c14TxHolders: read-transaction holders come from a bounded pool (MaxActiveTransactions / read pool size): every holder
// taken with allocTx is given back on every path that leaves the function, error paths included; a leak on the
// "partially truncated transaction" error path exhausts the pool and every later read or export fails.
func c14TxHolders(c *Ctx, r string) {
	n := 0
	alloc := callTo("pkg/database.(*db).allocTx", storeT+"fetchAllocTx")
	release := callTo("pkg/database.(*db).releaseTx", storeT+"releaseAllocTx")
	for _, f := range c.allFns {
		if !fnInPkgs(f, []string{"pkg/database", "embedded/store"}) || len(f.Blocks) == 0 {
			continue
		}
		if fnName(f) == "pkg/database.(*db).allocTx" || fnName(f) == storeT+"fetchAllocTx" {
			continue
		}
		for i, in := range sites(f, alloc) {
			n++
			in := in
			// on the error edge of the acquisition itself there is no holder to give back: the `if err != nil` that ends the
			// block of the call (the result may have been spilled into a named result, so it is matched by shape)
			fail := func(b *ssa.BasicBlock, succ int) bool {
				if b != in.Block() || succ != 0 || len(b.Instrs) == 0 {
					return false
				}
				ifi, ok := b.Instrs[len(b.Instrs)-1].(*ssa.If)
				if !ok {
					return false
				}
				bo, ok := ifi.Cond.(*ssa.BinOp)
				return ok && bo.Op == token.NEQ && (desc(bo.Y) == "nil" || desc(bo.X) == "nil" || strings.Contains(desc(bo), "nil"))
			}
			q := &pathQ{fn: f, from: []ssa.Instruction{in}, to: isReturn, via: release, deferVia: true, barrier: fail}
			w := q.bypass()
			c.check(w == nil, r, fmt.Sprintf("%s:holder#%d", fnName(f), i), c.pos(in.Pos()), "the holder is released (or its release deferred) on every path to a return",
				"a read-transaction holder taken from the pool can leave the function without being released: "+c.witnessStr(w))
		}
	}
	if n < 8 {
		c.undecided(r, "floor", fmt.Sprintf("%d holder acquisitions found (11 in pkg/database confirmed by hand)", n))
	}
}

// c14CutOffset: values of one transaction are appended to a value log in entry order, so the lowest offset a
// transaction occupies is the one of its first entry; TruncateUptoTx discards each value log up to the offset found
// for the cut transaction. The helper it uses returns the entry it was asked for (its reading loop is bounded by the
// index parameter, not by the size of the transaction) and it is asked for entry 1.
func c14CutOffset(c *Ctx, r string) {
	f := c.mustFn(r, storeT+"readTxOffsetAt")
	if f == nil {
		return
	}
	// the requested entry index is the only int parameter (whatever its name)
	var idx *ssa.Parameter
	for _, p := range f.Params {
		if b, ok := p.Type().Underlying().(*types.Basic); ok && b.Kind() == types.Int {
			idx = p
		}
	}
	reads := sites(f, callTo("embedded/store.(*txDataReader).readEntry"))
	if idx == nil || len(reads) == 0 {
		c.undecided(r, fnName(f), "index parameter or the readEntry loop not found")
		return
	}
	for i, rd := range reads {
		// the loop condition that leads to this read
		var bounds []string
		okb := false
		for _, b := range f.Blocks {
			if len(b.Instrs) == 0 || !b.Dominates(rd.Block()) || !reaches(rd.Block(), b, nil) {
				continue
			}
			ifi, isIf := b.Instrs[len(b.Instrs)-1].(*ssa.If)
			if !isIf {
				continue
			}
			bo, isBo := ifi.Cond.(*ssa.BinOp)
			if !isBo {
				continue
			}
			bounds = append(bounds, desc(bo))
			if bo.Y == ssa.Value(idx) || bo.X == ssa.Value(idx) {
				okb = true
			}
		}
		c.check(okb, r, fmt.Sprintf("%s:entries-read-bounded-by-index#%d", fnName(f), i), c.pos(rd.Pos()), "the reading loop stops at the requested entry", "the loop that reads entries is bounded by "+strings.Join(bounds, ", ")+" instead of the requested index: the entry handed back is not the one asked for, and the discard offset derived from it is past values that must stay readable")
	}
	n := 0
	for _, in := range c.callSites(callTo(storeT + "readTxOffsetAt")) {
		if fnName(topFn(in.Parent())) != storeT+"TruncateUptoTx" {
			continue
		}
		n++
		a := callOf(in).Args
		c.check(desc(a[len(a)-1]) == "const:1", r, fmt.Sprintf("%s:asks-for-first-entry#%d", fnName(in.Parent()), n), c.pos(in.Pos()), "readTxOffsetAt(id, false, 1)", "truncation derives the discard offset from entry "+desc(a[len(a)-1])+" of the cut transaction instead of its first one")
	}
	if n < 1 {
		c.undecided(r, "floor", "TruncateUptoTx no longer calls readTxOffsetAt")
	}
}

// c14CatalogCopyComplete: before the value logs are cut, the SQL catalog is committed again (CopyCatalogToTx) so that
// its entries live in transactions that survive the cut. The catalog is a family of key prefixes (the catalog*Prefix
// constants); every prefix that some statement persists must also be one the copy re-commits, otherwise objects of
// that kind (sequences, views) are gone after truncation and a restart.
func c14CatalogCopyComplete(c *Ctx, r string) {
	p, ok := c.byPath[modPrefix+"embedded/sql"]
	if !ok {
		c.undecided(r, "embedded/sql", "package not loaded")
		return
	}
	consts := map[string]string{} // name -> value
	for _, name := range p.Types.Scope().Names() {
		k, ok := p.Types.Scope().Lookup(name).(*types.Const)
		if !ok || !strings.HasPrefix(name, "catalog") || !strings.HasSuffix(name, "Prefix") || name == "catalogPrefix" {
			continue
		}
		consts[name] = constant.StringVal(k.Val())
	}
	if len(consts) < 4 {
		c.undecided(r, "constants", fmt.Sprintf("%d catalog*Prefix constants found", len(consts)))
		return
	}
	refsConst := func(f *ssa.Function, val string) bool {
		found := false
		allInstrs(f, true, func(in ssa.Instruction) {
			for _, op := range in.Operands(nil) {
				if k, ok := (*op).(*ssa.Const); ok && k.Value != nil && k.Value.Kind() == constant.String && constant.StringVal(k.Value) == val {
					found = true
				}
			}
		})
		return found
	}
	writes := func(f *ssa.Function) bool {
		return len(sites(f, callTo(sqlTxT+"set", otxT+"Set"))) > 0
	}
	// functions reachable from the copy entry point
	root := c.mustFn(r, "embedded/sql.(*Engine).CopyCatalogToTx")
	if root == nil {
		return
	}
	reach := map[*ssa.Function]bool{}
	var walk func(f *ssa.Function, d int)
	walk = func(f *ssa.Function, d int) {
		if f == nil || reach[f] || d > 6 || len(f.Blocks) == 0 {
			return
		}
		reach[f] = true
		for _, an := range f.AnonFuncs {
			walk(an, d+1)
		}
		allInstrs(f, false, func(in ssa.Instruction) {
			if cc := callOf(in); cc != nil {
				if sc := cc.StaticCallee(); sc != nil && fnInPkgs(sc, []string{"embedded/sql"}) {
					walk(sc, d+1)
				}
			}
		})
	}
	walk(root, 0)
	n := 0
	for _, name := range sortedKeys(consts) {
		val := consts[name]
		persisted := ""
		for _, f := range c.allFns {
			if fnInPkgs(f, []string{"embedded/sql"}) && len(f.Blocks) > 0 && !reach[topFn(f)] && !reach[f] && refsConst(f, val) && writes(f) {
				persisted = fnName(f)
				break
			}
		}
		if persisted == "" {
			c.okTrivial(r, name, "", "no statement persists keys under "+val)
			continue
		}
		n++
		// the kind's prefix is what a key scanned by the copy is built from (mentioning the constant elsewhere - in a
		// message, say - copies nothing)
		copied := false
		for f := range reach {
			if !refsConst(f, val) {
				continue
			}
			for _, in := range sites(f, callTo("embedded/sql.MapKey")) {
				for _, a := range callOf(in).Args {
					if dependsOn(a, func(v ssa.Value) bool {
						k, ok := v.(*ssa.Const)
						return ok && k.Value != nil && k.Value.Kind() == constant.String && constant.StringVal(k.Value) == val
					}) {
						copied = true
					}
				}
			}
		}
		c.check(copied, r, name, c.pos(root.Pos()), "re-committed by the catalog copy", "keys under "+val+" are persisted (by "+persisted+") but nothing reachable from CopyCatalogToTx builds a key from that prefix: after a truncation that removes their values and a restart these catalog objects no longer exist")
	}
	if n < 4 {
		c.undecided(r, "floor", fmt.Sprintf("%d persisted catalog kinds found (tables, columns, indexes, checks, views, sequences expected)", n))
	}
}

// c14OngoingTxReleased: a store transaction opened by the database layer holds snapshots of the indexes until it is
// committed or cancelled. A path that leaves the function with neither (the failure of a step between NewTx and
// Commit) leaks them; a truncation that keeps failing this way exhausts MaxActiveSnapshots and the database stops
// serving every request that needs a snapshot. Transactions handed to the caller (returned, or wrapped into a value
// that is returned) are the caller's to close.
func c14OngoingTxReleased(c *Ctx, r string) {
	n := 0
	open := callTo(storeT+"NewTx", storeT+"NewWriteOnlyTx", "pkg/database.(*db).newTx", "pkg/database.(*db).newWriteOnlyTx")
	done := callTo(otxT+"Cancel", otxT+"Commit", otxT+"AsyncCommit")
	for _, f := range c.allFns {
		if !fnInPkgs(f, []string{"pkg/database"}) || len(f.Blocks) == 0 {
			continue
		}
		for i, in := range sites(f, open) {
			cl := in.(*ssa.Call)
			var tx ssa.Value
			for _, rf := range *cl.Referrers() {
				if ex, ok := rf.(*ssa.Extract); ok && ex.Index == 0 {
					tx = ex
				}
			}
			if tx == nil {
				continue
			}
			// handed over: used as an argument of a call whose result is returned / stored, or returned itself
			escapes := false
			for _, rf := range *tx.Referrers() {
				switch x := rf.(type) {
				case *ssa.Return, *ssa.Store, *ssa.MakeInterface, *ssa.MakeClosure:
					escapes = true
				case *ssa.Call:
					if done(x) {
						continue
					}
					if x.Call.StaticCallee() != nil && strings.Contains(x.Call.StaticCallee().Name(), "New") {
						escapes = true
					}
					// passed to a call whose result is returned: a wrapper
					for _, r2 := range *x.Referrers() {
						if _, isRet := r2.(*ssa.Return); isRet {
							escapes = true
						}
						if ex, isEx := r2.(*ssa.Extract); isEx {
							for _, r3 := range *ex.Referrers() {
								if _, isRet := r3.(*ssa.Return); isRet {
									escapes = true
								}
							}
						}
					}
				}
			}
			construct := fmt.Sprintf("%s:tx#%d", fnName(f), i)
			if escapes {
				c.okTrivial(r, construct, c.pos(in.Pos()), "handed to the caller")
				continue
			}
			n++
			q := &pathQ{fn: f, from: []ssa.Instruction{in}, to: isReturn, via: done, deferVia: true, barrier: errEdgeOf(in)}
			w := q.bypass()
			c.check(w == nil, r, construct, c.pos(in.Pos()), "committed or cancelled (or its Cancel deferred) on every path to a return",
				"a store transaction opened here can leave the function neither committed nor cancelled: its snapshots stay active ("+c.witnessStr(w)+")")
		}
	}
	if n < 3 {
		c.undecided(r, "floor", fmt.Sprintf("%d store transactions opened and closed by pkg/database found", n))
	}
}

// c14FrontWalkCoversWriters: TruncateUptoTx looks, beyond the cut, for transactions whose values lie BELOW the offset
// it is about to discard (values are appended to the value logs before the transaction gets its id, so out of id order).
// A transaction that has written its values and is not committed yet is such a transaction too: the walk has to reach at
// least the precommit frontier. (Writers that have appended values and hold no id yet are visible to nothing: the known
// finding recorded under this rule covers both.)
func c14FrontWalkCoversWriters(c *Ctx, r string) {
	f := c.mustFn(r, storeT+"TruncateUptoTx")
	if f == nil {
		return
	}
	pre := callTo(storeT+"LastPrecommittedTxID", storeT+"PrecommittedAlh")
	preField := false
	allInstrs(f, true, func(in ssa.Instruction) {
		if u, ok := in.(*ssa.UnOp); ok && u.Op == token.MUL {
			if fl, _ := fieldOf(u.X); fl == "ImmuStore.inmemPrecommittedTxID" {
				preField = true
			}
		}
	})
	c.check(len(sites(f, pre)) > 0 || preField, r, fnName(f)+":front-walk-reaches-the-precommit-frontier", c.pos(f.Pos()), "the forward walk is bounded by the precommit frontier",
		"the forward walk of TruncateUptoTx ends at the last COMMITTED transaction: a transaction that has already written its values (precommitted, or still without an id) and ends up at or after the cut is not looked at, its values are discarded with the chunks below the computed offset")
}
