package main

import (
	"bufio"
	"encoding/json"
	"fmt"
	"os"
	"os/exec"
	"path/filepath"
	"sort"
	"strings"
	"sync"
	"time"
)

// readOverlay reads {"<absolute path in repo>": "<replacement file>"} and installs it as a
// go/packages overlay: the replacement contents are analysed instead of the file on disk.
func (c *Ctx) readOverlay(p string) error {
	b, err := os.ReadFile(p)
	if err != nil {
		return err
	}
	m := map[string]string{}
	if err := json.Unmarshal(b, &m); err != nil {
		return err
	}
	c.Overlay = map[string][]byte{}
	for k, v := range m {
		bb, err := os.ReadFile(v)
		if err != nil {
			return err
		}
		c.Overlay[k] = bb
	}
	return nil
}

// ---------------------------------------------------------------------------------------------
// thorough tier
//
//  1. the property's rules run over the whole program (./embedded/... ./pkg/... ./cmd/...), so that
//     who-may-call / who-may-write rules see every caller (done by runProp);
//  2. rules that touch build-constrained files are re-evaluated under other GOOS/GOARCH values;
//  3. self-test: every seeded breakage recorded under /verif/seeded that this property's check is
//     meant to detect is applied IN MEMORY (go/packages overlay; /repo is not touched), the check is
//     re-run in a separate process and must report a violation. A seeded patch that no longer applies
//     to the current tree is reported as skipped. A fixture that is not detected fails the thorough
//     check as "undecided" (the checker lost the ability to see that breakage).

type seedIndexEntry struct {
	Breaks     string   `json:"breaks"`
	DetectedBy []string `json:"detected_by"`
}

func runThoroughExtras(c *Ctx, pd *propDef) {
	variantsFor := map[string]bool{"C03": true, "C17": true}
	if variantsFor[c.Prop] {
		c.buildVariants()
	}
	c.fixtureSelfTest()
}

// buildVariants re-evaluates the platform-dependent durability rules under other targets.
func (c *Ctx) buildVariants() {
	type variant struct{ goos, goarch string }
	for _, v := range []variant{{"darwin", "amd64"}, {"windows", "amd64"}, {"freebsd", "amd64"}, {"linux", "386"}, {"linux", "arm64"}} {
		name := v.goos + "/" + v.goarch
		sub := &Ctx{Prop: c.Prop, Tier: c.Tier, Repo: c.Repo, Verif: c.Verif, seen: map[string]*Obl{}, Analysed: map[string]int{}, start: time.Now(),
			Env: []string{"GOOS=" + v.goos, "GOARCH=" + v.goarch, "CGO_ENABLED=0"}}
		if err := sub.load("./embedded/appendable/..."); err != nil {
			c.undecided("variant/load", name, err.Error())
			continue
		}
		c.variants = append(c.variants, name)
		r := "C03.5/singleapp-sync"
		if c.Prop == "C17" {
			r = "C17.2/singleapp-sync"
		}
		if f := sub.mustFn(r, "embedded/appendable/fileutils.Fdatasync"); f != nil {
			sub.ruleMustPass(r, f, nil, "fdatasync", callTo("embedded/appendable/fileutils.fdatasync"), nil, false)
		}
		if f := sub.mustFn(r, "embedded/appendable/fileutils.fdatasync"); f != nil {
			sub.ruleMustPass(r, f, nil, "fsync syscall", callTo("os.(*File).Sync", "syscall.Fdatasync", "golang.org/x/sys/unix.Fdatasync", "syscall.Fsync", "golang.org/x/sys/unix.Fsync", "syscall.Syscall", "golang.org/x/sys/unix.Fcntl", "syscall.FlushFileBuffers"), nil, false)
		}
		if f := sub.mustFn(r, aofT+"sync"); f != nil {
			fsync := callTo("os.(*File).Sync", "embedded/appendable/fileutils.Fdatasync")
			sub.ruleOrder(r, f, "flush", callTo(aofT+"flush"), "fsync", fsync, nil, 2)
			sub.ruleMustPass(r, f, nil, "fsync", fsync, nil, false)
		}
		for _, o := range sub.Obls {
			c.add(o.Rule, o.Key[len(o.Rule)+1:]+"@"+name, o.Pos, o.Status, o.Detail, o.Nontrivial)
		}
	}
}

type fixtureResult struct {
	ID       string   `json:"id"`
	Status   string   `json:"status"` // detected | missed | skipped
	Fired    []string `json:"fired,omitempty"`
	Note     string   `json:"note,omitempty"`
	Duration float64  `json:"wall_s"`
}

func (c *Ctx) fixtureSelfTest() {
	idxPath := filepath.Join(c.Verif, "seeded", "index.json")
	b, err := os.ReadFile(idxPath)
	if err != nil {
		c.Notes = append(c.Notes, "no seeded/index.json: fixture self-test skipped")
		return
	}
	idx := map[string]seedIndexEntry{}
	if err := json.Unmarshal(b, &idx); err != nil {
		c.undecided("fixtures", "index.json", err.Error())
		return
	}
	var ids []string
	for id, e := range idx {
		for _, p := range e.DetectedBy {
			if p == c.Prop {
				ids = append(ids, id)
			}
		}
	}
	sort.Strings(ids)
	if len(ids) == 0 {
		return
	}
	self, _ := os.Executable()
	results := make([]fixtureResult, len(ids))
	var wg sync.WaitGroup
	sem := make(chan struct{}, 6)
	for i, id := range ids {
		wg.Add(1)
		go func(i int, id string) {
			defer wg.Done()
			sem <- struct{}{}
			defer func() { <-sem }()
			results[i] = c.runFixture(self, id)
		}(i, id)
	}
	wg.Wait()
	nd, nm, ns := 0, 0, 0
	for _, r := range results {
		switch r.Status {
		case "detected":
			nd++
			c.ok("selftest/fixture", r.ID, "", "seeded breakage detected: "+strings.Join(r.Fired, "; "))
		case "skipped":
			ns++
			c.Notes = append(c.Notes, "fixture "+r.ID+" skipped: "+r.Note)
		default:
			nm++
			c.undecided("selftest/fixture", r.ID, "the seeded breakage recorded under /verif/seeded/"+r.ID+" is no longer detected by this check: "+r.Note)
		}
	}
	c.Analysed["fixtures_detected"] = nd
	c.Analysed["fixtures_missed"] = nm
	c.Analysed["fixtures_skipped"] = ns
	c.fixtures = results
}

// runFixture applies one seeded patch to copies of the touched files and runs the check on the overlay.
func (c *Ctx) runFixture(self, id string) fixtureResult {
	t0 := time.Now()
	res := fixtureResult{ID: id}
	patch := filepath.Join(c.Verif, "seeded", id, "patch.diff")
	files, err := patchedFiles(patch)
	if err != nil || len(files) == 0 {
		res.Status, res.Note = "skipped", fmt.Sprint("cannot read patch: ", err)
		return res
	}
	tmp, err := os.MkdirTemp(filepath.Join(c.Verif, "out"), "fx-"+id+"-")
	if err != nil {
		os.MkdirAll(filepath.Join(c.Verif, "out"), 0o755)
		tmp, err = os.MkdirTemp(filepath.Join(c.Verif, "out"), "fx-"+id+"-")
		if err != nil {
			res.Status, res.Note = "skipped", err.Error()
			return res
		}
	}
	defer os.RemoveAll(tmp)
	ov := map[string]string{}
	for _, f := range files {
		src := filepath.Join(c.Repo, f)
		dst := filepath.Join(tmp, f)
		os.MkdirAll(filepath.Dir(dst), 0o755)
		bb, err := os.ReadFile(src)
		if err != nil {
			res.Status, res.Note = "skipped", "file of the patch is missing in the tree: "+f
			return res
		}
		os.WriteFile(dst, bb, 0o644)
		ov[src] = dst
	}
	cmd := exec.Command("git", "apply", "--whitespace=nowarn", patch)
	cmd.Dir = tmp
	// tmp lives inside /verif's own git work tree: without the ceiling git would treat the patch
	// paths as outside the current sub-directory and silently skip them
	cmd.Env = append(os.Environ(), "GIT_CEILING_DIRECTORIES="+filepath.Dir(tmp))
	if out, err := cmd.CombinedOutput(); err != nil {
		res.Status, res.Note = "skipped", "patch does not apply to the current tree: "+strings.TrimSpace(string(out))
		return res
	}
	changed := false
	for src, dst := range ov {
		a, _ := os.ReadFile(src)
		b, _ := os.ReadFile(dst)
		if string(a) != string(b) {
			changed = true
		}
	}
	if !changed {
		res.Status, res.Note = "skipped", "patch applied without changing any file"
		return res
	}
	ovPath := filepath.Join(tmp, "overlay.json")
	ob, _ := json.Marshal(ov)
	os.WriteFile(ovPath, ob, 0o644)
	run := exec.Command(self, "-property", c.Prop, "-tier", "quick", "-overlay", ovPath, "-no-evidence", "-repo", c.Repo, "-verif", c.Verif)
	out, _ := run.CombinedOutput()
	sc := bufio.NewScanner(strings.NewReader(string(out)))
	sc.Buffer(make([]byte, 1<<20), 1<<24)
	for sc.Scan() {
		line := sc.Text()
		if strings.HasPrefix(line, "FIRED ") {
			parts := strings.SplitN(strings.TrimPrefix(line, "FIRED "), " | ", 2)
			// ignore listed known findings: they fire on the unchanged tree too
			if c.isKnown(parts[0]) {
				continue
			}
			res.Fired = append(res.Fired, parts[0])
		}
	}
	res.Duration = time.Since(t0).Seconds()
	if len(res.Fired) > 0 {
		res.Status = "detected"
	} else {
		res.Status = "missed"
		tail := string(out)
		if len(tail) > 300 {
			tail = tail[len(tail)-300:]
		}
		res.Note = "check output: " + tail
	}
	return res
}

func (c *Ctx) isKnown(key string) bool {
	k, err := c.loadKnown()
	if err != nil {
		return false
	}
	for _, e := range k.Known {
		if e.Property == c.Prop && e.Key == key {
			return true
		}
	}
	return false
}

// patchedFiles lists the repository-relative paths a unified diff touches.
func patchedFiles(patch string) ([]string, error) {
	b, err := os.ReadFile(patch)
	if err != nil {
		return nil, err
	}
	seen := map[string]bool{}
	var out []string
	for _, line := range strings.Split(string(b), "\n") {
		if strings.HasPrefix(line, "+++ b/") {
			f := strings.TrimPrefix(line, "+++ b/")
			if !seen[f] {
				seen[f] = true
				out = append(out, f)
			}
		}
	}
	return out, nil
}
