package main

import (
	"encoding/json"
	"os"
)

// readOverlay reads {"<absolute path in repo>": "<replacement file>"} and installs it as a
// go/packages overlay: the replacement contents are analysed instead of the file on disk.
func (c *Ctx) readOverlay(p string) error {
	b, err := os.ReadFile(p)
	if err != nil {
		return err
	}
	m := map[string]string{}
	if err := json.Unmarshal(b, &m); err != nil {
		return err
	}
	c.Overlay = map[string][]byte{}
	for k, v := range m {
		bb, err := os.ReadFile(v)
		if err != nil {
			return err
		}
		c.Overlay[k] = bb
	}
	return nil
}

func runThoroughExtras(c *Ctx, pd *propDef) {}
