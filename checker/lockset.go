package main

import (
	"fmt"
	"sort"
	"strings"

	"golang.org/x/tools/go/ssa"
)

// lock operations recognised by callee name. Wrapper functions of the repository are listed in
// lockWrappers with the lock they acquire/release on behalf of the caller.
type lockOp struct {
	key     string // "T.f" of the mutex; "" = derive from receiver field
	acquire bool
	read    bool
}

var stdLockOps = map[string]lockOp{
	"sync.(*Mutex).Lock":      {acquire: true},
	"sync.(*Mutex).Unlock":    {acquire: false},
	"sync.(*RWMutex).Lock":    {acquire: true},
	"sync.(*RWMutex).Unlock":  {acquire: false},
	"sync.(*RWMutex).RLock":   {acquire: true, read: true},
	"sync.(*RWMutex).RUnlock": {acquire: false, read: true},
	// pkg/database wraps its RWMutex to collect wait metrics
	"pkg/database.(*instrumentedRWMutex).Lock":    {acquire: true},
	"pkg/database.(*instrumentedRWMutex).Unlock":  {acquire: false},
	"pkg/database.(*instrumentedRWMutex).RLock":   {acquire: true, read: true},
	"pkg/database.(*instrumentedRWMutex).RUnlock": {acquire: false, read: true},
}

// lockWrappers: repository functions that return holding / release a lock for their caller.
var lockWrappers = map[string]lockOp{
	"embedded/tbtree.(*TBtree).lock":   {key: "TBtree.rwmutex", acquire: true},
	"embedded/tbtree.(*TBtree).unlock": {key: "TBtree.rwmutex", acquire: false},
}

// lockEvent classifies an instruction: key, W/R, acquire/release; ok=false if not a lock op.
func lockEvent(in ssa.Instruction) (key string, op lockOp, ok bool) {
	cc := callOf(in)
	if cc == nil {
		return "", lockOp{}, false
	}
	n := calleeName(cc)
	if w, isW := lockWrappers[n]; isW {
		return w.key, w, true
	}
	o, isStd := stdLockOps[n]
	if !isStd {
		return "", lockOp{}, false
	}
	r := recvOf(cc)
	if r == nil {
		return "", lockOp{}, false
	}
	f, _ := fieldOf(r)
	if f == "" {
		// embedded mutex promoted through a struct pointer, a local mutex, a global…
		f = strings.TrimPrefix(desc(r), "&")
	}
	return f, o, true
}

type lockState map[string]bool // key+"/W" or key+"/R"

func (s lockState) clone() lockState {
	o := lockState{}
	for k := range s {
		o[k] = true
	}
	return o
}

func (s lockState) String() string {
	var ks []string
	for k := range s {
		ks = append(ks, k)
	}
	sort.Strings(ks)
	return "{" + strings.Join(ks, ",") + "}"
}

func (s lockState) holds(key string, write bool) bool {
	if s[key+"/W"] {
		return true
	}
	return !write && s[key+"/R"]
}

type lockFlow struct {
	fn       *ssa.Function
	must     bool // must-analysis (intersection) or may-analysis (union)
	in       map[*ssa.BasicBlock]lockState
	entry    lockState
	deferred map[*ssa.BasicBlock]lockState // deferred releases registered (same meet as main)
	din      map[*ssa.BasicBlock]lockState
}

func applyLock(st lockState, in ssa.Instruction) {
	if _, isDefer := in.(*ssa.Defer); isDefer {
		return
	}
	if _, isGo := in.(*ssa.Go); isGo {
		return
	}
	key, op, ok := lockEvent(in)
	if !ok {
		return
	}
	suffix := "/W"
	if op.read {
		suffix = "/R"
	}
	if op.acquire {
		st[key+suffix] = true
	} else {
		delete(st, key+suffix)
	}
}

func applyDefer(st lockState, in ssa.Instruction) {
	d, ok := in.(*ssa.Defer)
	if !ok {
		return
	}
	reg := func(x ssa.Instruction) {
		key, op, ok := lockEvent(x)
		if ok && !op.acquire {
			suffix := "/W"
			if op.read {
				suffix = "/R"
			}
			st[key+suffix] = true
		}
	}
	reg(deferAsCall{d})
	if mc, isC := d.Call.Value.(*ssa.MakeClosure); isC {
		allInstrs(mc.Fn.(*ssa.Function), false, func(x ssa.Instruction) { reg(x) })
	}
}

func meet(a, b lockState, must bool) lockState {
	if a == nil {
		return b.clone()
	}
	o := lockState{}
	if must {
		for k := range a {
			if b[k] {
				o[k] = true
			}
		}
	} else {
		for k := range a {
			o[k] = true
		}
		for k := range b {
			o[k] = true
		}
	}
	return o
}

func eqState(a, b lockState) bool {
	if len(a) != len(b) {
		return false
	}
	for k := range a {
		if !b[k] {
			return false
		}
	}
	return true
}

func newLockFlow(fn *ssa.Function, entry lockState, must bool) *lockFlow {
	lf := &lockFlow{fn: fn, must: must, in: map[*ssa.BasicBlock]lockState{}, din: map[*ssa.BasicBlock]lockState{}, entry: entry}
	if len(fn.Blocks) == 0 {
		return lf
	}
	lf.in[fn.Blocks[0]] = entry.clone()
	lf.din[fn.Blocks[0]] = lockState{}
	work := []*ssa.BasicBlock{fn.Blocks[0]}
	for iter := 0; len(work) > 0 && iter < 100000; iter++ {
		b := work[0]
		work = work[1:]
		st := lf.in[b].clone()
		dst := lf.din[b].clone()
		for _, in := range b.Instrs {
			applyLock(st, in)
			applyDefer(dst, in)
		}
		for _, s := range b.Succs {
			if s == fn.Recover {
				continue
			}
			changed := false
			if old, ok := lf.in[s]; !ok {
				lf.in[s] = st.clone()
				lf.din[s] = dst.clone()
				changed = true
			} else {
				n := meet(old, st, must)
				dn := meet(lf.din[s], dst, must)
				if !eqState(n, old) || !eqState(dn, lf.din[s]) {
					lf.in[s] = n
					lf.din[s] = dn
					changed = true
				}
			}
			if changed {
				work = append(work, s)
			}
		}
	}
	return lf
}

// at returns the lock state right before instruction `in` and the deferred releases registered so far.
func (lf *lockFlow) at(in ssa.Instruction) (lockState, lockState) {
	b := in.Block()
	st0, ok := lf.in[b]
	if !ok {
		return nil, nil // unreachable
	}
	st := st0.clone()
	dst := lf.din[b].clone()
	for _, x := range b.Instrs {
		if x == in {
			break
		}
		applyLock(st, x)
		applyDefer(dst, x)
	}
	return st, dst
}

// ---------------------------------------------------------------------------------------------
// E4: lock pairing

// rulePairing: in every function of the given packages, a lock acquired in the function is
// released on every path to a return (directly or by defer), except in `returnsHolding`.
func (c *Ctx) rulePairing(rule string, pkgs []string, returnsHolding map[string]string) {
	nfn, nacq := 0, 0
	for _, fn := range c.allFns {
		if !fnInPkgs(fn, pkgs) || len(fn.Blocks) == 0 {
			continue
		}
		acquires := false
		allInstrs(fn, false, func(in ssa.Instruction) {
			if _, isDefer := in.(*ssa.Defer); isDefer {
				return
			}
			if _, op, ok := lockEvent(in); ok && op.acquire {
				acquires = true
				nacq++
			}
		})
		if !acquires {
			continue
		}
		nfn++
		lf := newLockFlow(fn, lockState{}, false)
		leaks := map[string]ssa.Instruction{}
		for _, b := range fn.Blocks {
			for _, in := range b.Instrs {
				if _, ok := in.(*ssa.Return); !ok {
					continue
				}
				st, dst := lf.at(in)
				for k := range st {
					if !dst[k] {
						if _, seen := leaks[k]; !seen {
							leaks[k] = in
						}
					}
				}
			}
		}
		name := fnName(fn)
		if len(leaks) == 0 {
			c.ok(rule, name, c.pos(fn.Pos()), "every acquired lock is released on every path to a return")
			continue
		}
		for _, k := range sortedKeys(leaks) {
			construct := name + ":" + k
			if reason, ok := returnsHolding[name+":"+k]; ok {
				c.okTrivial(rule, construct, c.pos(fn.Pos()), "returns holding by design: "+reason)
				// the hand-off only happens on success: an error return must not keep the lock
				bad := ""
				for _, b := range fn.Blocks {
					for _, in := range b.Instrs {
						rt, isRet := in.(*ssa.Return)
						if !isRet || retKind(rt) != "fail" {
							continue
						}
						st, dst := lf.at(in)
						if st[k] && !dst[k] {
							bad = c.pos(in.Pos())
						}
					}
				}
				if bad != "" {
					c.fail(rule, construct+":held-on-error-return", bad, fmt.Sprintf("%s returns an error at %s while still holding %s: the caller has nothing to release it with", name, bad, k))
				} else {
					c.ok(rule, construct+":held-on-error-return", c.pos(fn.Pos()), "no failing return keeps the lock")
				}
				continue
			}
			in := leaks[k]
			c.fail(rule, construct, c.pos(in.Pos()), fmt.Sprintf("returns at %s with %s still held and no deferred release", c.pos(in.Pos()), k))
		}
	}
	c.count("functions_acquiring_locks", nfn)
	c.count("lock_acquire_sites", nacq)
}

func fnInPkgs(fn *ssa.Function, pkgs []string) bool {
	p := topFn(fn).Pkg
	if p == nil {
		return false
	}
	for _, s := range pkgs {
		if p.Pkg.Path() == modPrefix+s {
			return true
		}
	}
	return false
}

// ---------------------------------------------------------------------------------------------
// E3: guarded fields

type guardSpec struct {
	structName   string            // e.g. "ImmuStore"
	lock         string            // e.g. "ImmuStore.commitStateRWMutex"
	fields       []string          // guarded field names
	callerHolds  map[string]string // fn name -> mode "W"|"R": functions documented to require the lock on entry
	exempt       map[string]string // fn name -> reason (constructors, …)
	altLock      map[string]string // field -> alternative lock accepted (documented exceptions)
	exemptAccess map[string]string // "fn:T.f" -> reason: single documented lock-free access
}

// ruleGuarded checks every load/store of the guarded fields in pkgs.
func (c *Ctx) ruleGuarded(rule string, pkgs []string, g guardSpec) {
	isGuarded := map[string]bool{}
	for _, f := range g.fields {
		isGuarded[g.structName+"."+f] = true
	}
	naccess := 0
	for _, fn := range c.allFns {
		if !fnInPkgs(fn, pkgs) || len(fn.Blocks) == 0 {
			continue
		}
		name := fnName(fn)
		top := fnName(topFn(fn))
		if _, ex := g.exempt[top]; ex {
			continue
		}
		if c.onlyReachedFromExempt(topFn(fn), g, 0) {
			continue // a helper of the constructor: the object is not shared yet
		}
		var lf *lockFlow
		perField := map[string]bool{}
		for _, b := range fn.Blocks {
			for _, in := range b.Instrs {
				var addr ssa.Value
				write := false
				switch x := in.(type) {
				case *ssa.Store:
					addr, write = x.Addr, true
				case *ssa.UnOp:
					addr = x.X
				default:
					continue
				}
				fa, ok := addr.(*ssa.FieldAddr)
				if !ok {
					continue
				}
				f, _ := fieldOf(fa)
				if !isGuarded[f] {
					continue
				}
				if isFreshAlloc(fa.X) {
					continue // object under construction
				}
				naccess++
				if lf == nil {
					lf = newLockFlow(fn, c.entryLocks(fn, g), true)
				}
				st, _ := lf.at(in)
				if st == nil {
					continue
				}
				mode := "read"
				if write {
					mode = "write"
				}
				construct := fmt.Sprintf("%s:%s:%s", name, f, mode)
				if perField[construct] {
					// report one obligation per (function, field, mode); keep the worst
				}
				perField[construct] = true
				if reason, ok := g.exemptAccess[name+":"+f]; ok && !write {
					c.okTrivial(rule, construct, c.pos(in.Pos()), "documented lock-free read: "+reason)
					continue
				}
				okHeld := st.holds(g.lock, write)
				if !okHeld {
					if alt, ok := g.altLock[f]; ok && st.holds(alt, write) {
						okHeld = true
					}
				}
				if okHeld {
					c.ok(rule, construct, c.pos(in.Pos()), "held: "+st.String())
				} else {
					c.fail(rule, construct, c.pos(in.Pos()), fmt.Sprintf("%s of %s without %s (held: %s)", mode, f, g.lock, st.String()))
				}
			}
		}
	}
	c.count("guarded_accesses_"+g.structName, naccess)
}

// entryLocks: locks held at entry of fn: caller-holds table; for closures, the state at the
// point where the closure is created in its parent (deferred and immediately-invoked closures run
// while those locks are still held; `go` closures start with nothing).
func (c *Ctx) entryLocks(fn *ssa.Function, g guardSpec) lockState {
	st := lockState{}
	if m, ok := g.callerHolds[fnName(fn)]; ok {
		st[g.lock+"/"+m] = true
		return st
	}
	p := fn.Parent()
	if p == nil {
		// an unexported function or method that is only ever called directly, and at every call site with the lock held,
		// runs with the lock held: helpers split off a locked function need no entry in the caller-holds table
		return c.inferredEntryLocks(fn, g)
	}
	// find the MakeClosure and how it is used
	var mk *ssa.MakeClosure
	allInstrs(p, false, func(in ssa.Instruction) {
		if m, ok := in.(*ssa.MakeClosure); ok && m.Fn == fn {
			mk = m
		}
	})
	if mk == nil {
		return st
	}
	usedByGo := false
	for _, r := range *mk.Referrers() {
		if _, ok := r.(*ssa.Go); ok {
			usedByGo = true
		}
	}
	if usedByGo {
		return st
	}
	plf := newLockFlow(p, c.entryLocks(p, g), true)
	pst, _ := plf.at(mk)
	if pst != nil {
		return pst
	}
	return st
}

func isFreshAlloc(v ssa.Value) bool {
	switch x := v.(type) {
	case *ssa.Alloc:
		return true
	case *ssa.Phi:
		for _, e := range x.Edges {
			if !isFreshAlloc(e) {
				return false
			}
		}
		return len(x.Edges) > 0
	}
	return false
}

// ruleCallerHolds: every call of a caller-holds function happens with the lock held.
func (c *Ctx) ruleCallerHolds(rule string, pkgs []string, g guardSpec) {
	for callee, mode := range g.callerHolds {
		n := 0
		for _, fn := range c.allFns {
			if !fnInPkgs(fn, pkgs) || len(fn.Blocks) == 0 {
				continue
			}
			if _, ex := g.exempt[fnName(topFn(fn))]; ex {
				continue
			}
			var lf *lockFlow
			for _, b := range fn.Blocks {
				for _, in := range b.Instrs {
					if !callTo(callee)(in) {
						continue
					}
					n++
					if lf == nil {
						lf = newLockFlow(fn, c.entryLocks(fn, g), true)
					}
					st, _ := lf.at(in)
					if st == nil {
						continue
					}
					construct := fmt.Sprintf("%s:calls:%s", fnName(fn), callee)
					if st.holds(g.lock, mode == "W") {
						c.ok(rule, construct, c.pos(in.Pos()), "held: "+st.String())
					} else {
						c.fail(rule, construct, c.pos(in.Pos()), fmt.Sprintf("%s requires %s (%s) on entry; held here: %s", callee, g.lock, mode, st.String()))
					}
				}
			}
		}
		if c.fn(callee) == nil {
			c.undecided(rule, callee, "caller-holds function does not resolve")
		}
	}
}

// ruleHeldAt: at every site matching p in fn the given lock is definitely held.
func (c *Ctx) ruleHeldAt(rule string, fn *ssa.Function, siteName string, p sitePred, lock string, write bool, entry lockState) {
	if fn == nil {
		return
	}
	if entry == nil {
		entry = lockState{}
	}
	ss := sites(fn, p)
	if len(ss) == 0 {
		c.undecided(rule, fnName(fn)+":"+siteName, "site not found")
		return
	}
	lf := newLockFlow(fn, entry, true)
	for i, in := range ss {
		st, _ := lf.at(in)
		if st == nil {
			continue
		}
		construct := fmt.Sprintf("%s:%s#%d:holds:%s", fnName(fn), siteName, i, lock)
		c.check(st.holds(lock, write), rule, construct, c.pos(in.Pos()), "held: "+st.String(), fmt.Sprintf("%s executes without %s (held: %s)", siteName, lock, st.String()))
	}
}

// inferredEntryLocks: the locks held at every static call site of fn (intersection), provided fn is unexported, has at
// least one call site in its own package and is never used as a value (method value, function value, interface
// satisfaction through which it could be invoked from elsewhere). Recursion through helpers of helpers is bounded.
func (c *Ctx) inferredEntryLocks(fn *ssa.Function, g guardSpec) lockState {
	empty := lockState{}
	if fn == nil || fn.Pkg == nil || fn.Object() == nil || fn.Object().Exported() {
		return empty
	}
	if c.inferDepth > 3 {
		return empty
	}
	if c.inferMemo == nil {
		c.inferMemo = map[string]lockState{}
	}
	key := g.lock + "|" + fnName(fn)
	if st, ok := c.inferMemo[key]; ok {
		return st
	}
	c.inferMemo[key] = empty // cycle guard
	c.buildCallIndex()
	sites := c.callIndex[fn]
	if len(sites) == 0 || c.usedAsValue[fn] {
		return empty
	}
	if fn.Signature.Recv() != nil && c.invokedNames[fn.Name()] {
		return empty // a method of that name is called through an interface somewhere: not every caller is known
	}
	c.inferDepth++
	defer func() { c.inferDepth-- }()
	var acc lockState
	for _, in := range sites {
		caller := in.Parent()
		if _, isDefer := in.(*ssa.Defer); isDefer {
			return empty // runs at the caller's exit, after its own deferred unlocks may have run
		}
		if _, isGo := in.(*ssa.Go); isGo {
			return empty
		}
		lf := newLockFlow(caller, c.entryLocks(caller, g), true)
		st, _ := lf.at(in)
		if st == nil {
			return empty
		}
		if acc == nil {
			acc = st.clone()
		} else {
			acc = meet(acc, st, true)
		}
	}
	if acc == nil {
		acc = empty
	}
	c.inferMemo[key] = acc
	return acc
}

// buildCallIndex: static call sites per callee, and the functions that are referenced other than as a static callee.
func (c *Ctx) buildCallIndex() {
	if c.callIndex != nil {
		return
	}
	c.callIndex = map[*ssa.Function][]ssa.Instruction{}
	c.usedAsValue = map[*ssa.Function]bool{}
	c.invokedNames = map[string]bool{}
	for _, f := range c.allFns {
		for _, b := range f.Blocks {
			for _, in := range b.Instrs {
				var callee ssa.Value
				if cc := callOf(in); cc != nil {
					if cc.IsInvoke() {
						c.invokedNames[cc.Method.Name()] = true
					}
					if sc := cc.StaticCallee(); sc != nil {
						c.callIndex[sc] = append(c.callIndex[sc], in)
					}
					callee = cc.Value
				} else if d, ok := in.(*ssa.Defer); ok {
					if sc := d.Call.StaticCallee(); sc != nil {
						c.callIndex[sc] = append(c.callIndex[sc], in)
					}
					callee = d.Call.Value
				} else if gg, ok := in.(*ssa.Go); ok {
					if sc := gg.Call.StaticCallee(); sc != nil {
						c.callIndex[sc] = append(c.callIndex[sc], in)
					}
					callee = gg.Call.Value
				}
				for _, op := range in.Operands(nil) {
					if op == nil || *op == nil {
						continue
					}
					if fv, ok := (*op).(*ssa.Function); ok && ssa.Value(fv) != callee {
						c.usedAsValue[fv] = true
					}
					if mc, ok := (*op).(*ssa.MakeClosure); ok {
						_ = mc
					}
				}
			}
		}
	}
}

// onlyReachedFromExempt: fn is unexported, never used as a value, and every one of its static call sites is in an
// exempt function (a constructor) or in a function for which the same holds: it runs before the object is shared.
func (c *Ctx) onlyReachedFromExempt(fn *ssa.Function, g guardSpec, depth int) bool {
	if fn == nil || len(g.exempt) == 0 || depth > 3 || fn.Object() == nil || fn.Object().Exported() {
		return false
	}
	c.buildCallIndex()
	sites := c.callIndex[fn]
	if len(sites) == 0 || c.usedAsValue[fn] {
		return false
	}
	if fn.Signature.Recv() != nil && c.invokedNames[fn.Name()] {
		return false
	}
	for _, in := range sites {
		caller := topFn(in.Parent())
		if _, isGo := in.(*ssa.Go); isGo {
			return false
		}
		if _, ex := g.exempt[fnName(caller)]; ex {
			continue
		}
		if caller == fn || !c.onlyReachedFromExempt(caller, g, depth+1) {
			return false
		}
	}
	return true
}
