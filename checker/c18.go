package main

import (
	"fmt"
	"go/ast"
	"go/constant"
	"go/token"
	"go/types"
	"os"
	"sort"
	"strings"

	"golang.org/x/tools/go/ssa"
)

const srvT = "pkg/server.(*ImmuServer)."

// commit sinks: reaching one of these from a database.DB method makes it write-class
var commitSinks = map[string]bool{
	otxT + "Commit": true, otxT + "AsyncCommit": true,
	storeT + "CommitWith": true, storeT + "ReplicateTx": true, storeT + "DiscardPrecommittedTxsSince": true,
	storeT + "AllowCommitUpto": true, storeT + "TruncateUptoTx": true,
}

// staticReach: functions reachable from fn through static calls and closures (bounded depth).
func staticReach(fn *ssa.Function, depth int, stop func(*ssa.Function) bool) map[*ssa.Function]bool {
	seen := map[*ssa.Function]bool{}
	var walk func(*ssa.Function, int)
	walk = func(f *ssa.Function, d int) {
		if f == nil || seen[f] || d > depth {
			return
		}
		seen[f] = true
		if stop != nil && stop(f) {
			return
		}
		allInstrs(f, true, func(in ssa.Instruction) {
			if cc := callOf(in); cc != nil {
				if cal := cc.StaticCallee(); cal != nil && len(cal.Blocks) > 0 {
					if queryOfReadOnlyStmt(cc) {
						return
					}
					walk(cal, d+1)
				}
			}
			if mc, ok := in.(*ssa.MakeClosure); ok {
				walk(mc.Fn.(*ssa.Function), d)
			}
		})
	}
	walk(fn, 0)
	return seen
}

// dbWriteClass computes, for every method of *pkg/database.db, whether a commit sink is reachable.
func (c *Ctx) dbWriteClass() map[string]bool {
	out := map[string]bool{}
	pp, ok := c.byPath[modPrefix+"pkg/database"]
	if !ok {
		return out
	}
	obj := pp.Types.Scope().Lookup("db")
	if obj == nil {
		c.undecided("anchor/type", "pkg/database.db", "type does not resolve")
		return out
	}
	ms := c.Prog.MethodSets.MethodSet(types.NewPointer(obj.Type()))
	for i := 0; i < ms.Len(); i++ {
		f := c.Prog.MethodValue(ms.At(i))
		if f == nil || len(f.Blocks) == 0 {
			continue
		}
		reach := staticReach(f, 7, nil)
		w := false
		for g := range reach {
			if commitSinks[fnName(g)] {
				w = true
			}
		}
		out[f.Name()] = w
	}
	return out
}

// mapLiteral evaluates a package-level `var name = map[string]X{...}` composite literal: keys are
// constant strings; values are returned as lists of constant integers (empty for struct{} values).
func (c *Ctx) mapLiteral(pkg, name string) (map[string][]int64, bool) {
	pp, ok := c.byPath[modPrefix+pkg]
	if !ok {
		return nil, false
	}
	for _, f := range pp.Syntax {
		for _, d := range f.Decls {
			gd, ok := d.(*ast.GenDecl)
			if !ok {
				continue
			}
			for _, sp := range gd.Specs {
				vs, ok := sp.(*ast.ValueSpec)
				if !ok {
					continue
				}
				for i, n := range vs.Names {
					if n.Name != name || i >= len(vs.Values) {
						continue
					}
					cl, ok := vs.Values[i].(*ast.CompositeLit)
					if !ok {
						return nil, false
					}
					out := map[string][]int64{}
					for _, e := range cl.Elts {
						kv, ok := e.(*ast.KeyValueExpr)
						if !ok {
							return nil, false
						}
						tv := pp.TypesInfo.Types[kv.Key]
						if tv.Value == nil || tv.Value.Kind() != constant.String {
							return nil, false
						}
						k := constant.StringVal(tv.Value)
						var vals []int64
						if vcl, ok := kv.Value.(*ast.CompositeLit); ok {
							for _, ve := range vcl.Elts {
								vtv := pp.TypesInfo.Types[ve]
								if vtv.Value == nil {
									return nil, false
								}
								n, _ := constant.Int64Val(vtv.Value)
								vals = append(vals, n)
							}
						}
						if _, dup := out[k]; dup {
							return nil, false
						}
						out[k] = vals
					}
					return out, true
				}
			}
		}
	}
	return nil, false
}

func (c *Ctx) constInt(pkg, name string) (int64, bool) {
	pp, ok := c.byPath[modPrefix+pkg]
	if !ok {
		return 0, false
	}
	o, ok := pp.Types.Scope().Lookup(name).(*types.Const)
	if !ok {
		return 0, false
	}
	return constant.Int64Val(o.Val())
}

type handlerInfo struct {
	fn         *ssa.Function
	gates      map[string]bool // constant method names passed to getDBFromCtx
	dbCalls    map[string]bool // database.DB methods invoked on a selected database
	sysCalls   map[string]bool // database.DB methods invoked on the server's own system database
	writeCalls map[string]bool
	writes     bool
}

// documented exceptions: methods of the system-database allow-list that are write-class by design
var sysdbWriteExceptions = map[string]string{
	"ReplicateTx": "the system database is itself replicated from the primary; gated to {SysAdmin, Admin}",
	"ExportTx":    "exporting acknowledges the replica's state (commit allowance of sync replication); gated to {SysAdmin, Admin}",
}

// handlers that do not go through getDBFromCtx, with the check each performs instead
var nonDBHandlers = map[string]string{}

func c18(c *Ctx) {
	perm, ok1 := c.mapLiteral("pkg/auth", "methodsPermissions")
	maint, ok2 := c.mapLiteral("pkg/auth", "maintenanceMethods")
	if !ok1 || !ok2 {
		c.undecided("C18/tables", "pkg/auth tables", "methodsPermissions / maintenanceMethods are no longer constant map literals")
		return
	}
	pR, _ := c.constInt("pkg/auth", "PermissionR")
	pRW, _ := c.constInt("pkg/auth", "PermissionRW")
	pAdmin, _ := c.constInt("pkg/auth", "PermissionAdmin")
	pSys, _ := c.constInt("pkg/auth", "PermissionSysAdmin")
	c.count("methodsPermissions_rows", len(perm))
	c.count("maintenanceMethods_rows", len(maint))
	has := func(vs []int64, x int64) bool {
		for _, v := range vs {
			if v == x {
				return true
			}
		}
		return false
	}
	// ---- tables agree -----------------------------------------------------------------------------------
	for _, m := range sortedKeys(maint) {
		_, ok := perm[m]
		c.check(ok, "C18.2/tables-agree", "maintenanceMethods["+m+"] in methodsPermissions", "", "row present", "method "+m+" is allowed in maintenance mode / on systemdb but has no permission row")
	}
	for _, m := range sortedKeys(perm) {
		vs := perm[m]
		c.check(has(vs, pSys), "C18.2/tables-agree", "methodsPermissions["+m+"]:sysadmin", "", "sysadmin listed", "sysadmin missing from row "+m)
		// no row grants a level without granting the stronger ones
		if has(vs, pR) {
			c.check(has(vs, pRW) && has(vs, pAdmin), "C18.2/tables-agree", "methodsPermissions["+m+"]:monotone", "", "R implies RW and Admin", "row "+m+" grants read-only users more than stronger roles")
		}
		if has(vs, pRW) {
			c.check(has(vs, pAdmin), "C18.2/tables-agree", "methodsPermissions["+m+"]:monotone-rw", "", "RW implies Admin", "row "+m+" grants RW without Admin")
		}
	}

	// ---- handlers ---------------------------------------------------------------------------------------
	wclass := c.dbWriteClass()
	nW := 0
	for _, w := range wclass {
		if w {
			nW++
		}
	}
	c.count("db_methods", len(wclass))
	c.count("db_methods_write_class", nW)
	if nW < 15 {
		c.undecided("C18.2/effect-classes", "write-class", fmt.Sprintf("expected >=15 write-class DB methods, computed %d", nW))
	}
	handlers := c.serviceHandlers()
	c.count("rpc_handlers", len(handlers))
	if len(handlers) < 90 {
		c.undecided("C18.1/every-rpc-gated", "handlers:floor", fmt.Sprintf("expected >=90 RPC handlers on *ImmuServer, found %d", len(handlers)))
	}
	gateUse := map[string][]string{} // M -> handlers
	for _, name := range sortedKeys(handlers) {
		h := handlers[name]
		inPkg := func(f *ssa.Function) bool { return !fnInPkgs(f, []string{"pkg/server"}) }
		reach := staticReach(h.fn, 3, inPkg)
		for g := range reach {
			if !fnInPkgs(g, []string{"pkg/server"}) {
				continue
			}
			if fnName(g) == srvT+"getDBFromCtx" {
				continue
			}
			allInstrs(g, false, func(in ssa.Instruction) {
				cc := callOf(in)
				if cc == nil {
					return
				}
				n := calleeName(cc)
				if n == srvT+"getDBFromCtx" && len(cc.Args) == 3 {
					if k, ok := cc.Args[2].(*ssa.Const); ok && k.Value != nil && k.Value.Kind() == constant.String {
						h.gates[constant.StringVal(k.Value)] = true
					} else {
						h.gates["<non-constant>"] = true
					}
				}
				if strings.HasPrefix(n, "(pkg/database.DB).") {
					m := strings.TrimPrefix(n, "(pkg/database.DB).")
					if nonDataDBMethods[m] {
						return
					}
					if hasFieldSuffix(desc(cc.Value), "sysDB") {
						h.sysCalls[m] = true
						return
					}
					h.dbCalls[m] = true
					w := wclass[m]
					if conditionalWriters[m] {
						// writes only when no transaction is supplied (DML ... RETURNING committed on close)
						k, isConst := cc.Args[1].(*ssa.Const)
						w = isConst && k.IsNil()
					}
					if w {
						h.writes = true
						h.writeCalls[m] = true
					}
				}
			})
		}
		for m := range h.gates {
			gateUse[m] = append(gateUse[m], name)
		}
	}
	// C18.1: a handler that touches a database goes through a gate, or is a listed exception
	for _, name := range sortedKeys(handlers) {
		h := handlers[name]
		if len(h.dbCalls) == 0 {
			continue
		}
		construct := "handler:" + name
		if len(h.gates) > 0 {
			ms := sortedKeys(h.gates)
			bad := ""
			for _, m := range ms {
				if _, ok := perm[m]; !ok {
					bad = m
				}
			}
			c.check(bad == "", "C18.1/every-rpc-gated", construct+":gate-has-row", c.pos(h.fn.Pos()), "gates "+strings.Join(ms, ",")+" have permission rows", "handler "+name+" passes method name "+bad+" to getDBFromCtx, which has no permission row (always denied or unchecked)")
			// C18.2: gate strength matches effect
			if h.writes {
				for _, m := range ms {
					vs := perm[m]
					c.check(!has(vs, pR), "C18.2/gate-strength", construct+":write-needs-RW:"+m, c.pos(h.fn.Pos()),
						"write-class handler gated by "+m+" "+fmt.Sprint(vs), fmt.Sprintf("handler %s can modify the database (calls %v) but its gate %q admits read-only users", name, writeCalls(h, wclass), m))
				}
			}
			continue
		}
		if reason, ok := nonGatedDBHandlers[name]; ok {
			c.okTrivial("C18.1/every-rpc-gated", construct, c.pos(h.fn.Pos()), "documented: "+reason)
			c18NonGated(c, name, h)
			continue
		}
		c.fail("C18.1/every-rpc-gated", construct, c.pos(h.fn.Pos()), fmt.Sprintf("RPC handler %s calls database methods %v without passing getDBFromCtx", name, sortedKeys(h.dbCalls)))
	}
	c18Admin(c, handlers)
	// every DB call in a gated handler is dominated by a successful gate (same function)
	for _, name := range sortedKeys(handlers) {
		h := handlers[name]
		c18GateDominates(c, name, h.fn)
	}
	// admin-class gates
	for _, m := range []string{"FlushIndex", "CompactIndex", "ExportTx", "ReplicateTx", "ListUsers", "CreateUser", "ChangePassword", "SetPermission", "SetActiveUser", "DeactivateUser", "Dump"} {
		vs, ok := perm[m]
		c.check(ok && !has(vs, pR) && !has(vs, pRW), "C18.2/admin-gates", "methodsPermissions["+m+"]:admin-only", "", fmt.Sprint(vs), "administrative method "+m+" is open to non-admin permissions: "+fmt.Sprint(vs))
	}
	for _, m := range []string{"CreateDatabase", "CreateDatabaseV2", "UpdateDatabase", "UpdateDatabaseV2", "UpdateAuthConfig", "UpdateMTLSConfig"} {
		vs, ok := perm[m]
		c.check(ok && len(vs) == 1 && vs[0] == pSys, "C18.2/admin-gates", "methodsPermissions["+m+"]:sysadmin-only", "", fmt.Sprint(vs), "method "+m+" must be sysadmin-only: "+fmt.Sprint(vs))
	}

	// ---- C18.3 system database allow-list has no write-class method ------------------------------------------
	for _, m := range sortedKeys(maint) {
		writers := []string{}
		for _, hn := range gateUse[m] {
			if handlers[hn].writes {
				writers = append(writers, hn)
			}
		}
		sort.Strings(writers)
		if reason, ok := sysdbWriteExceptions[m]; ok {
			vs := perm[m]
			c.check(!has(vs, pR) && !has(vs, pRW), "C18.3/systemdb-allow-list", "maintenanceMethods["+m+"]", "", "write-class by design ("+reason+"), admin-only", "exception "+m+" is not admin-only")
			continue
		}
		c.check(len(writers) == 0, "C18.3/systemdb-allow-list", "maintenanceMethods["+m+"]", "", "no handler gated by "+m+" can write",
			fmt.Sprintf("method %q is allowed on the system database (and in maintenance mode) but handlers %v gated by it can modify the database", m, writers))
		// and a method without any handler is suspicious only if it is write-looking: skip
	}

	// ---- C18.5 the gate itself -----------------------------------------------------------------------------------
	c18Gate(c)
	// ---- C18.6 stale sessions ---------------------------------------------------------------------------------------
	c18Sessions(c)
	c18TxDatabase(c)
	c18EffectiveUpdates(c)
	c18TokenExpiry(c)
	c18AccountOwnership(c)
	c18RevocationReachesEverySession(c)
	c18PermissionChangeKeepsOtherDatabases(c)
	c18PerMessageGate(c)
	// ---- C18.4 SQL statements: readOnly() agrees with effects ------------------------------------------------------
	c18SQLReadOnly(c)
}

func writeCalls(h *handlerInfo, wclass map[string]bool) []string {
	out := sortedKeys(h.writeCalls)
	sort.Strings(out)
	return out
}

// database.DB methods that expose no data and change nothing (names, flags, limits)
var nonDataDBMethods = map[string]bool{"GetName": true, "IsClosed": true, "GetOptions": true, "Path": true, "MaxResultSize": true, "IsReplica": true, "IsSyncReplicationEnabled": true}

// database.DB methods that commit only when called without a transaction (see QueryPreparedStmt)
var conditionalWriters = map[string]bool{"SQLQuery": true, "SQLQueryPrepared": true, "SQLQueryAll": true}

// serviceHandlers: methods of *ImmuServer that implement a method of the generated gRPC service interfaces.
func (c *Ctx) serviceHandlers() map[string]*handlerInfo {
	out := map[string]*handlerInfo{}
	ifaces := [][2]string{{"pkg/api/schema", "ImmuServiceServer"}, {"pkg/api/protomodel", "DocumentServiceServer"}, {"pkg/api/protomodel", "AuthorizationServiceServer"}}
	sp, ok := c.byPath[modPrefix+"pkg/server"]
	if !ok {
		c.undecided("anchor/pkg", "pkg/server", "package not loaded")
		return out
	}
	srvObj := sp.Types.Scope().Lookup("ImmuServer")
	if srvObj == nil {
		c.undecided("anchor/type", "pkg/server.ImmuServer", "type does not resolve")
		return out
	}
	ms := c.Prog.MethodSets.MethodSet(types.NewPointer(srvObj.Type()))
	for _, it := range ifaces {
		t := c.namedType(it[0], it[1])
		if t == nil {
			continue
		}
		iface, ok := t.Underlying().(*types.Interface)
		if !ok {
			continue
		}
		for i := 0; i < iface.NumMethods(); i++ {
			m := iface.Method(i)
			if !m.Exported() {
				continue
			}
			sel := ms.Lookup(nil, m.Name())
			if sel == nil {
				sel = ms.Lookup(sp.Types, m.Name())
			}
			if sel == nil {
				c.undecided("C18.1/every-rpc-gated", "rpc:"+m.Name(), "service method has no implementation on *ImmuServer")
				continue
			}
			f := c.Prog.MethodValue(sel)
			if f == nil || len(f.Blocks) == 0 {
				continue
			}
			// promoted from an embedded Unimplemented*Server: not a handler
			if !fnInPkgs(f, []string{"pkg/server"}) {
				continue
			}
			out[m.Name()] = &handlerInfo{fn: f, gates: map[string]bool{}, dbCalls: map[string]bool{}, sysCalls: map[string]bool{}, writeCalls: map[string]bool{}}
		}
	}
	return out
}

// handlers that reach a database without getDBFromCtx; each carries its own documented check
var nonGatedDBHandlers = map[string]string{
	"DatabaseList":     "lists only the databases returned by listLoggedInUserDatabases (permission-aware); checked below",
	"DatabaseListV2":   "lists only the databases returned by listLoggedInUserDatabases (permission-aware); checked below",
	"ServerInfo":       "reports the aggregate transaction count of all databases (no per-database data)",
	"UnloadDatabase":   "database administration: admin rule below",
	"UpdateDatabase":   "database administration: delegates to UpdateDatabaseV2",
	"UpdateDatabaseV2": "database administration: admin rule below",
}

// administrative handlers: every successful return must be dominated by the caller being sysadmin or
// admin of the database concerned (after the logged-in user has been resolved)
var adminHandlers = map[string]string{
	"CreateUser": "", "ChangePassword": "", "ChangePermission": "", "SetActiveUser": "", "ChangeSQLPrivileges": "",
	"CreateDatabaseV2": "", "LoadDatabase": "", "UnloadDatabase": "", "DeleteDatabase": "", "UpdateDatabaseV2": "", "TruncateDatabase": "",
}

// thin wrappers that only delegate to another handler
var delegatingHandlers = map[string]string{
	"CreateDatabase": "CreateDatabaseV2", "CreateDatabaseWith": "CreateDatabaseV2", "UpdateDatabase": "UpdateDatabaseV2",
}

func c18NonGated(c *Ctx, name string, h *handlerInfo) {}

func c18Admin(c *Ctx, handlers map[string]*handlerInfo) {
	r := "C18.2/admin-handlers"
	authz := anyEdge(
		whenCond(true, func(a string) bool {
			return strings.HasSuffix(a, "#1.IsSysAdmin") && strings.Contains(a, "getLoggedInUserdataFromCtx")
		}),
		whenCond(true, func(a string) bool {
			return (strings.HasPrefix(a, "call:pkg/auth.(*User).HasPermission[") || strings.HasPrefix(a, "call:pkg/auth.(*User).HasAtLeastOnePermission[")) && strings.Contains(a, "getLoggedInUserdataFromCtx")
		}),
	)
	for _, name := range sortedKeys(adminHandlers) {
		h, ok := handlers[name]
		if !ok {
			c.undecided(r, "handler:"+name, "administrative handler not found among the RPC handlers")
			continue
		}
		f := h.fn
		c.ruleErrChecked(r, f, "getLoggedInUserdataFromCtx", callTo(srvT+"getLoggedInUserdataFromCtx"), 1)
		q := &pathQ{fn: f, fromEntry: true, to: successReturn, barrier: authz}
		construct := "handler:" + name + ":authorised-before-success"
		if w := q.bypass(); w != nil {
			c.fail(r, construct, c.pos(w[len(w)-1].Pos()), "administrative handler "+name+" can succeed without the caller being sysadmin or admin of the database: "+c.witnessStr(w))
		} else {
			c.ok(r, construct, c.pos(f.Pos()), "every possibly successful return crosses IsSysAdmin or HasPermission(...) of the logged-in user")
		}
	}
	// handlers that hand out rights on the database NAMED IN THE REQUEST are authorised by the caller's permission on
	// that very database: being admin of some other database (HasAtLeastOnePermission) is not enough
	rdb := "C18.2/rights-on-named-database-need-admin-there"
	onNamed := anyEdge(
		whenCond(true, func(a string) bool {
			return strings.HasSuffix(a, "#1.IsSysAdmin") && strings.Contains(a, "getLoggedInUserdataFromCtx")
		}),
		func(b *ssa.BasicBlock, succ int) bool {
			if len(b.Instrs) == 0 {
				return false
			}
			ifi, ok := b.Instrs[len(b.Instrs)-1].(*ssa.If)
			if !ok {
				return false
			}
			v, pol := ifi.Cond, true
			for {
				u, ok := v.(*ssa.UnOp)
				if !ok || u.Op != token.NOT {
					break
				}
				v, pol = u.X, !pol
			}
			cl, ok := v.(*ssa.Call)
			if !ok || calleeName(&cl.Call) != "pkg/auth.(*User).HasPermission" || len(cl.Call.Args) < 3 {
				return false
			}
			if !strings.Contains(desc(cl.Call.Args[0]), "getLoggedInUserdataFromCtx") {
				return false
			}
			// the database argument is the Database field of the handler's request parameter (whatever its name)
			fl, base := fieldOf(cl.Call.Args[1])
			if _, isParam := base.(*ssa.Parameter); !isParam || !strings.HasSuffix(fl, ".Database") {
				return false
			}
			return (succ == 0) == pol
		},
	)
	for _, name := range []string{"CreateUser", "ChangePermission", "ChangeSQLPrivileges"} {
		h, ok := handlers[name]
		if !ok {
			c.undecided(rdb, "handler:"+name, "handler not found among the RPC handlers")
			continue
		}
		q := &pathQ{fn: h.fn, fromEntry: true, to: successReturn, barrier: onNamed}
		construct := "handler:" + name + ":admin-of-requested-database"
		if w := q.bypass(); w != nil {
			c.fail(rdb, construct, c.pos(w[len(w)-1].Pos()), name+" can succeed for a caller that is neither sysadmin nor admin of the database named in the request: "+c.witnessStr(w))
		} else {
			c.ok(rdb, construct, c.pos(h.fn.Pos()), "every possibly successful return crosses IsSysAdmin or HasPermission(r.Database, ...) of the logged-in user")
		}
	}
	for _, name := range sortedKeys(delegatingHandlers) {
		h, ok := handlers[name]
		if !ok {
			c.undecided(r, "handler:"+name, "delegating handler not found")
			continue
		}
		c.ruleMustPass(r, h.fn, nil, "delegate:"+delegatingHandlers[name], callTo(srvT+delegatingHandlers[name]), nil, false)
	}
}

// c18GateDominates: inside one function, every call on a database.DB value obtained from getDBFromCtx is
// dominated by the err==nil edge of that call.
func c18GateDominates(c *Ctx, name string, fn *ssa.Function) {
	for _, g := range sites(fn, callTo(srvT+"getDBFromCtx")) {
		call := g.(*ssa.Call)
		var dbv ssa.Value
		for _, r := range *call.Referrers() {
			if e, ok := r.(*ssa.Extract); ok && e.Index == 0 {
				dbv = e
			}
		}
		if dbv == nil {
			continue
		}
		errEdge := errEdgeOf(g)
		n := 0
		bad := ""
		for _, r := range *dbv.Referrers() {
			in, ok := r.(ssa.Instruction)
			if !ok {
				continue
			}
			if _, isDbg := in.(*ssa.DebugRef); isDbg {
				continue
			}
			n++
			// unreachable through the error edge and reachable only after the test
			q := &pathQ{fn: fn, fromEntry: true, to: func(x ssa.Instruction) bool { return x == in }, barrier: func(b *ssa.BasicBlock, s int) bool {
				// block all non-error edges of the If that tests this call's error: the use must then be unreachable… inverse: we want
				// "every path to the use crosses the err==nil edge", so remove that edge and test reachability
				return isIfOn(b, g) && !errEdge(b, s)
			}}
			if q.bypass() != nil {
				bad = c.pos(in.Pos())
			}
		}
		construct := fmt.Sprintf("%s:db-used-only-after-successful-gate", fnName(fn))
		if n == 0 {
			continue
		}
		c.check(bad == "", "C18.1/gate-dominates-use", construct, c.pos(g.Pos()), "every use of the database value is dominated by the err==nil edge of getDBFromCtx", "the database returned by getDBFromCtx is used at "+bad+" on a path that did not pass the permission check")
	}
}

func c18Gate(c *Ctx) {
	r := "C18.5/gate"
	f := c.mustFn(r, srvT+"getDBFromCtx")
	if f == nil {
		return
	}
	// successful returns: first result is not the nil constant
	succ := func(in ssa.Instruction) bool {
		rt, ok := in.(*ssa.Return)
		if !ok || len(rt.Results) != 2 {
			return false
		}
		if retKind(rt) == "fail" {
			return false
		}
		if k, ok := rt.Results[0].(*ssa.Const); ok && k.IsNil() {
			return false // no database handed out
		}
		return true
	}
	authOff := whenCond(false, func(a string) bool { return hasFieldSuffix(a, "Options.auth") || strings.HasSuffix(a, ".auth") })
	// (a) the system database guard: ind == sysDBIndex && !IsMaintenanceMethod(m) -> denied
	sysGuard := anyEdge(
		whenCond(false, func(a string) bool {
			return strings.Contains(a, "getLoggedInUserdataFromCtx") && strings.Contains(a, " == ") && strings.Contains(a, "#0")
		}),
		whenCond(true, func(a string) bool { return strings.HasPrefix(a, "call:pkg/auth.IsMaintenanceMethod(param:methodName") }),
	)
	q := &pathQ{fn: f, fromEntry: true, to: succ, barrier: anyEdge(authOff, sysGuard)}
	// remove auth-disabled exit, remove "ind != sysDBIndex" and "IsMaintenanceMethod true" edges: no success may remain
	if w := q.bypass(); w != nil {
		c.fail(r, fnName(f)+":systemdb-guard-dominates-success", c.pos(w[len(w)-1].Pos()), "a database is returned without passing the system-database guard (ind == sysDBIndex && !IsMaintenanceMethod): "+c.witnessStr(w))
	} else {
		c.ok(r, fnName(f)+":systemdb-guard-dominates-success", c.pos(f.Pos()), "every successful return crosses ind != sysDBIndex or IsMaintenanceMethod(m)")
	}
	// (b) permission: sysadmin or HasPermissionForMethod
	permEdge := anyEdge(
		whenCond(true, func(a string) bool { return hasFieldSuffix(a, "IsSysAdmin") }),
		whenCond(true, func(a string) bool { return strings.HasPrefix(a, "call:pkg/auth.HasPermissionForMethod(") }),
	)
	q = &pathQ{fn: f, fromEntry: true, to: succ, barrier: anyEdge(authOff, permEdge)}
	if w := q.bypass(); w != nil {
		c.fail(r, fnName(f)+":permission-dominates-success", c.pos(w[len(w)-1].Pos()), "a database is returned without IsSysAdmin or HasPermissionForMethod: "+c.witnessStr(w))
	} else {
		c.ok(r, fnName(f)+":permission-dominates-success", c.pos(f.Pos()), "every successful return crosses IsSysAdmin or HasPermissionForMethod(...)")
	}
	// (c) the permission looked up is the one on the database being returned, for the method asked
	for _, in := range sites(f, callTo("pkg/auth.HasPermissionForMethod")) {
		a := callOf(in).Args
		onDB := dependsOn(a[0], func(v ssa.Value) bool {
			cl, ok := v.(*ssa.Call)
			return ok && calleeName(&cl.Call) == "(pkg/database.DB).GetName"
		})
		c.check(strings.Contains(desc(a[0]), "WhichPermission") && onDB && desc(a[1]) == "param:methodName", r, fnName(f)+":permission-arguments", c.pos(in.Pos()),
			"HasPermissionForMethod(usr.WhichPermission(db.GetName()), methodName)", "permission is evaluated on "+desc(a[0])+" / "+desc(a[1]))
	}
	// (d) the logged-in user is resolved and its failure leaves
	c.ruleErrChecked(r, f, "getLoggedInUserdataFromCtx", callTo(srvT+"getLoggedInUserdataFromCtx"), 1)
	// (e) maintenance mode
	q = &pathQ{fn: f, fromEntry: true, to: succ, barrier: anyEdge(authOff,
		whenCond(false, func(a string) bool { return strings.Contains(a, "GetMaintenance") }),
		whenCond(true, func(a string) bool { return strings.HasPrefix(a, "call:pkg/auth.IsMaintenanceMethod(param:methodName") }))}
	c.check(q.bypass() == nil, r, fnName(f)+":maintenance-mode-guard", c.pos(f.Pos()), "in maintenance mode only maintenance methods pass", "a non-maintenance method passes the gate in maintenance mode")
	// HasPermissionForMethod: unknown method -> false
	if g := c.mustFn(r, "pkg/auth.HasPermissionForMethod"); g != nil {
		okv := false
		allInstrs(g, false, func(in ssa.Instruction) {
			if ifi, ok := in.(*ssa.If); ok {
				a, _ := normCond(ifi.Cond)
				if strings.Contains(a, "methodsPermissions") && strings.Contains(a, "#1") {
					// not-found edge returns false
					b := ifi.Block().Succs[1]
					if _, pol := normCond(ifi.Cond); !pol {
						b = ifi.Block().Succs[0]
					}
					for _, x := range b.Instrs {
						if rt, ok := x.(*ssa.Return); ok && desc(rt.Results[0]) == "const:false" {
							okv = true
						}
					}
				}
			}
		})
		c.check(okv, r, fnName(g)+":unknown-method-denied", c.pos(g.Pos()), "a method without a row is denied", "HasPermissionForMethod no longer denies methods without a row")
	}
}

// alwaysDropsUserdata: on every path from entry to a return the function deletes the entry of the cached
// username -> user record map (directly or through a callee that always does). A deletion that depends on a login
// counter does not qualify: with two logins the record cached before the change keeps authenticating.
func alwaysDropsUserdata(f *ssa.Function, depth int) bool {
	if f == nil || len(f.Blocks) == 0 || depth > 3 {
		return false
	}
	drop := func(in ssa.Instruction) bool {
		cc := callOf(in)
		if cc == nil {
			return false
		}
		if _, isCall := in.(*ssa.Call); !isCall {
			return false
		}
		if b, ok := cc.Value.(*ssa.Builtin); ok && b.Name() == "delete" && len(cc.Args) == 2 {
			return hasFieldSuffix(desc(cc.Args[0]), "Userdata")
		}
		return alwaysDropsUserdata(cc.StaticCallee(), depth+1)
	}
	if len(sites(f, drop)) == 0 {
		return false
	}
	q := &pathQ{fn: f, fromEntry: true, to: isReturn, via: drop}
	return q.bypass() == nil
}

func c18Sessions(c *Ctx) {
	r := "C18.6/stale-sessions"
	for _, n := range []string{"ChangePassword", "ChangePermission", "SetActiveUser", "ChangeSQLPrivileges"} {
		f := c.mustFn(r, srvT+n)
		if f == nil {
			continue
		}
		saves := sites(f, callTo(srvT+"saveUser"))
		if len(saves) == 0 {
			c.undecided(r, fnName(f)+":saveUser", "no saveUser call")
			continue
		}
		for _, via := range []struct {
			n string
			p sitePred
		}{{"drop-cached-user-record", func(in ssa.Instruction) bool {
			cc := callOf(in)
			if cc == nil {
				return false
			}
			if _, isCall := in.(*ssa.Call); !isCall {
				return false
			}
			return alwaysDropsUserdata(cc.StaticCallee(), 0)
		}}, {"CloseSessionsForUser", callTo("(pkg/server/sessions.Manager).CloseSessionsForUser", "pkg/server/sessions.(*manager).CloseSessionsForUser")}} {
			q := &pathQ{fn: f, from: saves, to: successReturn, via: via.p}
			construct := fmt.Sprintf("%s:after-saveUser:%s", fnName(f), via.n)
			if len(sites(f, via.p)) == 0 {
				c.fail(r, construct, c.pos(f.Pos()), n+" never calls "+via.n)
				continue
			}
			if w := q.bypass(); w != nil {
				c.fail(r, construct, c.pos(w[len(w)-1].Pos()), "after the user record is saved a successful return is reachable without "+via.n+": a session opened from the old record stays valid: "+c.witnessStr(w))
			} else {
				c.ok(r, construct, c.pos(f.Pos()), "every successful return after saveUser passes "+via.n)
			}
		}
		c.ruleErrChecked(r, f, "saveUser", callTo(srvT+"saveUser"), 1)
	}
}

// c18TxDatabase: statements sent to a session transaction are authorised against the database the session is
// using (multidbHandler.GetLoggedUser -> getDBFromCtx) but run on the database the transaction was opened on:
// every use of a session transaction by a handler is preceded by the check that the two are the same database.
func c18TxDatabase(c *Ctx) {
	r := "C18.7/tx-database-pinned"
	use := callTo("(pkg/server/sessions/internal/transactions.Transaction).SQLExec", "(pkg/server/sessions/internal/transactions.Transaction).SQLQuery")
	chk := callTo(srvT + "checkTxDatabase")
	n := 0
	for _, f := range c.allFns {
		if !fnInPkgs(f, []string{"pkg/server"}) || len(sites(f, use)) == 0 {
			continue
		}
		for i, in := range sites(f, use) {
			n++
			q := &pathQ{fn: f, fromEntry: true, to: func(x ssa.Instruction) bool { return x == in }, via: chk}
			w := q.bypass()
			c.check(w == nil, r, fmt.Sprintf("%s:tx-use#%d", fnName(f), i), c.pos(in.Pos()), "the statement is sent to the transaction only after checkTxDatabase",
				"a statement reaches a session transaction without the check that the session is still using the transaction's database (permission is evaluated on the session's database): "+c.witnessStr(w))
		}
		c.ruleErrChecked(r, f, "checkTxDatabase", chk, 1)
		// the gate is evaluated with the method name of the matching non-transactional RPC: executing needs a
		// write-class row (no read-only permission), querying the SQLQuery row
		for i, in := range sites(f, chk) {
			args := callOf(in).Args
			m := ""
			if len(args) > 0 {
				m = strings.TrimPrefix(desc(args[len(args)-1]), "const:")
				m = strings.Trim(m, "\"")
			}
			want := "SQLQuery"
			if len(sites(f, callTo("(pkg/server/sessions/internal/transactions.Transaction).SQLExec"))) > 0 {
				want = "SQLExec"
			}
			c.check(m == want, r, fmt.Sprintf("%s:gate-method#%d", fnName(f), i), c.pos(in.Pos()), "gated as "+want, "a handler that "+map[string]string{"SQLExec": "executes statements", "SQLQuery": "queries"}[want]+" on a session transaction is gated as "+m+" instead of "+want)
		}
	}
	if n < 2 {
		c.undecided(r, "floor", fmt.Sprintf("%d uses of a session transaction by handlers found (TxSQLExec, TxSQLQuery confirmed by hand)", n))
	}
	if f := c.mustFn(r, srvT+"checkTxDatabase"); f != nil {
		same := whenCond(true, func(a string) bool { return strings.Count(a, "GetName") == 2 && strings.Contains(a, " == ") })
		q := &pathQ{fn: f, fromEntry: true, to: successReturn, barrier: same}
		w := q.bypass()
		c.check(w == nil, r, fnName(f)+":names-equal", c.pos(f.Pos()), "success only on the edge where the session's database name equals the transaction's", "checkTxDatabase can succeed without comparing the two database names: "+c.witnessStr(w))
		gate := callTo(srvT + "getDBFromCtx")
		c.ruleMustPass(r, f, nil, "getDBFromCtx", gate, nil, false)
		c.ruleErrChecked(r, f, "getDBFromCtx", gate, 1)
		for i, in := range sites(f, gate) {
			args := callOf(in).Args
			c.check(len(args) > 0 && desc(args[len(args)-1]) == "param:methodName", r, fmt.Sprintf("%s:gate-forwards-method#%d", fnName(f), i), c.pos(in.Pos()), "the caller's method name reaches the gate", "checkTxDatabase gates with "+desc(args[len(args)-1])+" instead of the caller's method name")
		}
	}
	// the only other way to a transaction's database is through the transaction itself; NewTransaction binds the session's database
	if f := c.fn("pkg/server/sessions.(*Session).NewTransaction"); f != nil {
		okb := false
		for _, in := range sites(f, callTo("pkg/server/sessions/internal/transactions.NewTransaction")) {
			for _, a := range callOf(in).Args {
				if hasFieldSuffix(desc(a), "database") {
					okb = true
				}
			}
		}
		c.check(okb, r, fnName(f)+":binds-session-database", c.pos(f.Pos()), "the transaction is created on the session's current database", "Session.NewTransaction no longer passes the session's database")
	} else {
		c.undecided(r, "Session.NewTransaction", "does not resolve")
	}
}

// c18EffectiveUpdates: code that changes a user's permissions / privileges / state works on auth.User values; an
// assignment to a field of a *local copy* (typically the value variable of a `range` loop) that is never read again
// has no effect: the user record that is saved keeps the old permission while the RPC reports success.
func c18EffectiveUpdates(c *Ctx) {
	r := "C18.8/permission-update-effective"
	n := 0
	for _, f := range c.allFns {
		if !fnInPkgs(f, []string{"pkg/auth"}) && !(fnInPkgs(f, []string{"pkg/server"}) && strings.Contains(strings.ToLower(fnName(f)), "user")) && !(fnInPkgs(f, []string{"pkg/server"}) && strings.Contains(fnName(f), "Permission")) {
			continue
		}
		per := 0
		allInstrs(f, false, func(in ssa.Instruction) {
			st, ok := in.(*ssa.Store)
			if !ok {
				return
			}
			fa, ok := st.Addr.(*ssa.FieldAddr)
			if !ok {
				return
			}
			a, ok := fa.X.(*ssa.Alloc)
			if !ok || a.Heap {
				return
			}
			sn := structName(a.Type())
			if sn != "Permission" && sn != "User" && sn != "SQLPrivilege" {
				return
			}
			n++
			per++
			// is the object read (as a whole or this field) after the store, or does it escape?
			used := false
			for _, ref := range *a.Referrers() {
				switch x := ref.(type) {
				case *ssa.UnOp: // whole-struct load
					if reachesInstr(st, x) {
						used = true
					}
				case *ssa.FieldAddr:
					for _, r2 := range *x.Referrers() {
						if ld, ok := r2.(*ssa.UnOp); ok && x.Field == fa.Field && reachesInstr(st, ld) {
							used = true
						}
						if _, isStore := r2.(*ssa.Store); !isStore {
							if _, isLoad := r2.(*ssa.UnOp); !isLoad {
								used = true // address passed on
							}
						}
					}
				case *ssa.Store:
				default:
					used = true // address escapes (call argument, closure, ...)
				}
			}
			c.check(used, r, fmt.Sprintf("%s:%s.%s#%d", fnName(f), sn, fieldName(a.Type(), fa.Field), per), c.pos(st.Pos()), "the updated object is read or stored afterwards",
				"assignment to "+sn+"."+fieldName(a.Type(), fa.Field)+" of a local copy that is never used again: the update is lost (range-by-value?)")
		})
	}
	c.count("local_user_record_updates", n)
}

// c18PerMessageGate: a bidirectional stream outlives the authorisation decision made when it was opened: "deactivated
// or re-permissioned sessions are refused" holds for a long-lived stream only if every received message passes the gate
// again before it touches a database.
func c18PerMessageGate(c *Ctx) {
	r := "C18.1/gate-per-stream-message"
	gate := callTo(srvT + "getDBFromCtx")
	isDB := func(in ssa.Instruction) bool {
		cc := callOf(in)
		return cc != nil && strings.HasPrefix(calleeName(cc), "(pkg/database.DB).") && calleeName(cc) != "(pkg/database.DB).GetName" && calleeName(cc) != "(pkg/database.DB).MaxResultSize"
	}
	// callee that touches a database only after gating (on every path)
	var gatesFirst func(f *ssa.Function, d int) (touches, gated bool)
	gatesFirst = func(f *ssa.Function, d int) (bool, bool) {
		if f == nil || len(f.Blocks) == 0 || d > 2 {
			return false, true
		}
		touch := func(in ssa.Instruction) bool {
			if isDB(in) {
				return true
			}
			if cc := callOf(in); cc != nil {
				if g := cc.StaticCallee(); g != nil && g.Pkg != nil && strings.HasSuffix(g.Pkg.Pkg.Path(), "pkg/server") {
					t, ok := gatesFirst(g, d+1)
					return t && !ok
				}
			}
			return false
		}
		if len(sites(f, touch)) == 0 {
			return false, true
		}
		q := &pathQ{fn: f, fromEntry: true, to: touch, via: gate}
		return true, q.bypass() == nil
	}
	n := 0
	for _, f := range c.allFns {
		if !fnInPkgs(f, []string{"pkg/server"}) || len(f.Blocks) == 0 {
			continue
		}
		recvs := sites(f, func(in ssa.Instruction) bool {
			cc := callOf(in)
			_, isCall := in.(*ssa.Call)
			return isCall && cc != nil && cc.IsInvoke() && cc.Method.Name() == "Recv" && reaches(in.Block(), in.Block(), nil)
		})
		if len(recvs) == 0 {
			continue
		}
		n++
		touch := func(in ssa.Instruction) bool {
			if isDB(in) {
				return true
			}
			if cc := callOf(in); cc != nil {
				if g := cc.StaticCallee(); g != nil && g.Pkg != nil && strings.HasSuffix(g.Pkg.Pkg.Path(), "pkg/server") {
					t, ok := gatesFirst(g, 0)
					return t && !ok
				}
			}
			return false
		}
		q := &pathQ{fn: f, from: recvs, to: touch, via: gate}
		w := q.bypass()
		c.check(w == nil, r, fnName(f), c.pos(recvs[0].Pos()), "every message received on the stream passes getDBFromCtx (directly or in the callee) before a database is touched",
			"after Recv() a database is used without passing the gate again: the permission check made when the stream was opened keeps authorising messages after the user was deactivated or re-permissioned: "+c.witnessStr(w))
	}
	if n < 1 {
		c.undecided(r, "floor", "no handler with a Recv loop found (StreamExportTx confirmed by hand)")
	}
}

// c18TokenExpiry: "expired ... sessions are refused": token authentication validates the expiry claim. The paseto
// library applies its default time validation (ValidAt(now)) only when Validate is given no validators; any explicit
// validator list replaces it, so it must contain ValidAt itself.
func c18TokenExpiry(c *Ctx) {
	r := "C18.9/token-expiry-validated"
	f := c.mustFn(r, "pkg/auth.verifyToken")
	if f == nil {
		return
	}
	val := callTo("github.com/o1egl/paseto.(*JSONToken).Validate")
	c.ruleMustPass(r, f, nil, "JSONToken.Validate", val, nil, false)
	c.ruleErrChecked(r, f, "JSONToken.Validate", val, 1)
	for i, in := range sites(f, val) {
		args := callOf(in).Args
		va := args[len(args)-1]
		okv := false
		if k, isConst := va.(*ssa.Const); isConst && k.IsNil() {
			okv = true // default validators: ValidAt(time.Now())
		}
		if dependsOn(va, func(v ssa.Value) bool {
			cl, ok := v.(*ssa.Call)
			return ok && calleeName(&cl.Call) == "github.com/o1egl/paseto.ValidAt"
		}) {
			okv = true
		}
		c.check(okv, r, fmt.Sprintf("%s:validators-include-expiry#%d", fnName(f), i), c.pos(in.Pos()), "Validate() with the default time validation, or an explicit ValidAt",
			"Validate is called with an explicit validator list that does not contain ValidAt: the library then skips its default expiry check and expired tokens keep authenticating")
	}
}

// reachesInstr: b can execute after a (same block later, or in a block reachable from a's block)
func reachesInstr(a, b ssa.Instruction) bool {
	if a.Block() == b.Block() {
		ia, ib := idxIn(a), idxIn(b)
		if ib > ia {
			return true
		}
	}
	seen := map[*ssa.BasicBlock]bool{}
	var q []*ssa.BasicBlock
	q = append(q, a.Block().Succs...)
	for len(q) > 0 {
		x := q[0]
		q = q[1:]
		if seen[x] {
			continue
		}
		seen[x] = true
		if x == b.Block() {
			return true
		}
		q = append(q, x.Succs...)
	}
	return false
}

// c18SQLReadOnly: a statement whose execAt can reach a tx write or catalog mutation reports readOnly()==false.
func c18SQLReadOnly(c *Ctx) {
	r := "C18.4/sql-readonly-agrees"
	pp, ok := c.byPath[modPrefix+"embedded/sql"]
	if !ok {
		return
	}
	stmtT := c.namedType("embedded/sql", "SQLStmt")
	if stmtT == nil {
		return
	}
	iface := stmtT.Underlying().(*types.Interface)
	writers := map[string]bool{
		"embedded/sql.(*SQLTx).set": true, "embedded/sql.(*SQLTx).setTransient": true, "embedded/sql.(*SQLTx).delete": true,
	}
	n := 0
	scope := pp.Types.Scope()
	for _, nm := range scope.Names() {
		tn, ok := scope.Lookup(nm).(*types.TypeName)
		if !ok {
			continue
		}
		pt := types.NewPointer(tn.Type())
		if !types.Implements(pt, iface) {
			continue
		}
		ms := c.Prog.MethodSets.MethodSet(pt)
		var exec, ro *ssa.Function
		for i := 0; i < ms.Len(); i++ {
			switch ms.At(i).Obj().Name() {
			case "execAt":
				exec = c.Prog.MethodValue(ms.At(i))
			case "readOnly":
				ro = c.Prog.MethodValue(ms.At(i))
			}
		}
		if exec == nil || ro == nil || len(exec.Blocks) == 0 || len(ro.Blocks) == 0 {
			continue
		}
		n++
		reach := staticReach(exec, 4, func(f *ssa.Function) bool { return !fnInPkgs(f, []string{"embedded/sql"}) })
		w := ""
		for g := range reach {
			if writers[fnName(g)] {
				w = fnName(g)
			}
		}
		// readOnly() constant?
		roVal := ""
		allInstrs(ro, false, func(in ssa.Instruction) {
			if rt, ok := in.(*ssa.Return); ok && len(rt.Results) == 1 {
				roVal += desc(rt.Results[0]) + ";"
			}
		})
		construct := "stmt:" + nm
		if w != "" {
			c.check(roVal == "const:false;", r, construct, c.pos(ro.Pos()), "writes (reaches "+lastSeg(w)+") and readOnly()==false", fmt.Sprintf("statement %s can write (reaches %s) but readOnly() returns %s: it is allowed in read-only transactions and for read-only users", nm, w, roVal))
		} else {
			c.okTrivial(r, construct, c.pos(ro.Pos()), "no tx write statically reachable; readOnly()="+roVal)
		}
	}
	c.count("sql_stmt_types", n)
	if n < 20 {
		c.undecided(r, "floor", fmt.Sprintf("expected >=20 SQLStmt implementations, found %d", n))
	}
	for w := range writers {
		if c.fn(w) == nil {
			c.Notes = append(c.Notes, "sql writer anchor not present: "+w)
		}
	}
}

func init() {
	register("DBG18", &propDef{patterns: []string{"./pkg/database"}, run: func(c *Ctx) {
		for _, m := range []string{"SQLQuery", "CountDocuments", "SearchDocuments", "Get", "Scan", "ExportTxByID", "VerifiableSQLGet", "History"} {
			debugReach(c, "pkg/database.(*db)."+m)
		}
	}})
}

func init() {
	register("DBGATOMS", &propDef{patterns: []string{"./pkg/server"}, run: func(c *Ctx) {
		f := c.fn(os.Getenv("DBGFN"))
		if f == nil {
			fmt.Println("no fn")
			return
		}
		allInstrs(f, true, func(in ssa.Instruction) {
			if ifi, ok := in.(*ssa.If); ok {
				a, p := normCond(ifi.Cond)
				fmt.Println(c.pos(ifi.Cond.Pos()), p, a)
			}
		})
	}})
}

// queryOfReadOnlyStmt: a call of Engine.QueryPreparedStmt whose statement argument has a concrete type
// whose readOnly() returns the constant true (the commit-on-close branch is then dead).
func queryOfReadOnlyStmt(cc *ssa.CallCommon) bool {
	if calleeName(cc) != "embedded/sql.(*Engine).QueryPreparedStmt" || len(cc.Args) < 4 {
		return false
	}
	mi, ok := cc.Args[3].(*ssa.MakeInterface)
	if !ok {
		return false
	}
	prog := cc.StaticCallee().Prog
	ms := prog.MethodSets.MethodSet(mi.X.Type())
	for i := 0; i < ms.Len(); i++ {
		if ms.At(i).Obj().Name() != "readOnly" {
			continue
		}
		f := prog.MethodValue(ms.At(i))
		if f == nil || len(f.Blocks) == 0 {
			return false
		}
		all := true
		n := 0
		allInstrs(f, false, func(in ssa.Instruction) {
			if rt, ok := in.(*ssa.Return); ok && len(rt.Results) == 1 {
				n++
				if desc(rt.Results[0]) != "const:true" {
					all = false
				}
			}
		})
		return all && n > 0
	}
	return false
}

// c18AccountOwnership: an account's creator (User.CreatedBy) is, besides the system administrator, the only one
// entitled to change its password or to (de)activate it. The creator of an existing account is therefore rewritten
// only past the check that grants exactly that right (caller is sysadmin, or caller == CreatedBy): an operation
// authorised by a permission on ONE database (grant/revoke there) must not hand the whole account, with its
// permissions on other databases, to the caller.
func c18AccountOwnership(c *Ctx) {
	r := "C18.10/account-ownership-not-transferred"
	n := 0
	isSys := whenCond(true, atomContains("IsSysAdmin"))
	isCreator := whenCond(true, func(a string) bool {
		return strings.Contains(a, "CreatedBy") && strings.Contains(a, "Username") && strings.Contains(a, "==")
	})
	for _, f := range c.allFns {
		if !fnInPkgs(f, []string{"pkg/server"}) || len(f.Blocks) == 0 {
			continue
		}
		for i, in := range sites(f, storeTo("User.CreatedBy")) {
			if isFreshAlloc(storeBase(in)) {
				continue // a new account
			}
			n++
			in := in
			q := &pathQ{fn: f, fromEntry: true, to: func(x ssa.Instruction) bool { return x == in }, barrier: anyEdge(isSys, isCreator)}
			construct := fmt.Sprintf("%s:CreatedBy#%d", fnName(f), i)
			if w := q.bypass(); w != nil {
				c.fail(r, construct, c.pos(in.Pos()), "the creator of an existing account is rewritten on a path that never established that the caller is the system administrator or the current creator: the caller then passes the creator check of ChangePassword / SetActiveUser for an account holding permissions on other databases")
			} else {
				c.ok(r, construct, c.pos(in.Pos()), "reached only past IsSysAdmin or caller == CreatedBy")
			}
		}
	}
	if n < 2 {
		c.undecided(r, "floor", fmt.Sprintf("%d rewrites of the creator of an existing account found (ChangePassword, SetActiveUser confirmed by hand)", n))
	}
}

// outerLoopHeader: the header of the outermost natural loop that contains instruction in (nil when in is not in a loop).
func outerLoopHeader(in ssa.Instruction) *ssa.BasicBlock {
	b := in.Block()
	var outer *ssa.BasicBlock
	for _, h := range b.Parent().Blocks {
		if !(h == b || h.Dominates(b)) {
			continue
		}
		back := false
		for _, p := range h.Preds {
			if (h == p || h.Dominates(p)) && (p == b || reaches(b, p, h)) {
				back = true
			}
		}
		if !back {
			continue
		}
		if outer == nil || h.Dominates(outer) {
			outer = h
		}
	}
	return outer
}

// c18RevocationReachesEverySession: a permission change, a deactivation or a password change ends the sessions of the
// user; the callers do not look at the error. The walk over the sessions therefore goes on after a session that could
// not be released cleanly: a return from inside the loop leaves the sessions not visited yet open, with the old rights.
func c18RevocationReachesEverySession(c *Ctx) {
	r := "C18.11/revocation-reaches-every-session"
	rel := callTo("pkg/server/sessions.releaseSession")
	n := 0
	for _, f := range c.allFns {
		if !fnInPkgs(f, []string{"pkg/server/sessions"}) || len(f.Blocks) == 0 {
			continue
		}
		for i, in := range sites(f, rel) {
			h := outerLoopHeader(in)
			if h == nil {
				continue
			}
			n++
			ee := errEdgeOf(in)
			var edges []cfgEdge
			for _, b := range f.Blocks {
				for si := range b.Succs {
					if ee != nil && ee(b, si) {
						edges = append(edges, cfgEdge{b, si})
					}
				}
			}
			construct := fmt.Sprintf("%s:releaseSession#%d:failure-does-not-end-the-walk", fnName(f), i)
			if len(edges) == 0 {
				c.ok(r, construct, c.pos(in.Pos()), "the error is not examined inside the loop")
				continue
			}
			q := &pathQ{fn: f, fromEdges: edges, to: isReturn, via: func(x ssa.Instruction) bool { return x.Block() == h }}
			if w := q.bypass(); w != nil {
				c.fail(r, construct, c.pos(in.Pos()), "when a session can not be released the walk over the sessions is abandoned ("+c.witnessStr(w)+"): the sessions not visited yet stay open with the rights the user had, and the callers ignore the error")
			} else {
				c.ok(r, construct, c.pos(in.Pos()), "after a failed release the walk goes on with the next session")
			}
		}
	}
	if n < 2 {
		c.undecided(r, "floor", fmt.Sprintf("%d releases of sessions inside loops found (CloseSessionsForUser, expireSessions confirmed by hand)", n))
	}
}

// c18PermissionChangeKeepsOtherDatabases: ChangePermission is authorised by the caller's admin right on ONE database
// (the one named in the request). The SQL privileges of the target user are a list over ALL databases: the new list is
// derived from the old one (entries of other databases carried over), it is not a fresh list computed from the request
// alone - otherwise an administrator of db1 rewrites what the user may do on db2.
func c18PermissionChangeKeepsOtherDatabases(c *Ctx) {
	r := "C18.12/permission-change-keeps-other-databases"
	f := c.mustFn(r, "pkg/server.(*ImmuServer).ChangePermission")
	if f == nil {
		return
	}
	isOld := func(v ssa.Value) bool {
		u, ok := v.(*ssa.UnOp)
		if !ok || u.Op != token.MUL {
			return false
		}
		fl, _ := fieldOf(u.X)
		return fl == "User.SQLPrivileges"
	}
	n := 0
	for i, st := range sites(f, storeTo("User.SQLPrivileges")) {
		n++
		c.check(dependsOn(st.(*ssa.Store).Val, isOld), r, fmt.Sprintf("%s:SQLPrivileges#%d", fnName(f), i), c.pos(st.Pos()), "the new list of SQL privileges is derived from the one the user had",
			"the SQL privileges of the target user are replaced as a whole by a list computed from the request: the privileges held on databases the caller does not administer are dropped")
	}
	if n == 0 {
		c.okTrivial(r, fnName(f)+":SQLPrivileges", c.pos(f.Pos()), "ChangePermission does not rewrite the SQL privileges")
	}
}
