package main

import (
	"fmt"
	"go/token"
	"go/types"
	"strings"

	"golang.org/x/tools/go/ssa"
)

const sqlTxT = "embedded/sql.(*SQLTx)."

func c12(c *Ctx) {
	// the uniqueness probe of doUpsert and the emptiness probe of CREATE UNIQUE INDEX are prefix lookups of the store:
	// a tombstone in front of a live entry must not end them (analysis shared with C04.4)
	c04PrefixLookupContinues(c, "C12.10/unique-lookup-skips-tombstones")
	// primary-key and UNIQUE probes compare encoded keys: two TIMESTAMP values that are equal as stored (microseconds)
	// must have equal keys, so every Timestamp value enters the engine truncated (analysis shared with C15.4)
	c15TimestampNormalised(c, "C12.11/timestamp-key-equals-stored-value")
	// CHECK constraints (and column defaults) live in the catalog as text: what is enforced after a catalog reload is
	// the parsed-back text, so the text carries every field evaluation looks at
	exprTextRule(c, "C12.13/persisted-check-text-is-the-declared-expression")
	// in INSERT/UPSERT every value that turns out to be NULL (given, or produced by the column's DEFAULT) is confronted
	// with the column's NOT NULL flag before the loop over the columns moves on
	if f := c.mustFn("C12.14/null-values-meet-not-null", "embedded/sql.(*UpsertIntoStmt).execAt"); f != nil {
		r := "C12.14/null-values-meet-not-null"
		isNullCall := func(v ssa.Value) bool {
			cl, ok := v.(*ssa.Call)
			return ok && cl.Call.IsInvoke() && cl.Call.Method.Name() == "IsNull"
		}
		nn := 0
		for _, b := range f.Blocks {
			if len(b.Instrs) == 0 {
				continue
			}
			ifi, ok := b.Instrs[len(b.Instrs)-1].(*ssa.If)
			if !ok {
				continue
			}
			cnd, pol := ifi.Cond, true
			for {
				u, ok := cnd.(*ssa.UnOp)
				if !ok || u.Op != token.NOT {
					break
				}
				cnd, pol = u.X, !pol
			}
			if !isNullCall(cnd) {
				continue
			}
			nn++
			succ := 0 // IsNull() true
			if !pol {
				succ = 1
			}
			q := &pathQ{fn: f, fromEdges: []cfgEdge{{b, succ}},
				to: func(in ssa.Instruction) bool {
					_, isNext := in.(*ssa.Next)
					return isNext || callTo(sqlTxT+"doUpsert")(in)
				},
				via: func(in ssa.Instruction) bool {
					x, ok := in.(*ssa.If)
					if !ok {
						return false
					}
					a, _ := normCond(x.Cond)
					return strings.Contains(a, "notNull")
				}}
			construct := fmt.Sprintf("%s:null-value#%d", fnName(f), nn)
			if w := q.bypass(); w != nil {
				c.fail(r, construct, c.pos(ifi.Cond.Pos()), "a value found to be NULL goes on to the next column without the NOT NULL flag of its column having been looked at: "+c.witnessStr(w))
			} else {
				c.ok(r, construct, c.pos(ifi.Cond.Pos()), "a NULL value reaches the next column only past the notNull test")
			}
		}
		if nn < 2 {
			c.undecided(r, "floor", fmt.Sprintf("%d IsNull() branches found in UpsertIntoStmt.execAt (the given value and the default value)", nn))
		}
	}
	// ALTER TABLE ADD COLUMN does not rewrite the rows committed before it: they read the new column as NULL whatever
	// its DEFAULT, so a column declared NOT NULL is never added to an existing table
	if f := c.mustFn("C12.12/added-column-is-nullable", "embedded/sql.(*Table).newColumn"); f != nil {
		r := "C12.12/added-column-is-nullable"
		notNull := whenCond(true, func(a string) bool { return hasFieldSuffix(a, "notNull") })
		var edges []cfgEdge
		for _, b := range f.Blocks {
			for si := range b.Succs {
				if notNull(b, si) {
					edges = append(edges, cfgEdge{b, si})
				}
			}
		}
		if len(edges) == 0 {
			c.fail(r, fnName(f)+":not-null-refused", c.pos(f.Pos()), "newColumn no longer looks at the NOT NULL flag of the column it adds")
		} else {
			q := &pathQ{fn: f, fromEdges: edges, to: successReturn}
			if w := q.bypass(); w != nil {
				c.fail(r, fnName(f)+":not-null-refused", c.pos(w[len(w)-1].Pos()), "a NOT NULL column can be added to a table that already holds rows (they read it as NULL): "+c.witnessStr(w))
			} else {
				c.ok(r, fnName(f)+":not-null-refused", c.pos(f.Pos()), "no successful return is reachable once spec.notNull is true")
			}
		}
	}
	sink := callTo(sqlTxT + "doUpsert")
	check := callTo("embedded/sql.checkConstraints")
	callers := map[*ssa.Function]bool{}
	for _, in := range c.callSites(sink) {
		callers[in.Parent()] = true
	}
	if len(callers) < 2 {
		c.undecided("C12.1/validate-after-last-write", "doUpsert:callers", fmt.Sprintf("expected >=2 callers of doUpsert, found %d", len(callers)))
	}
	for fn := range callers {
		// ---- C12.1 validate after the last write to the row image ------------------------------------------------
		r := "C12.1/validate-after-last-write"
		for _, s := range sites(fn, sink) {
			img := callOf(s).Args[3] // valuesByColID
			upd := sites(fn, func(in ssa.Instruction) bool {
				mu, ok := in.(*ssa.MapUpdate)
				return ok && mu.Map == img
			})
			if len(upd) == 0 {
				c.undecided(r, fnName(fn)+":row-image-updates", "no MapUpdate on the row image passed to doUpsert")
				continue
			}
			q := &pathQ{fn: fn, from: upd, to: func(in ssa.Instruction) bool { return in == s }, via: check}
			if w := q.bypass(); w != nil {
				c.fail(r, fnName(fn)+":checkConstraints-after-last-write", c.pos(w[len(w)-1].Pos()), "the row image is modified and then written without re-running checkConstraints: "+c.witnessStr(w))
			} else {
				c.ok(r, fnName(fn)+":checkConstraints-after-last-write", c.pos(s.Pos()), fmt.Sprintf("every path from each of the %d row-image updates to doUpsert passes checkConstraints", len(upd)))
			}
			c.ruleErrChecked(r, fn, "checkConstraints", check, 1)
			// the image validated is the one written: every value put into the image is also shown to the Row handed to
			// checkConstraints - stored into Row.ValuesBySelector itself, or the Row is rebuilt from the image afterwards
			c12ValidatedRowCarriesWrittenValues(c, fn, img, upd, check, s)
			// ---- C12.2 sibling validation agreement ------------------------------------------------------------------
			r2 := "C12.2/assignment-validation-parity"
			nAssign := 0
			for _, u := range upd {
				mu := u.(*ssa.MapUpdate)
				// assignments of freshly computed values (reduce) need the NOT NULL gate
				var red ssa.Instruction
				dependsOn(mu.Value, func(v ssa.Value) bool {
					if cl, ok := v.(*ssa.Call); ok && strings.HasSuffix(calleeName(&cl.Call), ".reduce") {
						red = cl
						return true
					}
					return false
				})
				if red == nil {
					continue
				}
				nAssign++
				notNull := func(in ssa.Instruction) bool {
					if u, ok := in.(*ssa.UnOp); ok {
						if f, _ := fieldOf(u); f == "Column.notNull" {
							return true
						}
					}
					return callTo("embedded/sql.(*Column).IsNullable")(in)
				}
				nonNullValue := whenCond(false, func(a string) bool { return strings.HasPrefix(a, "call:(embedded/sql.TypedValue).IsNull[") })
				q := &pathQ{fn: fn, from: []ssa.Instruction{red}, to: func(in ssa.Instruction) bool { return in == u }, via: notNull, barrier: nonNullValue}
				construct := fmt.Sprintf("%s:assignment#%d:not-null-consulted", fnName(fn), nAssign)
				if w := q.bypass(); w != nil {
					c.fail(r2, construct, c.pos(u.Pos()), "a computed value is assigned to a column without consulting its NOT NULL flag: "+c.witnessStr(w))
				} else {
					c.ok(r2, construct, c.pos(u.Pos()), "a NULL value reaches the assignment only after Column.notNull was read")
				}
			}
			if nAssign == 0 {
				c.undecided(r2, fnName(fn)+":assignments", "no computed assignment into the row image found")
			}
			// ---- C12.3 probes go through the recording layer ---------------------------------------------------------------
			c.ruleOrder("C12.3/pk-probe", fn, "tx.get(mappedPKey)", callTo(sqlTxT+"get"), "doUpsert", sink, nil, 1)
		}
	}
	// update-style assignments must not touch the primary key: UPDATE checks it in validate(), ON CONFLICT inline
	r := "C12.2/assignment-validation-parity"
	if f := c.mustFn(r, "embedded/sql.(*UpdateStmt).execAt"); f != nil {
		c.ruleOrder(r, f, "stmt.validate", callTo("embedded/sql.(*UpdateStmt).validate"), "doUpsert", sink, nil, 1)
		c.ruleErrChecked(r, f, "stmt.validate", callTo("embedded/sql.(*UpdateStmt).validate"), 1)
	}
	if f := c.mustFn(r, "embedded/sql.(*UpdateStmt).validate"); f != nil {
		c.check(len(sites(f, callTo("embedded/sql.(*Index).IncludesCol"))) > 0, r, fnName(f)+":pk-not-updatable", c.pos(f.Pos()), "primary key columns are rejected", "UPDATE no longer rejects assignments to primary key columns")
	}
	if f := c.mustFn(r, "embedded/sql.(*UpsertIntoStmt).execAt"); f != nil {
		// every ON CONFLICT assignment (MapUpdate fed by u.val) is preceded by the PK check
		n := 0
		for _, u := range sites(f, func(in ssa.Instruction) bool {
			mu, ok := in.(*ssa.MapUpdate)
			if !ok {
				return false
			}
			return dependsOn(mu.Value, func(v ssa.Value) bool {
				d, _ := fieldOf(v)
				return d == "colUpdate.val" || strings.HasSuffix(desc(v), ".updates")
			})
		}) {
			n++
			q := &pathQ{fn: f, fromEntry: true, to: func(in ssa.Instruction) bool { return in == u },
				barrier: whenCond(false, func(a string) bool { return strings.HasPrefix(a, "call:embedded/sql.(*Index).IncludesCol[") })}
			c.check(q.bypass() == nil, r, fmt.Sprintf("%s:on-conflict-assignment#%d:pk-not-updatable", fnName(f), n), c.pos(u.Pos()), "assignment is dominated by the IncludesCol()==false edge", "ON CONFLICT DO UPDATE can assign a primary key column")
		}
		if n == 0 {
			c.undecided(r, fnName(f)+":on-conflict-assignments", "no ON CONFLICT assignment found")
		}
	}

	// ---- C12.3 uniqueness probes hit the read-set -------------------------------------------------------------------------
	r = "C12.3/unique-probe"
	if f := c.mustFn(r, sqlTxT+"doUpsert"); f != nil {
		notUnique := whenCond(false, func(a string) bool { return strings.HasPrefix(a, "call:embedded/sql.(*Index).IsUnique[") })
		c.ruleOrder(r, f, "getWithPrefix(smkey)", callTo(sqlTxT+"getWithPrefix"), "setTransient(smkey)", callTo(sqlTxT+"setTransient"), notUnique, 1)
		// found & live -> ErrKeyAlreadyExists
		for _, in := range sites(f, callTo(sqlTxT+"getWithPrefix")) {
			okk, d := errUsed(in)
			c.check(okk, r, fnName(f)+":probe-result-used", c.pos(in.Pos()), d, d)
		}
		c.ruleErrChecked(r, f, "tx.set(row)", callTo(sqlTxT+"set"), 1)
		c.ruleErrChecked(r, f, "tx.setTransient", callTo(sqlTxT+"setTransient"), 1)
	}
	for _, d := range []struct{ fn, to string }{{"get", otxT + "Get"}, {"getWithPrefix", otxT + "GetWithPrefix"}, {"newKeyReader", otxT + "NewKeyReader"},
		{"set", otxT + "Set"}, {"setTransient", otxT + "SetTransient"}, {"delete", otxT + "Delete"}} {
		if f := c.mustFn(r, sqlTxT+d.fn); f != nil {
			c.ruleMustPass(r, f, nil, lastSeg(d.to), callTo(d.to), nil, false)
		}
	}
	// ---- C12.6 an index entry is reused (and its uniqueness probe skipped) only if ALL its columns are unchanged -----
	r = "C12.6/index-entry-reuse"
	if f := c.mustFn(r, sqlTxT+"deprecateIndexEntries"); f != nil {
		n := 0
		for _, in := range sites(f, func(x ssa.Instruction) bool {
			mu, ok := x.(*ssa.MapUpdate)
			return ok && strings.Contains(short(mu.Map.Type().String()), "map[uint32]struct{}")
		}) {
			n++
			// dominating condition
			var flag *ssa.Phi
			for b := in.Block(); b != nil && flag == nil; b = b.Idom() {
				id := b.Idom()
				if id == nil || len(id.Instrs) == 0 {
					continue
				}
				if ifi, ok := id.Instrs[len(id.Instrs)-1].(*ssa.If); ok {
					if ph, ok := ifi.Cond.(*ssa.Phi); ok {
						flag = ph
					}
				}
			}
			if flag == nil {
				c.fail(r, fnName(f)+":reuse-flag", c.pos(in.Pos()), "an index entry is marked reusable without a per-column equality flag")
				continue
			}
			okAcc := true
			for i, e := range flag.Edges {
				pred := flag.Block().Preds[i]
				if !flag.Block().Dominates(pred) {
					continue // loop entry edge
				}
				if !boolDependsOn(e, flag) {
					okAcc = false
				}
			}
			c.check(okAcc, r, fnName(f)+":reuse-flag-is-a-conjunction-over-all-columns", c.pos(in.Pos()),
				"the flag carried around the column loop depends on its previous value (all columns must be equal)",
				"the reuse flag is overwritten per column instead of accumulated: an index entry is reused (and the uniqueness probe of doUpsert skipped) when only the last indexed column is unchanged")
			// the comparison feeding the flag is over the current and the new value of the column
			cmp := len(sites(f, func(x ssa.Instruction) bool {
				cc := callOf(x)
				return cc != nil && cc.IsInvoke() && cc.Method.Name() == "Compare"
			})) > 0
			c.check(cmp, r, fnName(f)+":compares-current-and-new-values", c.pos(in.Pos()), "current and new column values are compared", "deprecateIndexEntries no longer compares current and new values")
		}
		if n == 0 {
			c.undecided(r, fnName(f)+":reusable-marking", "no marking of reusable index entries found")
		}
	}
	if f := c.mustFn(r, sqlTxT+"doUpsert"); f != nil {
		// the only way to skip the uniqueness probe of a unique index is the reusable set computed above
		for _, in := range sites(f, callTo(sqlTxT+"deprecateIndexEntries")) {
			okk, d := errHandled(in)
			c.check(okk, r, fnName(f)+":deprecateIndexEntries-error", c.pos(in.Pos()), d, d)
		}
	}

	// ---- C12.7 constraints are evaluated against the current schema: catalog cache coherence (shared with C13.4) -------
	// ---- C12.8 the persisted column flags accumulate ------------------------------------------------------------------
	// NOT NULL / AUTO_INCREMENT / HAS_DEFAULT share one flags byte of the catalog entry: each flag is OR-ed into the
	// byte; a plain assignment drops the constraints set before it, and the next transaction reloads the column without them
	r8 := "C12.8/column-flags-accumulate"
	if f := c.mustFn(r8, "embedded/sql.persistColumn"); f != nil {
		n := 0
		allInstrs(f, false, func(in ssa.Instruction) {
			st, ok := in.(*ssa.Store)
			if !ok {
				return
			}
			ia, ok := st.Addr.(*ssa.IndexAddr)
			if !ok || desc(ia.Index) != "const:0" {
				return
			}
			if b, ok := st.Val.Type().Underlying().(*types.Basic); !ok || b.Kind() != types.Uint8 {
				return
			}
			n++
			acc := dependsOn(st.Val, func(v ssa.Value) bool {
				ld, ok := v.(*ssa.UnOp)
				if !ok || ld.Op != token.MUL {
					return false
				}
				ia2, ok := ld.X.(*ssa.IndexAddr)
				return ok && desc(ia2.Index) == "const:0" && desc(ia2.X) == desc(ia.X)
			})
			c.check(acc, r8, fmt.Sprintf("%s:flags-store#%d", fnName(f), n), c.pos(st.Pos()), "flag OR-ed into the current flags byte", "the column flags byte is overwritten with "+desc(st.Val)+": flags set earlier (NOT NULL, AUTO_INCREMENT) are lost in the persisted catalog")
		})
		if n < 3 {
			c.undecided(r8, fnName(f)+":floor", fmt.Sprintf("%d stores to the flags byte found (3 confirmed by hand)", n))
		}
	}
	// ---- C12.9 generated keys continue after the greatest key of the table -------------------------------------------
	// "auto-generated keys never collide with existing ones": table.maxPK is the source of generated keys (maxPK++); an
	// explicit value above it is accepted as a new row, so it has to raise maxPK before the row is written, or the next
	// generated key of the same transaction is that value again
	r9 := "C12.9/generated-keys-follow-explicit-ones"
	if f := c.mustFn(r9, "embedded/sql.(*UpsertIntoStmt).execAt"); f != nil {
		above := whenCond(true, func(a string) bool { return strings.Contains(a, ".maxPK < ") })
		var edges []cfgEdge
		for _, b := range f.Blocks {
			for si := range b.Succs {
				if above(b, si) {
					edges = append(edges, cfgEdge{b, si})
				}
			}
		}
		sink := callTo(sqlTxT + "doUpsert")
		if len(edges) == 0 {
			c.fail(r9, fnName(f)+":explicit-key-raises-maxPK", c.pos(f.Pos()), "no branch on `explicit value > table.maxPK` before the row sink: an explicit key above the maximum is written without raising maxPK, the next generated key collides with it")
		} else {
			q := &pathQ{fn: f, fromEdges: edges, to: sink, via: storeTo("Table.maxPK")}
			w := q.bypass()
			c.check(w == nil, r9, fnName(f)+":explicit-key-raises-maxPK", c.pos(f.Pos()), "on the `value > maxPK` edge the row sink is reached only after maxPK was raised", "an explicit key above table.maxPK reaches the row sink without raising maxPK: "+c.witnessStr(w))
		}
		// generated keys are maxPK+1
		gen := 0
		for _, st := range sites(f, storeTo("Table.maxPK")) {
			if strings.Contains(desc(st.(*ssa.Store).Val), "maxPK + const:1") {
				gen++
			}
		}
		c.check(gen >= 1, r9, fnName(f)+":generated-key-is-maxPK+1", c.pos(f.Pos()), "generated keys are maxPK+1", "no maxPK+1 generation site found")
	}
	c13CatalogCache(c, "C12.7/catalog-cache-coherence")
	c13CloneIsDeep(c, "C12.7/catalog-clone-is-deep")

	// ---- C12.4 failure aborts the transaction ----------------------------------------------------------------------------------
	r = "C12.4/failure-aborts"
	if f := c.mustFn(r, "embedded/sql.(*Engine).execPreparedStmts"); f != nil {
		execs := sites(f, func(in ssa.Instruction) bool {
			cc := callOf(in)
			return cc != nil && cc.IsInvoke() && cc.Method.Name() == "execAt"
		})
		if len(execs) == 0 {
			c.undecided(r, fnName(f)+":execAt", "no execAt dispatch")
		}
		for i, e := range execs {
			ee := errEdgeOf(e)
			var edges []cfgEdge
			for _, b := range f.Blocks {
				for si := range b.Succs {
					if ee(b, si) {
						edges = append(edges, cfgEdge{b, si})
					}
				}
			}
			q := &pathQ{fn: f, fromEdges: edges, to: isReturn, via: callTo(sqlTxT + "Cancel")}
			c.check(len(edges) > 0 && q.bypass() == nil, r, fmt.Sprintf("%s:execAt#%d:error->Cancel", fnName(f), i), c.pos(e.Pos()), "every return after a failed statement passes currTx.Cancel()", "a failed statement leaves execPreparedStmts without cancelling the transaction")
		}
	}
	c12QueryFailureAborts(c, "C12.4/failure-aborts")
	c13DmlFailureIsReported(c, "C12.4/failed-dml-is-reported")
	// a DDL statement works on the catalog copy of its transaction; what it changes there reaches later transactions
	// only through the persisted catalog entries (the cache is invalidated at commit and reloaded from them). A
	// statement that changes a column in memory and persists nothing declares a constraint that nobody will enforce.
	{
		r := "C12.16/column-changes-are-persisted"
		n := 0
		for _, f := range c.allFns {
			if !fnInPkgs(f, []string{"embedded/sql"}) || len(f.Blocks) == 0 || f.Signature.Recv() == nil || f.Name() != "execAt" {
				continue
			}
			changed := map[string]string{}
			allInstrs(f, true, func(in ssa.Instruction) {
				st, ok := in.(*ssa.Store)
				if !ok {
					return
				}
				fl, base := fieldOf(st.Addr)
				if !strings.HasPrefix(fl, "Column.") || isFreshAlloc(base) {
					return
				}
				changed[fl] = c.pos(in.Pos())
			})
			if len(changed) == 0 {
				continue
			}
			persists := len(sites(f, callTo("embedded/sql.persistColumn"))) > 0
			for _, fl := range sortedKeys(changed) {
				n++
				c.check(persists, r, fnName(f)+":"+fl, changed[fl], "the column entry is persisted by the same statement", fl+" is changed in the transaction's catalog copy and nothing is persisted: the statement reports success, the change is gone with the next catalog reload (and was never checked against the existing rows)")
			}
		}
		if n < 2 {
			c.undecided(r, "floor", fmt.Sprintf("%d column changes by DDL statements found", n))
		}
	}
	// TRUNCATE drops the table and creates it again: every index but the primary one (which comes back with the table)
	// has to be carried over, a UNIQUE index that is not is a uniqueness constraint silently gone.
	{
		r := "C12.17/truncate-keeps-every-secondary-index"
		if f := c.mustFn(r, "embedded/sql.(*TruncateTableStmt).execAt"); f != nil {
			var carried []ssa.Instruction
			allInstrs(f, false, func(in ssa.Instruction) {
				if u, ok := in.(*ssa.UnOp); ok && u.Op == token.MUL {
					if fl, _ := fieldOf(u); fl == "Index.unique" {
						carried = append(carried, in)
					}
				}
			})
			if len(carried) == 0 {
				c.undecided(r, fnName(f)+":carried-index", "no read of Index.unique: the place where secondary indexes are carried over was not found")
			}
			for i, a := range carried {
				var filters []string
				for _, b := range f.Blocks {
					if len(b.Instrs) == 0 || b == a.Block() || !b.Dominates(a.Block()) || !reaches(a.Block(), b, nil) {
						continue
					}
					ifi, ok := b.Instrs[len(b.Instrs)-1].(*ssa.If)
					if !ok {
						continue
					}
					atom, _ := normCond(ifi.Cond)
					if strings.Contains(atom, ".primaryIndex") || strings.Contains(atom, ".IsPrimary[") {
						continue
					}
					if strings.Contains(atom, " < len(") || strings.HasPrefix(atom, "extract:") || strings.Contains(atom, "next:") {
						continue // the loop's own condition
					}
					filters = append(filters, atom+" @"+c.pos(ifi.Pos()))
				}
				c.check(len(filters) == 0, r, fmt.Sprintf("%s:carried-index#%d:only-the-primary-index-is-skipped", fnName(f), i), c.pos(a.Pos()), "inside the loop over the indexes nothing but the comparison with the primary index decides whether an index is carried over",
					"an index is carried over TRUNCATE only when "+strings.Join(filters, "; ")+" allows it: indexes other than the primary one are dropped, and with them the uniqueness they enforce")
			}
			n := len(sites(f, callTo("embedded/sql.(*CreateIndexStmt).execAt")))
			c.check(n > 0, r, fnName(f)+":indexes-are-created-again", c.pos(f.Pos()), "the carried indexes are created again", "TRUNCATE does not create any index again")
		}
	}
	// constraints are kept in maps keyed by their name: inserting under a name that is already there drops a declared
	// constraint without a word, so every insertion into such a map is preceded by a lookup of the same key
	{
		r := "C12.15/constraint-names-do-not-collide"
		n := 0
		for _, f := range c.allFns {
			if !fnInPkgs(f, []string{"embedded/sql"}) || len(f.Blocks) == 0 {
				continue
			}
			per := 0
			allInstrs(f, false, func(in ssa.Instruction) {
				mu, ok := in.(*ssa.MapUpdate)
				if !ok {
					return
				}
				mt, ok := mu.Map.Type().Underlying().(*types.Map)
				if !ok || !strings.HasSuffix(mt.Elem().String(), "sql.CheckConstraint") {
					return
				}
				if kb, ok := mt.Key().Underlying().(*types.Basic); !ok || kb.Kind() != types.String {
					return
				}
				n++
				per++
				if fnName(topFn(f)) == "embedded/sql.loadCheckConstraints" {
					c.okTrivial(r, fmt.Sprintf("%s:checks[name]#%d", fnName(f), per), c.pos(in.Pos()), "catalog loader: re-reads what the creation paths stored under distinct names")
					return
				}
				looked := false
				allInstrs(f, false, func(x ssa.Instruction) {
					if lk, ok := x.(*ssa.Lookup); ok && lk.CommaOk && lk.X == mu.Map && desc(lk.Index) == desc(mu.Key) && instrDominates(x, in) {
						looked = true
					}
				})
				// a map that is being copied / rebuilt from another one of the same kind cannot collide
				if _, fromRange := mu.Key.(*ssa.Extract); fromRange {
					if ex := mu.Key.(*ssa.Extract); ex != nil {
						if _, isNext := ex.Tuple.(*ssa.Next); isNext {
							looked = true
						}
					}
				}
				c.check(looked, r, fmt.Sprintf("%s:checks[name]#%d", fnName(f), per), c.pos(in.Pos()), "the name is looked up before the constraint is stored under it",
					"a CHECK constraint is stored under a name that was not looked up first: a second constraint with the same name (e.g. an explicit name equal to the one generated for an unnamed constraint) silently replaces the first, which is then not enforced")
			})
		}
		if n < 1 {
			c.undecided(r, "floor", "no insertion into a map of CHECK constraints found")
		}
	}
	// ---- C12.5 unique index only on an empty table -------------------------------------------------------------------------------
	r = "C12.5/unique-index-creation"
	if f := c.mustFn(r, "embedded/sql.(*CreateIndexStmt).execAt"); f != nil {
		notU := whenCond(false, func(a string) bool { return hasFieldSuffix(a, "unique") })
		noPK := whenCond(true, func(a string) bool { return strings.Contains(a, "primaryIndex") && strings.Contains(a, "nil") })
		c.ruleOrder(r, f, "getWithPrefix(pk prefix)", callTo(sqlTxT+"getWithPrefix"), "table.newIndex", callTo("embedded/sql.(*Table).newIndex"), anyEdge(notU, noPK), 1)
		// a found row refuses the creation
		for _, in := range sites(f, callTo(sqlTxT+"getWithPrefix")) {
			call := in.(*ssa.Call)
			var errv ssa.Value
			for _, e := range errResults(call) {
				errv = e
			}
			found := false
			allInstrs(f, false, func(x ssa.Instruction) {
				ifi, ok := x.(*ssa.If)
				if !ok {
					return
				}
				bo, ok := ifi.Cond.(*ssa.BinOp)
				if !ok || (bo.X != errv && bo.Y != errv) {
					return
				}
				a, pol := normCond(ifi.Cond)
				if !strings.Contains(a, "nil") {
					return
				}
				succ := 0 // err == nil edge
				if !pol {
					succ = 1
				}
				b := ifi.Block().Succs[succ]
				for _, y := range b.Instrs {
					if rt, ok := y.(*ssa.Return); ok && retKind(rt) == "fail" {
						found = true
					}
				}
			})
			c.check(found, r, fnName(f)+":existing-row-refuses", c.pos(in.Pos()), "err == nil (a row exists) returns an error", "a unique index can be created on a table that already has rows")
		}
	}
}

// c12QueryFailureAborts: a data-modifying statement can also be run through the query path (DML ... RETURNING). There
// too a failure must abort the transaction it ran in, or the rows it wrote before failing stay in an open transaction and
// a later COMMIT publishes them. In QueryPreparedStmt every path from the entry to the execution of the statement
// (execAt / Resolve) registers a deferred Cancel-on-error, except across the edge on which the statement is read-only.
func c12QueryFailureAborts(c *Ctx, r string) {
	f := c.mustFn(r, "embedded/sql.(*Engine).QueryPreparedStmt")
	if f == nil {
		return
	}
	runs := func(in ssa.Instruction) bool {
		cc := callOf(in)
		_, isDefer := in.(*ssa.Defer)
		return cc != nil && !isDefer && cc.IsInvoke() && (cc.Method.Name() == "execAt" || cc.Method.Name() == "Resolve")
	}
	if len(sites(f, runs)) == 0 {
		c.undecided(r, fnName(f)+":run", "the execution of the statement was not found")
		return
	}
	readOnly := whenCond(true, func(a string) bool { return strings.Contains(a, "readOnly[") || strings.Contains(a, ").readOnly") })
	// the deferred function cancels whenever the statement failed: inside it, Cancel is skipped only on the `err == nil` edge
	// (a further condition - on the owner of the transaction, say - leaves the failures of the other case without a Cancel)
	cancel := callTo(sqlTxT + "Cancel")
	errIsNil := whenCond(true, func(a string) bool { return strings.Contains(a, "err") && strings.Contains(a, " == ") && strings.Contains(a, "nil") })
	cancelsOnError := func(in ssa.Instruction) bool {
		d, ok := in.(*ssa.Defer)
		if !ok {
			return false
		}
		mc, ok := d.Call.Value.(*ssa.MakeClosure)
		if !ok {
			return deferMatches(d, cancel)
		}
		g := mc.Fn.(*ssa.Function)
		if len(sites(g, cancel)) == 0 {
			return false
		}
		qq := &pathQ{fn: g, fromEntry: true, to: isReturn, via: cancel, barrier: errIsNil}
		return qq.bypass() == nil
	}
	q := &pathQ{fn: f, fromEntry: true, to: runs, via: cancelsOnError, barrier: readOnly}
	if w := q.bypass(); w != nil {
		c.fail(r, fnName(f)+":dml-failure->Cancel", c.pos(w[len(w)-1].Pos()), "a data-modifying statement is run by the query path in a transaction for which no cancel-on-error is registered: if it fails half way, what it wrote stays in the open transaction and can be committed ("+c.witnessStr(w)+")")
	} else {
		c.ok(r, fnName(f)+":dml-failure->Cancel", c.pos(f.Pos()), "a deferred Cancel-on-error is registered on every path to the execution of a statement that is not read-only")
	}
}

// c12ValidatedRowCarriesWrittenValues: C12.1 second half. checkConstraints evaluates a *Row, doUpsert writes the image
// (valuesByColID): a value stored into the image that the Row never receives is written without having been checked.
// Accepted idioms (both present in the tree): (a) the same value is stored into Row.ValuesBySelector after the image
// update; (b) the Row is refreshed from lookups on the image after the update. In both cases a checkConstraints call follows.
func c12ValidatedRowCarriesWrittenValues(c *Ctx, fn *ssa.Function, img ssa.Value, upd []ssa.Instruction, check sitePred, sink ssa.Instruction) {
	r := "C12.1/validated-row-carries-the-written-values"
	checks := sites(fn, check)
	var refresh []*ssa.MapUpdate
	allInstrs(fn, false, func(in ssa.Instruction) {
		if mu, ok := in.(*ssa.MapUpdate); ok {
			if f, _ := fieldOf(mu.Map); f == "Row.ValuesBySelector" {
				refresh = append(refresh, mu)
			}
		}
	})
	if len(checks) == 0 || len(refresh) == 0 {
		c.undecided(r, fnName(fn)+":row-refresh", fmt.Sprintf("%d checkConstraints call(s), %d store(s) into Row.ValuesBySelector", len(checks), len(refresh)))
		return
	}
	fromImage := func(v ssa.Value) bool {
		l, ok := v.(*ssa.Lookup)
		return ok && l.X == img
	}
	// "follows" within one row: a path that goes through the write of the row (doUpsert) belongs to the next row
	follows := func(a, b ssa.Instruction) bool {
		if a.Block() == b.Block() && idxIn(b) > idxIn(a) {
			return true
		}
		if a.Block() == sink.Block() {
			return false
		}
		for _, sc := range a.Block().Succs {
			if reaches(sc, b.Block(), sink.Block()) {
				return true
			}
		}
		return false
	}
	n := 0
	for _, u := range upd {
		mu := u.(*ssa.MapUpdate)
		n++
		construct := fmt.Sprintf("%s:image-update#%d", fnName(fn), n)
		checked := false
		for _, ck := range checks {
			if follows(u, ck) {
				checked = true
			}
		}
		if !checked {
			// nothing validates after this update: C12.1/validate-after-last-write decides whether that is acceptable
			c.ok(r, construct, c.pos(u.Pos()), "no checkConstraints call follows this update")
			continue
		}
		shown := false
		for _, rf := range refresh {
			same := dependsOn(rf.Value, func(v ssa.Value) bool { return v == mu.Value }) || dependsOn(rf.Value, fromImage)
			if !same || !follows(u, rf) {
				continue
			}
			for _, ck := range checks {
				if follows(rf, ck) {
					shown = true
				}
			}
		}
		c.check(shown, r, construct, c.pos(u.Pos()), "the value stored into the row image also reaches the Row that checkConstraints evaluates",
			"a value is stored into the row image written by doUpsert ("+desc(mu.Value)+") but the Row evaluated by the following checkConstraints never receives it: CHECK constraints are evaluated on something else than the row written")
	}
}
