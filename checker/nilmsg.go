package main

import (
	"fmt"
	"go/token"
	"go/types"
	"sort"
	"strings"

	"golang.org/x/tools/go/ssa"
)

// isSchemaMsgPtr: *T with T a generated message struct of pkg/api/schema (or protomodel).
func isSchemaMsgPtr(t types.Type) bool {
	p, ok := t.Underlying().(*types.Pointer)
	if !ok {
		return false
	}
	n, ok := p.Elem().(*types.Named)
	if !ok || n.Obj().Pkg() == nil {
		return false
	}
	if _, isStruct := n.Underlying().(*types.Struct); !isStruct {
		return false
	}
	pp := n.Obj().Pkg().Path()
	return strings.HasSuffix(pp, "/pkg/api/schema") || strings.HasSuffix(pp, "/pkg/api/protomodel")
}

// nilCheckedAt: a test `q != nil` on the same access path as p holds on an edge that dominates block at.
func nilCheckedAt(fn *ssa.Function, p ssa.Value, at *ssa.BasicBlock) bool {
	dp := desc(p)
	for _, b := range fn.Blocks {
		if len(b.Instrs) == 0 {
			continue
		}
		ifi, ok := b.Instrs[len(b.Instrs)-1].(*ssa.If)
		if !ok {
			continue
		}
		for _, leaf := range boolLeaves(ifi.Cond) {
			bo, ok := leaf.(*ssa.BinOp)
			if !ok || (bo.Op != token.NEQ && bo.Op != token.EQL) {
				continue
			}
			var q ssa.Value
			if c, ok := bo.Y.(*ssa.Const); ok && c.IsNil() {
				q = bo.X
			} else if c, ok := bo.X.(*ssa.Const); ok && c.IsNil() {
				q = bo.Y
			}
			if q == nil || desc(q) != dp {
				continue
			}
			// the successor on which q != nil: for `q == nil || ...` style conditions lowered to several blocks the leaf
			// belongs to the block that ends with it
			lb := b
			if bi, ok := leaf.(ssa.Instruction); ok {
				lb = bi.Block()
			}
			if len(lb.Instrs) == 0 {
				continue
			}
			lif, ok := lb.Instrs[len(lb.Instrs)-1].(*ssa.If)
			if !ok {
				continue
			}
			pol := true
			c := lif.Cond
			for {
				u, ok := c.(*ssa.UnOp)
				if !ok || u.Op != token.NOT {
					break
				}
				c, pol = u.X, !pol
			}
			if c != ssa.Value(bo) {
				continue
			}
			nonNilOnTrue := (bo.Op == token.NEQ) == pol
			succ := 1
			if nonNilOnTrue {
				succ = 0
			}
			if edgeDominates(lb, succ, at) {
				return true
			}
		}
	}
	return false
}

// validateSummary: for a Validate method of a schema message, the access paths relative to the receiver ("" for the
// receiver itself, ".Tx", ".Tx.Header", ...) that are certainly non-nil when the method returns without error: the
// edge on which such a path is nil reaches no successful return. A `return x.Sub.Validate()` adds the callee's paths.
func (c *Ctx) validateSummary(f *ssa.Function, depth int) map[string]bool {
	out := map[string]bool{}
	if f == nil || len(f.Blocks) == 0 || len(f.Params) == 0 || depth > 3 {
		return out
	}
	prefix := desc(f.Params[0])
	rel := func(v ssa.Value) (string, bool) {
		d := desc(v)
		if d == prefix {
			return "", true
		}
		if strings.HasPrefix(d, prefix+".") {
			return d[len(prefix):], true
		}
		return "", false
	}
	for _, b := range f.Blocks {
		if len(b.Instrs) == 0 {
			continue
		}
		ifi, ok := b.Instrs[len(b.Instrs)-1].(*ssa.If)
		if !ok {
			continue
		}
		pol := true
		cnd := ifi.Cond
		for {
			u, ok := cnd.(*ssa.UnOp)
			if !ok || u.Op != token.NOT {
				break
			}
			cnd, pol = u.X, !pol
		}
		bo, ok := cnd.(*ssa.BinOp)
		if !ok || (bo.Op != token.NEQ && bo.Op != token.EQL) {
			continue
		}
		var q ssa.Value
		if k, ok := bo.Y.(*ssa.Const); ok && k.IsNil() {
			q = bo.X
		} else if k, ok := bo.X.(*ssa.Const); ok && k.IsNil() {
			q = bo.Y
		}
		if q == nil {
			continue
		}
		r, ok := rel(q)
		if !ok {
			continue
		}
		nilOnTrue := (bo.Op == token.EQL) == pol
		succ := 1
		if nilOnTrue {
			succ = 0
		}
		pq := &pathQ{fn: f, fromEdges: []cfgEdge{{b, succ}}, to: successReturn}
		if pq.bypass() == nil {
			out[r] = true
		}
	}
	// return x.Sub.Validate(): the only way to succeed through that return is the callee succeeding
	var succRets []*ssa.Return
	allInstrs(f, false, func(in ssa.Instruction) {
		if rt, ok := in.(*ssa.Return); ok && successReturn(in) {
			succRets = append(succRets, rt)
		}
	})
	var sub map[string]bool
	first := true
	for _, rt := range succRets {
		cur := map[string]bool{}
		if len(rt.Results) == 1 {
			if cl, ok := rt.Results[0].(*ssa.Call); ok {
				if callee := cl.Call.StaticCallee(); callee != nil && callee.Name() == "Validate" && len(cl.Call.Args) > 0 {
					if r, ok := rel(cl.Call.Args[0]); ok {
						for k := range c.validateSummary(callee, depth+1) {
							cur[r+k] = true
						}
					}
				}
			}
		}
		if first {
			sub, first = cur, false
		} else {
			for k := range sub {
				if !cur[k] {
					delete(sub, k)
				}
			}
		}
	}
	for k := range sub {
		out[k] = true
	}
	return out
}

// validatedAt: p is one of the paths a dominating, error-checked x.Validate() call guarantees.
func (c *Ctx) validatedAt(fn *ssa.Function, p ssa.Value, at *ssa.BasicBlock) bool {
	dp := desc(p)
	for _, in := range sites(fn, func(x ssa.Instruction) bool {
		cl, ok := x.(*ssa.Call)
		if !ok {
			return false
		}
		callee := cl.Call.StaticCallee()
		return callee != nil && callee.Name() == "Validate" && len(cl.Call.Args) > 0 && isSchemaMsgPtr(cl.Call.Args[0].Type())
	}) {
		cl := in.(*ssa.Call)
		dx := desc(cl.Call.Args[0])
		if dp != dx && !strings.HasPrefix(dp, dx+".") {
			continue
		}
		if !c.validateSummary(cl.Call.StaticCallee(), 0)[dp[len(dx):]] {
			continue
		}
		in := in
		for _, e := range errEdges(fn, func(x ssa.Instruction) bool { return x == in }) {
			if edgeDominates(e.b, 1-e.succ, at) {
				return true
			}
		}
	}
	return false
}

// ruleMsgFieldsNilChecked: in the given functions, a sub-message pointer that was read out of another message (a
// field of a schema message, i.e. something the peer decides) is dereferenced only where a nil test of the same
// access path dominates. Returns the number of dereferences examined.
func (c *Ctx) ruleMsgFieldsNilChecked(rule string, fns []*ssa.Function) int {
	n := 0
	for _, fn := range fns {
		if len(fn.Blocks) == 0 {
			continue
		}
		bad := map[string]string{}
		okc := map[string]bool{}
		allInstrs(fn, false, func(in ssa.Instruction) {
			fa, ok := in.(*ssa.FieldAddr)
			if !ok || !isSchemaMsgPtr(fa.X.Type()) {
				return
			}
			ld, ok := fa.X.(*ssa.UnOp)
			if !ok || ld.Op != token.MUL {
				return
			}
			src, ok := ld.X.(*ssa.FieldAddr)
			if !ok || !isSchemaMsgPtr(src.X.Type()) {
				return // not a sub-message read out of a message
			}
			// where the message comes from: the result of a call (an RPC answer, a stream receiver), or, in the message
			// packages themselves, a parameter; a request the caller of a client function built is the user's own data
			root := ssa.Value(src)
			for {
				switch y := root.(type) {
				case *ssa.FieldAddr:
					root = y.X
					continue
				case *ssa.UnOp:
					if y.Op == token.MUL {
						root = y.X
						continue
					}
				}
				break
			}
			if _, isParam := root.(*ssa.Parameter); isParam && fnInPkgs(fn, []string{"pkg/client", "pkg/client/auditor"}) {
				return
			}
			if _, isAlloc := root.(*ssa.Alloc); isAlloc {
				return
			}
			n++
			path := structName(src.X.Type()) + "." + fieldName(src.X.Type(), src.Field)
			if nilCheckedAt(fn, fa.X, in.Block()) || c.validatedAt(fn, fa.X, in.Block()) {
				okc[path] = true
				return
			}
			if _, seen := bad[path]; !seen {
				bad[path] = c.pos(in.Pos())
			}
		})
		var keys []string
		for k := range bad {
			keys = append(keys, k)
		}
		sort.Strings(keys)
		for _, k := range keys {
			c.fail(rule, fnName(fn)+":"+k, bad[k], fmt.Sprintf("the sub-message %s comes from the peer and is dereferenced without a nil test: a response that leaves it out crashes the process instead of failing verification", k))
		}
		for k := range okc {
			if _, isBad := bad[k]; !isBad {
				c.ok(rule, fnName(fn)+":"+k, c.pos(fn.Pos()), "dereferenced under a nil test")
			}
		}
	}
	return n
}

func init() {
	register("DBGNILMSG", &propDef{patterns: []string{"./pkg/client/...", "./pkg/verification", "./pkg/api/schema"}, run: func(c *Ctx) {
		var fns []*ssa.Function
		for _, f := range c.allFns {
			if fnInPkgs(f, []string{"pkg/client", "pkg/verification", "pkg/api/schema", "pkg/client/auditor"}) {
				fns = append(fns, f)
			}
		}
		n := c.ruleMsgFieldsNilChecked("DBG/nilmsg", fns)
		fmt.Println("derefs examined", n)
	}})
}
