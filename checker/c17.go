package main

import (
	"fmt"
	"go/token"
	"strings"

	"golang.org/x/tools/go/ssa"
)

var appPkgs = []string{"embedded/appendable/singleapp", "embedded/appendable/multiapp"}

var aofGuard = guardSpec{
	structName: "AppendableFile",
	lock:       "AppendableFile.mutex",
	fields:     []string{"fileOffset", "wbufFlushedOffset", "wbufUnwrittenOffset", "seekRequired", "closed", "readOnly", "writeBuffer"},
	callerHolds: map[string]string{
		aofT + "offset": "W", aofT + "write": "W", aofT + "readAt": "W", aofT + "seekIfRequired": "W",
		aofT + "flush": "W", aofT + "sync": "W",
	},
	exempt: map[string]string{"embedded/appendable/singleapp.Open": "constructor"},
}

var mfGuard = guardSpec{
	structName: "MultiFileAppendable",
	lock:       "MultiFileAppendable.mutex",
	fields:     []string{"currApp", "currAppID", "closed", "readOnly", "writeBuffer", "prefetchPrevAppID"},
	callerHolds: map[string]string{
		mfT + "offset": "W", mfT + "sync": "W", mfT + "openAppendable": "W", mfT + "maybePrefetchAheadLocked": "W",
	},
	exemptAccess: map[string]string{
		mfT + "openAppendableFromSnapshot:MultiFileAppendable.readOnly": "prefetch path; the value only selects the open mode of a non-active chunk, which is opened without write access either way",
	},
	exempt: map[string]string{
		"embedded/appendable/multiapp.OpenWithHooks": "constructor",
		"embedded/appendable/multiapp.Open":          "constructor",
	},
}

func c17(c *Ctx) {
	c17InterruptedCreation(c, "C17.7/interrupted-file-creation-is-tolerated")
	c17WriteCountRecorded(c, "C17.8/short-write-is-accounted")
	c17ActiveChunkServesOnlyItsOwnOffsets(c, "C17.9/active-chunk-serves-only-its-own-offsets")
	c17CacheMissNotSurfaced(c, "C17.6/chunk-cache-miss-is-not-a-read-error")
	c17FullReads(c, "C17.5/header-read-is-full")
	c17RefCountedClose(c, "C17.4/chunk-closed-only-without-readers")
	// a rewind that stays inside the write buffer moves an index INTO the buffer: with retryable sync the bytes already
	// written to the file stay in front of it (wbufFlushedOffset > 0), so the new index is computed from the buffer
	// indexes (the old wbufUnwrittenOffset or wbufFlushedOffset), not from file offsets alone
	if f := c.mustFn("C17.2/in-buffer-rewind-is-buffer-relative", "embedded/appendable/singleapp.(*AppendableFile).SetOffset"); f != nil {
		r := "C17.2/in-buffer-rewind-is-buffer-relative"
		n := 0
		for i, in := range sites(f, storeTo("AppendableFile.wbufUnwrittenOffset")) {
			v := in.(*ssa.Store).Val
			if _, isConst := v.(*ssa.Const); isConst {
				continue // the buffer is dropped as a whole
			}
			n++
			dep := dependsOn(v, func(x ssa.Value) bool {
				u, ok := x.(*ssa.UnOp)
				if !ok || u.Op != token.MUL {
					return false
				}
				fl, _ := fieldOf(u.X)
				return fl == "AppendableFile.wbufUnwrittenOffset" || fl == "AppendableFile.wbufFlushedOffset"
			})
			c.check(dep, r, fmt.Sprintf("%s:wbufUnwrittenOffset#%d", fnName(f), i), c.pos(in.Pos()), "computed from the buffer indexes", "the write-buffer index after an in-memory rewind is "+desc(v)+": it ignores the flushed-but-unsynced bytes kept at the front of the buffer (retryable sync), Offset() and the next append are off by wbufFlushedOffset")
		}
		if n < 1 {
			c.undecided(r, "floor", "the in-memory rewind of SetOffset was not found")
		}
	}
	// ---- C17.1 lock pairing and lockset -----------------------------------------------------------
	c.rulePairing("C17.1/lock-pairing", appPkgs, map[string]string{})
	c.ruleGuarded("C17.1/lockset-singleapp", appPkgs, aofGuard)
	c.ruleCallerHolds("C17.1/caller-holds-singleapp", appPkgs, aofGuard)
	c.ruleGuarded("C17.1/lockset-multiapp", appPkgs, mfGuard)
	c.ruleCallerHolds("C17.1/caller-holds-multiapp", appPkgs, mfGuard)

	// ---- C17.2 ordering -------------------------------------------------------------------------
	c03Appendables(c, "C17.2")

	r := "C17.2/append-returns-previous-size"
	if f := c.mustFn(r, aofT+"Append"); f != nil {
		c.ruleOrder(r, f, "offset()", callTo(aofT+"offset"), "write", callTo(aofT+"write"), nil, 1)
		// the returned offset is the value read before writing
		var offCall ssa.Value
		for _, in := range sites(f, callTo(aofT+"offset")) {
			offCall = in.(*ssa.Call)
		}
		allInstrs(f, false, func(in ssa.Instruction) {
			rt, ok := in.(*ssa.Return)
			if !ok || len(rt.Results) != 3 || retKind(rt) == "fail" {
				return
			}
			v := unspill(rt.Results[0], rt)
			okv := v == offCall || dependsOn(v, func(x ssa.Value) bool { return x == offCall })
			if cst, isC := v.(*ssa.Const); isC && cst.Int64() == 0 {
				okv = true // error returns
			}
			c.check(okv, r, fnName(f)+":returned-offset", c.pos(rt.Pos()), "Append returns the offset read before the write", "Append returns "+desc(v)+" instead of the pre-write offset")
		})
	}
	if f := c.mustFn(r, mfT+"Append"); f != nil {
		// off = offn + currAppID*fileSize, taken from the first chunk written
		found := false
		allInstrs(f, false, func(in ssa.Instruction) {
			if bo, ok := in.(*ssa.BinOp); ok {
				d := desc(bo)
				if strings.Contains(d, "Append[") && strings.Contains(d, "currAppID") && strings.Contains(d, "fileSize") && strings.Contains(d, "*") && strings.Contains(d, "+") {
					found = true
				}
			}
		})
		c.check(found, r, fnName(f)+":global-offset", c.pos(f.Pos()), "global offset = chunk offset + currAppID*fileSize", "global offset of a multi-file append is no longer chunk offset + currAppID*fileSize")
	}

	// rotation happens whenever no room is left: the append to the current chunk is reached only via a
	// rotation or via an edge on which available > 0
	r = "C17.2/multiapp-rotation-guard"
	if f := c.mustFn(r, mfT+"Append"); f != nil {
		room := func(b *ssa.BasicBlock, succ int) bool {
			return whenCond(true, func(a string) bool { return strings.HasPrefix(a, "(const:0 < ") && strings.Contains(a, "fileSize") })(b, succ) ||
				whenCond(false, func(a string) bool { return strings.HasSuffix(a, " < const:1)") && strings.Contains(a, "fileSize") })(b, succ)
		}
		q := &pathQ{fn: f, fromEntry: true, to: callTo(appAppend + "@currApp"), via: storeTo("MultiFileAppendable.currApp"), barrier: room}
		if w := q.bypass(); w != nil {
			c.fail(r, fnName(f)+":append-only-with-room-or-after-rotation", c.pos(w[len(w)-1].Pos()), "the current chunk is appended to on a path that neither rotated nor established available > 0: "+c.witnessStr(w))
		} else {
			c.ok(r, fnName(f)+":append-only-with-room-or-after-rotation", c.pos(f.Pos()), "currApp.Append is reached only after rotation or on the available>0 edge")
		}
	}

	// file position typestate: whoever moves the descriptor must flag seekRequired
	r = "C17.2/seek-typestate"
	nseek := 0
	for _, fn := range c.allFns {
		if !fnInPkgs(fn, []string{"embedded/appendable/singleapp"}) || fnName(fn) == aofT+"seekIfRequired" || fnName(topFn(fn)) == "embedded/appendable/singleapp.Open" {
			continue
		}
		movers := sites(fn, func(in ssa.Instruction) bool {
			if !callTo("os.(*File).Seek", "os.(*File).Read")(in) {
				return false
			}
			return hasFieldSuffix(desc(recvOf(callOf(in))), "f")
		})
		for i, in := range movers {
			nseek++
			flag := func(x ssa.Instruction) bool {
				st, ok := x.(*ssa.Store)
				if !ok {
					return false
				}
				f, _ := fieldOf(st.Addr)
				return f == "AppendableFile.seekRequired" && desc(st.Val) == "const:true"
			}
			dominated := false
			for _, s := range sites(fn, flag) {
				if instrDominates(s, in) {
					dominated = true
				}
			}
			construct := fmt.Sprintf("%s:file-position-moved#%d", fnName(fn), i)
			if dominated {
				c.ok(r, construct, c.pos(in.Pos()), "seekRequired=true is set before the descriptor is moved")
				continue
			}
			q := &pathQ{fn: fn, from: []ssa.Instruction{in}, to: isReturn, via: flag, barrier: errEdgeOf(in)}
			if w := q.bypass(); w != nil {
				c.fail(r, construct, c.pos(in.Pos()), "the file descriptor position is moved but seekRequired is not set on the way to "+c.pos(w[len(w)-1].Pos()))
			} else {
				c.ok(r, construct, c.pos(in.Pos()), "every path from the move to a return sets seekRequired")
			}
		}
	}
	if nseek == 0 {
		c.undecided(r, "floor", "no descriptor-moving call found in singleapp (expected Copy)")
	}
	// seekIfRequired really seeks to the logical position and clears the flag afterwards
	if f := c.mustFn(r, aofT+"seekIfRequired"); f != nil {
		c.ruleOrder(r, f, "f.Seek", callTo("os.(*File).Seek"), "seekRequired=false", storeTo("AppendableFile.seekRequired"), nil, 1)
		for _, in := range sites(f, callTo("os.(*File).Seek")) {
			a := desc(callOf(in).Args[1])
			c.check(strings.Contains(a, "fileBaseOffset") && strings.Contains(a, "fileOffset") && strings.Contains(a, "+"), r, fnName(f)+":seek-target", c.pos(in.Pos()),
				"seeks to fileBaseOffset+fileOffset", "seekIfRequired seeks to "+a)
		}
		c.ruleErrChecked(r, f, "f.Seek", callTo("os.(*File).Seek"), 1)
	}

	// ---- SetOffset -------------------------------------------------------------------------------
	r = "C17.2/singleapp-setoffset"
	if f := c.mustFn(r, aofT+"SetOffset"); f != nil {
		// no state is changed when newOffset > current offset
		grow := whenCond(false, func(a string) bool {
			return strings.Contains(a, "offset[") && strings.HasSuffix(a, "< param:newOffset)")
		})
		for _, fld := range []string{"fileOffset", "wbufUnwrittenOffset", "wbufFlushedOffset", "seekRequired"} {
			p := storeTo("AppendableFile." + fld)
			if len(sites(f, p)) == 0 {
				c.undecided(r, fnName(f)+":"+fld, "expected a store to "+fld)
				continue
			}
			q := &pathQ{fn: f, fromEntry: true, to: p, barrier: grow}
			c.check(q.bypass() == nil, r, fnName(f)+":no-forward-jump:"+fld, c.pos(f.Pos()), fld+" only changes when newOffset <= current offset", "SetOffset changes "+fld+" although the new offset is beyond the current one")
		}
		// rewinding below the flushed part must force a seek and drop the buffer
		c.ruleOrderAfter(r, f, "store fileOffset", storeTo("AppendableFile.fileOffset"), "seekRequired=true", storeTo("AppendableFile.seekRequired"))
		c.ruleOrderAfter(r, f, "store fileOffset", storeTo("AppendableFile.fileOffset"), "wbufUnwrittenOffset=0", storeTo("AppendableFile.wbufUnwrittenOffset"))
		c.ruleOrderAfter(r, f, "store fileOffset", storeTo("AppendableFile.fileOffset"), "wbufFlushedOffset=0", storeTo("AppendableFile.wbufFlushedOffset"))
	}
	r = "C17.2/multiapp-setoffset"
	if f := c.mustFn(r, mfT+"SetOffset"); f != nil {
		c.ruleOrder(r, f, "currApp.Close", callTo(appClose+"@currApp"), "openAppendable", callTo(mfT+"openAppendable"), nil, 1)
		c.ruleOrder(r, f, "openAppendable", callTo(mfT+"openAppendable"), "store currApp", storeTo("MultiFileAppendable.currApp"), nil, 1)
		c.ruleOrder(r, f, "openAppendable", callTo(mfT+"openAppendable"), "store currAppID", storeTo("MultiFileAppendable.currAppID"), nil, 1)
		eq := whenCond(true, func(a string) bool {
			return strings.Contains(a, "param:off") && strings.Contains(a, " == ") && strings.Contains(a, "offset[")
		})
		c.ruleMustPass(r, f, nil, "currApp.SetOffset", callTo(appSetOff+"@currApp"), eq, false)
		for _, in := range sites(f, callTo(appSetOff+"@currApp")) {
			a := desc(callOf(in).Args[0])
			c.check(strings.Contains(a, "param:off %") && strings.Contains(a, "fileSize"), r, fnName(f)+":in-chunk-offset", c.pos(in.Pos()), "delegates off % fileSize", "delegates "+a)
		}
		c.ruleErrChecked(r, f, "currApp.Close", callTo(appClose+"@currApp"), 1)
	}

	// ---- C17.3 discard guard ------------------------------------------------------------------------
	c14DiscardGuard(c, "C17.3/discard-guard")

	// ---- a rewind is persistent -----------------------------------------------------------------------------
	// "rewinding the offset discards what follows ... after flush and close, reopening finds ... the same size": the size
	// found at reopen is the size of the file (singleapp) / the position of the last chunk file (multiapp), so a rewind
	// has to shorten the file and drop the chunk files after the new head. Neither happens today: known findings.
	c17RewindPersistent(c, "C17.2/rewind-is-persistent")

	// ---- preallocation and the compressed-read bound ------------------------------------------------------------
	if f := c.mustFn("C17.2/singleapp-prealloc", "embedded/appendable/singleapp.Open"); f != nil {
		// a preallocated file is exactly preallocSize bytes long after the header: the size found at reopen is the
		// physical length, and a multi-file appendable addresses chunk k+1 at (k+1)*fileSize. The zero-fill loop writes
		// slices bounded by what is left, never whole blocks.
		r := "C17.2/singleapp-prealloc"
		n := 0
		for _, in := range sites(f, callTo("bufio.(*Writer).Write")) {
			arg := callOf(in).Args[1]
			sl, ok := arg.(*ssa.Slice)
			// the write of the zero-fill loop: its block is entered across `preallocated < preallocSize`
			inLoop := false
			for _, blk := range f.Blocks {
				for si := range blk.Succs {
					if whenCond(true, func(a string) bool { return strings.Contains(a, "preallocSize") && strings.Contains(a, " < ") })(blk, si) && edgeDominates(blk, si, in.Block()) {
						inLoop = true
					}
				}
			}
			if !inLoop {
				continue
			}
			n++
			bounded := ok && sl.High != nil && dependsOn(sl.High, func(v ssa.Value) bool { return hasFieldSuffix(desc(v), "preallocSize") })
			c.check(bounded, r, fmt.Sprintf("%s:zero-fill-write#%d", fnName(f), n), c.pos(in.Pos()), "each zero-fill write is cut to what is left of preallocSize", "the zero-fill loop writes "+desc(arg)+" without cutting it to the remaining preallocation: the file ends up longer than preallocSize")
		}
		if n == 0 {
			c.undecided(r, fnName(f)+":zero-fill", "the zero-fill write of the preallocation loop was not found")
		}
	}
	if f := c.mustFn("C17.2/singleapp-readat", aofT+"ReadAt"); f != nil {
		// a compressed entry is readable as soon as Append returned its offset: the chunk-length bound is taken against the
		// logical size offset() (file + write buffer), not against what has already reached the file
		r := "C17.2/singleapp-readat"
		n := 0
		allInstrs(f, false, func(in ssa.Instruction) {
			ifi, ok := in.(*ssa.If)
			if !ok {
				return
			}
			for _, leaf := range boolLeaves(ifi.Cond) {
				bo, ok := leaf.(*ssa.BinOp)
				if !ok || (bo.Op != token.GTR && bo.Op != token.LSS && bo.Op != token.GEQ && bo.Op != token.LEQ) {
					continue
				}
				if !dependsOn(bo.X, func(v ssa.Value) bool { return isWideDecode(v) }) && !dependsOn(bo.Y, func(v ssa.Value) bool { return isWideDecode(v) }) {
					continue
				}
				n++
				logical := func(v ssa.Value) bool {
					cl, ok := v.(*ssa.Call)
					return ok && calleeName(&cl.Call) == aofT+"offset"
				}
				c.check(dependsOn(bo.X, logical) || dependsOn(bo.Y, logical), r, fmt.Sprintf("%s:compressed-chunk-bound#%d", fnName(f), n), c.pos(bo.Pos()), "the chunk length is bounded by offset()", "the length of a compressed chunk is bounded by "+desc(bo)+", which does not involve the logical size offset(): entries still in the write buffer are reported as EOF")
			}
		})
		if n == 0 {
			c.undecided(r, fnName(f)+":compressed-chunk-bound", "no comparison of the decoded chunk length found")
		}
	}

	// ---- reads ----------------------------------------------------------------------------------------
	r = "C17.2/singleapp-readat"
	if f := c.mustFn(r, aofT+"readAt"); f != nil {
		// reads beyond the logical size are refused before touching file or buffer
		pastEnd := whenCond(false, func(a string) bool { return strings.Contains(a, "offset[") && strings.HasSuffix(a, "< param:off)") })
		q := &pathQ{fn: f, fromEntry: true, to: callTo("os.(*File).ReadAt"), barrier: pastEnd}
		c.check(q.bypass() == nil, r, fnName(f)+":eof-guard", c.pos(f.Pos()), "file read is dominated by off <= offset()", "readAt reads the file without checking off against the logical size")
		for _, in := range sites(f, callTo("os.(*File).ReadAt")) {
			a := desc(callOf(in).Args[2])
			c.check(strings.Contains(a, "fileBaseOffset") && strings.Contains(a, "param:off"), r, fnName(f)+":file-position", c.pos(in.Pos()), "reads at fileBaseOffset+off", "reads the file at "+a)
			// the file holds valid bytes only below fileOffset (after a rewind the discarded tail is still there; what
			// was appended since is in the write buffer): the read from the file ends at fileOffset.
			// obligation  off + len(buffer passed to f.ReadAt) <= fileOffset, discharged by the E6 prover
			p := newProver(c, f)
			buf := callOf(in).Args[1]
			var fo ssa.Value
			allInstrs(f, false, func(x ssa.Instruction) {
				if ld, ok := x.(*ssa.UnOp); ok && ld.Op == token.MUL {
					if fl, _ := fieldOf(ld.X); fl == "AppendableFile.fileOffset" && fo == nil {
						fo = ld
					}
				}
			})
			if fo == nil {
				c.undecided(r, fnName(f)+":file-read-ends-at-fileOffset", "no load of fileOffset")
				continue
			}
			l := p.lenOf(buf).add(p.linOf(f.Params[2]), 1).add(p.linOf(fo), -1)
			okp, how := p.proveObl(boundsObl{in, "file read ends at fileOffset", l})
			c.check(okp, r, fnName(f)+":file-read-ends-at-fileOffset", c.pos(in.Pos()), how+": "+l.String()+" <= 0",
				"the file is read beyond fileOffset (need "+l.String()+" <= 0): after SetOffset rewound the appendable the file still holds the discarded bytes, which are returned instead of the data appended since")
		}
	}
}

// ruleOrderAfter: every path from a site `first` to a return passes a site `then`.
func (c *Ctx) ruleOrderAfter(rule string, fn *ssa.Function, firstName string, first sitePred, thenName string, then sitePred) {
	fs := sites(fn, first)
	construct := fmt.Sprintf("%s:%s->%s", fnName(fn), firstName, thenName)
	if len(fs) == 0 {
		c.undecided(rule, construct, "no site "+firstName)
		return
	}
	q := &pathQ{fn: fn, from: fs, to: isReturn, via: then}
	if w := q.bypass(); w != nil {
		c.fail(rule, construct, c.pos(fs[0].Pos()), fmt.Sprintf("after %s a return is reachable without %s: %s", firstName, thenName, c.witnessStr(w)))
		return
	}
	c.ok(rule, construct, c.pos(fs[0].Pos()), "every path from "+firstName+" to a return passes "+thenName)
}

// c14DiscardGuard: chunk deletion strictly below the offset's chunk (shared by C14 and C17).
func c14DiscardGuard(c *Ctx, r string) {
	f := c.mustFn(r, mfT+"DiscardUpto")
	if f == nil {
		return
	}
	below := whenCond(true, func(a string) bool {
		return strings.HasSuffix(a, "< call:embedded/appendable/multiapp.appendableID)") || (strings.Contains(a, " < ") && strings.Contains(a, "appendableID"))
	})
	notCurr := whenCond(false, func(a string) bool { return strings.Contains(a, "currAppID") && strings.Contains(a, " == ") })
	bound := whenCond(false, func(a string) bool { return strings.Contains(a, "offset[") && strings.HasSuffix(a, "< param:off)") })
	for _, t := range []struct {
		n string
		p sitePred
	}{{"os.Remove", callTo("os.Remove")}, {"appendables.Pop", callTo("embedded/appendable/multiapp.(appendableCache).Pop")}} {
		if len(sites(f, t.p)) == 0 {
			c.undecided(r, fnName(f)+":"+t.n, "site not found")
			continue
		}
		for _, g := range []struct {
			n string
			e edgePred
		}{{"i<appendableID(off)", below}, {"i!=currAppID", notCurr}, {"off<=offset()", bound}} {
			q := &pathQ{fn: f, fromEntry: true, to: t.p, barrier: g.e}
			construct := fmt.Sprintf("%s:%s:guard:%s", fnName(f), t.n, g.n)
			if w := q.bypass(); w != nil {
				c.fail(r, construct, c.pos(w[len(w)-1].Pos()), t.n+" reachable without the guard "+g.n+": "+c.witnessStr(w))
			} else {
				c.ok(r, construct, c.pos(f.Pos()), t.n+" is dominated by "+g.n)
			}
		}
	}
	// the first chunk kept is the one holding byte `off`: appendableID is applied to the offset itself
	for i, in := range sites(f, callTo("embedded/appendable/multiapp.appendableID")) {
		a := desc(callOf(in).Args[0])
		c.check(a == "param:off", r, fmt.Sprintf("%s:first-kept-chunk-holds-off#%d", fnName(f), i), c.pos(in.Pos()), "appendableID(off, fileSize)", "the first chunk to keep is computed from "+a+" instead of the discard offset: the chunk holding the byte at `off` can be removed")
	}
	// the removed file is the i-th chunk
	for _, in := range sites(f, callTo("os.Remove")) {
		a := desc(callOf(in).Args[0])
		if dependsOn(callOf(in).Args[0], func(x ssa.Value) bool {
			cl, ok := x.(*ssa.Call)
			return ok && calleeName(&cl.Call) == "embedded/appendable/multiapp.appendableName"
		}) {
			a = "appendableName"
		}
		c.check(strings.Contains(a, "appendableName"), r, fnName(f)+":removed-file-is-chunk-i", c.pos(in.Pos()), "removes appendableName(i)", "removes "+a)
	}
	// appendableID is off / fileSize
	if g := c.mustFn(r, "embedded/appendable/multiapp.appendableID"); g != nil {
		okv := false
		allInstrs(g, false, func(in ssa.Instruction) {
			if rt, ok := in.(*ssa.Return); ok && len(rt.Results) == 1 {
				if d := desc(rt.Results[0]); d == "(param:off / param:fileSize)" {
					okv = true
				}
			}
		})
		c.check(okv, r, fnName(g)+":off/fileSize", c.pos(g.Pos()), "appendableID = off / fileSize", "appendableID is no longer off / fileSize")
	}
	// single-file DiscardUpto never removes anything
	if g := c.mustFn(r, aofT+"DiscardUpto"); g != nil {
		n := len(sites(g, callTo("os.Remove", "os.(*File).Truncate", "os.Truncate")))
		c.check(n == 0, r, fnName(g)+":no-removal", c.pos(g.Pos()), "single-file DiscardUpto only validates", "single-file DiscardUpto removes or truncates data")
	}
}

// c17RewindPersistent: SetOffset to a smaller offset must survive flush, close and reopen (also used by C08: a rolled
// back hash tree is rolled back by rewinding its three logs).
func c17RewindPersistent(c *Ctx, rr string) {
	if f := c.mustFn(rr, aofT+"SetOffset"); f != nil {
		tr := sites(f, callTo("os.(*File).Truncate"))
		if len(tr) == 0 {
			c.fail(rr, fnName(f)+":truncates-file", c.pos(f.Pos()), "SetOffset moves fileOffset back and never truncates the file: after flush, close and reopen the size is the old one again and the discarded bytes are readable")
		} else {
			c.ruleMustPass(rr, f, nil, "f.Truncate", callTo("os.(*File).Truncate"), whenCond(true, func(a string) bool { return strings.Contains(a, " == ") && strings.Contains(a, "param:newOffset") }), false)
		}
	}
	if f := c.mustFn(rr, mfT+"SetOffset"); f != nil {
		rm := callTo("os.Remove", "os.RemoveAll")
		dyn := func(in ssa.Instruction) bool {
			cc := callOf(in)
			return cc != nil && !cc.IsInvoke() && cc.StaticCallee() == nil && hasFieldSuffix(desc(cc.Value), "appRemove")
		}
		if len(sites(f, anyOf(rm, dyn))) == 0 {
			c.fail(rr, fnName(f)+":drops-later-chunks", c.pos(f.Pos()), "SetOffset to an earlier chunk leaves the later chunk files in place: reopening picks the last chunk file as the head, so the size is the old one again")
		} else {
			c.ok(rr, fnName(f)+":drops-later-chunks", c.pos(f.Pos()), "later chunk files are removed")
		}
	}

}

// c17RefCountedClose: a cached chunk file is shared by the readers that hold a reference on it; eviction marks it and
// the last Release closes it. In the methods of refCountedApp the underlying Close is decided by a condition over
// (refs == 0, evicted), and a flag that feeds such a decision is read BEFORE the same method overwrites it: read after
// `r.evicted = true` it is the constant true, the file is closed under a reader that is inside ReadAt ("already
// closed" instead of the written bytes).
func c17RefCountedClose(c *Ctx, r string) {
	n := 0
	for _, f := range c.allFns {
		if !fnInPkgs(f, []string{"embedded/appendable/multiapp"}) || len(f.Blocks) == 0 || f.Signature.Recv() == nil {
			continue
		}
		if !strings.Contains(f.Signature.Recv().Type().String(), "refCountedApp") {
			continue
		}
		closes := sites(f, func(in ssa.Instruction) bool {
			cc := callOf(in)
			_, isDefer := in.(*ssa.Defer)
			return cc != nil && !isDefer && cc.IsInvoke() && cc.Method.Name() == "Close"
		})
		for i, cl := range closes {
			n++
			// the branch conditions the call is control dependent on
			var leaves []ssa.Value
			for _, b := range f.Blocks {
				if len(b.Instrs) == 0 {
					continue
				}
				ifi, ok := b.Instrs[len(b.Instrs)-1].(*ssa.If)
				if !ok {
					continue
				}
				if edgeDominates(b, 0, cl.Block()) || edgeDominates(b, 1, cl.Block()) {
					leaves = append(leaves, boolLeaves(ifi.Cond)...)
				}
			}
			guarded, stale := false, ""
			for _, lf := range leaves {
				d := desc(lf)
				if strings.Contains(d, ".refs") && strings.Contains(d, "const:0") {
					guarded = true
				}
				if u, ok := lf.(*ssa.UnOp); ok && u.Op == token.MUL {
					if fl, _ := fieldOf(u.X); fl == "refCountedApp.evicted" {
						guarded = true
						for _, st := range sites(f, storeTo("refCountedApp.evicted")) {
							if instrDominates(st, u) {
								stale = c.pos(st.Pos())
							}
						}
					}
				}
			}
			construct := fmt.Sprintf("%s:underlying-Close#%d", fnName(f), i)
			switch {
			case !guarded:
				c.fail(r, construct, c.pos(cl.Pos()), "the underlying file is closed without looking at the reference count or the eviction flag")
			case stale != "":
				c.fail(r, construct, c.pos(cl.Pos()), "the eviction flag that decides this Close is read after the method itself set it (at "+stale+"): the decision no longer depends on the readers' references, a chunk is closed under a reader that is inside ReadAt")
			default:
				c.ok(r, construct, c.pos(cl.Pos()), "decided by refs == 0 / the eviction flag as it was on entry")
			}
		}
	}
	if n < 2 {
		c.undecided(r, "floor", fmt.Sprintf("%d underlying Close calls in refCountedApp found (Release, Close confirmed by hand)", n))
	}
}

// c17FullReads: io.Reader.Read may return fewer bytes than asked without an error (bufio.Reader hands out at most
// what one underlying read brought in: 4096 bytes). Where the appendables read a fixed-size or length-prefixed header
// from a file, a Read whose byte count is thrown away leaves the tail of the buffer zeroed: metadata longer than the
// reader's buffer does not survive a reopen. Such reads go through io.ReadFull (or look at the count).
func c17FullReads(c *Ctx, r string) {
	n := 0
	for _, f := range c.allFns {
		if !fnInPkgs(f, []string{"embedded/appendable/singleapp", "embedded/appendable/multiapp", "embedded/appendable/remoteapp"}) || len(f.Blocks) == 0 {
			continue
		}
		per := 0
		allInstrs(f, false, func(in ssa.Instruction) {
			cl, ok := in.(*ssa.Call)
			if !ok {
				return
			}
			name := calleeName(&cl.Call)
			isStdRead := name == "bufio.(*Reader).Read" || name == "os.(*File).Read" || (cl.Call.IsInvoke() && cl.Call.Method.Name() == "Read" && strings.HasPrefix(cl.Call.Value.Type().String(), "io."))
			if name == "io.ReadFull" || name == "io.ReadAtLeast" {
				n++
				per++
				c.ok(r, fmt.Sprintf("%s:Read#%d", fnName(f), per), c.pos(in.Pos()), name+" reads the whole buffer or fails")
				return
			}
			if !isStdRead {
				return
			}
			n++
			per++
			used := false
			for _, rf := range *cl.Referrers() {
				if ex, ok := rf.(*ssa.Extract); ok && ex.Index == 0 && len(*ex.Referrers()) > 0 {
					used = true
				}
			}
			c.check(used, r, fmt.Sprintf("%s:Read#%d", fnName(f), per), c.pos(in.Pos()), "the number of bytes read is looked at", "the byte count of "+name+" is discarded: a short read (bufio hands out at most one 4096-byte fill) leaves the rest of the buffer zeroed and is taken for the stored bytes")
		})
	}
	if n < 2 {
		c.undecided(r, "floor", fmt.Sprintf("%d header reads (Read / io.ReadFull) found in the appendables (2 in singleapp.Open when the rule was armed)", n))
	}
}

// c17CacheMissNotSurfaced: the cache of opened chunk files answers cache.ErrKeyNotFound when a chunk is not (or no
// longer) cached: that is a fact about the cache, not about the bytes. Between the moment a reader opened and cached a
// chunk and the moment it picks it up, a concurrent reader may evict it; the error of that lookup must not travel up to
// ReadAt's caller. In appendableFor (what ReadAt uses), no return carries the error of appendableCache.Get, directly or
// through a helper, unless errors.Is(err, cache.ErrKeyNotFound) was found false on the way.
func c17CacheMissNotSurfaced(c *Ctx, r string) {
	isKeyNotFoundTest := func(v ssa.Value) (ssa.Value, bool) {
		cl, ok := v.(*ssa.Call)
		if !ok || calleeName(&cl.Call) != "errors.Is" || len(cl.Call.Args) != 2 {
			return nil, false
		}
		if !strings.Contains(desc(cl.Call.Args[1]), "ErrKeyNotFound") {
			return nil, false
		}
		return cl.Call.Args[0], true
	}
	// the error values a returned error can be: through phis, named-result spills and extracts
	var sourcesOf func(v ssa.Value, at ssa.Instruction, seen map[ssa.Value]bool) []*ssa.Call
	sourcesOf = func(v ssa.Value, at ssa.Instruction, seen map[ssa.Value]bool) []*ssa.Call {
		if v == nil || seen[v] {
			return nil
		}
		seen[v] = true
		switch x := v.(type) {
		case *ssa.Phi:
			var out []*ssa.Call
			for _, e := range x.Edges {
				out = append(out, sourcesOf(e, at, seen)...)
			}
			return out
		case *ssa.Extract:
			if cl, ok := x.Tuple.(*ssa.Call); ok {
				return []*ssa.Call{cl}
			}
		case *ssa.Call:
			return []*ssa.Call{x}
		case *ssa.UnOp:
			if x.Op == token.MUL {
				if a, ok := x.X.(*ssa.Alloc); ok {
					var out []*ssa.Call
					for _, rf := range *a.Referrers() {
						if st, ok := rf.(*ssa.Store); ok && st.Addr == ssa.Value(a) {
							out = append(out, sourcesOf(st.Val, at, seen)...)
						}
					}
					return out
				}
			}
		}
		return nil
	}
	memo := map[*ssa.Function]int{} // 0 unknown, 1 in progress / no, 2 leaks
	var witness string
	var leaks func(f *ssa.Function, depth int) bool
	leaks = func(f *ssa.Function, depth int) bool {
		if f == nil || len(f.Blocks) == 0 || depth > 4 {
			return false
		}
		if m := memo[f]; m != 0 {
			return m == 2
		}
		memo[f] = 1
		res := false
		allInstrs(f, false, func(in ssa.Instruction) {
			rt, ok := in.(*ssa.Return)
			if !ok || len(rt.Results) == 0 || res {
				return
			}
			ev := rt.Results[len(rt.Results)-1]
			if !isErrorType(ev.Type()) {
				return
			}
			for _, cl := range sourcesOf(unspill(ev, rt), rt, map[ssa.Value]bool{}) {
				n := calleeName(&cl.Call)
				fromCache := n == "embedded/appendable/multiapp.(appendableCache).Get"
				if !fromCache {
					if sc := cl.Call.StaticCallee(); sc != nil && fnInPkgs(sc, []string{"embedded/appendable/multiapp"}) && leaks(sc, depth+1) {
						fromCache = true
					}
				}
				if !fromCache {
					continue
				}
				// discriminated: errors.Is(<this error>, ErrKeyNotFound) is false on an edge dominating the return
				disc := false
				for _, b := range f.Blocks {
					if len(b.Instrs) == 0 {
						continue
					}
					ifi, ok := b.Instrs[len(b.Instrs)-1].(*ssa.If)
					if !ok {
						continue
					}
					cnd, pol := ifi.Cond, true
					for {
						u, ok := cnd.(*ssa.UnOp)
						if !ok || u.Op != token.NOT {
							break
						}
						cnd, pol = u.X, !pol
					}
					arg, ok := isKeyNotFoundTest(cnd)
					if !ok {
						continue
					}
					same := false
					for _, s2 := range sourcesOf(arg, ifi, map[ssa.Value]bool{}) {
						if s2 == cl {
							same = true
						}
					}
					if !same {
						continue
					}
					succ := 1 // errors.Is(...) false
					if !pol {
						succ = 0
					}
					if edgeDominates(b, succ, rt.Block()) {
						disc = true
					}
				}
				if !disc {
					res = true
					witness = "the lookup at " + c.pos(cl.Pos())
				}
			}
		})
		if res {
			memo[f] = 2
		}
		return res
	}
	f := c.mustFn(r, "embedded/appendable/multiapp.(*MultiFileAppendable).appendableFor")
	if f == nil {
		return
	}
	if leaks(f, 0) {
		c.fail(r, fnName(f)+":cache-lookup-error", strings.TrimPrefix(witness, "the lookup at "), "the error of the chunk-cache lookup ("+witness+") reaches ReadAt's caller without having been told apart from cache.ErrKeyNotFound: a chunk evicted by a concurrent reader between open and pick-up turns into a failed read of bytes that are on disk")
	} else {
		c.ok(r, fnName(f)+":cache-lookup-error", c.pos(f.Pos()), "no return carries an undiscriminated chunk-cache lookup error")
	}
	// the rule is alive: the helper that does the lookups does return such errors
	nGet := len(c.callSites(callTo("embedded/appendable/multiapp.(appendableCache).Get")))
	if nGet < 3 {
		c.undecided(r, "floor", fmt.Sprintf("%d lookups of the chunk cache found", nGet))
	}
}

// c17InterruptedCreation: a chunk file is created empty and its header is written (and synced) afterwards; a stop in
// between leaves an empty last chunk that holds nothing, and singleapp.Open (by contract, pinned by its tests) reports
// an empty file as corrupted metadata. The multi-file appendable therefore looks at the size of the last chunk file
// before it opens it, so that such a leftover can be created again instead of making the whole log unopenable.
func c17InterruptedCreation(c *Ctx, r string) {
	f := c.mustFn(r, "embedded/appendable/multiapp.(*DefaultMultiFileAppendableHooks).OpenInitialAppendable")
	if f == nil {
		return
	}
	opens := func(in ssa.Instruction) bool {
		cc := callOf(in)
		if cc == nil {
			return false
		}
		n := calleeName(cc)
		return strings.HasSuffix(n, ").OpenAppendable") || n == "embedded/appendable/singleapp.Open"
	}
	sizeLooked := func(in ssa.Instruction) bool {
		cc := callOf(in)
		return cc != nil && cc.IsInvoke() && cc.Method.Name() == "Size" && strings.Contains(cc.Value.Type().String(), "FileInfo")
	}
	if len(sites(f, opens)) == 0 {
		c.undecided(r, fnName(f), "the opening of the last chunk was not found")
		return
	}
	// only an existing last chunk matters: the branch taken when the directory holds no file creates chunk 0
	noFiles := whenCond(false, func(a string) bool { return strings.Contains(a, "len(") && strings.Contains(a, "ReadDir") })
	q := &pathQ{fn: f, fromEntry: true, to: opens, via: sizeLooked, barrier: noFiles}
	if w := q.bypass(); w != nil {
		c.fail(r, fnName(f)+":size-before-open", c.pos(w[len(w)-1].Pos()), "the last chunk file of a log is opened without its size having been looked at: an empty file left by an interrupted creation is reported as corrupted metadata and the log (hence the database) does not open")
	} else {
		c.ok(r, fnName(f)+":size-before-open", c.pos(f.Pos()), "FileInfo.Size() of the last chunk is consulted on every path to its opening")
	}
}

// c17WriteCountRecorded: a write to the file may be short: n bytes were accepted, then an error. The file position
// has moved by n whatever the error says, so the byte count is added to the appendable's own idea of the file offset
// (and to the flushed mark of the write buffer) on EVERY path from the write to a return - the error path included.
// Otherwise the retry writes the same bytes again n positions further: everything behind is read at the wrong offset.
func c17WriteCountRecorded(c *Ctx, r string) {
	n := 0
	for _, f := range c.allFns {
		if !fnInPkgs(f, []string{"embedded/appendable/singleapp"}) || len(f.Blocks) == 0 {
			continue
		}
		for i, in := range sites(f, callTo("os.(*File).Write")) {
			cl := in.(*ssa.Call)
			if fl, _ := fieldOf(cl.Call.Args[0]); fl != "AppendableFile.f" {
				continue
			}
			n++
			var cnt ssa.Value
			for _, rf := range *cl.Referrers() {
				if ex, ok := rf.(*ssa.Extract); ok && ex.Index == 0 {
					cnt = ex
				}
			}
			for _, field := range []string{"AppendableFile.fileOffset", "AppendableFile.wbufFlushedOffset"} {
				construct := fmt.Sprintf("%s:Write#%d:count->%s", fnName(f), i, lastSeg(field))
				if cnt == nil {
					c.fail(r, construct, c.pos(in.Pos()), "the number of bytes written to the file is discarded")
					continue
				}
				rec := func(x ssa.Instruction) bool {
					st, ok := x.(*ssa.Store)
					if !ok {
						return false
					}
					if fl, _ := fieldOf(st.Addr); fl != field {
						return false
					}
					return dependsOn(st.Val, func(v ssa.Value) bool { return v == cnt })
				}
				q := &pathQ{fn: f, from: []ssa.Instruction{in}, to: isReturn, via: rec}
				if w := q.bypass(); w != nil {
					c.fail(r, construct, c.pos(in.Pos()), "the bytes accepted by a write that also failed are not added to "+lastSeg(field)+" ("+c.witnessStr(w)+"): the file has moved, the appendable has not, the retry duplicates them and shifts what follows")
				} else {
					c.ok(r, construct, c.pos(in.Pos()), "added on every path to a return, the failing one included")
				}
			}
		}
	}
	if n < 1 {
		c.undecided(r, "floor", "no write to the appendable's file found (flush confirmed by hand)")
	}
}

// c17ActiveChunkServesOnlyItsOwnOffsets: a read is routed to the chunk its offset belongs to (offset / fileSize). The
// active chunk is handed out by the routing step only when that chunk id EQUALS the active one: a chunk id beyond it
// is past the end of the log (io.EOF), served by the active chunk it would replay the last chunk's bytes at
// off % fileSize with a nil error.
func c17ActiveChunkServesOnlyItsOwnOffsets(c *Ctx, r string) {
	n := 0
	for _, f := range c.allFns {
		if !fnInPkgs(f, []string{"embedded/appendable/multiapp"}) || len(f.Blocks) == 0 || len(f.Params) < 2 {
			continue
		}
		// routing functions: (mf, off int64) (appendable.Appendable, error) computing appendableID(off, ...)
		if len(sites(f, callTo("embedded/appendable/multiapp.appendableID"))) == 0 || f.Signature.Results().Len() != 2 {
			continue
		}
		isCurr := func(v ssa.Value) bool {
			u, ok := v.(*ssa.UnOp)
			if !ok || u.Op != token.MUL {
				return false
			}
			fl, _ := fieldOf(u.X)
			return fl == "MultiFileAppendable.currApp"
		}
		isChunkID := func(v ssa.Value) bool {
			return dependsOn(v, func(x ssa.Value) bool {
				cl, ok := x.(*ssa.Call)
				return ok && calleeName(&cl.Call) == "embedded/appendable/multiapp.appendableID"
			})
		}
		isActiveID := func(v ssa.Value) bool {
			u, ok := v.(*ssa.UnOp)
			if !ok || u.Op != token.MUL {
				return false
			}
			fl, _ := fieldOf(u.X)
			return fl == "MultiFileAppendable.currAppID"
		}
		eq := func(b *ssa.BasicBlock, si int) bool {
			if len(b.Instrs) == 0 {
				return false
			}
			ifi, ok := b.Instrs[len(b.Instrs)-1].(*ssa.If)
			if !ok {
				return false
			}
			bo, ok := ifi.Cond.(*ssa.BinOp)
			if !ok || !((isChunkID(bo.X) && isActiveID(bo.Y)) || (isChunkID(bo.Y) && isActiveID(bo.X))) {
				return false
			}
			return (bo.Op == token.EQL && si == 0) || (bo.Op == token.NEQ && si == 1)
		}
		k := 0
		for _, b := range f.Blocks {
			if len(b.Instrs) == 0 {
				continue
			}
			rt, ok := b.Instrs[len(b.Instrs)-1].(*ssa.Return)
			if !ok || len(rt.Results) != 2 || !isValueOf(unspill(rt.Results[0], rt), isCurr, 0) {
				continue
			}
			k++
			n++
			dom := false
			for _, bb := range f.Blocks {
				for si := range bb.Succs {
					if eq(bb, si) && edgeDominates(bb, si, b) {
						dom = true
					}
				}
			}
			c.check(dom, r, fmt.Sprintf("%s:hands-out-active-chunk#%d", fnName(f), k), c.pos(rt.Pos()), "only when the chunk of the offset is the active chunk",
				"the active chunk is handed out for an offset although nothing established that the offset's chunk id EQUALS the active one: an offset beyond the end of the log is answered with bytes of the last chunk")
		}
	}
	if n < 1 {
		c.undecided(r, "floor", "the routing step handing out the active chunk was not found (cachedAppendableFor confirmed by hand)")
	}
}

// isValueOf: v is, through phis and interface conversions only, a value satisfying p.
func isValueOf(v ssa.Value, p func(ssa.Value) bool, d int) bool {
	if v == nil || d > 6 {
		return false
	}
	if p(v) {
		return true
	}
	switch x := v.(type) {
	case *ssa.Phi:
		for _, e := range x.Edges {
			if isValueOf(e, p, d+1) {
				return true
			}
		}
	case *ssa.ChangeInterface:
		return isValueOf(x.X, p, d+1)
	case *ssa.MakeInterface:
		return isValueOf(x.X, p, d+1)
	case *ssa.ChangeType:
		return isValueOf(x.X, p, d+1)
	}
	return false
}
