#!/bin/sh
# usage: run.sh <property> <quick|thorough>
# Rebuilds the checker when its sources are newer than the binary, then decides the property
# from /repo's current working tree (nothing is cached between runs).
cd /verif || exit 2
export GOFLAGS=-mod=mod GOPROXY=off
unset GOWORK
if [ ! -x bin/immucheck ] || [ -n "$(find checker -name '*.go' -newer bin/immucheck 2>/dev/null | head -1)" ]; then
  (cd checker && go build -o ../bin/immucheck .) || { echo "checker build failed"; exit 2; }
fi
exec bin/immucheck -property "$1" -tier "${2:-quick}"
