package server

// Demo (C16): a PostgreSQL 'Q' (query) or 'p' (password, sent before authentication) message with an empty payload
// (length field = 4) panics the parser; the pgsql server has no recover().
// Placement: copy to pkg/pgsql/server/zz_demo_test.go; run: go test -count=1 -run TestDemoC16EmptyQueryAndPassword ./pkg/pgsql/server/

import (
	"net"
	"os"
	"testing"

	"github.com/codenotary/immudb/embedded/logger"
	"github.com/stretchr/testify/require"
)

func TestDemoC16EmptyQueryAndPassword(t *testing.T) {
	for _, mtype := range []byte{'Q', 'p'} {
		c1, c2 := net.Pipe()

		go func() {
			// type byte, length 4: no payload at all (not even the string terminator)
			c1.Write([]byte{mtype, 0, 0, 0, 4})
			c1.Close()
		}()

		s := &session{mr: NewMessageReader(c2), log: logger.NewSimpleLogger("demo", os.Stderr)}

		require.NotPanics(t, func() {
			_, _, err := s.nextMessage()
			require.Error(t, err, "a string message without its terminator is malformed")
		}, "message type %q", mtype)

		c2.Close()
	}
}
