// Demo (C16, bounded memory). Placement: embedded/appendable/remoteapp/zz_finding_test.go
//   go test -count=1 -run TestFindingC16 ./embedded/appendable/remoteapp/
//
// A chunk stored remotely whose first compressed frame announces a length of 0x7fffffff (4 damaged bytes): the reader
// allocated a buffer of the announced size before fetching a single byte of the frame.
package remoteapp

import (
	"context"
	"encoding/binary"
	"os"
	"path/filepath"
	"runtime"
	"testing"

	"github.com/codenotary/immudb/embedded/appendable"
	"github.com/codenotary/immudb/embedded/appendable/singleapp"
	"github.com/codenotary/immudb/embedded/remotestorage/memory"
	"github.com/stretchr/testify/require"
)

func TestFindingC16_RemoteFrameLengthSizesAnAllocation(t *testing.T) {
	fname := filepath.Join(t.TempDir(), "00000000.aof")

	app, err := singleapp.Open(fname, singleapp.DefaultOptions().WithCompressionFormat(appendable.FlateCompression))
	require.NoError(t, err)
	_, _, err = app.Append([]byte("compressible compressible compressible payload"))
	require.NoError(t, err)
	require.NoError(t, app.Close())

	raw, err := os.ReadFile(fname)
	require.NoError(t, err)
	base := 4 + int(binary.BigEndian.Uint32(raw))
	binary.BigEndian.PutUint32(raw[base:], 0x7fffffff) // the frame's length prefix
	require.NoError(t, os.WriteFile(fname, raw, 0644))

	mem := memory.Open()
	require.NoError(t, mem.Put(context.Background(), "00000000.aof", fname))

	r, err := openRemoteStorageReader(mem, "00000000.aof", 4096)
	require.NoError(t, err)
	defer r.Close()

	var before, after runtime.MemStats
	runtime.GC()
	runtime.ReadMemStats(&before)

	// an error or the bytes of the frame (a deflate stream ends by itself): both are fine, the allocation is not
	_, _ = r.ReadAt(make([]byte, 16), 0)

	runtime.ReadMemStats(&after)
	allocated := after.TotalAlloc - before.TotalAlloc
	require.Less(t, allocated, uint64(16<<20), "reading a frame of a 120-byte object allocated %d bytes", allocated)
}
