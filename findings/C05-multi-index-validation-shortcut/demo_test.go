package store

// Demo (C05): with two indexes, read-set validation stops at the first snapshot that is ahead of the precommit frontier.
// Placement: copy to embedded/store/zz_demo_test.go; run: go test -count=1 -run TestDemoC05MultiIndexValidation ./embedded/store/

import (
	"context"
	"testing"
	"time"

	"github.com/stretchr/testify/require"
)

func TestDemoC05MultiIndexValidation(t *testing.T) {
	st, err := Open(t.TempDir(), DefaultOptions().WithMultiIndexing(true))
	require.NoError(t, err)
	defer st.Close()

	require.NoError(t, st.InitIndexing(&IndexSpec{SourcePrefix: []byte("a:"), TargetPrefix: []byte("a:")}))
	require.NoError(t, st.InitIndexing(&IndexSpec{SourcePrefix: []byte("b:"), TargetPrefix: []byte("b:")}))

	ctx, cancel := context.WithTimeout(context.Background(), 30*time.Second)
	defer cancel()

	commit := func(key, value string) {
		tx, err := st.NewWriteOnlyTx(ctx)
		require.NoError(t, err)
		require.NoError(t, tx.Set([]byte(key), nil, []byte(value)))
		_, err = tx.AsyncCommit(ctx) // does not wait for the indexers
		require.NoError(t, err)
	}

	commit("b:balance", "100") // tx 1
	require.NoError(t, st.WaitForIndexingUpto(ctx, 1))

	// index b stops following the log; index a keeps up
	idxB, err := st.getIndexerFor([]byte("b:"))
	require.NoError(t, err)
	idxB.Pause()

	commit("b:balance", "0") // tx 2: not in index b yet

	idxA, err := st.getIndexerFor([]byte("a:"))
	require.NoError(t, err)
	require.NoError(t, idxA.WaitForIndexingUpto(ctx, 2))

	// a read-write tx that does not ask for a fresh snapshot
	tx, err := st.NewTx(ctx, DefaultTxOptions().WithSnapshotMustIncludeTxID(nil))
	require.NoError(t, err)

	// write into the up-to-date index first (first snapshot of the tx)
	require.NoError(t, tx.Set([]byte("a:order"), nil, []byte("paid-with-100")))

	// stale read through the lagging index
	vref, err := tx.Get(ctx, []byte("b:balance"))
	require.NoError(t, err)
	v, err := vref.Resolve()
	require.NoError(t, err)
	require.Equal(t, "100", string(v), "the demo needs the stale read")

	idxB.Resume()

	_, err = tx.Commit(ctx)
	require.ErrorIs(t, err, ErrTxReadConflict,
		"tx read b:balance=100 although tx 2 (smaller id) had set it to 0: it must not commit")
}
