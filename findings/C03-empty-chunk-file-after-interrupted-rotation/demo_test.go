// Demo (C03/C17): a stop between the creation of the next chunk file of a log and the write of its header leaves an
// empty file behind; the database does not reopen ("corrupted metadata").
// Placement: copy to embedded/store/zz_demo_test.go; run: go test -count=1 -run TestDemoC03EmptyChunkFile ./embedded/store/
package store

import (
	"context"
	"io"
	"os"
	"path/filepath"
	"testing"

	"github.com/stretchr/testify/require"
)

func demoCopyDir(t *testing.T, src, dst string) {
	err := filepath.Walk(src, func(p string, info os.FileInfo, err error) error {
		if err != nil {
			return err
		}
		rel, _ := filepath.Rel(src, p)
		target := filepath.Join(dst, rel)
		if info.IsDir() {
			return os.MkdirAll(target, 0755)
		}
		in, err := os.Open(p)
		if err != nil {
			return err
		}
		defer in.Close()
		out, err := os.Create(target)
		if err != nil {
			return err
		}
		defer out.Close()
		_, err = io.Copy(out, in)
		return err
	})
	require.NoError(t, err)
}

// F3: crash between the creation of the next chunk file of a log and the write+fsync of its header:
// an empty (or header-less) file is left behind.
func TestDemoC03EmptyChunkFileLeftByCrashAtRotation(t *testing.T) {
	dir := t.TempDir()

	st, err := Open(dir, DefaultOptions())
	require.NoError(t, err)

	tx, err := st.NewWriteOnlyTx(context.Background())
	require.NoError(t, err)
	require.NoError(t, tx.Set([]byte("key"), nil, []byte("value")))
	_, err = tx.Commit(context.Background())
	require.NoError(t, err)
	require.NoError(t, st.Close())

	f, err := os.Create(filepath.Join(dir, "tx", "00000001.tx"))
	require.NoError(t, err)
	f.Close()

	st, err = Open(dir, DefaultOptions())
	require.NoError(t, err, "the database must reopen")

	// what was committed is still there, and new commits are accepted and survive another restart
	vref, err := st.Get(context.Background(), []byte("key"))
	require.NoError(t, err)
	v, err := vref.Resolve()
	require.NoError(t, err)
	require.Equal(t, "value", string(v))

	tx, err = st.NewWriteOnlyTx(context.Background())
	require.NoError(t, err)
	require.NoError(t, tx.Set([]byte("key2"), nil, []byte("value2")))
	_, err = tx.Commit(context.Background())
	require.NoError(t, err)
	require.NoError(t, st.Close())

	st, err = Open(dir, DefaultOptions())
	require.NoError(t, err)
	defer st.Close()

	require.Equal(t, uint64(2), st.LastCommittedTxID())

	vref, err = st.Get(context.Background(), []byte("key2"))
	require.NoError(t, err)
	v, err = vref.Resolve()
	require.NoError(t, err)
	require.Equal(t, "value2", string(v))
}

