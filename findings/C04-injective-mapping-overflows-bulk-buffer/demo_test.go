// Demo (C04). Placement: copy to embedded/store/zz_demo_test.go and run
//
//	go test -count=1 -run TestDemoC04InjectiveMappingBulkBuffer ./embedded/store/
//
// On the unrepaired tree the indexing goroutine panics (index out of range): the test binary dies.
package store

import (
	"context"
	"fmt"
	"testing"
	"time"

	"github.com/stretchr/testify/require"
)

// F5: the indexer pre-allocates maxTxEntries*MaxBulkSize KVT slots, but with InjectiveMapping every
// entry whose mapped key changed yields TWO index entries (the new mapped key and the tombstone of the
// previous one): a transaction updating more than half of maxTxEntries such entries makes the
// indexing goroutine panic with index out of range (the whole process dies, there is no recover).
func TestDemoC04InjectiveMappingBulkBuffer(t *testing.T) {
	const maxTxEntries = 8

	opts := DefaultOptions().
		WithMultiIndexing(true).
		WithMaxTxEntries(maxTxEntries).
		WithIndexOptions(DefaultIndexOptions().WithMaxBulkSize(1))

	st, err := Open(t.TempDir(), opts)
	require.NoError(t, err)
	defer st.Close()

	err = st.InitIndexing(&IndexSpec{SourcePrefix: []byte("a"), TargetPrefix: []byte("a")})
	require.NoError(t, err)

	err = st.InitIndexing(&IndexSpec{
		SourcePrefix: []byte("a"),
		TargetPrefix: []byte("b"),
		TargetEntryMapper: func(key, value []byte) ([]byte, error) {
			return append([]byte("b"), value...), nil
		},
		InjectiveMapping: true,
	})
	require.NoError(t, err)

	var last uint64

	for round := 0; round < 2; round++ {
		tx, err := st.NewWriteOnlyTx(context.Background())
		require.NoError(t, err)

		for i := 0; i < maxTxEntries; i++ {
			err = tx.Set([]byte(fmt.Sprintf("a%02d", i)), nil, []byte(fmt.Sprintf("r%d_%02d", round, i)))
			require.NoError(t, err)
		}

		hdr, err := tx.Commit(context.Background())
		require.NoError(t, err)
		last = hdr.ID
	}

	ctx, cancel := context.WithTimeout(context.Background(), 20*time.Second)
	defer cancel()

	err = st.WaitForIndexingUpto(ctx, last)
	require.NoError(t, err)

	// the mapped index holds the new mapped keys, the previous ones are tombstoned
	for i := 0; i < maxTxEntries; i++ {
		_, err = st.Get(context.Background(), []byte(fmt.Sprintf("br1_%02d", i)))
		require.NoError(t, err)

		_, err = st.Get(context.Background(), []byte(fmt.Sprintf("br0_%02d", i)))
		require.ErrorIs(t, err, ErrKeyNotFound)
	}
}
