package sql

import (
	"context"
	"testing"

	"github.com/codenotary/immudb/embedded/store"
	"github.com/stretchr/testify/require"
)

// ON CONFLICT DO UPDATE must not be able to change the primary key of the conflicting row
// (UPDATE refuses it with ErrPKCanNotBeUpdated).
func TestZZOnConflictCannotUpdatePK(t *testing.T) {
	st, err := store.Open(t.TempDir(), store.DefaultOptions().WithMultiIndexing(true))
	require.NoError(t, err)
	defer st.Close()

	engine, err := NewEngine(st, DefaultOptions().WithPrefix(sqlPrefix))
	require.NoError(t, err)

	_, _, err = engine.Exec(context.Background(), nil, "CREATE TABLE t (id INTEGER, n INTEGER, PRIMARY KEY id)", nil)
	require.NoError(t, err)
	_, _, err = engine.Exec(context.Background(), nil, "INSERT INTO t (id, n) VALUES (1, 10)", nil)
	require.NoError(t, err)

	_, _, err = engine.Exec(context.Background(), nil, "UPDATE t SET id = 7 WHERE id = 1", nil)
	require.ErrorIs(t, err, ErrPKCanNotBeUpdated)

	_, _, err = engine.Exec(context.Background(), nil, "INSERT INTO t (id, n) VALUES (1, 20) ON CONFLICT DO UPDATE SET id = 7", nil)
	require.ErrorIs(t, err, ErrPKCanNotBeUpdated, "ON CONFLICT DO UPDATE changed the primary key")

	rows, err := engine.queryAll(context.Background(), nil, "SELECT id, n FROM t", nil)
	require.NoError(t, err)
	require.Len(t, rows, 1)
	require.Equal(t, int64(1), rows[0].ValuesByPosition[0].RawValue())
}
