// Demo (C03): after a process stop, precommitted transactions are reloaded from the tx log (and then committed)
// although their values never reached the value log: the recovered history holds transactions whose values are unreadable.
// Placement: copy to embedded/store/zz_demo_test.go; run: go test -count=1 -run TestDemoC03PrecommittedTxRecoveredWithoutValues ./embedded/store/
package store

import (
	"context"
	"fmt"
	"io"
	"os"
	"path/filepath"
	"testing"
	"time"

	"github.com/stretchr/testify/require"
)

func demoCopyDir(t *testing.T, src, dst string) {
	err := filepath.Walk(src, func(p string, info os.FileInfo, err error) error {
		if err != nil {
			return err
		}
		rel, _ := filepath.Rel(src, p)
		target := filepath.Join(dst, rel)
		if info.IsDir() {
			return os.MkdirAll(target, 0755)
		}
		in, err := os.Open(p)
		if err != nil {
			return err
		}
		defer in.Close()
		out, err := os.Create(target)
		if err != nil {
			return err
		}
		defer out.Close()
		_, err = io.Copy(out, in)
		return err
	})
	require.NoError(t, err)
}

// F5: the tx log is fsynced on its own when its write buffer fills up (retryable sync + auto sync), the
// value log is not: precommitted transactions can be durable in the tx log while their values are not
// in the value log. Recovery reloads (and then commits) them without looking at the values.
func TestDemoC03PrecommittedTxRecoveredWithoutValues(t *testing.T) {
	dir := filepath.Join(t.TempDir(), "data")

	opts := func() *Options {
		return DefaultOptions().WithSyncFrequency(8 * time.Second).WithWriteBufferSize(1 << 16)
	}

	st, err := Open(dir, opts())
	require.NoError(t, err)

	// one committed tx so that the syncer is sleeping afterwards
	tx, err := st.NewWriteOnlyTx(context.Background())
	require.NoError(t, err)
	require.NoError(t, tx.Set([]byte("first"), nil, []byte("first")))
	_, err = tx.Commit(context.Background())
	require.NoError(t, err)

	// many precommitted txs with long keys and short values: the tx log buffer (64K) fills up several
	// times, the value log buffer does not
	key := make([]byte, 1000)
	for i := 0; i < 200; i++ {
		tx, err := st.NewWriteOnlyTx(context.Background())
		require.NoError(t, err)
		copy(key, fmt.Sprintf("key_%05d_", i))
		require.NoError(t, tx.Set(key, nil, []byte(fmt.Sprintf("value_%05d", i))))
		_, err = st.precommit(context.Background(), tx, nil, false)
		require.NoError(t, err)
	}

	// crash before the syncer runs
	crashDir := filepath.Join(t.TempDir(), "data")
	demoCopyDir(t, dir, crashDir)
	st.Close()

	st, err = Open(crashDir, DefaultOptions())
	require.NoError(t, err)
	defer st.Close()

	recovered := st.LastPrecommittedTxID()
	t.Logf("recovered precommitted txs up to %d (committed %d)", recovered, st.LastCommittedTxID())

	if recovered > 1 {
		require.NoError(t, st.WaitForTx(context.Background(), recovered, false))
	}

	for id := uint64(2); id <= recovered; id++ {
		rtx := NewTx(st.MaxTxEntries(), st.MaxKeyLen())
		require.NoError(t, st.ReadTx(id, false, rtx))
		for _, e := range rtx.Entries() {
			_, err := st.ReadValue(e)
			require.NoError(t, err, "value of recovered tx %d must be readable", id)
		}
	}
}
