package store

import (
	"context"
	"testing"

	"github.com/stretchr/testify/require"
)

// Demo (C05 / C13). Placement: copy to embedded/store/zz_demo_test.go
//
//	go test -count=1 -run TestDemoC05OwnWritesAndFilters ./embedded/store/
//
// A transaction reads back what it wrote: a key it deleted is not found, a key it re-created over a deleted one is.
func TestDemoC05OwnWritesAndFilters(t *testing.T) {
	st, err := Open(t.TempDir(), DefaultOptions().WithSynced(false))
	require.NoError(t, err)
	defer immustoreClose(t, st)

	ctx := context.Background()

	tx, err := st.NewTx(ctx, DefaultTxOptions())
	require.NoError(t, err)
	require.NoError(t, tx.Set([]byte("live"), nil, []byte("v1")))
	md := NewKVMetadata()
	require.NoError(t, md.AsDeleted(true))
	require.NoError(t, tx.Set([]byte("gone"), md, nil))
	_, err = tx.Commit(ctx)
	require.NoError(t, err)

	tx, err = st.NewTx(ctx, DefaultTxOptions())
	require.NoError(t, err)

	// deletes a live key, then reads it
	require.NoError(t, tx.Delete(ctx, []byte("live")))
	_, err = tx.Get(ctx, []byte("live"))
	require.ErrorIs(t, err, ErrKeyNotFound, "a key deleted by the transaction is still found by the transaction")

	// re-creates a deleted key, then reads it
	require.NoError(t, tx.Set([]byte("gone"), nil, []byte("v2")))
	valRef, err := tx.Get(ctx, []byte("gone"))
	require.NoError(t, err, "a key written by the transaction is not found by the transaction")
	v, err := valRef.Resolve()
	require.NoError(t, err)
	require.Equal(t, []byte("v2"), v)

	// and nothing of this makes its own commit fail
	_, err = tx.Commit(ctx)
	require.NoError(t, err)

	_, err = st.Get(ctx, []byte("live"))
	require.ErrorIs(t, err, ErrKeyNotFound)
	valRef, err = st.Get(ctx, []byte("gone"))
	require.NoError(t, err)
	v, err = valRef.Resolve()
	require.NoError(t, err)
	require.Equal(t, []byte("v2"), v)
}
