package store

import (
	"context"
	"testing"

	"github.com/stretchr/testify/require"
)

// Demo of the KNOWN finding (C05.7, prefix lookups). Placement: copy to embedded/store/zz_demo_prefix_test.go
//
//	go test -count=1 -run TestDemoC05OwnDeleteAndPrefixLookup ./embedded/store/
//
// Fails on the current tree: a prefix lookup of a transaction that deleted the first key having the prefix answers that
// key (with the metadata of its own deletion) instead of the next one.
func TestDemoC05OwnDeleteAndPrefixLookup(t *testing.T) {
	st, err := Open(t.TempDir(), DefaultOptions().WithSynced(false))
	require.NoError(t, err)
	defer immustoreClose(t, st)

	ctx := context.Background()

	tx, err := st.NewTx(ctx, DefaultTxOptions())
	require.NoError(t, err)
	require.NoError(t, tx.Set([]byte("k1"), nil, []byte("v1")))
	require.NoError(t, tx.Set([]byte("k2"), nil, []byte("v2")))
	_, err = tx.Commit(ctx)
	require.NoError(t, err)

	tx, err = st.NewTx(ctx, DefaultTxOptions())
	require.NoError(t, err)
	defer tx.Cancel()

	require.NoError(t, tx.Delete(ctx, []byte("k1")))

	key, valRef, err := tx.GetWithPrefix(ctx, []byte("k"), nil)
	require.NoError(t, err)
	require.Equal(t, []byte("k2"), key, "the first key having the prefix, for this transaction, is k2: it deleted k1")
	require.True(t, valRef.KVMetadata() == nil || !valRef.KVMetadata().Deleted())
}
