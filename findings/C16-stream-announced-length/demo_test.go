package stream

import (
	"bytes"
	"encoding/binary"
	"fmt"
	"io"
	"runtime"
	"testing"

	"github.com/codenotary/immudb/pkg/api/schema"
	"github.com/codenotary/immudb/pkg/stream/streamtest"
	"github.com/stretchr/testify/require"
)

func trailerOf(n uint64) []byte {
	var b [8]byte
	binary.BigEndian.PutUint64(b[:], n)
	return b[:]
}

func noPanic(t *testing.T, what string, f func()) {
	defer func() {
		if r := recover(); r != nil {
			t.Errorf("%s: receiver PANICKED on a malformed chunk instead of returning an error: %v", what, r)
		}
	}()
	f()
}

// A chunk whose 8-byte length prefix has the top bit set must be refused, not crash the handler.
func TestFindingStreamReceiverMalformedLength(t *testing.T) {
	payload := []byte("mycontent")

	noPanic(t, "ReadFully(length=2^64-1)", func() {
		sm := streamtest.DefaultImmuServiceReceiverStreamMock([]*streamtest.ChunkError{
			{C: &schema.Chunk{Content: bytes.Join([][]byte{trailerOf(^uint64(0)), payload}, nil)}},
			{C: nil, E: io.EOF},
		})
		_, _, err := NewMsgReceiver(sm).ReadFully()
		require.Error(t, err)
	})

	noPanic(t, "Read(length=2^63+5)", func() {
		sm := streamtest.DefaultImmuServiceReceiverStreamMock([]*streamtest.ChunkError{
			{C: &schema.Chunk{Content: bytes.Join([][]byte{trailerOf(1<<63 + 5), payload}, nil)}},
			{C: nil, E: io.EOF},
		})
		_, err := NewMsgReceiver(sm).Read(make([]byte, 4096))
		require.Error(t, err)
	})
}

// The announced length is attacker controlled: memory must follow the bytes actually received.
func TestFindingStreamReceiverAnnouncedLengthNotAllocated(t *testing.T) {
	const announced = 8 << 30 // 8 GiB announced, 9 bytes sent
	sm := streamtest.DefaultImmuServiceReceiverStreamMock([]*streamtest.ChunkError{
		{C: &schema.Chunk{Content: bytes.Join([][]byte{trailerOf(announced), []byte("mycontent")}, nil)}},
		{C: nil, E: io.EOF},
	})
	var before, after runtime.MemStats
	runtime.ReadMemStats(&before)
	_, _, err := NewMsgReceiver(sm).ReadFully()
	runtime.ReadMemStats(&after)
	require.ErrorIs(t, err, io.EOF)
	grown := after.TotalAlloc - before.TotalAlloc
	require.Less(t, grown, uint64(64<<20), fmt.Sprintf("ReadFully allocated %d MiB for a 17-byte stream", grown>>20))
}
