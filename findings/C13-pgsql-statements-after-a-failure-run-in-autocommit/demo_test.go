// Demo (C13, PostgreSQL wire front-end). Placement: copy to pkg/pgsql/server/zz_demo_test.go and run
//
//	go test -count=1 -run TestDemoC13PgStatementsAfterAFailure ./pkg/pgsql/server/
//
// BEGIN; INSERT (1); INSERT (1) fails (duplicate) and releases the transaction; INSERT (3) was then executed on its own,
// in autocommit: ROLLBACK answered "no ongoing transaction" and row 3 stayed committed although every statement was
// sent inside one BEGIN ... ROLLBACK block.
package server_test

import (
	"context"
	stdsql "database/sql"
	"fmt"
	"os"
	"testing"

	"github.com/codenotary/immudb/pkg/server"
	_ "github.com/lib/pq"
	"github.com/stretchr/testify/require"
)

func TestDemoC13PgStatementsAfterAFailure(t *testing.T) {
	options := server.DefaultOptions().
		WithDir(t.TempDir()).
		WithPort(0).
		WithPgsqlServer(true).
		WithPgsqlServerPort(0).
		WithMetricsServer(false).
		WithWebServer(false)

	srv := server.DefaultServer().WithOptions(options).(*server.ImmuServer)
	require.NoError(t, srv.Initialize())
	go func() { srv.Start() }()
	t.Cleanup(func() { srv.Stop(); os.Remove(".state-") })

	db, err := stdsql.Open("postgres", fmt.Sprintf("host=localhost port=%d sslmode=disable user=immudb dbname=defaultdb password=immudb", srv.PgsqlSrv.GetPort()))
	require.NoError(t, err)
	defer db.Close()

	ctx := context.Background()
	conn, err := db.Conn(ctx)
	require.NoError(t, err)
	defer conn.Close()

	_, err = conn.ExecContext(ctx, "CREATE TABLE pgt (id INTEGER, v INTEGER, PRIMARY KEY id)")
	require.NoError(t, err)

	_, err = conn.ExecContext(ctx, "BEGIN")
	require.NoError(t, err)
	_, err = conn.ExecContext(ctx, "INSERT INTO pgt (id, v) VALUES (1, 1)")
	require.NoError(t, err)
	_, err = conn.ExecContext(ctx, "INSERT INTO pgt (id, v) VALUES (1, 2)")
	require.Error(t, err)

	// still inside the block the client opened
	_, err = conn.ExecContext(ctx, "INSERT INTO pgt (id, v) VALUES (3, 3)")
	require.Error(t, err, "a statement sent inside a transaction block whose transaction was aborted has been executed")

	_, err = conn.ExecContext(ctx, "ROLLBACK")
	require.NoError(t, err)

	var n int
	require.NoError(t, conn.QueryRowContext(ctx, "SELECT COUNT(*) FROM pgt").Scan(&n))
	require.Zero(t, n, "rows of a BEGIN ... ROLLBACK block are committed")

	// the session is usable again
	_, err = conn.ExecContext(ctx, "INSERT INTO pgt (id, v) VALUES (5, 5)")
	require.NoError(t, err)
	require.NoError(t, conn.QueryRowContext(ctx, "SELECT COUNT(*) FROM pgt").Scan(&n))
	require.Equal(t, 1, n)
}
