// Demo (C13 / C12). Placement: copy to embedded/sql/zz_demo_test.go and run
//
//	go test -count=1 -run TestDemoC13ReturningPartial ./embedded/sql/
//
// INSERT ... VALUES (1,10),(2,@p) RETURNING id executed without a value for @p: the first row is written, the second
// fails with "missing parameter", ReturningStmt.Resolve turned that failure into an empty, successful result: in
// autocommit mode row 1 was committed, inside an explicit transaction it stayed in it and was committed by COMMIT.
package sql

import (
	"context"
	"testing"

	"github.com/stretchr/testify/require"
)

func TestDemoC13ReturningPartial(t *testing.T) {
	e := setupCommonTest(t)
	ctx := context.Background()

	_, _, err := e.Exec(ctx, nil, "CREATE TABLE t (id INTEGER, v INTEGER, PRIMARY KEY id)", nil)
	require.NoError(t, err)

	count := func(tx *SQLTx) int {
		rows, err := e.queryAll(ctx, tx, "SELECT * FROM t", nil)
		require.NoError(t, err)
		return len(rows)
	}

	// autocommit
	r, err := e.Query(ctx, nil, "INSERT INTO t(id,v) VALUES (1,10),(2,@p) RETURNING id", nil)
	if err == nil {
		r.Close()
	}
	require.Zero(t, count(nil), "a statement that could not be executed (unbound parameter) left a committed row behind")

	// explicit transaction
	tx, _, err := e.Exec(ctx, nil, "BEGIN TRANSACTION", nil)
	require.NoError(t, err)

	r, err = e.Query(ctx, tx, "INSERT INTO t(id,v) VALUES (3,10),(4,@p) RETURNING id", nil)
	if err == nil {
		r.Close()
		_, _, err = e.Exec(ctx, tx, "COMMIT", nil)
		require.NoError(t, err)
	}
	require.Zero(t, count(nil), "half of a statement was committed with the transaction")
}
