// Demo (C13: "inside a transaction every statement sees the transaction's own earlier changes"; C12: unique index).
// Placement: copy to embedded/sql/zz_demo_test.go and run
//
//	go test -count=1 -run TestDemoC13UpdatedIndexEntry ./embedded/sql/
package sql

import (
	"context"
	"testing"

	"github.com/stretchr/testify/require"
)

func TestDemoC13UpdatedIndexEntry(t *testing.T) {
	e := setupCommonTest(t)
	ctx := context.Background()

	_, _, err := e.Exec(ctx, nil, "CREATE TABLE t (id INTEGER, v INTEGER, PRIMARY KEY id); CREATE INDEX ON t(v);", nil)
	require.NoError(t, err)
	_, _, err = e.Exec(ctx, nil, "INSERT INTO t(id,v) VALUES (1,10)", nil)
	require.NoError(t, err)

	tx, _, err := e.Exec(ctx, nil, "BEGIN TRANSACTION; UPDATE t SET v = 20 WHERE id = 1;", nil)
	require.NoError(t, err)

	rows, err := e.queryAll(ctx, tx, "SELECT id, v FROM t USE INDEX ON (v)", nil)
	require.NoError(t, err)
	require.Len(t, rows, 1, "the row updated by the transaction is returned twice by a scan of the index on the updated column (old and new entry)")

	rows, err = e.queryAll(ctx, tx, "SELECT id FROM t USE INDEX ON (v) WHERE v = 10", nil)
	require.NoError(t, err)
	require.Empty(t, rows, "the old value of the updated column still selects the row")

	_, _, err = e.Exec(ctx, tx, "ROLLBACK", nil)
	require.NoError(t, err)

	// a unique value freed by the transaction can be used again by it
	_, _, err = e.Exec(ctx, nil, "CREATE TABLE u (id INTEGER, k INTEGER, PRIMARY KEY id); CREATE UNIQUE INDEX ON u(k);", nil)
	require.NoError(t, err)
	_, _, err = e.Exec(ctx, nil, "INSERT INTO u(id,k) VALUES (1,5)", nil)
	require.NoError(t, err)
	_, _, err = e.Exec(ctx, nil, "BEGIN TRANSACTION; UPDATE u SET k = 6 WHERE id = 1; INSERT INTO u(id,k) VALUES (2,5); COMMIT;", nil)
	require.NoError(t, err)
}
