// Demonstration for defect 2 (injective mapping: the tombstone of the previous
// mapped key is written without the deleted flag when the previous entry
// carries metadata, because KVMetadata read from a tx entry is read-only and
// the AsDeleted error is dropped).
//
// Place this file at embedded/store/zz_defect_2_test.go and run:
//
//	go test -count=1 -run TestDefect2InjectiveMappingTombstone ./embedded/store/
package store

import (
	"context"
	"testing"
	"time"

	"github.com/stretchr/testify/require"
)

func TestDefect2InjectiveMappingTombstone(t *testing.T) {
	st, err := Open(t.TempDir(), DefaultOptions().WithMultiIndexing(true))
	require.NoError(t, err)
	defer st.Close()

	// identity index over the "rows" (same role as the SQL primary index)
	err = st.InitIndexing(&IndexSpec{
		SourcePrefix:     []byte("src:"),
		TargetPrefix:     []byte("src:"),
		InjectiveMapping: true,
	})
	require.NoError(t, err)

	// secondary index: the mapped key is derived from the value of the row
	err = st.InitIndexing(&IndexSpec{
		SourcePrefix: []byte("src:"),
		TargetPrefix: []byte("sec:"),
		TargetEntryMapper: func(_, v []byte) ([]byte, error) {
			return append([]byte("sec:"), v...), nil
		},
		InjectiveMapping: true,
	})
	require.NoError(t, err)

	set := func(key string, md *KVMetadata, value string) uint64 {
		tx, err := st.NewTx(context.Background(), DefaultTxOptions())
		require.NoError(t, err)

		require.NoError(t, tx.Set([]byte(key), md, []byte(value)))

		hdr, err := tx.Commit(context.Background())
		require.NoError(t, err)

		return hdr.ID
	}

	// update a row from value v1 to value v2 and check the secondary index
	updateAndCheck := func(t *testing.T, row string, md *KVMetadata, v1, v2 string) {
		txID := set(row, md, v1)

		valRef, err := st.Get(context.Background(), []byte("sec:"+v1))
		require.NoError(t, err)
		require.Equal(t, txID, valRef.Tx())

		txID = set(row, nil, v2)

		// the row now maps to sec:v2 ...
		valRef, err = st.Get(context.Background(), []byte("sec:"+v2))
		require.NoError(t, err)
		require.Equal(t, txID, valRef.Tx())

		// ... so the previous mapped key must be gone from the secondary index
		valRef, err = st.Get(context.Background(), []byte("sec:"+v1))
		if err == nil {
			v, _ := valRef.Resolve()
			t.Fatalf("stale mapped key %q is still live in the secondary index (tx=%d, value=%q, deleted=%v)",
				"sec:"+v1, valRef.Tx(), v, valRef.KVMetadata() != nil && valRef.KVMetadata().Deleted())
		}
		require.ErrorIs(t, err, ErrKeyNotFound)
	}

	t.Run("previous entry without metadata (control)", func(t *testing.T) {
		updateAndCheck(t, "src:rowA", nil, "a1", "a2")
	})

	t.Run("previous entry with metadata", func(t *testing.T) {
		// non-expired expiration time
		md := NewKVMetadata()
		require.NoError(t, md.ExpiresAt(time.Now().Add(24*time.Hour)))

		updateAndCheck(t, "src:rowB", md, "b1", "b2")
	})
}
