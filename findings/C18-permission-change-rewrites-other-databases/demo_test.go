// Demo (C18): an administrator of db1 ONLY changes what a user may do on db2. ChangePermission replaced the whole list of
// SQL privileges of the target user by the defaults for (the database named, the permission named).
// Placement: copy to pkg/server/zz_demo_test.go; run: go test -count=1 -run TestDemoC18PermissionChangeOtherDatabases ./pkg/server/
package server

import (
	"context"
	"testing"

	"github.com/codenotary/immudb/pkg/api/schema"
	"github.com/codenotary/immudb/pkg/auth"
	"github.com/stretchr/testify/require"
	"google.golang.org/grpc/metadata"
)

func demo2Login(t *testing.T, s *ImmuServer, user, pass, db string) context.Context {
	lr, err := s.Login(context.Background(), &schema.LoginRequest{User: []byte(user), Password: []byte(pass)})
	require.NoError(t, err)

	ctx := metadata.NewIncomingContext(context.Background(), metadata.Pairs("authorization", lr.Token))

	if db != "" {
		ur, err := s.UseDatabase(ctx, &schema.Database{DatabaseName: db})
		require.NoError(t, err)
		ctx = metadata.NewIncomingContext(context.Background(), metadata.Pairs("authorization", ur.Token))
	}

	return ctx
}

func TestDemoC18PermissionChangeOtherDatabases(t *testing.T) {
	opts := DefaultOptions().
		WithDir(t.TempDir()).
		WithMetricsServer(false).
		WithWebServer(false).
		WithPgsqlServer(false).
		WithAdminPassword(auth.SysAdminPassword)

	s := DefaultServer().WithOptions(opts).(*ImmuServer)
	require.NoError(t, s.Initialize())
	defer s.CloseDatabases()

	sysCtx := demo2Login(t, s, auth.SysAdminUsername, auth.SysAdminPassword, "")

	for _, db := range []string{"db1", "db2"} {
		_, err := s.CreateDatabaseV2(sysCtx, &schema.CreateDatabaseRequest{Name: db})
		require.NoError(t, err)
	}

	sysDB2Ctx := demo2Login(t, s, auth.SysAdminUsername, auth.SysAdminPassword, "db2")
	_, err := s.SQLExec(sysDB2Ctx, &schema.SQLExecRequest{Sql: "CREATE TABLE t (id INTEGER, PRIMARY KEY id)"})
	require.NoError(t, err)

	// carol administers db1 only; bob reads and writes db2
	_, err = s.CreateUser(sysCtx, &schema.CreateUserRequest{User: []byte("carol"), Password: []byte("Carol_Passw0rd!"), Permission: auth.PermissionAdmin, Database: "db1"})
	require.NoError(t, err)
	_, err = s.CreateUser(sysCtx, &schema.CreateUserRequest{User: []byte("bob"), Password: []byte("Bob_Passw0rd!"), Permission: auth.PermissionRW, Database: "db2"})
	require.NoError(t, err)

	bobCtx := demo2Login(t, s, "bob", "Bob_Passw0rd!", "db2")
	_, err = s.SQLExec(bobCtx, &schema.SQLExecRequest{Sql: "INSERT INTO t(id) VALUES (1)"})
	require.NoError(t, err)

	// carol grants bob read access to HER database
	carolCtx := demo2Login(t, s, "carol", "Carol_Passw0rd!", "db1")
	_, err = s.ChangePermission(carolCtx, &schema.ChangePermissionRequest{Action: schema.PermissionAction_GRANT, Username: "bob", Database: "db1", Permission: auth.PermissionR})
	require.NoError(t, err)

	// nothing changed for bob on db2, where carol has no say
	bobCtx = demo2Login(t, s, "bob", "Bob_Passw0rd!", "db2")
	_, err = s.SQLExec(bobCtx, &schema.SQLExecRequest{Sql: "INSERT INTO t(id) VALUES (2)"})
	require.NoError(t, err, "an administrator of db1 only has changed what bob may do on db2")

	// and a revocation on db1 leaves nothing behind on db1, and db2 as it is
	_, err = s.ChangePermission(carolCtx, &schema.ChangePermissionRequest{Action: schema.PermissionAction_REVOKE, Username: "bob", Database: "db1", Permission: auth.PermissionR})
	require.NoError(t, err)

	bobCtx = demo2Login(t, s, "bob", "Bob_Passw0rd!", "db2")
	_, err = s.SQLExec(bobCtx, &schema.SQLExecRequest{Sql: "INSERT INTO t(id) VALUES (3)"})
	require.NoError(t, err)
}
