package verification

// Demo (C16/C01): verifying a response that leaves a sub-message out crashes the verifier instead of failing.
// Placement: copy to pkg/verification/zz_demo_test.go; run: go test -count=1 -run TestDemoC16IncompleteMessages ./pkg/verification/

import (
	"crypto/sha256"
	"testing"

	"github.com/codenotary/immudb/pkg/api/protomodel"
	"github.com/codenotary/immudb/pkg/api/schema"
	"github.com/stretchr/testify/require"
	"google.golang.org/protobuf/types/known/structpb"
)

func TestDemoC16IncompleteMessages(t *testing.T) {
	doc, err := structpb.NewStruct(map[string]interface{}{"_id": "0123456789abcdef0123456789abcdef"})
	require.NoError(t, err)

	// a document proof without transaction / dual proof (what a faulty or hostile server may answer)
	for i, proof := range []*protomodel.ProofDocumentResponse{
		{DocumentIdFieldName: "_id"},
		{DocumentIdFieldName: "_id", VerifiableTx: &schema.VerifiableTxV2{}},
		{DocumentIdFieldName: "_id", VerifiableTx: &schema.VerifiableTxV2{Tx: &schema.Tx{}, DualProof: &schema.DualProofV2{}}},
	} {
		require.NotPanics(t, func() {
			_, err := VerifyDocument(nil, proof, doc, nil, nil)
			require.Error(t, err)
		}, "document proof #%d", i)
	}

	// a document proof whose encoded document is shorter than its fixed prefix (the entry hash matches it)
	{
		encDoc := []byte{1, 2, 3}
		hVal := sha256.Sum256(encDoc)
		key, err := encodedKeyForDocument(1, "0123456789abcdef0123456789abcdef")
		require.NoError(t, err)

		proof := &protomodel.ProofDocumentResponse{
			DocumentIdFieldName: "_id",
			CollectionId:        1,
			EncodedDocument:     encDoc,
			VerifiableTx: &schema.VerifiableTxV2{
				Tx:        &schema.Tx{Header: &schema.TxHeader{Id: 1, Nentries: 1}, Entries: []*schema.TxEntry{{Key: key, HValue: hVal[:]}}},
				DualProof: &schema.DualProofV2{SourceTxHeader: &schema.TxHeader{Id: 1}, TargetTxHeader: &schema.TxHeader{Id: 1}},
			},
		}

		require.NotPanics(t, func() {
			_, err := VerifyDocument(nil, proof, doc, nil, nil)
			require.Error(t, err)
		}, "short encoded document")
	}

	// converters applied by every verified operation of the client to what the server sent
	require.NotPanics(t, func() { schema.DualProofFromProto(&schema.DualProof{}) })
	require.NotPanics(t, func() { schema.DualProofV2FromProto(&schema.DualProofV2{}) })
	require.NotPanics(t, func() { schema.TxFromProto(&schema.Tx{}) })
	require.NotPanics(t, func() { schema.TxFromProto(&schema.Tx{Header: &schema.TxHeader{Nentries: 1}}) }, "header announcing more entries than sent")
	require.NotPanics(t, func() { schema.TxFromProto(&schema.Tx{Header: &schema.TxHeader{Nentries: 1}, Entries: []*schema.TxEntry{nil}}) })
	require.NotPanics(t, func() {
		schema.LinearAdvanceProofFromProto(&schema.LinearAdvanceProof{InclusionProofs: []*schema.InclusionProof{nil}})
	})
	require.NotPanics(t, func() { schema.InclusionProofFromProto(nil) })

	// server side: a batch operation without its payload
	for _, op := range []*schema.Op{
		{Operation: &schema.Op_Kv{}},
		{Operation: &schema.Op_ZAdd{}},
		{Operation: &schema.Op_Ref{}},
	} {
		require.NotPanics(t, func() {
			require.Error(t, (&schema.ExecAllRequest{Operations: []*schema.Op{op}}).Validate())
		})
	}
}
