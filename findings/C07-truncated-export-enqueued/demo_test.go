// Demo (C07): the export stream of the primary ends in the middle of a transaction (connection dropped once).
// The replicator enqueues the part it received as if it were the transaction, retries it forever, and replication
// never resumes although the primary is reachable again.
// Placement: copy to pkg/replication/zz_demo_test.go; run: go test -count=1 -run TestDemoC07TruncatedExport ./pkg/replication/
package replication

import (
	"context"
	"encoding/binary"
	"io"
	"os"
	"sync"
	"testing"
	"time"

	"github.com/codenotary/immudb/cmd/version"
	"github.com/codenotary/immudb/embedded/logger"
	"github.com/codenotary/immudb/pkg/api/schema"
	"github.com/codenotary/immudb/pkg/client"
	"github.com/codenotary/immudb/pkg/database"
	"github.com/rs/xid"
	"github.com/stretchr/testify/require"
	"google.golang.org/grpc"
)

type demoPrimaryClient struct {
	client.ImmuClient
	primary database.DB

	mu      sync.Mutex
	dropped bool // the connection was already dropped once
	dropTx  uint64
}

func (c *demoPrimaryClient) OpenSession(ctx context.Context, user []byte, pass []byte, database string) error {
	return nil
}
func (c *demoPrimaryClient) CloseSession(ctx context.Context) error { return nil }
func (c *demoPrimaryClient) ServerInfo(ctx context.Context, req *schema.ServerInfoRequest) (*schema.ServerInfoResponse, error) {
	return &schema.ServerInfoResponse{Version: version.Version}, nil
}
func (c *demoPrimaryClient) StreamExportTx(ctx context.Context, opts ...grpc.CallOption) (schema.ImmuService_StreamExportTxClient, error) {
	return &demoExportStream{ctx: ctx, c: c}, nil
}

type demoExportStream struct {
	grpc.ClientStream
	ctx context.Context
	c   *demoPrimaryClient

	mu      sync.Mutex
	req     *schema.ExportTxRequest
	pending [][]byte // chunks still to be delivered for the current request
	broken  bool
}

func (s *demoExportStream) Send(req *schema.ExportTxRequest) error {
	s.mu.Lock()
	defer s.mu.Unlock()
	s.req, s.pending = req, nil
	return nil
}

func (s *demoExportStream) CloseSend() error { return nil }

func (s *demoExportStream) Recv() (*schema.Chunk, error) {
	s.mu.Lock()
	defer s.mu.Unlock()

	if s.broken {
		return nil, io.EOF
	}

	if s.pending == nil {
		etx, _, _, err := s.c.primary.ExportTxByID(s.ctx, s.req)
		if err != nil {
			return nil, err
		}

		// the message travels in two chunks, the first one announces the whole length
		first := make([]byte, 8+len(etx)/2)
		binary.BigEndian.PutUint64(first, uint64(len(etx)))
		copy(first[8:], etx[:len(etx)/2])
		s.pending = [][]byte{first, etx[len(etx)/2:]}
	}

	s.c.mu.Lock()
	drop := !s.c.dropped && s.req.Tx == s.c.dropTx && len(s.pending) == 1
	if drop {
		s.c.dropped = true
	}
	s.c.mu.Unlock()

	if drop {
		// the connection is lost after the first half of the transaction
		s.broken = true
		return nil, io.EOF
	}

	chunk := s.pending[0]
	s.pending = s.pending[1:]
	if len(s.pending) == 0 {
		s.pending = nil
		// nothing more for this request
		defer func() { s.req = nil }()
	}

	return &schema.Chunk{Content: chunk}, nil
}

type demoFixedDelayer struct{}

func (demoFixedDelayer) DelayAfter(retries int) time.Duration { return 50 * time.Millisecond }

func TestDemoC07TruncatedExport(t *testing.T) {
	log := logger.NewSimpleLogger("demo", os.Stderr)

	primary, err := database.NewDB("primarydb", nil, database.DefaultOptions().WithDBRootPath(t.TempDir()), log)
	require.NoError(t, err)
	defer primary.Close()

	var last *schema.TxHeader
	for _, kv := range [][2]string{{"key1", "value1"}, {"key2", "value2"}, {"key3", "value3"}} {
		last, err = primary.Set(context.Background(), &schema.SetRequest{KVs: []*schema.KeyValue{{Key: []byte(kv[0]), Value: []byte(kv[1])}}})
		require.NoError(t, err)
	}

	replica, err := database.NewDB("replicadb", nil, database.DefaultOptions().AsReplica(true).WithDBRootPath(t.TempDir()), log)
	require.NoError(t, err)
	defer replica.Close()

	pc := &demoPrimaryClient{primary: primary, dropTx: last.Id - 1}

	rOpts := DefaultOptions().
		WithPrimaryDatabase("primarydb").
		WithPrimaryHost("127.0.0.1").
		WithPrimaryPort(3322).
		WithPrimaryUsername("immudb").
		WithPrimaryPassword("immudb").
		WithDelayer(demoFixedDelayer{}).
		WithClientFactoryFunc(func(string, int) client.ImmuClient { return pc })

	txr, err := NewTxReplicator(xid.New(), replica, rOpts, log)
	require.NoError(t, err)

	require.NoError(t, txr.Start())
	defer txr.Stop()

	require.Eventually(t, func() bool {
		st, err := replica.CurrentState()
		return err == nil && st.TxId == last.Id
	}, 15*time.Second, 50*time.Millisecond,
		"the connection was lost once in the middle of tx %d: after reconnecting, the replica must catch up with the primary (tx %d)", pc.dropTx, last.Id)

	pst, err := primary.CurrentState()
	require.NoError(t, err)
	rst, err := replica.CurrentState()
	require.NoError(t, err)
	require.Equal(t, pst.TxHash, rst.TxHash)
}
