package singleapp

import (
	"bytes"
	"io"
	"path/filepath"
	"testing"

	"github.com/stretchr/testify/require"
)

// "rewinding the offset discards what follows so later appends overwrite it", "reads return exactly the
// bytes last written at those offsets (... from buffers or files)".
func TestFindingReadAfterRewindReturnsWhatWasLastWritten(t *testing.T) {
	app, err := Open(filepath.Join(t.TempDir(), "f.aof"), DefaultOptions())
	require.NoError(t, err)
	defer app.Close()

	_, _, err = app.Append(bytes.Repeat([]byte{'A'}, 100))
	require.NoError(t, err)
	require.NoError(t, app.Flush())

	require.NoError(t, app.SetOffset(40))

	off, _, err := app.Append(bytes.Repeat([]byte{'B'}, 30)) // stays in the write buffer
	require.NoError(t, err)
	require.Equal(t, int64(40), off)

	sz, err := app.Size()
	require.NoError(t, err)
	require.Equal(t, int64(70), sz)

	// bytes 20..70: 20 x 'A' (file) followed by 30 x 'B' (buffer)
	bs := make([]byte, 50)
	n, err := app.ReadAt(bs, 20)
	require.NoError(t, err)
	require.Equal(t, 50, n)
	want := append(bytes.Repeat([]byte{'A'}, 20), bytes.Repeat([]byte{'B'}, 30)...)
	require.Equal(t, string(want), string(bs), "ReadAt returned bytes that were discarded by SetOffset instead of the bytes appended after it")

	// reading past the logical end stops at the logical end
	bs = make([]byte, 80)
	n, err = app.ReadAt(bs, 20)
	require.ErrorIs(t, err, io.EOF)
	require.Equal(t, 50, n, "ReadAt returned bytes beyond the size of the appendable")
}
