// Demo of the KNOWN finding C10.12. Placement: copy to embedded/tbtree/zz_demo_test.go and run
//   go test -count=1 -run TestDemoC10FailedInsertDropsEarlierInserts ./embedded/tbtree/
// Fails on the current tree.
package tbtree

import (
	"testing"

	"github.com/stretchr/testify/require"
)

// F1: a failed bulk insert drops earlier, successfully acknowledged but not yet flushed inserts
func TestDemoC10FailedInsertDropsEarlierInserts(t *testing.T) {
	tree, err := Open(t.TempDir(), DefaultOptions())
	require.NoError(t, err)
	defer tree.Close()

	require.NoError(t, tree.Insert([]byte("a"), []byte("v1")))
	_, _, err = tree.Flush()
	require.NoError(t, err)

	require.NoError(t, tree.Insert([]byte("b"), []byte("v2"))) // acknowledged, buffered

	ts := tree.Ts()

	err = tree.BulkInsert([]*KVT{
		{K: []byte("c"), V: []byte("v3"), T: ts + 2},
		{K: []byte("c"), V: []byte("v4"), T: ts + 1}, // older than the previous one -> rejected in the leaf
	})
	require.ErrorIs(t, err, ErrIllegalArguments)

	_, _, _, err = tree.Get([]byte("b"))
	require.NoError(t, err, "key 'b' was inserted successfully before the failed bulk insert")
}

