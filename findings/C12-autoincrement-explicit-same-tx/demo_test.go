package sql

import (
	"context"
	"testing"

	"github.com/stretchr/testify/require"
)

// "auto-generated keys never collide with existing ones": inside one transaction an explicit value for
// the auto-increment key followed by a generated one.
func TestFindingAutoIncrementAfterExplicitKeyInSameTx(t *testing.T) {
	engine := setupCommonTest(t)
	ctx := context.Background()

	_, _, err := engine.Exec(ctx, nil, "CREATE TABLE t (id INTEGER AUTO_INCREMENT, v VARCHAR, PRIMARY KEY id)", nil)
	require.NoError(t, err)
	_, _, err = engine.Exec(ctx, nil, "INSERT INTO t (v) VALUES ('one')", nil) // id 1
	require.NoError(t, err)

	_, _, err = engine.Exec(ctx, nil, `
		BEGIN TRANSACTION;
			INSERT INTO t (id, v) VALUES (2, 'explicit');
			INSERT INTO t (v) VALUES ('generated');
		COMMIT;`, nil)
	require.NoError(t, err, "the generated key collided with the key inserted just before in the same transaction")

	rows, err := engine.queryAll(ctx, nil, "SELECT id, v FROM t ORDER BY id", nil)
	require.NoError(t, err)
	require.Len(t, rows, 3)
}
