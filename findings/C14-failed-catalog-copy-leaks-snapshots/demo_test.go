// Finding on the UNMODIFIED tree (property C14, "repeated truncation is harmless" / "never leaves the
// database unable to serve later requests"): db.CopySQLCatalog registers `defer tx.Cancel()` only AFTER
// CopyCatalogToTx succeeded, so every truncation attempt whose catalog copy fails (here: the catalog has more
// entries than MaxTxEntries; a cancelled context or an unreadable catalog entry would do as well) leaks the
// snapshots of its transaction. After MaxActiveSnapshots failed attempts no SQL transaction can be opened.
//
// Placement: copy to pkg/database/zz_finding_f1_test.go and run
//   go test -count=1 -run TestFindingC14CatalogCopyLeak ./pkg/database/
package database

import (
	"context"
	"fmt"
	"os"
	"testing"

	"github.com/codenotary/immudb/embedded/logger"
	"github.com/codenotary/immudb/pkg/api/schema"
	"github.com/stretchr/testify/require"
)

func TestFindingC14CatalogCopyLeak(t *testing.T) {
	options := DefaultOptions().WithDBRootPath(t.TempDir())
	options.storeOpts.WithFileSize(1024).WithMaxTxEntries(8)
	options.storeOpts.WithIndexOptions(options.storeOpts.IndexOpts.WithMaxActiveSnapshots(10))
	options.storeOpts.VLogCacheSize = 0
	options.storeOpts.EmbeddedValues = false

	log := logger.NewSimpleLogger("immudb ", os.Stderr)

	d := makeDbWith(t, "db1", options)

	exec := func(stmt string) error {
		_, _, err := d.SQLExec(context.Background(), nil, &schema.SQLExecRequest{Sql: stmt})
		return err
	}

	// each statement fits in a transaction, the whole catalog does not
	for i := 0; i < 4; i++ {
		require.NoError(t, exec(fmt.Sprintf("CREATE TABLE t%d (id INTEGER, name VARCHAR, PRIMARY KEY id)", i)))
	}

	hdr, err := d.Set(context.Background(), &schema.SetRequest{KVs: []*schema.KeyValue{{Key: []byte("k"), Value: make([]byte, 1024)}}})
	require.NoError(t, err)

	require.NoError(t, exec("INSERT INTO t0(id, name) VALUES (1, 'one')"))

	// repeated truncation attempts: each one fails (explicitly, which is fine)...
	for i := 0; i < 30; i++ {
		err = NewVlogTruncator(d, log).TruncateUptoTx(context.Background(), hdr.Id)
		require.Error(t, err)
	}

	// ...but they must be harmless
	err = exec("INSERT INTO t0(id, name) VALUES (2, 'two')")
	require.NoError(t, err, "the database must keep serving requests after failed truncation attempts")

	_, err = d.SQLQueryAll(context.Background(), nil, &schema.SQLQueryRequest{Sql: "SELECT * FROM t0"})
	require.NoError(t, err)
}
