// Demo (C13: "inside a transaction every statement sees the transaction's own earlier changes").
// Placement: copy to embedded/sql/zz_demo_test.go and run
//
//	go test -count=1 -run TestDemoC13DeletedRowSecondaryIndex ./embedded/sql/
package sql

import (
	"context"
	"testing"

	"github.com/stretchr/testify/require"
)

func TestDemoC13DeletedRowSecondaryIndex(t *testing.T) {
	e := setupCommonTest(t)
	ctx := context.Background()

	_, _, err := e.Exec(ctx, nil, "CREATE TABLE t (id INTEGER, v INTEGER, PRIMARY KEY id); CREATE INDEX ON t(v);", nil)
	require.NoError(t, err)
	_, _, err = e.Exec(ctx, nil, "INSERT INTO t(id,v) VALUES (1,10)", nil)
	require.NoError(t, err)
	_, _, err = e.Exec(ctx, nil, "INSERT INTO t(id,v) VALUES (2,20)", nil)
	require.NoError(t, err)

	tx, _, err := e.Exec(ctx, nil, "BEGIN TRANSACTION; DELETE FROM t WHERE id = 1;", nil)
	require.NoError(t, err)

	rows, err := e.queryAll(ctx, tx, "SELECT id FROM t", nil)
	require.NoError(t, err)
	require.Len(t, rows, 1)

	rows, err = e.queryAll(ctx, tx, "SELECT id FROM t USE INDEX ON (v)", nil)
	require.NoError(t, err)
	require.Len(t, rows, 1, "the row deleted by the transaction is still returned by a scan through the secondary index")

	_, _, err = e.Exec(ctx, tx, "COMMIT", nil)
	require.NoError(t, err)

	rows, err = e.queryAll(ctx, nil, "SELECT id FROM t USE INDEX ON (v)", nil)
	require.NoError(t, err)
	require.Len(t, rows, 1)

	// the value can be inserted again
	_, _, err = e.Exec(ctx, nil, "INSERT INTO t(id,v) VALUES (1,10)", nil)
	require.NoError(t, err)
	rows, err = e.queryAll(ctx, nil, "SELECT id FROM t USE INDEX ON (v)", nil)
	require.NoError(t, err)
	require.Len(t, rows, 2)
}
