package sql

import (
	"context"
	"encoding/binary"
	"testing"

	"github.com/codenotary/immudb/embedded/store"
	"github.com/stretchr/testify/require"
)

// Malformed row values / mapped keys must yield an error, never a panic.
func TestZZIndexEntryDecodersAreTotal(t *testing.T) {
	st, err := store.Open(t.TempDir(), store.DefaultOptions().WithMultiIndexing(true))
	require.NoError(t, err)
	defer st.Close()

	engine, err := NewEngine(st, DefaultOptions().WithPrefix(sqlPrefix))
	require.NoError(t, err)

	_, _, err = engine.Exec(context.Background(), nil, "CREATE TABLE t (id INTEGER, a VARCHAR[10], b VARCHAR[10], PRIMARY KEY id); CREATE INDEX ON t(a, b);", nil)
	require.NoError(t, err)

	tx, err := engine.NewTx(context.Background(), DefaultTxOptions())
	require.NoError(t, err)
	defer tx.Cancel()

	table, err := tx.catalog.GetTableByName("t")
	require.NoError(t, err)

	var index *Index
	for _, idx := range table.indexes {
		if !idx.IsPrimary() {
			index = idx
		}
	}
	require.NotNil(t, index)

	mapper := indexEntryMapperFor(index, table.primaryIndex)

	// a row value announcing 3 columns but holding none
	value := make([]byte, 4)
	binary.BigEndian.PutUint32(value, 3)

	require.NotPanics(t, func() {
		_, err := mapper([]byte("key"), value)
		require.Error(t, err)
	}, "row value truncated after the column count")

	// column id of an unknown column followed by nothing
	value = make([]byte, 8)
	binary.BigEndian.PutUint32(value, 1)
	binary.BigEndian.PutUint32(value[4:], 999)
	require.NotPanics(t, func() {
		_, err := mapper([]byte("key"), value)
		require.Error(t, err)
	}, "row value truncated after an unknown column id")

	// mapped key that ends right after the first indexed column
	mkey := MapKey(sqlPrefix, MappedPrefix, EncodeID(table.id), EncodeID(index.id), []byte{KeyValPrefixNull})
	require.NotPanics(t, func() {
		_, err := unmapIndexEntry(index, sqlPrefix, mkey)
		require.Error(t, err)
	}, "mapped key truncated after the first column")
}
