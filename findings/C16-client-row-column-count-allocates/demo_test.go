// Reproduction on the UNMODIFIED tree (C16, bounded memory): pkg/client decodeRow sizes a map with the column
// count announced by the (not yet verified) server message: make(map[uint32]*schema.SQLValue, colsCount).
// A 4-byte row value makes the client allocate memory proportional to the announced count before any check.
//
// Placement: pkg/client/zz_finding_test.go
//   go test -count=1 -run TestFindingC16 ./pkg/client/
package client

import (
	"runtime"
	"testing"

	"github.com/codenotary/immudb/embedded/sql"
	"github.com/stretchr/testify/require"
)

func TestFindingC16_DecodeRowAllocatesByAnnouncedCount(t *testing.T) {
	// announces 0x00400000 (~4M) columns, carries none (0xFFFFFFFF would ask for >100GB)
	encodedRow := []byte{0x00, 0x40, 0x00, 0x00}

	var before, after runtime.MemStats
	runtime.GC()
	runtime.ReadMemStats(&before)

	_, err := decodeRow(encodedRow, map[uint32]sql.SQLValueType{}, 0)
	require.Error(t, err)

	runtime.ReadMemStats(&after)

	allocated := after.TotalAlloc - before.TotalAlloc
	require.Less(t, allocated, uint64(1<<20), "decoding a 4-byte input allocated %d bytes", allocated)
}
