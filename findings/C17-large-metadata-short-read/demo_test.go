package singleapp

// Demo (C17): metadata longer than the 4096-byte buffer of the reader used at open time does not survive a reopen.
// Placement: copy to embedded/appendable/singleapp/zz_demo_test.go; run: go test -count=1 -run TestDemoC17LargeMetadata ./embedded/appendable/singleapp/

import (
	"bytes"
	"path/filepath"
	"testing"

	"github.com/stretchr/testify/require"
)

func TestDemoC17LargeMetadata(t *testing.T) {
	path := filepath.Join(t.TempDir(), "large_md.aof")

	md := bytes.Repeat([]byte{0xAB}, 6000)

	app, err := Open(path, DefaultOptions().WithMetadata(md))
	require.NoError(t, err)

	off, _, err := app.Append([]byte("payload"))
	require.NoError(t, err)
	require.NoError(t, app.Close())

	app, err = Open(path, DefaultOptions())
	require.NoError(t, err)
	defer app.Close()

	require.True(t, bytes.Equal(md, app.Metadata()), "after flush and close, reopening finds the same metadata")

	bs := make([]byte, 7)
	_, err = app.ReadAt(bs, off)
	require.NoError(t, err)
	require.Equal(t, "payload", string(bs))
}
