package store

// Demo (C02/C07): the pooled tx holder keeps header fields of the transaction that used it before.
// Placement: copy to embedded/store/zz_demo_test.go; run: go test -count=1 -run TestDemoC02PooledHeader ./embedded/store/

import (
	"context"
	"sync"
	"testing"
	"time"

	"github.com/stretchr/testify/require"
)

// CommitWith (used by ExecAll / ZAdd / SetReference) never assigns the tx metadata
func TestDemoC02PooledHeaderMetadata(t *testing.T) {
	st, err := Open(t.TempDir(), DefaultOptions().WithMaxConcurrency(1))
	require.NoError(t, err)
	defer st.Close()

	ctx := context.Background()

	tx, err := st.NewWriteOnlyTx(ctx)
	require.NoError(t, err)
	md := NewTxMetadata()
	require.NoError(t, md.WithExtra([]byte("extra-of-tx1")))
	tx.WithMetadata(md)
	require.NoError(t, tx.Set([]byte("k1"), nil, []byte("v1")))
	_, err = tx.Commit(ctx)
	require.NoError(t, err)

	hdr2, err := st.CommitWith(ctx, func(txID uint64, index KeyIndex) ([]*EntrySpec, []Precondition, error) {
		return []*EntrySpec{{Key: []byte("k2"), Value: []byte("v2")}}, nil, nil
	}, false)
	require.NoError(t, err)
	require.Equal(t, uint64(2), hdr2.ID)

	stored, err := st.ReadTxHeader(2, false, false)
	require.NoError(t, err)

	if stored.Metadata != nil {
		require.Empty(t, stored.Metadata.Extra(), "tx 2 was committed without metadata: it is persisted and hashed with the metadata of tx 1")
	}
}

// a transaction precommitted after all the precommitted ones were discarded keeps the BlRoot of a discarded one
func TestDemoC02PooledHeaderBlRoot(t *testing.T) {
	st, err := Open(t.TempDir(), DefaultOptions().WithMaxConcurrency(1).WithExternalCommitAllowance(true))
	require.NoError(t, err)
	defer st.Close()

	ctx, cancel := context.WithTimeout(context.Background(), 30*time.Second)
	defer cancel()

	var wg sync.WaitGroup
	precommit := func(key string) {
		wg.Add(1)
		go func() {
			defer wg.Done()
			tx, err := st.NewWriteOnlyTx(ctx)
			if err != nil {
				return
			}
			if tx.Set([]byte(key), nil, []byte("v")) != nil {
				return
			}
			tx.Commit(ctx) // blocks until allowed
		}()
	}

	precommit("a")
	require.NoError(t, st.WaitForTx(ctx, 1, true))
	precommit("b")
	require.NoError(t, st.WaitForTx(ctx, 2, true))

	n, err := st.DiscardPrecommittedTxsSince(1)
	require.NoError(t, err)
	require.Equal(t, 2, n)

	precommit("c")
	require.NoError(t, st.WaitForTx(ctx, 1, true))

	hdr, err := st.ReadTxHeader(1, true, false)
	require.NoError(t, err)
	require.Equal(t, uint64(0), hdr.BlTxID)
	require.Equal(t, [32]byte{}, hdr.BlRoot, "tx 1 links to no earlier transaction: its BlRoot is the one of the discarded tx 2 (a replica refuses it: invalid blRoot)")

	require.NoError(t, st.AllowCommitUpto(1))
	require.NoError(t, st.WaitForTx(ctx, 1, false))
	cancel() // the commits of the discarded transactions are still waiting
	wg.Wait()
}
