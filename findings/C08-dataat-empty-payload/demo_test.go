package ahtree

// Demo (C08): an element appended with an empty payload can not be read back once it is not cached (e.g. after reopen).
// Placement: copy to embedded/ahtree/zz_demo_test.go; run: go test -count=1 -run TestDemoC08DataAtEmptyPayload ./embedded/ahtree/

import (
	"testing"

	"github.com/stretchr/testify/require"
)

func TestDemoC08DataAtEmptyPayload(t *testing.T) {
	dir := t.TempDir()

	tree, err := Open(dir, DefaultOptions())
	require.NoError(t, err)

	_, _, err = tree.Append([]byte("first"))
	require.NoError(t, err)
	_, _, err = tree.Append([]byte{})
	require.NoError(t, err)
	_, _, err = tree.Append([]byte("third"))
	require.NoError(t, err)

	d, err := tree.DataAt(2)
	require.NoError(t, err)
	require.Empty(t, d)

	require.NoError(t, tree.Close())

	tree, err = Open(dir, DefaultOptions())
	require.NoError(t, err)
	defer tree.Close()

	d, err = tree.DataAt(1)
	require.NoError(t, err)
	require.Equal(t, []byte("first"), d)

	d, err = tree.DataAt(2)
	require.NoError(t, err, "the empty payload of element 2 was readable before the restart")
	require.Empty(t, d)

	d, err = tree.DataAt(3)
	require.NoError(t, err)
	require.Equal(t, []byte("third"), d)
}
