// Placement: copy to pkg/database/zz_demo_test.go ; go test -count=1 -run TestDemoC04 ./pkg/database/
package database

import (
	"context"
	"testing"

	"github.com/codenotary/immudb/pkg/api/schema"
	"github.com/stretchr/testify/require"
)

// F2: Count (prefix lookup) reads the index without IgnoreDeleted/IgnoreExpired filters:
// logically deleted keys are counted as live.
func TestDemoC04CountIncludesDeletedKeys(t *testing.T) {
	db := makeDb(t)

	for _, k := range []string{"ka", "kb", "kc"} {
		_, err := db.Set(context.Background(), &schema.SetRequest{KVs: []*schema.KeyValue{{Key: []byte(k), Value: []byte("v")}}})
		require.NoError(t, err)
	}

	_, err := db.Delete(context.Background(), &schema.DeleteKeysRequest{Keys: [][]byte{[]byte("kb")}})
	require.NoError(t, err)

	scan, err := db.Scan(context.Background(), &schema.ScanRequest{Prefix: []byte("k")})
	require.NoError(t, err)
	require.Len(t, scan.Entries, 2)

	c, err := db.Count(context.Background(), &schema.KeyPrefix{Prefix: []byte("k")})
	require.NoError(t, err)
	require.EqualValues(t, 2, c.Count, "Count must agree with Scan on the live keys")
}

