package sql

import (
	"context"
	"testing"
	"time"

	"github.com/stretchr/testify/require"
)

// "key encodings preserve SQL order": TIMESTAMP values that the value codec stores faithfully
// (microseconds since the epoch) must be ordered correctly when they are part of an index key.
func TestFindingTimestampKeysKeepOrder(t *testing.T) {
	engine := setupCommonTest(t)
	ctx := context.Background()
	_, _, err := engine.Exec(ctx, nil, "CREATE TABLE ev (ts TIMESTAMP, id INTEGER, PRIMARY KEY ts)", nil)
	require.NoError(t, err)

	early := time.Date(2200, 1, 1, 0, 0, 0, 0, time.UTC)
	late := time.Date(2300, 1, 1, 0, 0, 0, 0, time.UTC)
	inserted := 0
	for i, ts := range []time.Time{early, late} {
		_, _, err = engine.Exec(ctx, nil, "INSERT INTO ev (ts, id) VALUES (@ts, @id)", map[string]interface{}{"ts": ts, "id": i + 1})
		if err == nil {
			inserted++
		} else {
			// a value that can not be represented in a key may be refused, it must not be stored out of order
			require.ErrorIs(t, err, ErrInvalidValue)
		}
	}

	rows, err := engine.queryAll(ctx, nil, "SELECT id, ts FROM ev ORDER BY ts", nil)
	require.NoError(t, err)
	require.Len(t, rows, inserted)
	require.Equal(t, int64(1), rows[0].ValuesByPosition[0].RawValue(), "the row of year 2200 must come before the row of year 2300")

	rows, err = engine.queryAll(ctx, nil, "SELECT id FROM ev WHERE ts > @t", map[string]interface{}{"t": early})
	require.NoError(t, err)
	require.Len(t, rows, inserted-1, "only the row of year 2300 (if it was accepted) is later than year 2200")
}
