package tbtree

import (
	"testing"

	"github.com/stretchr/testify/require"
)

// A bounded-time lookup returns a version of the key that was asked for, or ErrKeyNotFound: never a
// version of another key.
func TestFindingGetBetweenStaysWithinTheKey(t *testing.T) {
	tree, err := Open(t.TempDir(), DefaultOptions())
	require.NoError(t, err)
	defer tree.Close()

	// key "a": two versions (ts 1, 2), flushed: the older one goes to offset 0 of the history log
	require.NoError(t, tree.Insert([]byte("a"), []byte("a-at-1")))
	require.NoError(t, tree.Insert([]byte("a"), []byte("a-at-2")))
	_, _, err = tree.Flush()
	require.NoError(t, err)

	// key "b": born at ts 3, three versions before the next flush: one history record holding two versions
	require.NoError(t, tree.Insert([]byte("b"), []byte("b-at-3")))
	require.NoError(t, tree.Insert([]byte("b"), []byte("b-at-4")))
	require.NoError(t, tree.Insert([]byte("b"), []byte("b-at-5")))
	_, _, err = tree.Flush()
	require.NoError(t, err)

	// "b" did not exist at ts <= 2
	v, ts, _, err := tree.GetBetween([]byte("b"), 0, 2)
	if err == nil {
		t.Fatalf("GetBetween(b, 0, 2) returned %q written at ts %d: key b did not exist before ts 3", v, ts)
	}
	require.ErrorIs(t, err, ErrKeyNotFound)

	v, ts, _, err = tree.GetBetween([]byte("b"), 1, 2)
	if err == nil {
		t.Fatalf("GetBetween(b, 1, 2) returned %q written at ts %d: key b did not exist before ts 3", v, ts)
	}
}
