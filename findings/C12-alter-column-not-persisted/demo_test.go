package sql

// Demo (C12): ALTER TABLE ... ALTER COLUMN ... SET NOT NULL reports success but only changes the in-memory catalog
// of its own transaction: it is neither validated against the existing rows nor persisted, so the declared constraint
// does not exist for any later transaction.
// Placement: copy to embedded/sql/zz_demo_test.go; run: go test -count=1 -run TestDemoC12AlterColumnSetNotNull ./embedded/sql/

import (
	"context"
	"testing"

	"github.com/codenotary/immudb/embedded/store"
	"github.com/stretchr/testify/require"
)

func TestDemoC12AlterColumnSetNotNull(t *testing.T) {
	st, err := store.Open(t.TempDir(), store.DefaultOptions().WithMultiIndexing(true))
	require.NoError(t, err)
	defer st.Close()

	engine, err := NewEngine(st, DefaultOptions().WithPrefix(sqlPrefix))
	require.NoError(t, err)

	exec := func(q string) error {
		_, _, err := engine.Exec(context.Background(), nil, q, nil)
		return err
	}

	require.NoError(t, exec("CREATE TABLE t1 (id INTEGER, v INTEGER, PRIMARY KEY id)"))
	require.NoError(t, exec("INSERT INTO t1 (id, v) VALUES (1, 10)"))

	err = exec("ALTER TABLE t1 ALTER COLUMN v SET NOT NULL")
	if err != nil {
		// refusing what can not be honoured is fine
		return
	}

	// the statement succeeded: v is declared NOT NULL from now on
	require.ErrorIs(t, exec("INSERT INTO t1 (id, v) VALUES (2, NULL)"), ErrNotNullableColumnCannotBeNull,
		"ALTER COLUMN v SET NOT NULL was accepted, NULL must be refused in v")
}
