// Demonstration for defect 4.
// Place in: pkg/server/zz_defect_4_test.go
// Run:      go test -count=1 -run 'TestZZDefect4' ./pkg/server/
//
// getDBFromCtx states "systemdb is always read-only from external access" and
// enforces it with auth.IsMaintenanceMethod. That table contains the
// write-class document methods, so a sysadmin session bound to systemdb is
// refused a KV Set / SQLExec but is allowed to create collections and insert
// documents into systemdb (the database holding users and db settings).
package server

import (
	"context"
	"testing"

	"github.com/codenotary/immudb/pkg/api/protomodel"
	"github.com/codenotary/immudb/pkg/api/schema"
	"github.com/codenotary/immudb/pkg/auth"
	"github.com/stretchr/testify/require"
	"google.golang.org/grpc/metadata"
	"google.golang.org/protobuf/types/known/structpb"
)

func TestZZDefect4DocumentWritesIntoSystemDB(t *testing.T) {
	dir := t.TempDir()

	serverOptions := DefaultOptions().
		WithDir(dir).
		WithPort(0).
		WithMetricsServer(false).
		WithAdminPassword(auth.SysAdminPassword)

	s := DefaultServer().WithOptions(serverOptions).(*ImmuServer)
	require.NoError(t, s.Initialize())
	defer s.CloseDatabases()

	authenticationServiceImp := &authenticationServiceImp{s}

	logged, err := authenticationServiceImp.OpenSession(context.Background(), &protomodel.OpenSessionRequest{
		Username: "immudb",
		Password: "immudb",
		Database: SystemDBName,
	})
	require.NoError(t, err)

	md := metadata.Pairs("sessionid", logged.SessionID)
	ctx := metadata.NewIncomingContext(context.Background(), md)

	stateBefore, err := s.CurrentState(ctx, nil)
	require.NoError(t, err)
	require.Equal(t, SystemDBName, stateBefore.Db)

	// KV and SQL writes are (correctly) refused on systemdb
	_, err = s.Set(ctx, &schema.SetRequest{KVs: []*schema.KeyValue{{Key: []byte("k"), Value: []byte("v")}}})
	require.ErrorIs(t, err, ErrPermissionDenied)

	_, err = s.SQLExec(ctx, &schema.SQLExecRequest{Sql: "CREATE TABLE t (id INTEGER, PRIMARY KEY id)"})
	require.ErrorIs(t, err, ErrPermissionDenied)

	// reads stay allowed
	_, err = s.GetCollections(ctx, &protomodel.GetCollectionsRequest{})
	require.NoError(t, err)

	// document writes must be refused as well
	_, createErr := s.CreateCollection(ctx, &protomodel.CreateCollectionRequest{
		Name:   "intruder",
		Fields: []*protomodel.Field{{Name: "n", Type: protomodel.FieldType_INTEGER}},
	})

	_, insertErr := s.InsertDocuments(ctx, &protomodel.InsertDocumentsRequest{
		CollectionName: "intruder",
		Documents: []*structpb.Struct{
			{Fields: map[string]*structpb.Value{"n": structpb.NewNumberValue(1)}},
		},
	})

	stateAfter, err := s.CurrentState(ctx, nil)
	require.NoError(t, err)

	t.Logf("CreateCollection err=%v, InsertDocuments err=%v, systemdb tx %d -> %d", createErr, insertErr, stateBefore.TxId, stateAfter.TxId)

	require.Equal(t, stateBefore.TxId, stateAfter.TxId, "systemdb was written through the document API")
	require.ErrorIs(t, createErr, ErrPermissionDenied)
	require.ErrorIs(t, insertErr, ErrPermissionDenied)

	for name, call := range map[string]func() error{
		"UpdateCollection": func() error {
			_, err := s.UpdateCollection(ctx, &protomodel.UpdateCollectionRequest{Name: "intruder"})
			return err
		},
		"DeleteCollection": func() error {
			_, err := s.DeleteCollection(ctx, &protomodel.DeleteCollectionRequest{Name: "intruder"})
			return err
		},
		"AddField": func() error {
			_, err := s.AddField(ctx, &protomodel.AddFieldRequest{CollectionName: "intruder", Field: &protomodel.Field{Name: "m", Type: protomodel.FieldType_INTEGER}})
			return err
		},
		"RemoveField": func() error {
			_, err := s.RemoveField(ctx, &protomodel.RemoveFieldRequest{CollectionName: "intruder", FieldName: "m"})
			return err
		},
		"CreateIndex": func() error {
			_, err := s.CreateIndex(ctx, &protomodel.CreateIndexRequest{CollectionName: "intruder", Fields: []string{"n"}})
			return err
		},
		"DeleteIndex": func() error {
			_, err := s.DeleteIndex(ctx, &protomodel.DeleteIndexRequest{CollectionName: "intruder", Fields: []string{"n"}})
			return err
		},
		"ReplaceDocuments": func() error {
			_, err := s.ReplaceDocuments(ctx, &protomodel.ReplaceDocumentsRequest{Query: &protomodel.Query{CollectionName: "intruder"}, Document: &structpb.Struct{}})
			return err
		},
		"DeleteDocuments": func() error {
			_, err := s.DeleteDocuments(ctx, &protomodel.DeleteDocumentsRequest{Query: &protomodel.Query{CollectionName: "intruder"}})
			return err
		},
	} {
		require.ErrorIs(t, call(), ErrPermissionDenied, name)
	}
}
