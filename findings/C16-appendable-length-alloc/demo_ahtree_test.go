package ahtree

import (
	"encoding/binary"
	"os"
	"path/filepath"
	"runtime"
	"testing"

	"github.com/stretchr/testify/require"
)

// A damaged payload size in the commit log of the hash tree must be reported, not allocated.
func TestFindingDataAtDoesNotAllocateAnnouncedPayloadSize(t *testing.T) {
	dir := t.TempDir()
	tree, err := Open(dir, DefaultOptions())
	require.NoError(t, err)
	for i := 0; i < 3; i++ {
		_, _, err = tree.Append([]byte{byte(i), 1, 2, 3})
		require.NoError(t, err)
	}
	require.NoError(t, tree.Close())

	// first commit-log entry: [offset(8) | size(4)]; set the top bit of the size
	files, err := filepath.Glob(filepath.Join(dir, "commit", "*"))
	require.NoError(t, err)
	require.NotEmpty(t, files)
	raw, err := os.ReadFile(files[0])
	require.NoError(t, err)
	base := len(raw) - 3*cLogEntrySize
	binary.BigEndian.PutUint32(raw[base+offsetSize:], 1<<31)
	require.NoError(t, os.WriteFile(files[0], raw, 0644))

	tree, err = Open(dir, DefaultOptions())
	require.NoError(t, err)
	defer tree.Close()

	var before, after runtime.MemStats
	runtime.ReadMemStats(&before)
	_, derr := tree.DataAt(1)
	runtime.ReadMemStats(&after)
	require.Error(t, derr)
	grown := after.TotalAlloc - before.TotalAlloc
	require.Less(t, grown, uint64(64<<20), "DataAt allocated %d MiB", grown>>20)
}
