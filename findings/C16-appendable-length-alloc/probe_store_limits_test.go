package store

import (
	"context"
	"bytes"
	"encoding/binary"
	"os"
	"path/filepath"
	"testing"
	"time"

	"github.com/stretchr/testify/require"
)

// The limits of a store are read back from the commit-log header at open. A damaged value must
// make Open fail with an error: no panic, no hang.
func TestFindingOpenValidatesStoredLimits(t *testing.T) {
	for _, tc := range []struct {
		key string
		val uint64
	}{
		{metaMaxKeyLen, 1<<63 | 256},
		{metaMaxKeyLen, 0},
		{metaMaxTxEntries, 1<<63 | 1024},
		{metaMaxTxEntries, 0},
		{metaMaxValueLen, 1<<63 | 4096},
		{metaFileSize, 0},
		{metaFileSize, 1 << 63},
	} {
		dir := t.TempDir()
		st, err := Open(dir, DefaultOptions())
		require.NoError(t, err)
		require.NoError(t, st.Close())

		files, err := filepath.Glob(filepath.Join(dir, "commit", "*"))
		require.NoError(t, err)
		require.NotEmpty(t, files)
		raw, err := os.ReadFile(files[0])
		require.NoError(t, err)
		i := bytes.Index(raw, []byte(tc.key))
		require.Greater(t, i, 0)
		binary.BigEndian.PutUint64(raw[i+len(tc.key)+4:], tc.val)
		require.NoError(t, os.WriteFile(files[0], raw, 0644))

		done := make(chan string, 1)
		go func() {
			defer func() {
				if r := recover(); r != nil {
					done <- "PANIC: " + toStr(r)
				}
			}()
			st, err := Open(dir, DefaultOptions())
			if err != nil {
				t.Logf("%s=%#x: Open refused: %v", tc.key, tc.val, err)
				done <- ""
				return
			}
			// accepted: it must at least work
			tx, err := st.NewWriteOnlyTx(context.Background())
			if err == nil {
				err = tx.Set([]byte("k"), nil, []byte("v"))
			}
			if err == nil {
				_, err = tx.Commit(context.Background())
			}
			st.Close()
			if err != nil {
				done <- ""
				return
			}
			done <- "accepted"
		}()
		select {
		case r := <-done:
			if r != "" && r != "accepted" {
				t.Errorf("%s=%#x: %s", tc.key, tc.val, r)
			}
			if r == "accepted" {
				t.Errorf("%s=%#x: a store with a damaged limit was opened and used without any error", tc.key, tc.val)
			}
		case <-time.After(20 * time.Second):
			t.Errorf("%s=%#x: Open/commit did not return within 20s", tc.key, tc.val)
		}
	}
}

func toStr(r interface{}) string {
	if e, ok := r.(error); ok {
		return e.Error()
	}
	if s, ok := r.(string); ok {
		return s
	}
	return "panic"
}
