package multiapp

import (
	"bytes"
	"os"
	"path/filepath"
	"testing"

	"github.com/stretchr/testify/require"
)

// The chunk size of a multi-file appendable is read back from the chunk header. A header whose
// FILE_SIZE value was damaged (here: zeroed) must make Open fail; today Open succeeds and the
// first ReadAt divides by zero.
func TestFindingOpenValidatesStoredFileSize(t *testing.T) {
	dir := t.TempDir()
	app, err := Open(dir, DefaultOptions().WithFileSize(1024))
	require.NoError(t, err)
	_, _, err = app.Append([]byte("payload"))
	require.NoError(t, err)
	require.NoError(t, app.Close())

	files, err := filepath.Glob(filepath.Join(dir, "*"))
	require.NoError(t, err)
	require.Len(t, files, 1)
	raw, err := os.ReadFile(files[0])
	require.NoError(t, err)
	i := bytes.Index(raw, []byte(metaFileSize))
	require.Greater(t, i, 0)
	// key | len(4)=8 | value(8)
	v := raw[i+len(metaFileSize)+4 : i+len(metaFileSize)+12]
	for j := range v {
		v[j] = 0
	}
	require.NoError(t, os.WriteFile(files[0], raw, 0644))

	app, err = Open(dir, DefaultOptions().WithFileSize(1024))
	if err != nil {
		return // refused: fine
	}

	func() {
		defer func() {
			if r := recover(); r != nil {
				t.Fatalf("PANIC while reading from an appendable whose header is damaged: %v", r)
			}
		}()
		_, err = app.ReadAt(make([]byte, 7), 0)
		require.Error(t, err)
	}()
}
