package singleapp

import (
	"encoding/binary"
	"os"
	"path/filepath"
	"runtime"
	"testing"

	"github.com/codenotary/immudb/embedded/appendable"
	"github.com/stretchr/testify/require"
)

func allocatedBy(f func()) uint64 {
	var before, after runtime.MemStats
	runtime.ReadMemStats(&before)
	f()
	runtime.ReadMemStats(&after)
	return after.TotalAlloc - before.TotalAlloc
}

// A damaged header length must be answered with ErrCorruptedMetadata, not with a 2 GiB allocation.
func TestFindingOpenDoesNotAllocateAnnouncedHeaderLength(t *testing.T) {
	path := filepath.Join(t.TempDir(), "file.aof")
	app, err := Open(path, DefaultOptions())
	require.NoError(t, err)
	_, _, err = app.Append([]byte("payload"))
	require.NoError(t, err)
	require.NoError(t, app.Close())

	// flip the top bit of the 4-byte metadata length at the start of the file
	f, err := os.OpenFile(path, os.O_RDWR, 0644)
	require.NoError(t, err)
	var hdr [4]byte
	_, err = f.ReadAt(hdr[:], 0)
	require.NoError(t, err)
	binary.BigEndian.PutUint32(hdr[:], binary.BigEndian.Uint32(hdr[:])|1<<31)
	_, err = f.WriteAt(hdr[:], 0)
	require.NoError(t, err)
	require.NoError(t, f.Close())

	var oerr error
	grown := allocatedBy(func() { _, oerr = Open(path, DefaultOptions()) })
	require.Error(t, oerr)
	require.Less(t, grown, uint64(64<<20), "Open allocated %d MiB while parsing a %d-byte file", grown>>20, 100)
}

// Same for the length prefix of a compressed chunk.
func TestFindingReadAtDoesNotAllocateAnnouncedChunkLength(t *testing.T) {
	path := filepath.Join(t.TempDir(), "file.aof")
	app, err := Open(path, DefaultOptions().WithCompressionFormat(appendable.ZLibCompression))
	require.NoError(t, err)
	off, _, err := app.Append([]byte("payload payload payload"))
	require.NoError(t, err)
	require.NoError(t, app.Close())

	finfo, err := os.Stat(path)
	require.NoError(t, err)

	app, err = Open(path, DefaultOptions())
	require.NoError(t, err)
	base := finfo.Size() - app.fileOffset // size of the header
	require.NoError(t, app.Close())

	f, err := os.OpenFile(path, os.O_RDWR, 0644)
	require.NoError(t, err)
	var l [4]byte
	binary.BigEndian.PutUint32(l[:], 1<<31)
	_, err = f.WriteAt(l[:], base+off)
	require.NoError(t, err)
	require.NoError(t, f.Close())

	app, err = Open(path, DefaultOptions())
	require.NoError(t, err)
	defer app.Close()

	var rerr error
	grown := allocatedBy(func() { _, rerr = app.ReadAt(make([]byte, 10), off) })
	require.Error(t, rerr)
	require.Less(t, grown, uint64(64<<20), "ReadAt allocated %d MiB", grown>>20)
}
