// Demonstration for defect 7: ImmuStore.ExportTx returns holding _valBsMux when a
// partially truncated transaction is found, so the next ExportTx call blocks forever.
//
// Place as embedded/store/zz_defect_7_test.go and run:
//   go test -count=1 -run 'TestZZDefect7' ./embedded/store/
package store

import (
	"bytes"
	"context"
	"testing"
	"time"

	"github.com/stretchr/testify/require"
)

func zzDefect7Commit(t *testing.T, st *ImmuStore, kvs ...[]byte) *TxHeader {
	tx, err := st.NewWriteOnlyTx(context.Background())
	require.NoError(t, err)

	for i := 0; i < len(kvs); i += 2 {
		require.NoError(t, tx.Set(kvs[i], nil, kvs[i+1]))
	}

	hdr, err := tx.Commit(context.Background())
	require.NoError(t, err)

	return hdr
}

func zzDefect7ExportWithTimeout(t *testing.T, st *ImmuStore, txID uint64) ([]byte, error) {
	type result struct {
		etx []byte
		err error
	}

	done := make(chan result, 1)

	go func() {
		etx, err := st.ExportTx(txID, false, false, NewTx(st.MaxTxEntries(), st.MaxKeyLen()))
		done <- result{etx, err}
	}()

	select {
	case r := <-done:
		return r.etx, r.err
	case <-time.After(5 * time.Second):
		require.FailNowf(t, "ExportTx is blocked", "ExportTx(%d) did not return within 5s: value buffer mutex was left locked", txID)
		return nil, nil
	}
}

func zzDefect7Run(t *testing.T, firstValue, secondValue []byte) {
	fileSize := 1024

	st, err := Open(t.TempDir(), DefaultOptions().
		WithEmbeddedValues(false).
		WithFileSize(fileSize).
		WithMaxIOConcurrency(1))
	require.NoError(t, err)
	defer st.Close()

	// tx 1: first chunk of the value log holds only part of its values
	zzDefect7Commit(t, st, []byte("key1"), firstValue, []byte("key2"), secondValue)

	// tx 2 and 3: further transactions, values stored in subsequent chunks
	zzDefect7Commit(t, st, []byte("key3"), bytes.Repeat([]byte{3}, fileSize))
	zzDefect7Commit(t, st, []byte("key4"), bytes.Repeat([]byte{4}, fileSize))

	// first chunk of the value log is removed, the second one (still holding values of tx 2) is kept
	require.NoError(t, st.TruncateUptoTx(2))

	// tx 1 is now partially truncated
	_, err = zzDefect7ExportWithTimeout(t, st, 1)
	require.ErrorIs(t, err, ErrCorruptedData)

	// store must still be able to export any other transaction
	etx, err := zzDefect7ExportWithTimeout(t, st, 3)
	require.NoError(t, err)
	require.NotEmpty(t, etx)
}

// first value is truncated (1st chunk), second value is still readable (2nd chunk)
func TestZZDefect7FirstValueTruncated(t *testing.T) {
	zzDefect7Run(t, bytes.Repeat([]byte{1}, 1024), bytes.Repeat([]byte{2}, 10))
}

// first value is readable (it's empty), second value is truncated (1st chunk)
func TestZZDefect7LaterValueTruncated(t *testing.T) {
	zzDefect7Run(t, nil, bytes.Repeat([]byte{2}, 1024))
}
