package multiapp

import (
	"sync"
	"testing"
)

// Concurrent reader of the active chunk while the writer rotates chunks.
func TestZZAppendableForRace(t *testing.T) {
	opts := DefaultOptions().WithFileSize(64).WithFileExt("aof")
	mf, err := Open(t.TempDir(), opts)
	if err != nil {
		t.Fatal(err)
	}
	defer mf.Close()
	var wg sync.WaitGroup
	stop := make(chan struct{})
	wg.Add(1)
	go func() {
		defer wg.Done()
		b := make([]byte, 1)
		for {
			select {
			case <-stop:
				return
			default:
			}
			off := mf.Offset()
			if off > 0 {
				mf.ReadAt(b, off-1)
			}
		}
	}()
	for i := 0; i < 20000; i++ {
		if _, _, err := mf.Append([]byte("0123456789abcdef")); err != nil {
			t.Fatal(err)
		}
	}
	close(stop)
	wg.Wait()
}
