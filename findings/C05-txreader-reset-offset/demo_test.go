package store

// Demo (C05): inside a read-write transaction a key reader with an offset forgets the offset after Reset.
// Placement: copy to embedded/store/zz_demo_test.go; run: go test -count=1 -run TestDemoC05TxReaderResetOffset ./embedded/store/

import (
	"context"
	"testing"

	"github.com/stretchr/testify/require"
)

func TestDemoC05TxReaderResetOffset(t *testing.T) {
	st, err := Open(t.TempDir(), DefaultOptions())
	require.NoError(t, err)
	defer st.Close()

	ctx := context.Background()

	wtx, err := st.NewWriteOnlyTx(ctx)
	require.NoError(t, err)
	for _, k := range []string{"k1", "k2", "k3"} {
		require.NoError(t, wtx.Set([]byte(k), nil, []byte("v")))
	}
	_, err = wtx.Commit(ctx)
	require.NoError(t, err)

	firstAfterReset := func(opts *TxOptions) string {
		tx, err := st.NewTx(ctx, opts)
		require.NoError(t, err)
		defer tx.Cancel()

		r, err := tx.NewKeyReader(KeyReaderSpec{Prefix: []byte("k"), Offset: 1})
		require.NoError(t, err)
		defer r.Close()

		k, _, err := r.Read(ctx)
		require.NoError(t, err)
		require.Equal(t, "k2", string(k))

		require.NoError(t, r.Reset())

		k, _, err = r.Read(ctx)
		require.NoError(t, err)
		return string(k)
	}

	require.Equal(t, "k2", firstAfterReset(DefaultTxOptions().WithMode(ReadOnlyTx)))
	require.Equal(t, "k2", firstAfterReset(DefaultTxOptions()), "the same scan inside a read-write transaction")
}
