// Demo (C03/C02/C08): the hash tree keeps the leaf of a discarded transaction after a process stop; the transaction
// that replaced it was committed and acknowledged, and can no longer be proven consistent with later ones.
// Placement: copy to embedded/store/zz_demo_test.go; run: go test -count=1 -run TestDemoC03StaleAhtLeafAfterDiscardAndCrash ./embedded/store/
package store

import (
	"context"
	"fmt"
	"io"
	"os"
	"path/filepath"
	"testing"

	"github.com/stretchr/testify/require"
)

func demoCopyDir(t *testing.T, src, dst string) {
	err := filepath.Walk(src, func(p string, info os.FileInfo, err error) error {
		if err != nil {
			return err
		}
		rel, _ := filepath.Rel(src, p)
		target := filepath.Join(dst, rel)
		if info.IsDir() {
			return os.MkdirAll(target, 0755)
		}
		in, err := os.Open(p)
		if err != nil {
			return err
		}
		defer in.Close()
		out, err := os.Create(target)
		if err != nil {
			return err
		}
		defer out.Close()
		_, err = io.Copy(out, in)
		return err
	})
	require.NoError(t, err)
}

// F1: a precommitted tx is discarded (replica) after its alh reached the aht files, a different tx with
// the same id is committed and acknowledged, crash before the aht is synced again: the recovered aht
// keeps the leaf of the discarded tx (only sizes are compared when the store is opened).
func TestDemoC03StaleAhtLeafAfterDiscardAndCrash(t *testing.T) {
	dir := filepath.Join(t.TempDir(), "data")

	st, err := Open(dir, DefaultOptions().WithExternalCommitAllowance(true))
	require.NoError(t, err)

	precommit := func(val string) *TxHeader {
		tx, err := st.NewWriteOnlyTx(context.Background())
		require.NoError(t, err)
		require.NoError(t, tx.Set([]byte("key"), nil, []byte(val)))
		hdr, err := st.precommit(context.Background(), tx, nil, false)
		require.NoError(t, err)
		return hdr
	}

	for i := 1; i <= 5; i++ {
		precommit(fmt.Sprintf("v%d", i))
	}
	require.NoError(t, st.WaitForTx(context.Background(), 5, true))
	require.NoError(t, st.AllowCommitUpto(5))
	require.NoError(t, st.WaitForTx(context.Background(), 5, false))

	hdrA := precommit("discarded")
	require.EqualValues(t, 6, hdrA.ID)
	require.NoError(t, st.WaitForTx(context.Background(), 6, true))

	n, err := st.DiscardPrecommittedTxsSince(6)
	require.NoError(t, err)
	require.Equal(t, 1, n)

	hdrB := precommit("kept")
	require.EqualValues(t, 6, hdrB.ID)
	require.NotEqual(t, hdrA.Alh(), hdrB.Alh())
	require.NoError(t, st.WaitForTx(context.Background(), 6, true))
	require.NoError(t, st.AllowCommitUpto(6))
	require.NoError(t, st.WaitForTx(context.Background(), 6, false)) // committed, durable, acknowledged

	// crash
	crashDir := filepath.Join(t.TempDir(), "data")
	demoCopyDir(t, dir, crashDir)
	st.Close()

	st, err = Open(crashDir, DefaultOptions())
	require.NoError(t, err)
	defer st.Close()

	require.EqualValues(t, 6, st.LastCommittedTxID())

	src, err := st.ReadTxHeader(6, false, false)
	require.NoError(t, err)
	require.Equal(t, hdrB.Alh(), src.Alh())

	for i := 0; i < 3; i++ {
		tx, err := st.NewWriteOnlyTx(context.Background())
		require.NoError(t, err)
		require.NoError(t, tx.Set([]byte("key"), nil, []byte(fmt.Sprintf("after%d", i))))
		hdr, err := tx.Commit(context.Background())
		require.NoError(t, err)

		proof, err := st.DualProof(src, hdr)
		require.NoError(t, err)
		require.True(t, VerifyDualProof(proof, 6, hdr.ID, src.Alh(), hdr.Alh()),
			"tx 6 (acknowledged before the crash) must be provably consistent with tx %d", hdr.ID)
	}
}

