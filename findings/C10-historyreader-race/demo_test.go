package tbtree

import (
	"sync"
	"testing"
)

// Two goroutines open history readers on the same snapshot.
func TestZZConcurrentHistoryReaders(t *testing.T) {
	tb, err := Open(t.TempDir(), DefaultOptions())
	if err != nil {
		t.Fatal(err)
	}
	defer tb.Close()
	if err := tb.Insert([]byte("k"), []byte("v")); err != nil {
		t.Fatal(err)
	}
	snap, err := tb.Snapshot()
	if err != nil {
		t.Fatal(err)
	}
	var wg sync.WaitGroup
	ids := make(chan int, 4000)
	for g := 0; g < 4; g++ {
		wg.Add(1)
		go func() {
			defer wg.Done()
			for i := 0; i < 1000; i++ {
				r, err := snap.NewHistoryReader(&HistoryReaderSpec{Key: []byte("k"), ReadLimit: 1})
				if err != nil {
					t.Error(err)
					return
				}
				ids <- r.id
			}
		}()
	}
	wg.Wait()
	close(ids)
	seen := map[int]bool{}
	for id := range ids {
		if seen[id] {
			t.Fatalf("duplicate reader id %d: one reader was overwritten in the snapshot's reader table", id)
		}
		seen[id] = true
	}
}
