package store

import (
	"context"
	"crypto/sha256"
	"testing"

	"github.com/stretchr/testify/require"
)

// The value offset of a tx entry is not covered by any hash: a damaged tx-log record hands it to the
// value reader as it is. With several value logs (MaxIOConcurrency > 1) an offset that names a value log
// that does not exist must be answered with an error, not with a nil dereference.
func TestFindingReadValueWithUnknownValueLog(t *testing.T) {
	st, err := Open(t.TempDir(), DefaultOptions().WithMaxIOConcurrency(2))
	require.NoError(t, err)
	defer st.Close()

	tx, err := st.NewWriteOnlyTx(context.Background())
	require.NoError(t, err)
	require.NoError(t, tx.Set([]byte("k"), nil, []byte("value")))
	_, err = tx.Commit(context.Background())
	require.NoError(t, err)

	defer func() {
		if r := recover(); r != nil {
			t.Fatalf("reading a value whose offset names value log 9 PANICKED: %v", r)
		}
	}()

	e := &TxEntry{readonly: true, k: []byte("k"), kLen: 1, vLen: 5, hVal: sha256.Sum256([]byte("value")), vOff: encodeOffset(0, 9)}
	_, err = st.ReadValue(e)
	require.Error(t, err)
}
