// Demonstration for defect 5.
// Place in: pkg/database/zz_defect_5_test.go
// Run:      go test -count=1 -run 'TestZZDefect5' ./pkg/database/
//
// CopySQLCatalog (first step of the value-log truncator) commits a brand new
// transaction without checking isReplica(). Running truncation on a replica
// therefore makes the replica commit a tx the primary never had: its state
// diverges from the primary's and the next replicated tx is rejected.
package database

import (
	"context"
	"testing"

	"github.com/codenotary/immudb/embedded/logger"
	"github.com/codenotary/immudb/pkg/api/schema"
	"github.com/stretchr/testify/require"
)

func TestZZDefect5TruncationCommitsOnReplica(t *testing.T) {
	ctx := context.Background()

	primary := makeDbWith(t, "primarydb", DefaultOptions().WithDBRootPath(t.TempDir()))
	replica := makeDbWith(t, "replicadb", DefaultOptions().WithDBRootPath(t.TempDir()).AsReplica(true))

	replicate := func(txID uint64) error {
		txbs, _, _, err := primary.ExportTxByID(ctx, &schema.ExportTxRequest{Tx: txID})
		if err != nil {
			return err
		}
		_, err = replica.ReplicateTx(ctx, txbs, false, false)
		return err
	}

	for i := 0; i < 2; i++ {
		hdr, err := primary.Set(ctx, &schema.SetRequest{KVs: []*schema.KeyValue{{Key: []byte{'k', byte(i)}, Value: []byte("value")}}})
		require.NoError(t, err)
		require.NoError(t, replicate(hdr.Id))
	}

	pState, err := primary.CurrentState()
	require.NoError(t, err)

	rState, err := replica.CurrentState()
	require.NoError(t, err)
	require.Equal(t, pState.TxId, rState.TxId)
	require.Equal(t, pState.TxHash, rState.TxHash)

	// any other committing operation is refused on a replica
	_, err = replica.Set(ctx, &schema.SetRequest{KVs: []*schema.KeyValue{{Key: []byte("k"), Value: []byte("v")}}})
	require.ErrorIs(t, err, ErrIsReplica)

	// value-log truncation running on the replica
	truncErr := NewVlogTruncator(replica, logger.NewMemoryLogger()).TruncateUptoTx(ctx, 1)

	rStateAfter, err := replica.CurrentState()
	require.NoError(t, err)

	t.Logf("truncation on replica: err=%v, replica committed tx %d -> %d (primary at %d)", truncErr, rState.TxId, rStateAfter.TxId, pState.TxId)

	require.Equal(t, pState.TxId, rStateAfter.TxId, "replica committed a transaction the primary never had")
	require.Equal(t, pState.TxHash, rStateAfter.TxHash)
	require.ErrorIs(t, truncErr, ErrIsReplica)

	// replication must be able to continue
	hdr, err := primary.Set(ctx, &schema.SetRequest{KVs: []*schema.KeyValue{{Key: []byte("k3"), Value: []byte("value")}}})
	require.NoError(t, err)
	require.NoError(t, replicate(hdr.Id))

	pState, err = primary.CurrentState()
	require.NoError(t, err)

	rState, err = replica.CurrentState()
	require.NoError(t, err)
	require.Equal(t, pState.TxId, rState.TxId)
	require.Equal(t, pState.TxHash, rState.TxHash)
}

func TestZZDefect5CopySQLCatalogOnEmptyReplica(t *testing.T) {
	replica := makeDbWith(t, "replicadb", DefaultOptions().WithDBRootPath(t.TempDir()).AsReplica(true))

	_, err := replica.CopySQLCatalog(context.Background(), 1)

	state, serr := replica.CurrentState()
	require.NoError(t, serr)
	require.Zero(t, state.TxId, "empty replica committed a local transaction")
	require.ErrorIs(t, err, ErrIsReplica)
}
