// Demo (C13, PostgreSQL wire front-end, extended protocol). Placement: copy to pkg/pgsql/server/zz_demo_test.go and run
//
//	go test -count=1 -run TestDemoC13PgParseExecutesReturning ./pkg/pgsql/server/
//
// ONE `INSERT ... RETURNING id` sent with pgx (Parse / Describe / Bind / Execute) inserted TWO rows: to describe the
// result the session executed the statement (and committed it, in autocommit), then Execute executed it again.
package server_test

import (
	"context"
	"fmt"
	"os"
	"testing"

	"github.com/codenotary/immudb/pkg/server"
	"github.com/jackc/pgx/v5"
	"github.com/stretchr/testify/require"
)

func TestDemoC13PgParseExecutesReturning(t *testing.T) {
	options := server.DefaultOptions().
		WithDir(t.TempDir()).
		WithPort(0).
		WithPgsqlServer(true).
		WithPgsqlServerPort(0).
		WithMetricsServer(false).
		WithWebServer(false)

	srv := server.DefaultServer().WithOptions(options).(*server.ImmuServer)
	require.NoError(t, srv.Initialize())
	go func() { srv.Start() }()
	t.Cleanup(func() { srv.Stop(); os.Remove(".state-") })

	ctx := context.Background()
	conn, err := pgx.Connect(ctx, fmt.Sprintf("host=localhost port=%d sslmode=disable user=immudb dbname=defaultdb password=immudb", srv.PgsqlSrv.GetPort()))
	require.NoError(t, err)
	defer conn.Close(ctx)

	_, err = conn.Exec(ctx, "CREATE TABLE pgr (id INTEGER AUTO_INCREMENT, v INTEGER, PRIMARY KEY id)")
	require.NoError(t, err)

	var id int64
	require.NoError(t, conn.QueryRow(ctx, "INSERT INTO pgr (v) VALUES (7) RETURNING id").Scan(&id))
	require.EqualValues(t, 1, id, "the generated key reported to the client")

	var n int64
	require.NoError(t, conn.QueryRow(ctx, "SELECT COUNT(*) FROM pgr").Scan(&n))
	require.EqualValues(t, 1, n, "rows after ONE insert ... returning")

	// inside a block: the row is part of the block, once
	tx, err := conn.Begin(ctx)
	require.NoError(t, err)
	require.NoError(t, tx.QueryRow(ctx, "INSERT INTO pgr (v) VALUES (8) RETURNING id").Scan(&id))
	require.NoError(t, tx.Rollback(ctx))

	require.NoError(t, conn.QueryRow(ctx, "SELECT COUNT(*) FROM pgr").Scan(&n))
	require.EqualValues(t, 1, n, "rows after a rolled back insert ... returning")
}
