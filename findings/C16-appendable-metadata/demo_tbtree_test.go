// Demonstration for defect 4 (part 2/2): tbtree.readTsFile panics when the timestamp
// file is shorter than 8 bytes, the index can not be opened anymore.
//
// Place as embedded/tbtree/zz_defect_4_test.go and run:
//   go test -count=1 -run 'TestZZDefect4' ./embedded/tbtree/
package tbtree

import (
	"fmt"
	"os"
	"path/filepath"
	"testing"

	"github.com/stretchr/testify/require"
)

func TestZZDefect4OpenWithShortTimestampFile(t *testing.T) {
	for _, size := range []int{0, 1, 7} {
		t.Run(fmt.Sprintf("size=%d", size), func(t *testing.T) {
			path := t.TempDir()

			tree, err := Open(path, DefaultOptions())
			require.NoError(t, err)

			require.NoError(t, tree.Insert([]byte("key"), []byte("value")))

			ts := tree.Ts()

			// timestamp file is written when closing an index whose ts is ahead of its entries
			require.NoError(t, tree.IncreaseTs(ts+5))

			require.NoError(t, tree.Close())

			matches, err := filepath.Glob(filepath.Join(path, timestampFile+"*"))
			require.NoError(t, err)
			require.Len(t, matches, 1)

			// timestamp file is only partially written
			require.NoError(t, os.Truncate(matches[0], int64(size)))

			defer func() {
				p := recover()
				require.Nil(t, p, "Open panicked: %v", p)
			}()

			tree, err = Open(path, DefaultOptions())
			require.NoError(t, err)
			defer tree.Close()

			// timestamp file is an optimization: as when the file is missing, ts of the latest entry is recovered
			require.Equal(t, ts, tree.Ts())

			v, _, _, err := tree.Get([]byte("key"))
			require.NoError(t, err)
			require.Equal(t, []byte("value"), v)
		})
	}
}
