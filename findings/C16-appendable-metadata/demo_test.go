// Demonstration for defect 4 (part 1/2): appendable.Metadata panics with short/garbled
// metadata bytes, or silently accepts truncated fields.
//
// Place as embedded/appendable/zz_defect_4_test.go and run:
//   go test -count=1 -run 'TestZZDefect4' ./embedded/appendable/
//
// (external test package: needed to open a real file through singleapp without import cycle)
package appendable_test

import (
	"bytes"
	"encoding/binary"
	"fmt"
	"os"
	"path/filepath"
	"testing"

	"github.com/codenotary/immudb/embedded/appendable"
	"github.com/codenotary/immudb/embedded/appendable/singleapp"
	"github.com/stretchr/testify/require"
)

func zzDefect4NoPanic(t *testing.T, f func()) {
	defer func() {
		p := recover()
		require.Nil(t, p, "panicked: %v", p)
	}()

	f()
}

// metadata: | nfields | key | value |..., each of them encoded as | len(4 bytes) | bytes |
func zzDefect4Field(b []byte) []byte {
	var lenb [4]byte
	binary.BigEndian.PutUint32(lenb[:], uint32(len(b)))
	return append(lenb[:], b...)
}

func zzDefect4Metadata(kvs ...[]byte) []byte {
	var lenb [4]byte
	binary.BigEndian.PutUint32(lenb[:], uint32(len(kvs)/2))

	b := zzDefect4Field(lenb[:])
	for _, kv := range kvs {
		b = append(b, zzDefect4Field(kv)...)
	}
	return b
}

func TestZZDefect4GetIntWithShortValue(t *testing.T) {
	md := appendable.NewMetadata(zzDefect4Metadata([]byte("intKey"), []byte{0, 1}))

	zzDefect4NoPanic(t, func() {
		_, ok := md.GetInt("intKey")
		require.False(t, ok)
	})
}

func TestZZDefect4GetBoolWithEmptyValue(t *testing.T) {
	md := appendable.NewMetadata(zzDefect4Metadata([]byte("boolKey"), []byte{}))

	zzDefect4NoPanic(t, func() {
		_, ok := md.GetBool("boolKey")
		require.False(t, ok)
	})
}

func TestZZDefect4ReadFromWithShortFieldCount(t *testing.T) {
	// fields count is stored using only one byte
	zzDefect4NoPanic(t, func() {
		_, err := appendable.NewMetadata(nil).ReadFrom(bytes.NewReader(zzDefect4Field([]byte{1})))
		require.Error(t, err)
	})

	zzDefect4NoPanic(t, func() {
		md := appendable.NewMetadata(zzDefect4Field([]byte{1}))
		_, ok := md.Get("intKey")
		require.False(t, ok)
	})
}

func TestZZDefect4ReadFromWithTruncatedValue(t *testing.T) {
	b := zzDefect4Metadata([]byte("intKey"), []byte{0, 0, 0, 0, 0, 0, 1, 0})

	md := appendable.NewMetadata(nil)
	_, err := md.ReadFrom(bytes.NewReader(b))
	require.NoError(t, err)

	v, ok := md.GetInt("intKey")
	require.True(t, ok)
	require.Equal(t, 256, v)

	// any strict prefix must be reported as an error and truncated value must not be zero-padded
	for n := 0; n < len(b); n++ {
		t.Run(fmt.Sprintf("len=%d", n), func(t *testing.T) {
			zzDefect4NoPanic(t, func() {
				md := appendable.NewMetadata(nil)
				_, err := md.ReadFrom(bytes.NewReader(b[:n]))
				require.Error(t, err)

				v, ok := md.GetInt("intKey")
				require.False(t, ok, "truncated value accepted as %d", v)

				v, ok = appendable.NewMetadata(b[:n]).GetInt("intKey")
				require.False(t, ok, "truncated value accepted as %d", v)
			})
		})
	}
}

// real code path: opening an appendable file whose header got garbled
func TestZZDefect4OpenFileWithGarbledMetadata(t *testing.T) {
	fileName := filepath.Join(t.TempDir(), "00000000.aof")

	app, err := singleapp.Open(fileName, singleapp.DefaultOptions())
	require.NoError(t, err)
	_, _, err = app.Append([]byte("data"))
	require.NoError(t, err)
	require.NoError(t, app.Close())

	mBs := zzDefect4Metadata(
		[]byte("COMPRESSION_FORMAT"), []byte{0, 0, 0},
		[]byte("COMPRESSION_LEVEL"), []byte{0, 0, 0},
		[]byte("WRAPPED_METADATA"), []byte{},
	)

	require.NoError(t, os.WriteFile(fileName, zzDefect4Field(mBs), 0644))

	zzDefect4NoPanic(t, func() {
		_, err = singleapp.Open(fileName, singleapp.DefaultOptions())
		require.ErrorIs(t, err, singleapp.ErrCorruptedMetadata)
	})
}
