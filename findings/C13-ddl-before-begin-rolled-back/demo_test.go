package sql

// Demo (C13): a DDL statement executed BEFORE `BEGIN` in the same batch becomes part of the explicit transaction
// (BEGIN reuses the implicit transaction when no row was updated yet) and is undone by its ROLLBACK.
// Placement: copy to embedded/sql/zz_demo_test.go; run: go test -count=1 -run TestDemoC13DDLBeforeBegin ./embedded/sql/

import (
	"context"
	"testing"

	"github.com/codenotary/immudb/embedded/store"
	"github.com/stretchr/testify/require"
)

func TestDemoC13DDLBeforeBegin(t *testing.T) {
	st, err := store.Open(t.TempDir(), store.DefaultOptions().WithMultiIndexing(true))
	require.NoError(t, err)
	defer st.Close()

	engine, err := NewEngine(st, DefaultOptions().WithPrefix(sqlPrefix))
	require.NoError(t, err)

	ctx := context.Background()

	_, _, err = engine.Exec(ctx, nil, `
		CREATE TABLE t1 (id INTEGER, PRIMARY KEY id);
		BEGIN TRANSACTION;
			INSERT INTO t1 (id) VALUES (1);
		ROLLBACK;
	`, nil)
	require.NoError(t, err)

	// the transaction that was rolled back starts at BEGIN: the table was created before it
	_, _, err = engine.Exec(ctx, nil, "INSERT INTO t1 (id) VALUES (2)", nil)
	require.NoError(t, err, "CREATE TABLE was executed before BEGIN, it is not part of the rolled back transaction")
}
