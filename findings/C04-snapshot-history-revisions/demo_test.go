package store

import (
	"context"
	"testing"

	"github.com/stretchr/testify/require"
)

// "the history of a key lists every committed version in commit order with consecutive revision
// numbers": ImmuStore.History and Snapshot.History must number the versions the same way.
func TestFindingSnapshotHistoryRevisions(t *testing.T) {
	st, err := Open(t.TempDir(), DefaultOptions())
	require.NoError(t, err)
	defer st.Close()
	ctx := context.Background()

	for i := 0; i < 4; i++ {
		tx, err := st.NewWriteOnlyTx(ctx)
		require.NoError(t, err)
		require.NoError(t, tx.Set([]byte("k"), nil, []byte{byte('a' + i)}))
		_, err = tx.Commit(ctx)
		require.NoError(t, err)
	}
	require.NoError(t, st.WaitForIndexingUpto(ctx, 4))

	snap, err := st.Snapshot(nil)
	require.NoError(t, err)
	defer snap.Close()

	for _, tc := range []struct {
		offset uint64
		desc   bool
	}{{0, false}, {0, true}, {1, false}, {1, true}} {
		want, _, err := st.History([]byte("k"), tc.offset, tc.desc, 10)
		require.NoError(t, err)
		got, _, err := snap.History([]byte("k"), tc.offset, tc.desc, 10)
		require.NoError(t, err)
		require.Len(t, got, len(want))
		for i := range want {
			require.Equal(t, want[i].Tx(), got[i].Tx())
			require.Equal(t, want[i].HC(), got[i].HC(), "offset=%d desc=%v: version committed by tx %d is revision %d for the store and %d for a snapshot of the same state",
				tc.offset, tc.desc, want[i].Tx(), want[i].HC(), got[i].HC())
		}
	}
}
