package store

import (
	"context"
	"fmt"
	"strings"
	"sync"
	"testing"

	"github.com/stretchr/testify/require"
)

type findingHookLogger struct {
	once   sync.Once
	onDump func()
}

func (l *findingHookLogger) Errorf(string, ...interface{})   {}
func (l *findingHookLogger) Warningf(string, ...interface{}) {}
func (l *findingHookLogger) Debugf(string, ...interface{})   {}
func (l *findingHookLogger) Close() error                    { return nil }
func (l *findingHookLogger) Infof(f string, _ ...interface{}) {
	if l.onDump != nil && strings.HasPrefix(f, "dumping index") {
		l.once.Do(l.onDump)
	}
}

// "Once indexing has caught up with transaction n, a key lookup returns ... the latest committed version of
// that key up to n ... unaffected by ... compaction": a write that is committed and indexed while a
// compaction dump is running must still be visible right after the compaction finished.
func TestFindingReadsAfterCompactionSeeIndexedWrites(t *testing.T) {
	lg := &findingHookLogger{}
	opts := DefaultOptions().WithLogger(lg)
	opts.WithIndexOptions(opts.IndexOpts.WithCompactionThld(1))
	st, err := Open(t.TempDir(), opts)
	require.NoError(t, err)
	defer st.Close()
	ctx := context.Background()

	set := func(k, v string) uint64 {
		tx, err := st.NewWriteOnlyTx(ctx)
		require.NoError(t, err)
		require.NoError(t, tx.Set([]byte(k), nil, []byte(v)))
		hdr, err := tx.Commit(ctx)
		require.NoError(t, err)
		return hdr.ID
	}

	for i := 0; i < 50; i++ {
		set(fmt.Sprintf("key-%03d", i), "v1")
	}
	require.NoError(t, st.WaitForIndexingUpto(ctx, 50))
	require.NoError(t, st.FlushIndexes(0, false))

	var lateTx uint64
	lg.onDump = func() {
		// committed and indexed by the live tree while the dump of the older snapshot is being written
		lateTx = set("key-000", "v2")
		require.NoError(t, st.WaitForIndexingUpto(ctx, lateTx))
	}

	require.NoError(t, st.CompactIndexes())
	require.NotZero(t, lateTx)

	// the reader does what every read path does: wait for indexing of the tx it needs, then look up
	require.NoError(t, st.WaitForIndexingUpto(ctx, lateTx))
	valRef, err := st.Get(ctx, []byte("key-000"))
	require.NoError(t, err)
	require.Equal(t, lateTx, valRef.Tx(), "indexing is reported as caught up with tx %d but the lookup returns the version of tx %d", lateTx, valRef.Tx())
}
