// Finding on the UNMODIFIED tree (property C14): a writer that already appended its values to the value log
// but has not been given its transaction id yet is invisible to TruncateUptoTx (the forward walk stops at
// LastCommittedTxID), so its values can be deleted although its id ends up >= the cut.
//
// The writer is held in that state with public APIs only: ReplicateTx of tx 5 is started before txs 1..4 are
// replicated (values of tx 5 are appended first, then precommit waits for tx 4).
//
// Placement: copy to embedded/store/zz_demo_test.go and run
//   go test -count=1 -run TestDemoC14InFlightWriter ./embedded/store/
package store

import (
	"bytes"
	"context"
	"fmt"
	"testing"
	"time"

	"github.com/stretchr/testify/require"
)

func TestDemoC14InFlightWriter(t *testing.T) {
	const fileSize = 256

	opts := DefaultOptions().
		WithEmbeddedValues(false).
		WithFileSize(fileSize).
		WithMaxIOConcurrency(1).
		WithVLogCacheSize(0)

	primary, err := Open(t.TempDir(), opts)
	require.NoError(t, err)
	defer primary.Close()

	valueOf := func(i int) []byte { return bytes.Repeat([]byte{byte(i)}, fileSize) }

	exported := make([][]byte, 6)

	for i := 1; i <= 5; i++ {
		tx, err := primary.NewWriteOnlyTx(context.Background())
		require.NoError(t, err)
		require.NoError(t, tx.Set([]byte(fmt.Sprintf("key_%d", i)), nil, valueOf(i)))
		_, err = tx.Commit(context.Background())
		require.NoError(t, err)

		exported[i], err = primary.ExportTx(uint64(i), false, false, tempTxHolder(t, primary))
		require.NoError(t, err)
	}

	replica, err := Open(t.TempDir(), opts)
	require.NoError(t, err)
	defer replica.Close()

	// tx 5 is replicated first: its value is appended to the value log, then it waits for tx 4
	done5 := make(chan error, 1)
	go func() {
		_, err := replica.ReplicateTx(context.Background(), exported[5], false, false)
		done5 <- err
	}()

	time.Sleep(500 * time.Millisecond)

	for i := 1; i <= 3; i++ {
		_, err = replica.ReplicateTx(context.Background(), exported[i], false, false)
		require.NoError(t, err)
	}

	// truncation races with the writer of tx 5
	require.NoError(t, replica.TruncateUptoTx(3))

	_, err = replica.ReplicateTx(context.Background(), exported[4], false, false)
	require.NoError(t, err)

	select {
	case err := <-done5:
		require.NoError(t, err)
	case <-time.After(10 * time.Second):
		t.Fatal("tx 5 was not replicated")
	}

	for txID := uint64(3); txID <= 5; txID++ {
		tx := NewTx(replica.MaxTxEntries(), replica.MaxKeyLen())
		require.NoError(t, replica.ReadTx(txID, false, tx))

		val, err := replica.ReadValue(tx.Entries()[0])
		require.NoError(t, err, "value of tx %d (>= cut 3) must be readable", txID)
		require.Equal(t, valueOf(int(txID)), val)
	}
}
