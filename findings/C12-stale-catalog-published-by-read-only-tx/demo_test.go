// Demo (C12). Placement: copy to embedded/sql/zz_demo_test.go and run
//
//	go test -count=1 -run TestDemoC12StaleCatalogPublished ./embedded/sql/
//
// Read-only transactions (autocommit SELECTs of 4 sessions) race with a session doing CREATE TABLE / CREATE UNIQUE INDEX /
// INSERT. A read-only NewTx that loaded the catalog before the DDL committed publishes it into the engine's cache after
// the DDL invalidated the cache: the next read-write transactions clone a catalog without the unique index and accept
// a duplicate. A race: the demo tries for up to 90 s (the unfixed tree failed within 30 s here); it fails when a duplicate
// is accepted, or a committed table is reported missing, and passes otherwise.
package sql

import (
	"context"
	"errors"
	"fmt"
	"sync"
	"sync/atomic"
	"testing"
	"time"

	"github.com/codenotary/immudb/embedded/store"
	"github.com/stretchr/testify/require"
)

func TestDemoC12StaleCatalogPublished(t *testing.T) {
	e := setupCommonTest(t)
	ctx := context.Background()

	for i := 0; i < 40; i++ {
		_, _, err := e.Exec(ctx, nil, fmt.Sprintf("CREATE TABLE base%d(id INTEGER, a VARCHAR[10], b INTEGER, c BOOLEAN, d VARCHAR, PRIMARY KEY id); CREATE INDEX ON base%d(a); CREATE INDEX ON base%d(b)", i, i, i), nil)
		require.NoError(t, err)
	}

	var stop atomic.Bool
	var wg sync.WaitGroup

	for g := 0; g < 4; g++ {
		wg.Add(1)
		go func() {
			defer wg.Done()
			for !stop.Load() {
				r, err := e.Query(ctx, nil, "SELECT id FROM base0", nil)
				if err == nil {
					r.Close()
				}
			}
		}()
	}

	deadline := time.Now().Add(90 * time.Second)
	found := false
	n := 0
	for time.Now().Before(deadline) && !found {
		n++
		_, _, err := e.Exec(ctx, nil, fmt.Sprintf("CREATE TABLE x%d(id INTEGER, u INTEGER, PRIMARY KEY id)", n), nil)
		require.NoError(t, err)
		_, _, err = e.Exec(ctx, nil, fmt.Sprintf("CREATE UNIQUE INDEX ON x%d(u)", n), nil)
		require.NoError(t, err)

		time.Sleep(2 * time.Millisecond)

		_, _, err = e.Exec(ctx, nil, fmt.Sprintf("INSERT INTO x%d(id,u) VALUES (1,7)", n), nil)
		require.False(t, errors.Is(err, ErrTableDoesNotExist), "iteration %d: a table committed by this very session does not exist for its next statement", n)
		require.NoError(t, err)
		_, _, err = e.Exec(ctx, nil, fmt.Sprintf("INSERT INTO x%d(id,u) VALUES (2,7)", n), nil)
		if err == nil {
			found = true
			stop.Store(true)
			wg.Wait()
			t.Logf("iteration %d: duplicate accepted in UNIQUE index", n)
			// force catalog reload
			_, _, err = e.Exec(ctx, nil, "CREATE TABLE reload(id INTEGER, PRIMARY KEY id)", nil)
			require.NoError(t, err)
			rows, qerr := e.queryAll(ctx, nil, fmt.Sprintf("SELECT id,u FROM x%d", n), nil)
			require.NoError(t, qerr)
			t.Logf("%d rows with u = 7 in a UNIQUE index", len(rows))
		} else {
			require.ErrorIs(t, err, store.ErrKeyAlreadyExists)
		}
	}
	stop.Store(true)
	wg.Wait()
	require.False(t, found, "a duplicate was accepted into a UNIQUE index (after %d iterations)", n)
}

