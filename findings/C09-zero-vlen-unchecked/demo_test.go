package store

import (
	"context"
	"crypto/sha256"
	"testing"

	"github.com/stretchr/testify/require"
)

// "corruption is detected, never served as valid": the value length of a tx entry is not covered by any
// hash; when a damaged record says 0, the committed value is replaced by an empty one and no error is raised.
func TestFindingZeroValueLenIsServedAsValid(t *testing.T) {
	st, err := Open(t.TempDir(), DefaultOptions())
	require.NoError(t, err)
	defer st.Close()

	tx, err := st.NewWriteOnlyTx(context.Background())
	require.NoError(t, err)
	require.NoError(t, tx.Set([]byte("k"), nil, []byte("value")))
	hdr, err := tx.Commit(context.Background())
	require.NoError(t, err)

	txh, err := st.fetchAllocTx()
	require.NoError(t, err)
	defer st.releaseAllocTx(txh)
	require.NoError(t, st.ReadTx(hdr.ID, false, txh))
	e := txh.Entries()[0]
	require.Equal(t, sha256.Sum256([]byte("value")), e.HVal())

	// what a reader gets when the vLen field of the record was damaged to 0 (the record still passes the
	// Alh validation: vLen is not hashed)
	damaged := *e
	damaged.vLen = 0

	v, err := st.ReadValue(&damaged)
	if err == nil {
		t.Fatalf("ReadValue returned %q without error for an entry whose digest is that of %q", v, "value")
	}
}
