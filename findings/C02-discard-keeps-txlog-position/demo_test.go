package store

import (
	"context"
	"crypto/sha256"
	"fmt"
	"testing"
	"time"

	"github.com/stretchr/testify/require"
)

// A replica (external commit allowance) precommits tx 6 and 7, discards them (its primary changed),
// precommits a replacement 6' and is restarted. Whatever the store holds as tx 6 after the restart,
// leaf 6 of the hash tree must be the accumulated hash of that very transaction: "leaf n = Alh(tx n)"
// is what every dual proof and every BlRoot of a later transaction rests on.
func TestFindingHashTreeMatchesTxLogAfterDiscardAndRestart(t *testing.T) {
	dir := t.TempDir()
	opts := DefaultOptions().WithExternalCommitAllowance(true).WithSynced(false)
	st, err := Open(dir, opts)
	require.NoError(t, err)
	ctx, cancel := context.WithTimeout(context.Background(), 60*time.Second)
	defer cancel()

	next := uint64(1)
	precommit := func(k, v string) {
		id := next
		next++
		go func() {
			tx, err := st.NewWriteOnlyTx(ctx)
			if err != nil {
				return
			}
			if tx.Set([]byte(k), nil, []byte(v)) != nil {
				return
			}
			tx.Commit(ctx) // blocks until the commit is allowed (or the store is closed)
		}()
		require.NoError(t, st.WaitForTx(ctx, id, true))
	}

	for i := 1; i <= 5; i++ {
		precommit(fmt.Sprintf("k%d", i), "v")
	}
	require.NoError(t, st.AllowCommitUpto(5))
	require.NoError(t, st.WaitForTx(ctx, 5, false))

	precommit("k6", "old-6")
	precommit("k7", "old-7")
	_, err = st.DiscardPrecommittedTxsSince(6)
	require.NoError(t, err)
	next = 6
	precommit("k6", "new-6")

	require.NoError(t, st.Close())
	st, err = Open(dir, opts)
	require.NoError(t, err)
	defer st.Close()

	last := st.LastPrecommittedTxID()
	t.Logf("after restart: committed up to %d, precommitted up to %d, hash tree size %d", st.LastCommittedTxID(), last, st.aht.Size())
	require.Equal(t, last, st.aht.Size())

	for id := uint64(1); id <= last; id++ {
		hdr, err := st.ReadTxHeader(id, true, false)
		require.NoError(t, err)
		leaf, err := st.aht.DataAt(id)
		require.NoError(t, err)
		alh := hdr.Alh()
		require.Equal(t, alh[:], leaf[:sha256.Size], "leaf %d of the hash tree is not the accumulated hash of transaction %d held in the tx log", id, id)
	}
}
