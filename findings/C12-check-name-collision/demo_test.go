package sql

// Demo (C12): CREATE TABLE keeps its CHECK constraints in a map keyed by name; a constraint named like the name
// generated for an unnamed one (<table>_check1) silently replaces it (or is replaced), and rows violating the lost
// constraint are accepted.
// Placement: copy to embedded/sql/zz_demo_test.go; run: go test -count=1 -run TestDemoC12CheckNameCollision ./embedded/sql/

import (
	"context"
	"testing"

	"github.com/codenotary/immudb/embedded/store"
	"github.com/stretchr/testify/require"
)

func TestDemoC12CheckNameCollision(t *testing.T) {
	st, err := store.Open(t.TempDir(), store.DefaultOptions().WithMultiIndexing(true))
	require.NoError(t, err)
	defer st.Close()

	engine, err := NewEngine(st, DefaultOptions().WithPrefix(sqlPrefix))
	require.NoError(t, err)

	exec := func(q string) error {
		_, _, err := engine.Exec(context.Background(), nil, q, nil)
		return err
	}

	err = exec("CREATE TABLE t1 (id INTEGER, a INTEGER, b INTEGER, PRIMARY KEY id, CONSTRAINT t1_check1 CHECK (a > 0), CHECK (b > 0))")
	if err != nil {
		// refusing the ambiguous declaration is fine
		return
	}

	// both constraints were declared: both must hold
	require.ErrorIs(t, exec("INSERT INTO t1 (id, a, b) VALUES (1, -1, 1)"), ErrCheckConstraintViolation, "CHECK (a > 0) was declared")
	require.ErrorIs(t, exec("INSERT INTO t1 (id, a, b) VALUES (2, 1, -1)"), ErrCheckConstraintViolation, "CHECK (b > 0) was declared")
}
