// Finding on the UNMODIFIED tree (property C14, "repeated truncation is harmless"):
// db.FindTruncationPoint returns (nil, nil) when the context is done while it walks back over
// transactions without entries (`if ctx.Err() != nil { return nil, err }` with err == nil). Such
// transactions are exactly what a previous truncation of a key-value-only database leaves behind
// (the catalog copy is a metadata-only transaction). Truncator.Truncate then dereferences the nil header.
//
// Placement: copy to pkg/truncator/zz_finding_f2_test.go and run
//   go test -count=1 -run TestFindingC14PlanNilHeader ./pkg/truncator/
package truncator

import (
	"context"
	"testing"
	"time"

	"github.com/codenotary/immudb/embedded/logger"
	"github.com/codenotary/immudb/pkg/api/schema"
	"github.com/codenotary/immudb/pkg/database"
	"github.com/stretchr/testify/require"
)

func TestFindingC14PlanNilHeader(t *testing.T) {
	options := database.DefaultOptions().WithDBRootPath(t.TempDir())

	so := options.GetStoreOptions()
	so.WithEmbeddedValues(false).WithFileSize(64).WithVLogCacheSize(0).WithSynced(false)
	options.WithStoreOptions(so)

	db := makeDbWith(t, "db", options)

	hdr, err := db.Set(context.Background(), &schema.SetRequest{KVs: []*schema.KeyValue{{Key: []byte("k"), Value: []byte("v")}}})
	require.NoError(t, err)

	// first truncation: leaves a metadata-only transaction (no sql catalog to copy)
	err = database.NewVlogTruncator(db, logger.NewMemoryLogger()).TruncateUptoTx(context.Background(), hdr.Id)
	require.NoError(t, err)

	ctx, cancel := context.WithCancel(context.Background())
	cancel()

	planned, err := db.FindTruncationPoint(ctx, time.Now().Add(time.Hour))
	if err == nil && planned == nil {
		t.Errorf("FindTruncationPoint returned neither a header nor an error")
	}

	// second truncation, by a caller whose context is already done
	tr := NewTruncator(db, 0, 0, logger.NewMemoryLogger())

	require.NotPanics(t, func() {
		tr.Truncate(ctx, -48*time.Hour)
	})
}
