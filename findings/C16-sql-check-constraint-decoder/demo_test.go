package sql

// Demo (C16): the decoder of stored CHECK constraint entries crashes on short or crafted input.
// Placement: copy to embedded/sql/zz_demo_test.go; run: go test -count=1 -run TestDemoC16SQLDecoders ./embedded/sql/

import (
	"testing"

	"github.com/stretchr/testify/require"
)

func TestDemoC16SQLDecodersCheckConstraint(t *testing.T) {
	prefix := []byte("sql.")
	key := MapKey(prefix, catalogCheckPrefix, EncodeID(1), EncodeID(1), EncodeID(1))

	for _, value := range [][]byte{
		{},             // no name length
		{5, 'a', 'b'},  // name shorter than announced
		append([]byte{0, 'c'}, []byte("true UNION SELECT * FROM t")...), // not a single expression
	} {
		require.NotPanics(t, func() {
			_, err := parseCheckConstraint(prefix, key, value)
			require.Error(t, err)
		}, "value %v", value)
	}
}
