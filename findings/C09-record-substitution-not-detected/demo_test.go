// Demo (C09): the record of tx 2 written over the (same-sized) record of tx 4: every single-transaction read of tx 4
// checks that the record is consistent in itself and then serves tx 2 as tx 4, without error.
// Placement: copy to embedded/store/zz_demo_test.go; run: go test -count=1 -run TestDemoC09RecordSubstitution ./embedded/store/
package store

import (
	"bytes"
	"context"
	"os"
	"path/filepath"
	"testing"

	"github.com/stretchr/testify/require"
)

func zzTxLogFile(t *testing.T, dir string) string {
	files, err := filepath.Glob(filepath.Join(dir, "tx", "*.tx"))
	require.NoError(t, err)
	require.Len(t, files, 1)
	return files[0]
}

func zzCommit(t *testing.T, st *ImmuStore, key, val string) *TxHeader {
	tx, err := st.NewWriteOnlyTx(context.Background())
	require.NoError(t, err)
	require.NoError(t, tx.Set([]byte(key), nil, []byte(val)))
	hdr, err := tx.Commit(context.Background())
	require.NoError(t, err)
	return hdr
}

// F2: record of tx 2 copied over the record of tx 4 (same size): ReadTx(4) returns tx 2
func TestDemoC09RecordSubstitution(t *testing.T) {
	dir := t.TempDir()
	st, err := Open(dir, DefaultOptions())
	require.NoError(t, err)

	for i := 0; i < 6; i++ {
		zzCommit(t, st, "zzkey-"+string(rune('a'+i)), "val-"+string(rune('a'+i)))
	}
	off2, sz2, err := st.txOffsetAndSize(2)
	require.NoError(t, err)
	off4, sz4, err := st.txOffsetAndSize(4)
	require.NoError(t, err)
	require.Equal(t, sz2, sz4)
	require.NoError(t, st.Close())

	f := zzTxLogFile(t, dir)
	bs, err := os.ReadFile(f)
	require.NoError(t, err)
	p := bytes.Index(bs, []byte("zzkey-a"))
	// data offset of file = position of first record: tx1 starts at logical offset 0
	off1Key := p
	_ = off1Key
	// find base: logical offset 0 corresponds to file offset base; tx1 entry key is at base+96+4
	base := p - 96 - 4
	copy(bs[base+int(off4):base+int(off4)+sz4], bs[base+int(off2):base+int(off2)+sz2])
	require.NoError(t, os.WriteFile(f, bs, 0644))

	st, err = Open(dir, DefaultOptions())
	require.NoError(t, err)
	defer st.Close()

	tx := NewTx(st.maxTxEntries, st.maxKeyLen)
	err = st.ReadTx(4, false, tx)
	t.Logf("ReadTx(4) err: %v", err)
	if err == nil {
		t.Logf("ReadTx(4) returned header ID %d key %q", tx.Header().ID, tx.Entries()[0].Key())
		if tx.Header().ID != 4 {
			t.Fatalf("ReadTx(4) returned tx %d with key %q without error", tx.Header().ID, tx.Entries()[0].Key())
		}
	}

	hdr, err := st.ReadTxHeader(4, false, false)
	if err == nil && hdr.ID != 4 {
		t.Fatalf("ReadTxHeader(4) returned the header of tx %d without error", hdr.ID)
	}

	_, ehdr, err := st.ReadTxEntry(4, []byte("zzkey-b"), false)
	if err == nil && ehdr.ID != 4 {
		t.Fatalf("ReadTxEntry(4, ...) returned an entry of tx %d without error", ehdr.ID)
	}
}

