// Demo (C07/C14): truncating a database that has no SQL/document catalog commits a transaction that carries the
// truncation marker and no entries. The primary commits and exports it, the replica refuses its header ("invalid number
// of entries"): the replicator retries for ever and replication of that database stops.
// Placement: copy to pkg/database/zz_demo_test.go; run: go test -count=1 -run TestDemoC07TruncationMarkerTxIsReplicable ./pkg/database/
package database

import (
	"context"
	"testing"

	"github.com/codenotary/immudb/pkg/api/schema"
	"github.com/stretchr/testify/require"
)

func TestDemoC07TruncationMarkerTxIsReplicable(t *testing.T) {
	primary := makeDbWith(t, "primary", DefaultOptions().WithDBRootPath(t.TempDir()))
	replica := makeDbWith(t, "replica", DefaultOptions().WithDBRootPath(t.TempDir()).AsReplica(true))

	ctx := context.Background()

	_, err := primary.Set(ctx, &schema.SetRequest{KVs: []*schema.KeyValue{{Key: []byte("key1"), Value: []byte("value1")}}})
	require.NoError(t, err)

	// what the truncator does before cutting the value logs
	txID, err := primary.CopySQLCatalog(ctx, 1)
	require.NoError(t, err)

	for id := uint64(1); id <= txID; id++ {
		etx, _, _, err := primary.ExportTxByID(ctx, &schema.ExportTxRequest{Tx: id})
		require.NoError(t, err)

		_, err = replica.ReplicateTx(ctx, etx, false, false)
		require.NoError(t, err, "tx %d of %d was committed and exported by the primary: the replica must accept it", id, txID)
	}

	pst, err := primary.CurrentState()
	require.NoError(t, err)
	rst, err := replica.CurrentState()
	require.NoError(t, err)
	require.Equal(t, pst.TxId, rst.TxId)
	require.Equal(t, pst.TxHash, rst.TxHash)
}
