// Demo (C15 / C12). Placement: copy to embedded/sql/zz_demo_test.go and run
//
//	go test -count=1 -run TestDemoC15QuotedLiteral ./embedded/sql/
//
// Column defaults and CHECK expressions are persisted as SQL text. A string literal holding a quote was rendered without
// doubling it: the text does not parse back, the default was silently dropped at the next catalog load.
package sql

import (
	"context"
	"testing"

	"github.com/codenotary/immudb/embedded/store"
	"github.com/stretchr/testify/require"
)

func TestDemoC15QuotedLiteral(t *testing.T) {
	st, err := store.Open(t.TempDir(), store.DefaultOptions().WithMultiIndexing(true))
	require.NoError(t, err)
	defer closeStore(t, st)

	ctx := context.Background()

	e, err := NewEngine(st, DefaultOptions().WithPrefix(sqlPrefix))
	require.NoError(t, err)

	_, _, err = e.Exec(ctx, nil, "CREATE TABLE t (id INTEGER, s VARCHAR DEFAULT 'it''s', PRIMARY KEY id)", nil)
	require.NoError(t, err)

	// a second engine on the same store loads the catalog from what was persisted
	e2, err := NewEngine(st, DefaultOptions().WithPrefix(sqlPrefix))
	require.NoError(t, err)

	_, _, err = e2.Exec(ctx, nil, "INSERT INTO t(id) VALUES (1)", nil)
	require.NoError(t, err)

	rows, err := e2.queryAll(ctx, nil, "SELECT s FROM t WHERE id = 1", nil)
	require.NoError(t, err)
	require.Len(t, rows, 1)
	require.False(t, rows[0].ValuesByPosition[0].IsNull(), "the column default was lost when the catalog was loaded again")
	require.Equal(t, "it's", rows[0].ValuesByPosition[0].RawValue())

	// the literal itself
	require.Equal(t, "'it''s'", NewVarchar("it's").String())
}
