package ahtree

import (
	"testing"

	"github.com/stretchr/testify/require"
)

// "Rolling the tree back to a smaller size and re-appending, restarting ... do not change any of this"
func TestFindingResetSizeSurvivesRestart(t *testing.T) {
	dir := t.TempDir()
	tree, err := Open(dir, DefaultOptions())
	require.NoError(t, err)
	for i := 0; i < 5; i++ {
		_, _, err = tree.Append([]byte{byte(i)})
		require.NoError(t, err)
	}
	require.NoError(t, tree.Sync())
	_, root3, err := func() (uint64, [32]byte, error) { r, err := tree.RootAt(3); return 3, r, err }()
	require.NoError(t, err)

	require.NoError(t, tree.ResetSize(3))
	require.Equal(t, uint64(3), tree.Size())
	require.NoError(t, tree.Sync())
	require.NoError(t, tree.Close())

	tree, err = Open(dir, DefaultOptions())
	require.NoError(t, err)
	defer tree.Close()

	require.Equal(t, uint64(3), tree.Size(), "the tree was rolled back to 3 leaves before it was closed")
	_, r, err := tree.Root()
	require.NoError(t, err)
	require.Equal(t, root3, r)
}
