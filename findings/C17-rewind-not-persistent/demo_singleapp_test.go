package singleapp

import (
	"bytes"
	"path/filepath"
	"testing"

	"github.com/stretchr/testify/require"
)

// "rewinding the offset discards what follows ... after flush and close, reopening finds the same
// bytes at the same offsets with the same metadata (and the same size unless files are preallocated)"
func TestFindingSizeAfterRewindSurvivesReopen(t *testing.T) {
	path := filepath.Join(t.TempDir(), "f.aof")
	app, err := Open(path, DefaultOptions())
	require.NoError(t, err)

	_, _, err = app.Append(bytes.Repeat([]byte{'A'}, 100))
	require.NoError(t, err)
	require.NoError(t, app.Flush())
	require.NoError(t, app.SetOffset(40))

	sz, err := app.Size()
	require.NoError(t, err)
	require.Equal(t, int64(40), sz)

	require.NoError(t, app.Flush())
	require.NoError(t, app.Sync())
	require.NoError(t, app.Close())

	app, err = Open(path, DefaultOptions())
	require.NoError(t, err)
	defer app.Close()

	sz, err = app.Size()
	require.NoError(t, err)
	require.Equal(t, int64(40), sz, "the appendable was 40 bytes long when it was closed")
}
