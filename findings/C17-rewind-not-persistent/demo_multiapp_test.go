package multiapp

import (
	"bytes"
	"testing"

	"github.com/stretchr/testify/require"
)

func TestFindingSizeAfterRewindSurvivesReopen(t *testing.T) {
	dir := t.TempDir()
	app, err := Open(dir, DefaultOptions().WithFileSize(64))
	require.NoError(t, err)

	_, _, err = app.Append(bytes.Repeat([]byte{'A'}, 200)) // spans four chunks
	require.NoError(t, err)
	require.NoError(t, app.Flush())
	require.NoError(t, app.SetOffset(10))

	sz, err := app.Size()
	require.NoError(t, err)
	require.Equal(t, int64(10), sz)

	require.NoError(t, app.Flush())
	require.NoError(t, app.Sync())
	require.NoError(t, app.Close())

	app, err = Open(dir, DefaultOptions().WithFileSize(64))
	require.NoError(t, err)
	defer app.Close()

	sz, err = app.Size()
	require.NoError(t, err)
	require.Equal(t, int64(10), sz, "the appendable was 10 bytes long when it was closed")
}
