// Demonstration for defect 2: TxMetadata.ReadFrom panics when the length field
// of the `extra` attribute is larger than the remaining input.
//
// Place as embedded/store/zz_defect_2_test.go and run:
//   go test -count=1 -run 'TestZZDefect2' ./embedded/store/
package store

import (
	"bytes"
	"fmt"
	"testing"

	"github.com/stretchr/testify/require"
)

func zzDefect2ReadFrom(b []byte) (md *TxMetadata, err error, panicked interface{}) {
	defer func() {
		panicked = recover()
	}()

	md = NewTxMetadata()
	err = md.ReadFrom(b)
	return
}

func TestZZDefect2ExtraLengthLargerThanInput(t *testing.T) {
	// attribute code 1 (extra), declared length 0x0010, only 3 bytes follow
	md, err, p := zzDefect2ReadFrom([]byte{1, 0, 0x10, 1, 2, 3})
	require.Nil(t, p, "ReadFrom panicked: %v", p)
	require.ErrorIs(t, err, ErrCorruptedData, "short extra accepted as %v", md.Extra())
}

func TestZZDefect2ExtraLengthLargerThanInputNoTrailingBytes(t *testing.T) {
	// does not panic on the pinned code but yields a zero-padded 16 bytes extra
	md, err, p := zzDefect2ReadFrom([]byte{1, 0, 0x10})
	require.Nil(t, p, "ReadFrom panicked: %v", p)
	require.ErrorIs(t, err, ErrCorruptedData, "short extra accepted as %v", md.Extra())
}

func TestZZDefect2EveryPrefixIsHandled(t *testing.T) {
	md := NewTxMetadata().WithTruncatedTxID(10)
	require.NoError(t, md.WithExtra(bytes.Repeat([]byte{7}, 100)))

	b := md.Bytes()

	rmd, err, p := zzDefect2ReadFrom(b)
	require.Nil(t, p)
	require.NoError(t, err)
	require.True(t, md.Equal(rmd))

	for n := 0; n < len(b); n++ {
		t.Run(fmt.Sprintf("len=%d", n), func(t *testing.T) {
			rmd, err, p := zzDefect2ReadFrom(b[:n])
			require.Nil(t, p, "ReadFrom panicked: %v", p)

			// attribute boundaries are legit prefixes
			if n == 0 || n == attrCodeSize+truncatedUptoTxAttrSize {
				require.NoError(t, err)
				return
			}

			require.ErrorIs(t, err, ErrCorruptedData, "truncated metadata accepted, extra=%v", rmd.Extra())
		})
	}
}

// kv metadata deserializers are already safe with short input (regression guard)
func TestZZDefect2KVMetadataShortInput(t *testing.T) {
	for _, b := range [][]byte{{1}, {1, 0, 0, 0}, {0, 1, 1, 2, 3}, {2, 1}, {3}, {0, 0, 0, 0, 0, 0, 0, 0, 0, 0, 0, 0}} {
		func() {
			defer func() {
				require.Nil(t, recover())
			}()

			md := NewKVMetadata()
			require.Error(t, md.unsafeReadFrom(b))
		}()
	}
}

// declared length greater than maxExtraLen (but fitting into maxTxMetadataLen) must be rejected,
// otherwise serialization of the accepted metadata (e.g. when calculating Alh) panics
func TestZZDefect2ExtraLongerThanMaxExtraLen(t *testing.T) {
	b := append([]byte{1, 0x01, 0x05}, bytes.Repeat([]byte{7}, 0x0105)...)

	md, err, p := zzDefect2ReadFrom(b)
	require.Nil(t, p, "ReadFrom panicked: %v", p)

	if err == nil {
		defer func() {
			p := recover()
			require.Nil(t, p, "Bytes() of accepted metadata panicked: %v", p)
		}()

		md.Bytes()
	}

	require.ErrorIs(t, err, ErrCorruptedData)
}
