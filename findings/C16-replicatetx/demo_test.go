// Demonstration for defect 3: ImmuStore.ReplicateTx panics on malformed exported-tx bytes.
//
// Place as embedded/store/zz_defect_3_test.go and run:
//   go test -count=1 -run 'TestZZDefect3' ./embedded/store/
package store

import (
	"context"
	"fmt"
	"testing"
	"time"

	"github.com/stretchr/testify/require"
)

func zzDefect3Replicate(s *ImmuStore, etx []byte) (hdr *TxHeader, err error, panicked interface{}) {
	defer func() {
		panicked = recover()
	}()

	hdr, err = s.ReplicateTx(context.Background(), etx, false, false)
	return
}

// returns a valid exported tx having one entry with kv metadata and one without
func zzDefect3ExportedTx(t *testing.T) (*TxHeader, []byte) {
	primaryStore, err := Open(t.TempDir(), DefaultOptions())
	require.NoError(t, err)
	defer immustoreClose(t, primaryStore)

	tx, err := primaryStore.NewWriteOnlyTx(context.Background())
	require.NoError(t, err)

	md := NewKVMetadata()
	require.NoError(t, md.ExpiresAt(time.Now().Add(time.Hour)))

	require.NoError(t, tx.Set([]byte("key1"), nil, []byte("value1")))
	require.NoError(t, tx.Set([]byte("key2"), md, []byte("value2")))

	hdr, err := tx.Commit(context.Background())
	require.NoError(t, err)

	etx, err := primaryStore.ExportTx(1, false, false, tempTxHolder(t, primaryStore))
	require.NoError(t, err)

	// trailer is: tLen(2 bytes)=1, truncated flag(1 byte)=0
	require.Equal(t, []byte{0, 1, 0}, etx[len(etx)-3:])

	return hdr, etx
}

// valid export whose truncation trailer declares tLen == 0
func TestZZDefect3EmptyTruncationTrailer(t *testing.T) {
	hdr, etx := zzDefect3ExportedTx(t)

	replicaStore, err := Open(t.TempDir(), DefaultOptions())
	require.NoError(t, err)
	defer immustoreClose(t, replicaStore)

	malformed := append(append([]byte{}, etx[:len(etx)-3]...), 0, 0)

	rhdr, err, p := zzDefect3Replicate(replicaStore, malformed)
	require.Nil(t, p, "ReplicateTx panicked: %v", p)
	if err == nil {
		// no truncation info: values are present
		require.Equal(t, hdr.Alh(), rhdr.Alh())
	}
}

// valid export followed by a single byte (tLen can not be read)
func TestZZDefect3ShortTruncationTrailer(t *testing.T) {
	_, etx := zzDefect3ExportedTx(t)

	replicaStore, err := Open(t.TempDir(), DefaultOptions())
	require.NoError(t, err)
	defer immustoreClose(t, replicaStore)

	malformed := append(append([]byte{}, etx[:len(etx)-3]...), 0)

	_, err, p := zzDefect3Replicate(replicaStore, malformed)
	require.Nil(t, p, "ReplicateTx panicked: %v", p)
	require.Error(t, err)
}

// any strict prefix of an exported tx must result in an error, never a panic
func TestZZDefect3EveryPrefixIsRejected(t *testing.T) {
	_, etx := zzDefect3ExportedTx(t)

	replicaStore, err := Open(t.TempDir(), DefaultOptions())
	require.NoError(t, err)
	defer immustoreClose(t, replicaStore)

	for n := 0; n < len(etx); n++ {
		if n == len(etx)-3 {
			// legit: exported tx without truncation trailer
			continue
		}

		t.Run(fmt.Sprintf("len=%d", n), func(t *testing.T) {
			_, err, p := zzDefect3Replicate(replicaStore, etx[:n])
			require.Nil(t, p, "ReplicateTx panicked: %v", p)
			require.Error(t, err)
		})
	}
}
