package ahtree

import (
	"crypto/sha256"
	"testing"

	"github.com/stretchr/testify/require"
)

// A last-inclusion proof must verify only for the tree size it was produced for.
func TestZZLastInclusionProofBoundToSize(t *testing.T) {
	tree, err := Open(t.TempDir(), DefaultOptions())
	require.NoError(t, err)
	defer tree.Close()

	for i := 0; i < 5; i++ {
		_, _, err := tree.Append([]byte{byte(i)})
		require.NoError(t, err)
	}

	root, err := tree.RootAt(5)
	require.NoError(t, err)

	proof, err := tree.InclusionProof(5, 5)
	require.NoError(t, err)

	b := []byte{LeafPrefix, 4}
	leaf := sha256.Sum256(b)

	require.True(t, VerifyLastInclusion(proof, 5, leaf, root))

	for _, shifted := range []uint64{1, 2, 3, 4, 6, 7, 100} {
		require.False(t, VerifyLastInclusion(proof, shifted, leaf, root), "proof for size 5 verifies as a last-inclusion proof for size %d", shifted)
	}
}
