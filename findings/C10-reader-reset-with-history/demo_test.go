package tbtree

// Demo (C10): Reset of a reader that includes history, in the middle of a key's history, does not restart the scan.
// Placement: copy to embedded/tbtree/zz_demo_test.go; run: go test -count=1 -run TestDemoC10ReaderResetWithHistory ./embedded/tbtree/

import (
	"errors"
	"fmt"
	"testing"

	"github.com/stretchr/testify/require"
)

func TestDemoC10ReaderResetWithHistory(t *testing.T) {
	tree, err := Open(t.TempDir(), DefaultOptions())
	require.NoError(t, err)
	defer tree.Close()

	for i := 0; i < 3; i++ {
		for _, k := range []string{"a", "b", "c"} {
			require.NoError(t, tree.Insert([]byte(k), []byte(fmt.Sprintf("%s%d", k, i))))
		}
	}

	snap, err := tree.Snapshot()
	require.NoError(t, err)
	defer snap.Close()

	r, err := snap.NewReader(ReaderSpec{IncludeHistory: true})
	require.NoError(t, err)
	defer r.Close()

	readAll := func() (res []string) {
		for {
			k, v, _, _, err := r.Read()
			if errors.Is(err, ErrNoMoreEntries) {
				return
			}
			require.NoError(t, err)
			res = append(res, string(k)+"="+string(v))
		}
	}

	full := readAll()
	require.Len(t, full, 9)

	// read one version of key 'a' only, then restart
	require.NoError(t, r.Reset())
	_, _, _, _, err = r.Read()
	require.NoError(t, err)

	require.NoError(t, r.Reset())
	require.Equal(t, full, readAll(), "a reader that was reset replays the same sequence")
}
