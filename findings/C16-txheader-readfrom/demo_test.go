// Demonstration for defect 1: TxHeader.ReadFrom panics on a truncated v1 header.
//
// Place as embedded/store/zz_defect_1_test.go and run:
//   go test -count=1 -run 'TestZZDefect1' ./embedded/store/
package store

import (
	"bytes"
	"fmt"
	"testing"

	"github.com/stretchr/testify/require"
)

func zzDefect1ReadFrom(b []byte) (hdr *TxHeader, err error, panicked interface{}) {
	defer func() {
		panicked = recover()
	}()

	hdr = &TxHeader{}
	err = hdr.ReadFrom(b)
	return
}

func zzDefect1Header(t *testing.T, extraLen int) []byte {
	hdr := &TxHeader{
		ID:       2,
		Ts:       1,
		Version:  1,
		NEntries: 1,
		BlTxID:   1,
	}
	for i := range hdr.Eh {
		hdr.Eh[i] = 0xE0
		hdr.BlRoot[i] = 0xB0
	}

	if extraLen > 0 {
		hdr.Metadata = NewTxMetadata()
		require.NoError(t, hdr.Metadata.WithExtra(bytes.Repeat([]byte{7}, extraLen)))
	}

	b, err := hdr.Bytes()
	require.NoError(t, err)

	// sanity: the complete header is readable
	_, err, p := zzDefect1ReadFrom(b)
	require.Nil(t, p)
	require.NoError(t, err)

	return b
}

// valid v1 header with 100 bytes of extra metadata, tail cut by 60 bytes
func TestZZDefect1TruncatedV1HeaderWithMetadata(t *testing.T) {
	b := zzDefect1Header(t, 100)

	_, err, p := zzDefect1ReadFrom(b[:len(b)-60])
	require.Nil(t, p, "ReadFrom panicked: %v", p)
	require.Error(t, err)
}

// every strict prefix of a valid header must be rejected with an error:
// no panic and no silently zero-padded fields
func TestZZDefect1EveryPrefixIsRejected(t *testing.T) {
	for _, extraLen := range []int{0, 1, 100, maxExtraLen} {
		b := zzDefect1Header(t, extraLen)

		for n := 0; n < len(b); n++ {
			t.Run(fmt.Sprintf("extra=%d/len=%d", extraLen, n), func(t *testing.T) {
				hdr, err, p := zzDefect1ReadFrom(b[:n])
				require.Nil(t, p, "ReadFrom panicked: %v", p)
				require.Error(t, err, "truncated header accepted, BlRoot=%x", hdr.BlRoot)
			})
		}
	}
}
