// Demo (C15: SQL row values decode back to an equal value). Placement: copy to embedded/sql/zz_demo_test.go and run
//
//	go test -count=1 -run TestDemoC15FileSort ./embedded/sql/
//
// ORDER BY on a column without index sorts in memory until the sort buffer is full, then through temporary files whose
// row codec wrote NULL and the empty string alike (both as a zero length) and the size of a row in 16 bits.
package sql

import (
	"context"
	"fmt"
	"strings"
	"testing"

	"github.com/codenotary/immudb/embedded/store"
	"github.com/stretchr/testify/require"
)

func TestDemoC15FileSort(t *testing.T) {
	st, err := store.Open(t.TempDir(), store.DefaultOptions().WithMultiIndexing(true).WithMaxValueLen(1<<20))
	require.NoError(t, err)
	defer closeStore(t, st)

	e, err := NewEngine(st, DefaultOptions().WithPrefix(sqlPrefix).WithSortBufferSize(4))
	require.NoError(t, err)

	ctx := context.Background()

	_, _, err = e.Exec(ctx, nil, "CREATE TABLE t (id INTEGER, s VARCHAR, PRIMARY KEY id)", nil)
	require.NoError(t, err)

	for i := 0; i < 20; i++ {
		_, _, err = e.Exec(ctx, nil, fmt.Sprintf("INSERT INTO t(id, s) VALUES (%d, '')", i), nil)
		require.NoError(t, err)
	}

	rows, err := e.queryAll(ctx, nil, "SELECT id, s FROM t ORDER BY s", nil)
	require.NoError(t, err)
	require.Len(t, rows, 20)

	for _, r := range rows {
		require.False(t, r.ValuesByPosition[1].IsNull(), "an empty string came back as NULL from ORDER BY (row id %v)", r.ValuesByPosition[0].RawValue())
		require.Equal(t, "", r.ValuesByPosition[1].RawValue())
	}

	// a row larger than 64 KiB
	big := strings.Repeat("x", 70000)
	_, _, err = e.Exec(ctx, nil, "INSERT INTO t(id, s) VALUES (100, @s)", map[string]interface{}{"s": big})
	require.NoError(t, err)

	rows, err = e.queryAll(ctx, nil, "SELECT id, s FROM t ORDER BY s DESC", nil)
	require.NoError(t, err, "a row larger than 64 KiB can not be sorted through files")
	require.Len(t, rows, 21)
	require.Equal(t, big, rows[0].ValuesByPosition[1].RawValue())
}
