package store

import (
	"context"
	"testing"

	"github.com/stretchr/testify/require"
)

// A read-write transaction scans a prefix through a key reader whose spec was built in a scratch
// buffer, then reuses the buffer. Another transaction commits a key under the scanned prefix. The
// first transaction's commit must be rejected with a read conflict: the range it observed changed.
func TestFindingKeyReaderSpecIsCopiedIntoReadSet(t *testing.T) {
	st, err := Open(t.TempDir(), DefaultOptions().WithMaxConcurrency(1))
	require.NoError(t, err)
	defer st.Close()
	ctx := context.Background()

	tx0, err := st.NewWriteOnlyTx(ctx)
	require.NoError(t, err)
	require.NoError(t, tx0.Set([]byte("other"), nil, []byte("v")))
	_, err = tx0.Commit(ctx)
	require.NoError(t, err)

	tx1, err := st.NewTx(ctx, DefaultTxOptions())
	require.NoError(t, err)

	buf := []byte("acct/alice/")
	r, err := tx1.NewKeyReader(KeyReaderSpec{Prefix: buf})
	require.NoError(t, err)
	n := 0
	for {
		_, _, err := r.Read(ctx)
		if err != nil {
			require.ErrorIs(t, err, ErrNoMoreEntries)
			break
		}
		n++
	}
	require.Equal(t, 0, n)
	require.NoError(t, r.Close())

	// the caller reuses its buffer for something else
	copy(buf, []byte("zzzz/zzzzz/"))

	// a concurrent transaction adds a key to the range tx1 has scanned
	tx2, err := st.NewWriteOnlyTx(ctx)
	require.NoError(t, err)
	require.NoError(t, tx2.Set([]byte("acct/alice/1"), nil, []byte("v")))
	_, err = tx2.Commit(ctx)
	require.NoError(t, err)

	require.NoError(t, tx1.Set([]byte("alice-count"), nil, []byte("0")))
	_, err = tx1.Commit(ctx)
	require.ErrorIs(t, err, ErrTxReadConflict, "tx1 counted the keys under acct/alice/ as 0, a key was added to that range before it committed, and its commit was accepted")
}
