// Demo (C14): "repeated or concurrent truncation is harmless": concurrent TruncateUptoTx calls deadlock and leave every
// value log locked (writers, readers and Close hang).
// Placement: copy to embedded/store/zz_demo_test.go; run: go test -count=1 -run TestDemoC14ConcurrentTruncate ./embedded/store/
package store

import (
	"context"
	"fmt"
	"sync"
	"testing"
	"time"

	"github.com/stretchr/testify/require"
)

// concurrent TruncateUptoTx calls with several value logs (MaxIOConcurrency > 1)
func TestDemoC14ConcurrentTruncate(t *testing.T) {
	fileSize := 1024
	opts := DefaultOptions().WithEmbeddedValues(false).WithFileSize(fileSize).WithMaxConcurrency(100).WithMaxIOConcurrency(4)

	st, err := Open(t.TempDir(), opts)
	require.NoError(t, err)
	// no deferred Close: it would hang too, all value logs stay locked

	for i := 1; i <= 40; i++ {
		tx, err := st.NewWriteOnlyTx(context.Background())
		require.NoError(t, err)
		require.NoError(t, tx.Set([]byte(fmt.Sprintf("key_%d", i)), nil, make([]byte, fileSize)))
		_, err = tx.Commit(context.Background())
		require.NoError(t, err)
	}

	done := make(chan struct{})
	go func() {
		defer close(done)
		for round := 0; round < 200; round++ {
			var wg sync.WaitGroup
			for g := 0; g < 4; g++ {
				wg.Add(1)
				go func() {
					defer wg.Done()
					_ = st.TruncateUptoTx(30)
				}()
			}
			wg.Wait()
		}
	}()

	select {
	case <-done:
	case <-time.After(20 * time.Second):
		t.Fatal("concurrent TruncateUptoTx calls deadlocked")
	}

	// the store must still serve writes
	wdone := make(chan error, 1)
	go func() {
		tx, err := st.NewWriteOnlyTx(context.Background())
		if err != nil {
			wdone <- err
			return
		}
		tx.Set([]byte("after"), nil, []byte("v"))
		_, err = tx.Commit(context.Background())
		wdone <- err
	}()
	select {
	case err := <-wdone:
		require.NoError(t, err)
	case <-time.After(20 * time.Second):
		t.Fatal("store unable to serve writes after concurrent truncation")
	}
}
