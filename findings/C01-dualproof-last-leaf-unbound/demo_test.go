// Demo (C01). Placement: copy to embedded/store/zz_demo_test.go
// Run: go test -count=1 -run TestDemoC01DualProofLastLeaf ./embedded/store/
//
// VerifyDualProof does not tie proof.TargetBlTxAlh (the last leaf of the target's binary-linking tree)
// to the trusted sourceAlh when sourceTxID == TargetTxHeader.BlTxID (the usual case "trusted N, new
// tx N+1"). A forged tx N+1 whose PrevAlh is the trusted alh_N but whose BlRoot is a tree in which
// leaf N is the alh of a REWRITTEN tx N verifies. Once the client trusts it, every later proof
// "tx N is included in the tree" is answered with the rewritten tx N, which then verifies too.
//
// The test FAILS when the flaw is present (the forged proof verifies).
package store

import (
	"context"
	"fmt"
	"testing"
	"time"

	"github.com/stretchr/testify/require"
)

func TestDemoC01DualProofLastLeaf(t *testing.T) {
	const n = 8

	fixedTime := func() time.Time { return time.Unix(1_700_000_000, 0) }

	openStore := func() *ImmuStore {
		opts := DefaultOptions().WithSynced(false).WithMaxConcurrency(1).WithTimeFunc(fixedTime)
		st, err := Open(t.TempDir(), opts)
		require.NoError(t, err)
		t.Cleanup(func() { immustoreClose(t, st) })
		return st
	}

	commit := func(st *ImmuStore, key, value string) *TxHeader {
		tx, err := st.NewWriteOnlyTx(context.Background())
		require.NoError(t, err)
		require.NoError(t, tx.Set([]byte(key), nil, []byte(value)))
		hdr, err := tx.Commit(context.Background())
		require.NoError(t, err)
		return hdr
	}

	original := openStore()
	rewritten := openStore()

	for i := 1; i < n; i++ {
		h1 := commit(original, fmt.Sprintf("key%d", i), fmt.Sprintf("value%d", i))
		h2 := commit(rewritten, fmt.Sprintf("key%d", i), fmt.Sprintf("value%d", i))
		require.Equal(t, h1.Alh(), h2.Alh())
	}

	origN := commit(original, "balance", "100")
	forgN := commit(rewritten, "balance", "999")
	require.NotEqual(t, origN.Alh(), forgN.Alh())

	trustedAlh := origN.Alh() // the client trusts (N, alh of "balance=100")

	commit(rewritten, "other", "entry") // tx N+1 on top of the rewritten N

	origHdrN, err := original.ReadTxHeader(n, false, false)
	require.NoError(t, err)
	rewHdrN, err := rewritten.ReadTxHeader(n, false, false)
	require.NoError(t, err)
	rewHdrN1, err := rewritten.ReadTxHeader(n+1, false, false)
	require.NoError(t, err)

	// ---- step 1: forged tx N+1: linear chain continues the TRUSTED tx N, binary tree holds the REWRITTEN tx N
	forgedN1 := *rewHdrN1
	forgedN1.PrevAlh = trustedAlh
	forgedN1Alh := forgedN1.Alh()

	proof, err := rewritten.DualProof(rewHdrN, rewHdrN1)
	require.NoError(t, err)

	proof.SourceTxHeader = origHdrN
	proof.TargetTxHeader = &forgedN1
	proof.LinearProof.Terms[0] = trustedAlh // Terms[1] is the inner hash, it does not cover PrevAlh
	require.Equal(t, forgN.Alh(), proof.TargetBlTxAlh, "last leaf of the target tree is the rewritten tx N")

	require.False(t, VerifyDualProof(proof, n, n+1, trustedAlh, forgedN1Alh),
		"a forged tx N+1 whose binary-linking tree holds a REWRITTEN tx N verifies from the trusted (N, original): once it is trusted, inclusion proofs of the rewritten tx N verify as well")

	// the honest proof still verifies
	honest, err := original.DualProof(origHdrN, origHdrN)
	require.NoError(t, err)
	require.True(t, VerifyDualProof(honest, n, n, trustedAlh, trustedAlh))
}
