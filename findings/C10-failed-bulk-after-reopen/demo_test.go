package tbtree

import (
	"fmt"
	"testing"

	"github.com/stretchr/testify/require"
)

// A bulk insertion that fails leaves the tree as it was before the bulk. After a restart (no snapshot
// taken yet in this process) a failing bulk must not wipe the content loaded from disk.
func TestFindingFailedBulkAfterReopenKeepsTheTree(t *testing.T) {
	dir := t.TempDir()
	tree, err := Open(dir, DefaultOptions())
	require.NoError(t, err)
	for i := 0; i < 20; i++ {
		require.NoError(t, tree.Insert([]byte(fmt.Sprintf("key-%02d", i)), []byte("v")))
	}
	require.NoError(t, tree.Close())

	tree, err = Open(dir, DefaultOptions())
	require.NoError(t, err)
	defer tree.Close()

	// a successful insertion: the root becomes a private, mutated copy
	require.NoError(t, tree.Insert([]byte("late"), []byte("v")))

	// a bulk that fails half way: the second entry of the same key carries an older timestamp
	ts := tree.Ts()
	err = tree.BulkInsert([]*KVT{
		{K: []byte("other"), V: []byte("v2"), T: ts + 2},
		{K: []byte("other"), V: []byte("v1"), T: ts + 1},
	})
	require.ErrorIs(t, err, ErrIllegalArguments)

	_, _, _, err = tree.Get([]byte("key-00"))
	require.NoError(t, err, "a key stored and flushed before the restart is gone after a failed bulk insertion")
	require.GreaterOrEqual(t, tree.Ts(), uint64(20))
}
