package ahtree

// Demo (C08): positions are 1-based; the verifiers reject i == 0, the proof constructors do not.
// Placement: copy to embedded/ahtree/zz_demo_test.go; run: go test -count=1 -run TestDemoC08ProofIndexZero ./embedded/ahtree/

import (
	"testing"

	"github.com/stretchr/testify/require"
)

func TestDemoC08ProofIndexZero(t *testing.T) {
	tree, err := Open(t.TempDir(), DefaultOptions())
	require.NoError(t, err)
	defer tree.Close()

	for i := 0; i < 3; i++ {
		_, _, err := tree.Append([]byte{byte(i)})
		require.NoError(t, err)
	}

	_, err = tree.InclusionProof(0, 3)
	require.ErrorIs(t, err, ErrIllegalArguments, "there is no leaf 0")

	_, err = tree.ConsistencyProof(0, 3)
	require.ErrorIs(t, err, ErrIllegalArguments, "there is no tree of size 0 to be consistent with")

	require.NotPanics(t, func() { tree.InclusionProof(0, 0) })
	require.NotPanics(t, func() { tree.ConsistencyProof(0, 0) })
}
