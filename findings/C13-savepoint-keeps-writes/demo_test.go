package sql

import (
	"context"
	"testing"

	"github.com/codenotary/immudb/embedded/store"
	"github.com/stretchr/testify/require"
)

// ROLLBACK TO SAVEPOINT must undo the statements executed after the savepoint.
func TestZZRollbackToSavepointUndoesWrites(t *testing.T) {
	st, err := store.Open(t.TempDir(), store.DefaultOptions().WithMultiIndexing(true))
	require.NoError(t, err)
	defer st.Close()

	engine, err := NewEngine(st, DefaultOptions().WithPrefix(sqlPrefix))
	require.NoError(t, err)

	_, _, err = engine.Exec(context.Background(), nil, "CREATE TABLE t (id INTEGER, PRIMARY KEY id)", nil)
	require.NoError(t, err)

	_, _, err = engine.Exec(context.Background(), nil, `
		BEGIN TRANSACTION;
		INSERT INTO t (id) VALUES (1);
		SAVEPOINT s;
		INSERT INTO t (id) VALUES (2);
		ROLLBACK TO SAVEPOINT s;
		COMMIT;`, nil)
	require.NoError(t, err)

	rows, err := engine.queryAll(context.Background(), nil, "SELECT id FROM t", nil)
	require.NoError(t, err)
	require.Len(t, rows, 1, "the row inserted after the savepoint must have been rolled back")
}
