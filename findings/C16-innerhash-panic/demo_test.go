// Demonstration for defect 5: TxHeader.Alh()/innerHash panics on an unknown header version,
// reachable from client-side code handling server-provided headers.
// NOTE: no repair is proposed for this one (see notes.md), this demonstration fails on the pinned code.
//
// Place as pkg/api/schema/zz_defect_5_test.go and run:
//   go test -count=1 -run 'TestZZDefect5' ./pkg/api/schema/
package schema

import (
	"testing"

	"github.com/codenotary/immudb/embedded/store"
	"github.com/stretchr/testify/require"
)

func zzDefect5Header(id uint64, version int32) *TxHeader {
	return &TxHeader{
		Id:       id,
		PrevAlh:  make([]byte, 32),
		Ts:       1,
		Version:  version,
		Nentries: 1,
		EH:       make([]byte, 32),
		BlTxId:   id - 1,
		BlRoot:   make([]byte, 32),
	}
}

// as done in pkg/client (verifiedGet, VerifiedTxByID, ...), pkg/verification and immuadmin hot backup
func TestZZDefect5AlhOfServerProvidedHeader(t *testing.T) {
	defer func() {
		p := recover()
		require.Nil(t, p, "panicked: %v", p)
	}()

	_ = TxHeaderFromProto(zzDefect5Header(2, 2)).Alh()
}

// as done in pkg/client.verifyDualProof with the dual proof returned by the server
func TestZZDefect5VerifyDualProofOfServerProvidedProof(t *testing.T) {
	defer func() {
		p := recover()
		require.Nil(t, p, "panicked: %v", p)
	}()

	proof := DualProofFromProto(&DualProof{
		SourceTxHeader: zzDefect5Header(1, 1),
		TargetTxHeader: zzDefect5Header(2, 2),
		LinearProof:    &LinearProof{},
	})

	sourceAlh := proof.SourceTxHeader.Alh()

	require.False(t, store.VerifyDualProof(proof, 1, 2, sourceAlh, [32]byte{}))
}

func TestZZDefect5VerifyDualProofV2OfServerProvidedProof(t *testing.T) {
	defer func() {
		p := recover()
		require.Nil(t, p, "panicked: %v", p)
	}()

	proof := DualProofV2FromProto(&DualProofV2{
		SourceTxHeader: zzDefect5Header(1, 1),
		TargetTxHeader: zzDefect5Header(2, 2),
	})

	sourceAlh := proof.SourceTxHeader.Alh()

	require.Error(t, store.VerifyDualProofV2(proof, 1, 2, sourceAlh, [32]byte{}))
}
