// Reproduction on the UNMODIFIED tree (C16, on-disk index nodes at read time): a node of the nodes log that is
// not covered by the checksum of the last synced commit entry (it was written by an earlier flush) gets zeroed on
// disk. Zero bytes decode as an inner node (type 0) with 0 children; the first lookup that descends into it panics
// with index out of range instead of returning a corruption error.
//
// Placement: embedded/tbtree/zz_finding_test.go
//   go test -count=1 -run TestFindingC16 ./embedded/tbtree/
package tbtree

import (
	"encoding/binary"
	"fmt"
	"os"
	"path/filepath"
	"testing"

	"github.com/stretchr/testify/require"
)

func TestFindingC16_ZeroedNodeInNodesLog(t *testing.T) {
	dir := t.TempDir()

	opts := DefaultOptions().WithMaxNodeSize(512).WithMaxKeySize(16).WithMaxValueSize(16)

	tree, err := Open(dir, opts)
	require.NoError(t, err)

	for i := 0; i < 200; i++ {
		require.NoError(t, tree.Insert([]byte(fmt.Sprintf("key%05d", i)), []byte("value")))
	}
	_, _, err = tree.FlushWith(0, true)
	require.NoError(t, err)

	// a second (synced) flush rewrites only the path to the last leaf: the older nodes stay referenced
	require.NoError(t, tree.Insert([]byte(fmt.Sprintf("key%05d", 199)), []byte("value2")))
	_, _, err = tree.FlushWith(0, true)
	require.NoError(t, err)
	require.NoError(t, tree.Close())

	// locate the first child of the root (written by the first flush)
	tree, err = Open(dir, opts)
	require.NoError(t, err)
	root, ok := tree.root.(*innerNode)
	require.True(t, ok)
	ref, ok := root.nodes[0].(*nodeRef)
	require.True(t, ok)
	victimOff := ref.off
	require.NoError(t, tree.Close())

	// zero the first bytes of that node in the nodes file
	fname := filepath.Join(dir, "nodes", "00000000.n")
	raw, err := os.ReadFile(fname)
	require.NoError(t, err)
	base := 4 + int64(binary.BigEndian.Uint32(raw))
	for i := int64(0); i < 64; i++ {
		raw[base+victimOff+i] = 0
	}
	require.NoError(t, os.WriteFile(fname, raw, 0644))

	var panicked interface{}
	var opErr error

	func() {
		defer func() { panicked = recover() }()

		var tree *TBtree
		tree, opErr = Open(dir, opts)
		if opErr != nil {
			return
		}
		defer tree.Close()

		_, _, _, opErr = tree.Get([]byte("key00000"))
	}()

	require.Nil(t, panicked, "lookup through a zeroed node panicked")
	require.Error(t, opErr)
}
