// Demonstration for defect 2.
// Place in: embedded/sql/zz_defect_2_test.go
// Run:      go test -count=1 -run 'TestZZDefect2' ./embedded/sql/
//
// NOT NULL is enforced on INSERT/UPSERT values but never on values assigned
// by UPDATE ... SET nor by INSERT ... ON CONFLICT DO UPDATE SET.
package sql

import (
	"context"
	"testing"

	"github.com/stretchr/testify/require"
)

func TestZZDefect2UpdateIgnoresNotNull(t *testing.T) {
	engine := setupCommonTest(t)

	_, _, err := engine.Exec(context.Background(), nil,
		`CREATE TABLE t (id INTEGER, n INTEGER NOT NULL, PRIMARY KEY id)`, nil)
	require.NoError(t, err)

	_, _, err = engine.Exec(context.Background(), nil, `INSERT INTO t (id, n) VALUES (1, 10)`, nil)
	require.NoError(t, err)

	// sanity: the insert path enforces NOT NULL
	_, _, err = engine.Exec(context.Background(), nil, `INSERT INTO t (id, n) VALUES (2, NULL)`, nil)
	require.ErrorIs(t, err, ErrNotNullableColumnCannotBeNull)

	_, _, err = engine.Exec(context.Background(), nil, `UPDATE t SET n = NULL WHERE id = 1`, nil)
	require.ErrorIs(t, err, ErrNotNullableColumnCannotBeNull)

	_, _, err = engine.Exec(context.Background(), nil, `UPDATE t SET n = @n WHERE id = 1`, map[string]interface{}{"n": nil})
	require.ErrorIs(t, err, ErrNotNullableColumnCannotBeNull)

	r, err := engine.Query(context.Background(), nil, `SELECT n FROM t WHERE id = 1`, nil)
	require.NoError(t, err)
	defer r.Close()

	row, err := r.Read(context.Background())
	require.NoError(t, err)
	require.False(t, row.ValuesByPosition[0].IsNull())
	require.Equal(t, int64(10), row.ValuesByPosition[0].RawValue())
}

func TestZZDefect2OnConflictDoUpdateIgnoresNotNull(t *testing.T) {
	engine := setupCommonTest(t)

	_, _, err := engine.Exec(context.Background(), nil,
		`CREATE TABLE t (id INTEGER, n INTEGER NOT NULL, PRIMARY KEY id)`, nil)
	require.NoError(t, err)

	_, _, err = engine.Exec(context.Background(), nil, `INSERT INTO t (id, n) VALUES (1, 10)`, nil)
	require.NoError(t, err)

	_, _, err = engine.Exec(context.Background(), nil,
		`INSERT INTO t (id, n) VALUES (1, 5) ON CONFLICT DO UPDATE SET n = NULL`, nil)
	require.ErrorIs(t, err, ErrNotNullableColumnCannotBeNull)

	r, err := engine.Query(context.Background(), nil, `SELECT n FROM t WHERE id = 1`, nil)
	require.NoError(t, err)
	defer r.Close()

	row, err := r.Read(context.Background())
	require.NoError(t, err)
	require.False(t, row.ValuesByPosition[0].IsNull())
}

// updating a nullable column to NULL must keep working
func TestZZDefect2UpdateNullableStillAllowed(t *testing.T) {
	engine := setupCommonTest(t)

	_, _, err := engine.Exec(context.Background(), nil,
		`CREATE TABLE t (id INTEGER, n INTEGER NOT NULL, s VARCHAR, PRIMARY KEY id)`, nil)
	require.NoError(t, err)

	_, _, err = engine.Exec(context.Background(), nil, `INSERT INTO t (id, n, s) VALUES (1, 10, 'a')`, nil)
	require.NoError(t, err)

	_, _, err = engine.Exec(context.Background(), nil, `UPDATE t SET s = NULL WHERE id = 1`, nil)
	require.NoError(t, err)
}
