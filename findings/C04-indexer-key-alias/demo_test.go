// Demonstration for defect 1 (bulk indexing retains an alias to the pooled tx buffer).
//
// Place this file at embedded/store/zz_defect_1_test.go and run:
//
//	go test -count=1 -run TestDefect1BulkIndexingKeyAliasing ./embedded/store/
package store

import (
	"context"
	"fmt"
	"testing"
	"time"

	"github.com/stretchr/testify/require"
)

func TestDefect1BulkIndexingKeyAliasing(t *testing.T) {
	opts := DefaultOptions().WithSynced(false).WithMaxConcurrency(1)
	opts.WithIndexOptions(opts.IndexOpts.
		WithMaxBulkSize(4).
		WithBulkPreparationTimeout(100 * time.Millisecond))

	st, err := Open(t.TempDir(), opts)
	require.NoError(t, err)
	defer st.Close()

	const txCount = 200

	for i := 0; i < txCount; i++ {
		tx, err := st.NewWriteOnlyTx(context.Background())
		require.NoError(t, err)

		err = tx.Set([]byte(fmt.Sprintf("key_%04d", i)), nil, []byte(fmt.Sprintf("value_%04d", i)))
		require.NoError(t, err)

		// AsyncCommit: do not wait for indexing, as concurrent writers would do
		hdr, err := tx.AsyncCommit(context.Background())
		require.NoError(t, err)
		require.Equal(t, uint64(i+1), hdr.ID)
	}

	err = st.WaitForIndexingUpto(context.Background(), txCount)
	require.NoError(t, err)

	missing := 0
	wrong := 0

	for i := 0; i < txCount; i++ {
		valRef, err := st.Get(context.Background(), []byte(fmt.Sprintf("key_%04d", i)))
		if err != nil {
			require.ErrorIs(t, err, ErrKeyNotFound)
			missing++
			continue
		}

		val, err := valRef.Resolve()
		require.NoError(t, err)

		if string(val) != fmt.Sprintf("value_%04d", i) || valRef.Tx() != uint64(i+1) {
			wrong++
		}
	}

	require.Zero(t, missing, "%d of %d committed keys are not found in the index", missing, txCount)
	require.Zero(t, wrong, "%d of %d committed keys resolve to a wrong entry", wrong, txCount)
}
