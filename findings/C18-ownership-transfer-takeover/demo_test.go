// Demo (C18): granting a permission makes the granter the "creator" of the target account, and the creator may
// change its password: an administrator of db1 only takes over an administrator of db2.
// Placement: copy to pkg/server/zz_demo_test.go; run: go test -count=1 -run TestDemoC18OwnershipTransfer ./pkg/server/
package server

import (
	"context"
	"testing"

	"github.com/codenotary/immudb/pkg/api/schema"
	"github.com/codenotary/immudb/pkg/auth"
	"github.com/stretchr/testify/require"
	"google.golang.org/grpc/metadata"
)

func demoLogin(t *testing.T, s *ImmuServer, user, pass, db string) (context.Context, error) {
	lr, err := s.Login(context.Background(), &schema.LoginRequest{User: []byte(user), Password: []byte(pass)})
	if err != nil {
		return nil, err
	}

	ctx := metadata.NewIncomingContext(context.Background(), metadata.Pairs("authorization", lr.Token))

	if db != "" {
		ur, err := s.UseDatabase(ctx, &schema.Database{DatabaseName: db})
		if err != nil {
			return nil, err
		}
		ctx = metadata.NewIncomingContext(context.Background(), metadata.Pairs("authorization", ur.Token))
	}

	return ctx, nil
}

func TestDemoC18OwnershipTransfer(t *testing.T) {
	opts := DefaultOptions().
		WithDir(t.TempDir()).
		WithMetricsServer(false).
		WithWebServer(false).
		WithPgsqlServer(false).
		WithAdminPassword(auth.SysAdminPassword)

	s := DefaultServer().WithOptions(opts).(*ImmuServer)
	require.NoError(t, s.Initialize())
	defer s.CloseDatabases()

	sysCtx, err := demoLogin(t, s, auth.SysAdminUsername, auth.SysAdminPassword, "")
	require.NoError(t, err)

	for _, db := range []string{"db1", "db2"} {
		_, err := s.CreateDatabaseV2(sysCtx, &schema.CreateDatabaseRequest{Name: db})
		require.NoError(t, err)
	}

	sysDB2Ctx, err := demoLogin(t, s, auth.SysAdminUsername, auth.SysAdminPassword, "db2")
	require.NoError(t, err)
	_, err = s.Set(sysDB2Ctx, &schema.SetRequest{KVs: []*schema.KeyValue{{Key: []byte("secret"), Value: []byte("db2-only")}}})
	require.NoError(t, err)

	// alice administers db1 only, carol administers db2 only; both accounts were created by the system administrator
	_, err = s.CreateUser(sysCtx, &schema.CreateUserRequest{User: []byte("alice"), Password: []byte("Alice_Passw0rd!"), Permission: auth.PermissionAdmin, Database: "db1"})
	require.NoError(t, err)
	_, err = s.CreateUser(sysCtx, &schema.CreateUserRequest{User: []byte("carol"), Password: []byte("Carol_Passw0rd!"), Permission: auth.PermissionAdmin, Database: "db2"})
	require.NoError(t, err)

	aliceCtx, err := demoLogin(t, s, "alice", "Alice_Passw0rd!", "db1")
	require.NoError(t, err)

	// alice did not create carol: she can not change her password
	_, err = s.ChangePassword(aliceCtx, &schema.ChangePasswordRequest{User: []byte("carol"), NewPassword: []byte("Stolen_Passw0rd!")})
	require.Error(t, err)

	// alice is entitled to grant permissions on her own database
	_, err = s.ChangePermission(aliceCtx, &schema.ChangePermissionRequest{Action: schema.PermissionAction_GRANT, Username: "carol", Database: "db1", Permission: auth.PermissionR})
	require.NoError(t, err)

	// ... which must not make carol's account hers
	_, err = s.ChangePassword(aliceCtx, &schema.ChangePasswordRequest{User: []byte("carol"), NewPassword: []byte("Stolen_Passw0rd!")})
	if err == nil {
		carolCtx, lerr := demoLogin(t, s, "carol", "Stolen_Passw0rd!", "db2")
		require.NoError(t, lerr)
		e, gerr := s.Get(carolCtx, &schema.KeyRequest{Key: []byte("secret")})
		require.NoError(t, gerr)
		_, serr := s.Set(carolCtx, &schema.SetRequest{KVs: []*schema.KeyValue{{Key: []byte("secret"), Value: []byte("overwritten")}}})
		t.Fatalf("an administrator of db1 only changed the password of an administrator of db2, logged in as her, read db2 (secret=%q) and wrote to it (err=%v)", e.Value, serr)
	}

	// nor may she deactivate it
	_, err = s.SetActiveUser(aliceCtx, &schema.SetActiveUserRequest{Username: "carol", Active: false})
	require.Error(t, err)
}
