package store

// Demo (C09/C16): the stored length of a value is covered by no hash; after a bit flip in it, reading the value
// allocates a buffer of the damaged length (here 2 GiB) before anything is checked.
// Placement: copy to embedded/store/zz_demo_test.go; run: go test -count=1 -run TestDemoC09DamagedValueLength ./embedded/store/

import (
	"bytes"
	"context"
	"os"
	"path/filepath"
	"runtime"
	"testing"

	"github.com/stretchr/testify/require"
)

func TestDemoC09DamagedValueLength(t *testing.T) {
	dir := t.TempDir()

	st, err := Open(dir, DefaultOptions())
	require.NoError(t, err)

	key := []byte("a-key-that-is-easy-to-find")

	tx, err := st.NewWriteOnlyTx(context.Background())
	require.NoError(t, err)
	require.NoError(t, tx.Set(key, nil, []byte("value")))
	_, err = tx.Commit(context.Background())
	require.NoError(t, err)
	require.NoError(t, st.Close())

	// tx log entry layout: ... kLen(2) key vLen(4) vOff(8) hVal(32): set the top bits of vLen
	files, err := filepath.Glob(filepath.Join(dir, "tx", "*.tx"))
	require.NoError(t, err)
	require.Len(t, files, 1)

	bs, err := os.ReadFile(files[0])
	require.NoError(t, err)
	i := bytes.Index(bs, key)
	require.Greater(t, i, 0)
	vLenAt := i + len(key)
	require.Equal(t, []byte{0, 0, 0, 5}, bs[vLenAt:vLenAt+4])
	bs[vLenAt] = 0x7f
	require.NoError(t, os.WriteFile(files[0], bs, 0644))

	st, err = Open(dir, DefaultOptions())
	require.NoError(t, err)
	defer st.Close()

	rtx := NewTx(st.MaxTxEntries(), st.MaxKeyLen())
	require.NoError(t, st.ReadTx(1, false, rtx), "the length of the value is not part of what the tx hashes cover")

	var before, after runtime.MemStats
	runtime.ReadMemStats(&before)

	_, err = st.ReadValue(rtx.Entries()[0])

	runtime.ReadMemStats(&after)

	require.Error(t, err)
	require.Less(t, after.TotalAlloc-before.TotalAlloc, uint64(64<<20),
		"reading a value whose stored length was damaged allocated %d MiB", (after.TotalAlloc-before.TotalAlloc)>>20)
}
