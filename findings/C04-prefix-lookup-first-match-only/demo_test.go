package store

// Demo (C04): a prefix lookup answers "not found" when the first key having the prefix is deleted, although live keys follow.
// Placement: copy to embedded/store/zz_demo_test.go; run: go test -count=1 -run TestDemoC04PrefixLookupSkipsDeleted ./embedded/store/

import (
	"context"
	"testing"

	"github.com/stretchr/testify/require"
)

func TestDemoC04PrefixLookupSkipsDeleted(t *testing.T) {
	st, err := Open(t.TempDir(), DefaultOptions())
	require.NoError(t, err)
	defer st.Close()

	ctx := context.Background()

	commit := func(key string, md *KVMetadata, value string) {
		tx, err := st.NewWriteOnlyTx(ctx)
		require.NoError(t, err)
		require.NoError(t, tx.Set([]byte(key), md, []byte(value)))
		_, err = tx.Commit(ctx)
		require.NoError(t, err)
	}

	commit("user:1", nil, "alice")
	commit("user:2", nil, "bob")
	commit("user:3", nil, "carol")

	key, _, err := st.GetWithPrefix(ctx, []byte("user:"), nil)
	require.NoError(t, err)
	require.Equal(t, "user:1", string(key))

	// logical deletion of the first key having the prefix
	md := NewKVMetadata()
	require.NoError(t, md.AsDeleted(true))
	commit("user:1", md, "")

	// store level
	key, _, err = st.GetWithPrefix(ctx, []byte("user:"), nil)
	require.NoError(t, err, "user:2 and user:3 are live keys having the prefix")
	require.Equal(t, "user:2", string(key))

	key, _, err = st.GetWithPrefix(ctx, []byte("user:"), []byte("user:2"))
	require.NoError(t, err)
	require.Equal(t, "user:3", string(key))

	// snapshot level
	snap, err := st.Snapshot(nil)
	require.NoError(t, err)
	defer snap.Close()

	key, _, err = snap.GetWithPrefix(ctx, []byte("user:"), nil)
	require.NoError(t, err)
	require.Equal(t, "user:2", string(key))

	// transaction level
	tx, err := st.NewTx(ctx, DefaultTxOptions())
	require.NoError(t, err)
	defer tx.Cancel()

	key, _, err = tx.GetWithPrefix(ctx, []byte("user:"), nil)
	require.NoError(t, err)
	require.Equal(t, "user:2", string(key))

	// all of them deleted: not found
	commit("user:2", md, "")
	commit("user:3", md, "")

	_, _, err = st.GetWithPrefix(ctx, []byte("user:"), nil)
	require.ErrorIs(t, err, ErrKeyNotFound)
}
