package sql

// Demo (C12 through C04): a UNIQUE index admits duplicates once the first index entry of a value is a tombstone.
// Placement: copy to embedded/sql/zz_demo_test.go; run: go test -count=1 -run TestDemoC12UniqueIndexAfterUpdate ./embedded/sql/

import (
	"context"
	"testing"

	"github.com/codenotary/immudb/embedded/store"
	"github.com/stretchr/testify/require"
)

func TestDemoC12UniqueIndexAfterUpdate(t *testing.T) {
	st, err := store.Open(t.TempDir(), store.DefaultOptions().WithMultiIndexing(true))
	require.NoError(t, err)
	defer st.Close()

	engine, err := NewEngine(st, DefaultOptions().WithPrefix(sqlPrefix))
	require.NoError(t, err)

	exec := func(q string) error {
		_, _, err := engine.Exec(context.Background(), nil, q, nil)
		return err
	}

	require.NoError(t, exec("CREATE TABLE t1 (id INTEGER, v INTEGER, PRIMARY KEY id)"))
	require.NoError(t, exec("CREATE UNIQUE INDEX ON t1(v)"))
	require.NoError(t, exec("INSERT INTO t1 (id, v) VALUES (1, 5)"))
	require.NoError(t, exec("UPDATE t1 SET v = 6 WHERE id = 1"))
	require.NoError(t, exec("INSERT INTO t1 (id, v) VALUES (2, 5)"))

	err = exec("INSERT INTO t1 (id, v) VALUES (3, 5)")
	require.ErrorIs(t, err, store.ErrKeyAlreadyExists, "row id=2 already holds v=5 under a UNIQUE index")
}
