// Demo (C14): a SQL sequence created before the cut no longer exists after value-log truncation and a restart.
// Placement: copy to pkg/database/zz_demo_test.go; run: go test -count=1 -run TestDemoC14SequencesSurviveTruncationAndRestart ./pkg/database/
package database

import (
	"context"
	"fmt"
	"os"
	"testing"

	"github.com/codenotary/immudb/embedded/logger"
	"github.com/codenotary/immudb/pkg/api/schema"
	"github.com/stretchr/testify/require"
)

// sequences (CTL.SEQUENCE.) and views (CTL.VIEW.) are not part of the catalog copy made before the value logs are cut
func TestDemoC14SequencesSurviveTruncationAndRestart(t *testing.T) {
	const fileSize = 1024

	options := DefaultOptions().WithDBRootPath(t.TempDir())
	options.storeOpts.WithFileSize(fileSize)
	options.storeOpts.MaxIOConcurrency = 1
	options.storeOpts.VLogCacheSize = 0
	options.storeOpts.EmbeddedValues = false

	log := logger.NewSimpleLogger("immudb ", os.Stderr)

	d, err := NewDB("db1", &dummyMultidbHandler{}, options, log)
	require.NoError(t, err)
	ctx := context.Background()

	exec := func(sql string) error {
		_, _, err := d.SQLExec(ctx, nil, &schema.SQLExecRequest{Sql: sql})
		return err
	}

	require.NoError(t, exec("CREATE TABLE employees (id INTEGER AUTO_INCREMENT, name VARCHAR[50], PRIMARY KEY id)"))
	require.NoError(t, exec("CREATE VIEW v_emp AS SELECT id, name FROM employees"))
	require.NoError(t, exec("CREATE SEQUENCE order_seq"))
	require.NoError(t, exec("INSERT INTO employees(name) VALUES ('a')"))

	rows, err := d.SQLQueryAll(ctx, nil, &schema.SQLQueryRequest{Sql: "SELECT * FROM v_emp"})
	require.NoError(t, err)
	require.Len(t, rows, 1)

	var last *schema.TxHeader
	for i := 1; i <= 10; i++ {
		last, err = d.Set(ctx, &schema.SetRequest{KVs: []*schema.KeyValue{{
			Key: []byte(fmt.Sprintf("key_%d", i)), Value: make([]byte, fileSize),
		}}})
		require.NoError(t, err)
	}

	require.NoError(t, NewVlogTruncator(d, logger.NewMemoryLogger()).TruncateUptoTx(ctx, last.Id))
	require.NoError(t, d.Close())

	d, err = OpenDB("db1", &dummyMultidbHandler{}, options, log)
	require.NoError(t, err)
	defer d.Close()

	require.NoError(t, exec("INSERT INTO employees(name) VALUES ('b')"))

	_, err = d.SQLQueryAll(ctx, nil, &schema.SQLQueryRequest{Sql: "SELECT * FROM v_emp"})
	t.Logf("view after truncation+restart: %v (views are also lost by a plain restart at db level)", err)

	_, err = d.SQLQueryAll(ctx, nil, &schema.SQLQueryRequest{Sql: "SELECT NEXTVAL('order_seq')"})
	require.NoError(t, err, "sequence lost after truncation+restart")
}
