package sql

// Demo (C12/C15): a CHECK constraint is persisted as the text String() renders; NOT IN loses its NOT and the simple
// CASE loses its operand, so the constraint enforced after the catalog is reloaded is not the declared one.
// Placement: copy to embedded/sql/zz_demo_test.go; run: go test -count=1 -run TestDemoC12CheckTextRoundTrip ./embedded/sql/

import (
	"context"
	"testing"

	"github.com/codenotary/immudb/embedded/store"
	"github.com/stretchr/testify/require"
)

func TestDemoC12CheckTextRoundTrip(t *testing.T) {
	for _, exp := range []string{
		"v NOT IN (1, 2)",
		"CASE v WHEN 1 THEN false WHEN 2 THEN false ELSE true END",
	} {
		parsed, err := ParseExpFromString(exp)
		require.NoError(t, err)

		reparsed, err := ParseExpFromString(parsed.String())
		require.NoError(t, err, "the persisted text %q must be an expression", parsed.String())
		require.Equal(t, parsed, reparsed, "%q is persisted as %q", exp, parsed.String())
	}

	st, err := store.Open(t.TempDir(), store.DefaultOptions().WithMultiIndexing(true))
	require.NoError(t, err)
	defer st.Close()

	engine, err := NewEngine(st, DefaultOptions().WithPrefix(sqlPrefix))
	require.NoError(t, err)

	exec := func(q string) error {
		_, _, err := engine.Exec(context.Background(), nil, q, nil)
		return err
	}

	require.NoError(t, exec("CREATE TABLE t1 (id INTEGER AUTO_INCREMENT, v INTEGER, PRIMARY KEY id, CHECK (v NOT IN (1, 2)))"))
	// any DDL makes the next transaction load the catalog from its persisted form
	require.NoError(t, exec("CREATE TABLE t2 (id INTEGER, PRIMARY KEY id)"))

	require.NoError(t, exec("INSERT INTO t1 (v) VALUES (3)"), "3 is not in (1, 2)")
	require.ErrorIs(t, exec("INSERT INTO t1 (v) VALUES (1)"), ErrCheckConstraintViolation)
}
