// Demonstration for defect 3 ((*TBtree).Close persists the TS file before the
// tree has been flushed: if the flush does not complete, the reopened index
// claims a logical time it has not persisted).
//
// Place this file at embedded/tbtree/zz_defect_3_test.go and run:
//
//	go test -count=1 -run TestDefect3CloseTsFileBeforeFlush ./embedded/tbtree/
package tbtree

import (
	"errors"
	"fmt"
	"io"
	"os"
	"path/filepath"
	"sync/atomic"
	"testing"

	"github.com/codenotary/immudb/embedded/appendable"
	"github.com/codenotary/immudb/embedded/appendable/multiapp"
	"github.com/stretchr/testify/require"
)

var errDefect3DiskFull = errors.New("no space left on device")

// defect3App is a regular multiapp appendable whose Append starts failing
// (or killing the "process") once the switch is turned on
type defect3App struct {
	appendable.Appendable
	fail *atomic.Bool
	die  *atomic.Bool
}

func (a *defect3App) Append(bs []byte) (off int64, n int, err error) {
	if a.die.Load() {
		panic(errDefect3DiskFull)
	}
	if a.fail.Load() {
		return 0, 0, errDefect3DiskFull
	}
	return a.Appendable.Append(bs)
}

func defect3CopyDir(t *testing.T, src, dst string) {
	err := filepath.Walk(src, func(path string, info os.FileInfo, err error) error {
		if err != nil {
			return err
		}

		rel, err := filepath.Rel(src, path)
		if err != nil {
			return err
		}

		if info.IsDir() {
			return os.MkdirAll(filepath.Join(dst, rel), 0755)
		}

		in, err := os.Open(path)
		if err != nil {
			return err
		}
		defer in.Close()

		out, err := os.Create(filepath.Join(dst, rel))
		if err != nil {
			return err
		}
		defer out.Close()

		_, err = io.Copy(out, in)
		return err
	})
	require.NoError(t, err)
}

func TestDefect3CloseTsFileBeforeFlush(t *testing.T) {
	for _, mode := range []string{"flush fails during close", "process dies during close"} {
		t.Run(mode, func(t *testing.T) {
			var fail, die atomic.Bool

			path := filepath.Join(t.TempDir(), "index")

			opts := DefaultOptions().WithAppFactory(
				func(rootPath, subPath string, opts *multiapp.Options) (appendable.Appendable, error) {
					app, err := multiapp.Open(filepath.Join(rootPath, subPath), opts)
					if err != nil {
						return nil, err
					}
					return &defect3App{Appendable: app, fail: &fail, die: &die}, nil
				})

			tree, err := Open(path, opts)
			require.NoError(t, err)

			key := func(ts int) []byte { return []byte(fmt.Sprintf("key%d", ts)) }

			// ts=1 is inserted and persisted
			err = tree.BulkInsert([]*KVT{{K: key(1), V: []byte("v"), T: 1}})
			require.NoError(t, err)

			_, _, err = tree.FlushWith(0, true)
			require.NoError(t, err)

			// ts=2..5 are inserted but not yet flushed, then logical time is moved up to 6
			for ts := 2; ts <= 5; ts++ {
				err = tree.BulkInsert([]*KVT{{K: key(ts), V: []byte("v"), T: uint64(ts)}})
				require.NoError(t, err)
			}

			err = tree.IncreaseTs(6)
			require.NoError(t, err)
			require.Equal(t, uint64(6), tree.Ts())

			reopenPath := path

			if mode == "flush fails during close" {
				// the tree can not be flushed while closing (e.g. disk full)
				fail.Store(true)

				err = tree.Close()
				require.ErrorContains(t, err, errDefect3DiskFull.Error())
			} else {
				// the process dies while the tree is being flushed by Close,
				// the state left on disk is then opened
				die.Store(true)

				require.PanicsWithValue(t, errDefect3DiskFull, func() { tree.Close() })

				reopenPath = filepath.Join(t.TempDir(), "index")
				defect3CopyDir(t, path, reopenPath)
			}

			tree, err = Open(reopenPath, DefaultOptions())
			require.NoError(t, err)
			defer tree.Close()

			// any entry inserted with a timestamp not greater than the
			// logical time reported by the index must be there
			recoveredTs := tree.Ts()

			missing := 0

			for ts := 1; ts <= 5 && uint64(ts) <= recoveredTs; ts++ {
				_, _, _, err := tree.Get(key(ts))
				if errors.Is(err, ErrKeyNotFound) {
					missing++
					continue
				}
				require.NoError(t, err)
			}

			require.Zerof(t, missing,
				"reopened index reports ts=%d but %d entries inserted with ts<=%d are missing", recoveredTs, missing, recoveredTs)
		})
	}
}
