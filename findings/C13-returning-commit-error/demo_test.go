package sql

import (
	"context"
	"testing"

	"github.com/stretchr/testify/require"
)

// An auto-committed `UPDATE ... RETURNING` query commits when its reader is closed. If that commit
// fails (here: MVCC read conflict with a concurrent committed update) the client must be told:
// the rows it was given were not applied.
func TestFindingReturningCommitErrorIsReported(t *testing.T) {
	engine := setupCommonTest(t)
	ctx := context.Background()

	_, _, err := engine.Exec(ctx, nil, "CREATE TABLE t (id INTEGER, v INTEGER, PRIMARY KEY id)", nil)
	require.NoError(t, err)
	_, _, err = engine.Exec(ctx, nil, "INSERT INTO t (id, v) VALUES (1, 1)", nil)
	require.NoError(t, err)

	r, err := engine.Query(ctx, nil, "UPDATE t SET v = v + 1 WHERE id = 1 RETURNING v", nil)
	require.NoError(t, err)
	row, err := r.Read(ctx)
	require.NoError(t, err)
	require.Equal(t, int64(2), row.ValuesByPosition[0].RawValue())

	// a concurrent transaction updates the same row and commits first
	_, _, err = engine.Exec(ctx, nil, "UPDATE t SET v = 100 WHERE id = 1", nil)
	require.NoError(t, err)

	cerr := r.Close()

	rr, err := engine.Query(ctx, nil, "SELECT v FROM t WHERE id = 1", nil)
	require.NoError(t, err)
	got, err := rr.Read(ctx)
	require.NoError(t, err)
	rr.Close()
	applied := got.ValuesByPosition[0].RawValue().(int64)

	if applied != 2 {
		// the RETURNING update was not applied: Close must have reported it
		require.Error(t, cerr, "client was given v=2 as the result of its UPDATE, the table holds v=%d, and no error was reported", applied)
	}
}
