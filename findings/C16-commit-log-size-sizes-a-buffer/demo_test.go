// Demo (C16, on-disk logs at read time, bounded memory). Placement: copy to embedded/store/zz_demo_test.go and run
//
//	go test -count=1 -run TestDemoC16CommitLogSize ./embedded/store/
//
// The commit log holds (offset, size) of every transaction in the transaction log. The size of a damaged entry
// (not the last one, which is validated at open) sized the read buffer of the transaction: 2 GiB for a 100-byte store.
package store

import (
	"context"
	"encoding/binary"
	"os"
	"path/filepath"
	"runtime"
	"testing"

	"github.com/stretchr/testify/require"
)

func TestDemoC16CommitLogSize(t *testing.T) {
	dir := t.TempDir()

	st, err := Open(dir, DefaultOptions().WithSynced(false))
	require.NoError(t, err)

	for i := 0; i < 3; i++ {
		tx, err := st.NewWriteOnlyTx(context.Background())
		require.NoError(t, err)
		require.NoError(t, tx.Set([]byte{byte('a' + i)}, nil, []byte("v")))
		_, err = tx.Commit(context.Background())
		require.NoError(t, err)
	}
	entrySize := st.cLogEntrySize
	require.NoError(t, st.Close())

	// damage the size field of the commit-log entry of tx 1
	fname := filepath.Join(dir, "commit", "00000000.txi")
	raw, err := os.ReadFile(fname)
	require.NoError(t, err)
	base := 4 + int(binary.BigEndian.Uint32(raw))
	require.GreaterOrEqual(t, len(raw), base+3*entrySize)
	binary.BigEndian.PutUint32(raw[base+8:], 0x7fffffff)
	require.NoError(t, os.WriteFile(fname, raw, 0644))

	st, err = Open(dir, DefaultOptions().WithSynced(false))
	require.NoError(t, err)
	defer st.Close()

	var before, after runtime.MemStats
	runtime.GC()
	runtime.ReadMemStats(&before)

	err = st.ReadTx(1, false, NewTx(st.MaxTxEntries(), st.MaxKeyLen()))
	require.Error(t, err)

	runtime.ReadMemStats(&after)
	require.Less(t, after.TotalAlloc-before.TotalAlloc, uint64(64<<20), "reading tx 1 allocated the size announced by the damaged commit-log entry")
}
