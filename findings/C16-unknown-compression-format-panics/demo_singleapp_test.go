// Reproduction on the UNMODIFIED tree (C16): a damaged COMPRESSION_FORMAT value in the header of an appendable
// file is accepted by singleapp.Open; the first ReadAt (or Append) then panics with a nil pointer dereference
// because reader()/writer() return (nil, nil) for a format they do not know.
//
// Placement: embedded/appendable/singleapp/zz_finding_test.go
//   go test -count=1 -run TestFindingC16 ./embedded/appendable/singleapp/
package singleapp

import (
	"bytes"
	"encoding/binary"
	"os"
	"path/filepath"
	"testing"

	"github.com/stretchr/testify/require"
)

func TestFindingC16_UnknownCompressionFormatInHeader(t *testing.T) {
	fname := filepath.Join(t.TempDir(), "00000000.dat")

	app, err := Open(fname, DefaultOptions())
	require.NoError(t, err)
	// like a tx log, the data starts with a big-endian uint64 (tx id 1): read as a chunk length prefix it is small enough
	_, _, err = app.Append(append([]byte{0, 0, 0, 0, 0, 0, 0, 1}, []byte("some data appended to the file")...))
	require.NoError(t, err)
	require.NoError(t, app.Close())

	// damage a single byte of the header: the least significant byte of the COMPRESSION_FORMAT value
	raw, err := os.ReadFile(fname)
	require.NoError(t, err)

	key := []byte(metaCompressionFormat)
	k := bytes.Index(raw, key)
	require.True(t, k > 0)
	voff := k + len(key) + 4 // skip the value length prefix
	require.Equal(t, uint64(0), binary.BigEndian.Uint64(raw[voff:]))
	raw[voff+7] = 0x63
	require.NoError(t, os.WriteFile(fname, raw, 0644))

	var panicked interface{}
	var openErr, readErr error

	func() {
		defer func() { panicked = recover() }()

		var app *AppendableFile
		app, openErr = Open(fname, DefaultOptions())
		if openErr != nil {
			return
		}
		defer app.Close()

		b := make([]byte, 4)
		_, readErr = app.ReadAt(b, 0)
	}()

	require.Nil(t, panicked, "reading from a file with a damaged header panicked (open err: %v, read err: %v)", openErr, readErr)
	require.True(t, openErr != nil || readErr != nil, "a damaged header must be reported")
}
