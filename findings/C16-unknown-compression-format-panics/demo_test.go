// Reproduction on the UNMODIFIED tree (C16, on-disk logs at open time): one damaged byte in the header of the
// transaction log file (the COMPRESSION_FORMAT value kept by singleapp) makes store.Open panic instead of
// reporting a corrupted store.
//
// Placement: embedded/store/zz_finding_test.go
//   go test -count=1 -run TestFindingC16 ./embedded/store/
package store

import (
	"bytes"
	"context"
	"encoding/binary"
	"os"
	"path/filepath"
	"testing"

	"github.com/stretchr/testify/require"
)

func TestFindingC16_OpenWithDamagedTxLogHeader(t *testing.T) {
	dir := t.TempDir()

	st, err := Open(dir, DefaultOptions())
	require.NoError(t, err)

	tx, err := st.NewWriteOnlyTx(context.Background())
	require.NoError(t, err)
	require.NoError(t, tx.Set([]byte("k"), nil, []byte("v")))
	_, err = tx.Commit(context.Background())
	require.NoError(t, err)
	require.NoError(t, st.Close())

	fname := filepath.Join(dir, "tx", "00000000.tx")
	raw, err := os.ReadFile(fname)
	require.NoError(t, err)

	key := []byte("COMPRESSION_FORMAT")
	k := bytes.Index(raw, key)
	require.True(t, k > 0)
	voff := k + len(key) + 4
	require.Equal(t, uint64(0), binary.BigEndian.Uint64(raw[voff:]))
	raw[voff+7] = 0x63 // single damaged byte
	require.NoError(t, os.WriteFile(fname, raw, 0644))

	var panicked interface{}
	var openErr error

	func() {
		defer func() { panicked = recover() }()
		var st *ImmuStore
		st, openErr = Open(dir, DefaultOptions())
		if openErr == nil {
			defer st.Close()
			hold := NewTx(st.MaxTxEntries(), st.MaxKeyLen())
			openErr = st.ReadTx(1, false, hold)
		}
	}()

	require.Nil(t, panicked, "opening/reading a store with a damaged tx log header panicked")
	require.Error(t, openErr)
}
