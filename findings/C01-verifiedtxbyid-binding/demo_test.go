// Demonstration for defect 3.
// Place in: pkg/integration/zz_defect_3_test.go
// Run:      go test -count=1 -run 'TestZZDefect3' ./pkg/integration/
//
// VerifiedTxByID verifies the dual proof between the locally trusted state and
// the header of the requested transaction, but it never binds the returned
// vTx.Tx (header and entries) to that verified header. A malicious server can
// keep proof and signature intact and return forged entries "as verified".
package integration

import (
	"context"
	"crypto/sha256"
	"testing"

	"github.com/codenotary/immudb/embedded/store"
	"github.com/codenotary/immudb/pkg/api/schema"
	"github.com/stretchr/testify/require"
	"google.golang.org/grpc"
)

// zzForgingServiceClient mimics a malicious server: proofs are left untouched
// but the content of the returned transaction is altered
type zzForgingServiceClient struct {
	schema.ImmuServiceClient
	forge func(vtx *schema.VerifiableTx)
}

func (c *zzForgingServiceClient) VerifiableTxById(ctx context.Context, in *schema.VerifiableTxRequest, opts ...grpc.CallOption) (*schema.VerifiableTx, error) {
	vtx, err := c.ImmuServiceClient.VerifiableTxById(ctx, in, opts...)
	if err != nil {
		return nil, err
	}
	if c.forge != nil {
		c.forge(vtx)
	}
	return vtx, nil
}

func TestZZDefect3VerifiedTxByIDReturnsForgedEntries(t *testing.T) {
	_, client, ctx := setupTestServerAndClient(t)

	hdr1, err := client.VerifiedSet(ctx, []byte("account:alice"), []byte("balance=10"))
	require.NoError(t, err)

	hdr2, err := client.VerifiedSet(ctx, []byte("account:bob"), []byte("balance=20"))
	require.NoError(t, err)

	// honest server: works, before and after the repair
	tx, err := client.VerifiedTxByID(ctx, hdr1.Id)
	require.NoError(t, err)
	require.Len(t, tx.Entries, 1)
	require.Equal(t, []byte("account:alice"), tx.Entries[0].Key)

	tx, err = client.VerifiedTxByID(ctx, hdr2.Id)
	require.NoError(t, err)
	require.Len(t, tx.Entries, 1)

	forgedHValue := sha256.Sum256([]byte("balance=1000000"))

	proxy := &zzForgingServiceClient{ImmuServiceClient: client.GetServiceClient()}
	client.WithServiceClient(proxy)

	t.Run("forged entry in a tx older than the trusted state", func(t *testing.T) {
		proxy.forge = func(vtx *schema.VerifiableTx) {
			vtx.Tx.Entries[0].Key = append([]byte{vtx.Tx.Entries[0].Key[0]}, []byte("account:mallory")...)
			vtx.Tx.Entries[0].HValue = forgedHValue[:]
		}

		tx, err := client.VerifiedTxByID(ctx, hdr1.Id)
		if err == nil {
			t.Logf("forged entry returned as verified: key=%q hValue=%x", tx.Entries[0].Key, tx.Entries[0].HValue)
		}
		require.ErrorIs(t, err, store.ErrCorruptedData)
	})

	t.Run("forged entry in the tx matching the trusted state", func(t *testing.T) {
		proxy.forge = func(vtx *schema.VerifiableTx) {
			vtx.Tx.Entries[0].HValue = forgedHValue[:]
		}

		tx, err := client.VerifiedTxByID(ctx, hdr2.Id)
		if err == nil {
			t.Logf("forged entry returned as verified: key=%q hValue=%x", tx.Entries[0].Key, tx.Entries[0].HValue)
		}
		require.ErrorIs(t, err, store.ErrCorruptedData)
	})

	t.Run("forged header", func(t *testing.T) {
		proxy.forge = func(vtx *schema.VerifiableTx) {
			vtx.Tx.Header.Ts -= 86400
		}

		_, err := client.VerifiedTxByID(ctx, hdr1.Id)
		require.ErrorIs(t, err, store.ErrCorruptedData)
	})

	t.Run("honest server still verifies", func(t *testing.T) {
		proxy.forge = nil

		for _, id := range []uint64{hdr1.Id, hdr2.Id, hdr1.Id} {
			tx, err := client.VerifiedTxByID(ctx, id)
			require.NoError(t, err)
			require.Equal(t, id, tx.Header.Id)
		}
	})
}
