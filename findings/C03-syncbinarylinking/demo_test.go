// Demonstration for defect 6: syncBinaryLinking discards the error returned by aht.Append,
// so an I/O failure while rebuilding the hash tree lets Open succeed with an incomplete tree.
//
// Place as embedded/store/zz_defect_6_test.go and run:
//   go test -count=1 -run 'TestZZDefect6' ./embedded/store/
package store

import (
	"context"
	"errors"
	"fmt"
	"os"
	"path/filepath"
	"testing"

	"github.com/codenotary/immudb/embedded/appendable"
	"github.com/codenotary/immudb/embedded/appendable/multiapp"
	"github.com/stretchr/testify/require"
)

// zzDefect6FaultyAppendable fails a single Append call (the failAt-th one)
type zzDefect6FaultyAppendable struct {
	appendable.Appendable

	appends int
	failAt  int
	err     error
}

func (a *zzDefect6FaultyAppendable) Append(bs []byte) (off int64, n int, err error) {
	a.appends++
	if a.appends == a.failAt {
		return 0, 0, a.err
	}
	return a.Appendable.Append(bs)
}

func TestZZDefect6OpenSucceedsWithIncompleteHashTree(t *testing.T) {
	const txCount = 10

	dir := t.TempDir()

	st, err := Open(dir, DefaultOptions())
	require.NoError(t, err)

	hdrs := make([]*TxHeader, txCount)

	for i := 0; i < txCount; i++ {
		tx, err := st.NewWriteOnlyTx(context.Background())
		require.NoError(t, err)

		require.NoError(t, tx.Set([]byte(fmt.Sprintf("key%d", i)), nil, []byte("value")))

		hdrs[i], err = tx.Commit(context.Background())
		require.NoError(t, err)
	}

	require.NoError(t, st.Close())

	// hash tree is lost: it has to be rebuilt from tx log when opening the store
	require.NoError(t, os.RemoveAll(filepath.Join(dir, ahtDirname)))

	injectedErr := errors.New("injected I/O error")

	// each leaf requires two appends into aht data log (length and payload):
	// a transient failure is injected when appending the 5th leaf
	faulty := &zzDefect6FaultyAppendable{failAt: 2*4 + 1, err: injectedErr}

	opts := DefaultOptions().WithAppFactory(func(rootPath, subPath string, appOpts *multiapp.Options) (appendable.Appendable, error) {
		app, err := multiapp.Open(filepath.Join(rootPath, subPath), appOpts)
		if err != nil {
			return nil, err
		}

		if subPath == filepath.Join(ahtDirname, "data") {
			faulty.Appendable = app
			return faulty, nil
		}

		return app, nil
	})

	st, err = Open(dir, opts)
	require.GreaterOrEqual(t, faulty.appends, faulty.failAt, "failure was not injected")

	if err == nil {
		defer st.Close()

		t.Logf("Open succeeded although rebuilding the hash tree failed: committed txs=%d, aht size=%d",
			st.LastCommittedTxID(), st.aht.Size())

		// consequences: proofs involving the missing/shifted leaves can not be generated or do not verify
		proof, perr := st.DualProof(hdrs[0], hdrs[txCount-1])
		if perr != nil {
			t.Logf("DualProof(tx1, tx%d) fails with: %v", txCount, perr)
		} else {
			verifies := VerifyDualProof(proof, hdrs[0].ID, hdrs[txCount-1].ID, hdrs[0].Alh(), hdrs[txCount-1].Alh())
			t.Logf("DualProof(tx1, tx%d) verifies: %v", txCount, verifies)
		}

		tx, terr := st.NewWriteOnlyTx(context.Background())
		require.NoError(t, terr)
		require.NoError(t, tx.Set([]byte("key"), nil, []byte("value")))

		hdr, cerr := tx.Commit(context.Background())
		if cerr != nil {
			t.Logf("further commit fails with: %v", cerr)
		} else {
			t.Logf("further commit: tx=%d BlTxID=%d, aht size=%d", hdr.ID, hdr.BlTxID, st.aht.Size())

			proof, perr := st.DualProof(hdrs[txCount-1], hdr)
			if perr != nil {
				t.Logf("DualProof(tx%d, tx%d) fails with: %v", txCount, hdr.ID, perr)
			} else {
				verifies := VerifyDualProof(proof, hdrs[txCount-1].ID, hdr.ID, hdrs[txCount-1].Alh(), hdr.Alh())
				t.Logf("DualProof(tx%d, tx%d) verifies: %v", txCount, hdr.ID, verifies)
			}
		}

		require.Equal(t, st.LastPrecommittedTxID(), st.aht.Size(), "store opened with an inconsistent hash tree")
	}

	require.ErrorIs(t, err, injectedErr)
}
