// Demo (C15: protocol conversions decode back to an equal value). Placement: copy to pkg/pgsql/server/bmessages/zz_demo_test.go
//
//	go test -count=1 -run TestDemoC15BinaryResults ./pkg/pgsql/server/bmessages/
//
// In binary result format FLOAT, TIMESTAMP and UUID values were sent with length 0, and NULL as an empty value.
package bmessages

import (
	"encoding/binary"
	"math"
	"testing"
	"time"

	"github.com/codenotary/immudb/embedded/sql"
	"github.com/google/uuid"
	"github.com/stretchr/testify/require"
)

// fields splits the values of the single DataRow message
func demoFields(t *testing.T, msg []byte) [][]byte {
	require.Equal(t, byte('D'), msg[0])
	n := int(binary.BigEndian.Uint16(msg[5:]))
	off := 7
	var out [][]byte
	for i := 0; i < n; i++ {
		l := int32(binary.BigEndian.Uint32(msg[off:]))
		off += 4
		if l < 0 {
			out = append(out, nil)
			continue
		}
		out = append(out, msg[off:off+int(l)])
		off += int(l)
	}
	return out
}

func TestDemoC15BinaryResults(t *testing.T) {
	ts := time.Date(2024, 5, 6, 7, 8, 9, 123456000, time.UTC)
	id := uuid.MustParse("00112233-4455-6677-8899-aabbccddeeff")

	encTs, err := sql.EncodeRawValue(ts, sql.TimestampType, 0, false)
	require.NoError(t, err)
	tsVal, _, err := sql.DecodeValue(encTs, sql.TimestampType)
	require.NoError(t, err)

	row := &sql.Row{ValuesByPosition: []sql.TypedValue{
		sql.NewFloat64(1.5),
		tsVal,
		sql.NewUUID(id),
		sql.NewNull(sql.IntegerType),
		sql.NewInteger(-7),
	}}

	f := demoFields(t, DataRow([]*sql.Row{row}, 5, []int16{1}))

	require.Len(t, f[0], 8, "FLOAT in binary format")
	require.Equal(t, 1.5, math.Float64frombits(binary.BigEndian.Uint64(f[0])))

	require.Len(t, f[1], 8, "TIMESTAMP in binary format")
	micros := int64(binary.BigEndian.Uint64(f[1]))
	require.True(t, ts.Equal(time.Date(2000, 1, 1, 0, 0, 0, 0, time.UTC).Add(time.Duration(micros)*time.Microsecond)))

	require.Equal(t, id[:], f[2], "UUID in binary format")

	require.Nil(t, f[3], "NULL is announced with length -1, not as an empty value")

	require.EqualValues(t, -7, int64(binary.BigEndian.Uint64(f[4])))
}
