package sql

// Demo (C12/C13): a failing INSERT ... RETURNING run inside an explicit transaction leaves its first rows in the
// transaction, which stays open: a later COMMIT makes the effects of the failed statement visible. The same statement
// without RETURNING (Exec path) cancels the transaction.
// Placement: copy to embedded/sql/zz_demo_test.go; run: go test -count=1 -run TestDemoC13ReturningFailure ./embedded/sql/

import (
	"context"
	"testing"

	"github.com/codenotary/immudb/embedded/store"
	"github.com/stretchr/testify/require"
)

func TestDemoC13ReturningFailure(t *testing.T) {
	st, err := store.Open(t.TempDir(), store.DefaultOptions().WithMultiIndexing(true))
	require.NoError(t, err)
	defer st.Close()

	engine, err := NewEngine(st, DefaultOptions().WithPrefix(sqlPrefix))
	require.NoError(t, err)

	ctx := context.Background()

	_, _, err = engine.Exec(ctx, nil, "CREATE TABLE t1 (id INTEGER, PRIMARY KEY id); INSERT INTO t1 (id) VALUES (2)", nil)
	require.NoError(t, err)

	count := func() int64 {
		r, err := engine.Query(ctx, nil, "SELECT COUNT(*) FROM t1", nil)
		require.NoError(t, err)
		defer r.Close()
		row, err := r.Read(ctx)
		require.NoError(t, err)
		return row.ValuesByPosition[0].RawValue().(int64)
	}

	tx, _, err := engine.Exec(ctx, nil, "BEGIN TRANSACTION", nil)
	require.NoError(t, err)
	require.NotNil(t, tx)

	// the second row conflicts with the committed one
	r, err := engine.Query(ctx, tx, "INSERT INTO t1 (id) VALUES (1), (2) RETURNING id", nil)
	if err == nil {
		for err == nil {
			_, err = r.Read(ctx)
		}
		r.Close()
	}
	require.ErrorIs(t, err, store.ErrKeyAlreadyExists)

	// whatever the client does next, nothing of the failed statement may become visible
	_, _, cerr := engine.Exec(ctx, tx, "COMMIT", nil)
	t.Logf("COMMIT after the failed statement: %v", cerr)

	require.Equal(t, int64(1), count(), "row 1 of the failed INSERT ... RETURNING was committed")
}
