// Demo (C01). Placement: copy to pkg/integration/zz_demo_test.go
// Run: go test -count=1 -run TestDemoC01VerifiedGetKey ./pkg/integration/
//
// A proxy between the real client and a real (bufconn) server alters VerifiableGet answers, the way a
// malicious server would. The demo FAILS when the flaw is present.
package integration

import (
	"context"
	"testing"

	"github.com/codenotary/immudb/pkg/api/schema"
	"github.com/stretchr/testify/require"
	"google.golang.org/grpc"
)

type alteringProxy struct {
	schema.ImmuServiceClient
	alter func(*schema.VerifiableEntry)
}

func (p *alteringProxy) VerifiableGet(ctx context.Context, in *schema.VerifiableGetRequest, opts ...grpc.CallOption) (*schema.VerifiableEntry, error) {
	ret, err := p.ImmuServiceClient.VerifiableGet(ctx, in, opts...)
	if err == nil && p.alter != nil {
		p.alter(ret)
	}
	return ret, err
}

func TestDemoC01VerifiedGetKey(t *testing.T) {
	_, client, ctx := setupTestServerAndClient(t)

	_, err := client.VerifiedSet(ctx, []byte("account"), []byte("balance=100"))
	require.NoError(t, err)
	_, err = client.VerifiedSetReference(ctx, []byte("alias"), []byte("account"))
	require.NoError(t, err)

	proxy := &alteringProxy{ImmuServiceClient: client.GetServiceClient()}
	client.WithServiceClient(proxy)

	// the key of the entry handed to the caller is said to be another one
	proxy.alter = func(ve *schema.VerifiableEntry) { ve.Entry.Key = []byte("another-key") }
	_, err = client.VerifiedGet(ctx, []byte("account"))
	require.Error(t, err, "an answer naming another key than the one requested (and proven) verifies")

	// the reference the answer was resolved through is said to be another one
	proxy.alter = func(ve *schema.VerifiableEntry) { ve.Entry.ReferencedBy.Key = []byte("another-alias") }
	_, err = client.VerifiedGet(ctx, []byte("alias"))
	require.Error(t, err)

	proxy.alter = nil
	e, err := client.VerifiedGet(ctx, []byte("alias"))
	require.NoError(t, err)
	require.Equal(t, []byte("balance=100"), e.Value)
}
