// Demo (C01). Placement: copy to pkg/integration/zz_demo_reference_value_test.go
// Run: go test -count=1 -run TestDemoC01ReferencedValueIsNotProven ./pkg/integration/
//
// A proxy between the real client and a real (bufconn) server alters VerifiableGet answers, the way a
// malicious server would. KNOWN finding: this demo FAILS on the current tree.
package integration

import (
	"context"
	"testing"

	"github.com/codenotary/immudb/pkg/api/schema"
	"github.com/stretchr/testify/require"
	"google.golang.org/grpc"
)

type alteringProxy2 struct {
	schema.ImmuServiceClient
	alter func(*schema.VerifiableEntry)
}

func (p *alteringProxy2) VerifiableGet(ctx context.Context, in *schema.VerifiableGetRequest, opts ...grpc.CallOption) (*schema.VerifiableEntry, error) {
	ret, err := p.ImmuServiceClient.VerifiableGet(ctx, in, opts...)
	if err == nil && p.alter != nil {
		p.alter(ret)
	}
	return ret, err
}

func TestDemoC01ReferencedValueIsNotProven(t *testing.T) {
	_, client, ctx := setupTestServerAndClient(t)

	_, err := client.VerifiedSet(ctx, []byte("account"), []byte("balance=100"))
	require.NoError(t, err)
	_, err = client.VerifiedSetReference(ctx, []byte("alias"), []byte("account"))
	require.NoError(t, err)

	proxy := &alteringProxy2{ImmuServiceClient: client.GetServiceClient()}
	client.WithServiceClient(proxy)

	proxy.alter = func(ve *schema.VerifiableEntry) { ve.Entry.Value = []byte("balance=999") }
	e, err := client.VerifiedGet(ctx, []byte("alias"))
	if err == nil {
		require.Equal(t, []byte("balance=100"), e.Value, "a value that nothing proves was handed to the caller of VerifiedGet")
	}
}
