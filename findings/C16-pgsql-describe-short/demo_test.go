package fmessages

import (
	"testing"

	"github.com/stretchr/testify/require"
)

// A Describe ('D') message whose payload is shorter than two bytes must be answered with an error:
// the parser runs on the session goroutine of the PostgreSQL front end, a panic there ends the process.
func TestFindingParseDescribeMsgShortPayload(t *testing.T) {
	for _, payload := range [][]byte{{}, {'S'}} {
		func() {
			defer func() {
				if r := recover(); r != nil {
					t.Errorf("ParseDescribeMsg(%v) PANICKED: %v", payload, r)
				}
			}()
			_, err := ParseDescribeMsg(payload)
			require.Error(t, err)
		}()
	}
}
