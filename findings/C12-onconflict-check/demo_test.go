// Demonstration for defect 1.
// Place in: embedded/sql/zz_defect_1_test.go
// Run:      go test -count=1 -run 'TestZZDefect1' ./embedded/sql/
//
// INSERT ... ON CONFLICT DO UPDATE SET applies its assignments after the
// CHECK constraints were evaluated (on the would-be-inserted values), so the
// final row image is never validated and a CHECK constraint can be violated.
package sql

import (
	"context"
	"testing"

	"github.com/stretchr/testify/require"
)

func TestZZDefect1OnConflictDoUpdateBypassesCheck(t *testing.T) {
	engine := setupCommonTest(t)

	_, _, err := engine.Exec(context.Background(), nil,
		`CREATE TABLE t (id INTEGER, n INTEGER, PRIMARY KEY id, CHECK (n > 0))`, nil)
	require.NoError(t, err)

	_, _, err = engine.Exec(context.Background(), nil, `INSERT INTO t (id, n) VALUES (1, 10)`, nil)
	require.NoError(t, err)

	// sanity: both the plain insert and the plain update paths enforce the constraint
	_, _, err = engine.Exec(context.Background(), nil, `INSERT INTO t (id, n) VALUES (2, -1)`, nil)
	require.ErrorIs(t, err, ErrCheckConstraintViolation)

	_, _, err = engine.Exec(context.Background(), nil, `UPDATE t SET n = -1 WHERE id = 1`, nil)
	require.ErrorIs(t, err, ErrCheckConstraintViolation)

	// the inserted values (1, 5) satisfy the constraint, the resulting row (1, -1) does not
	_, _, upsertErr := engine.Exec(context.Background(), nil,
		`INSERT INTO t (id, n) VALUES (1, 5) ON CONFLICT DO UPDATE SET n = -1`, nil)

	r, err := engine.Query(context.Background(), nil, `SELECT n FROM t WHERE id = 1`, nil)
	require.NoError(t, err)

	row, err := r.Read(context.Background())
	require.NoError(t, err)
	r.Close()

	require.Equal(t, int64(10), row.ValuesByPosition[0].RawValue(), "row violating CHECK (n > 0) was committed (upsert err: %v)", upsertErr)
	require.ErrorIs(t, upsertErr, ErrCheckConstraintViolation)

	// a valid DO UPDATE must still succeed
	_, _, err = engine.Exec(context.Background(), nil,
		`INSERT INTO t (id, n) VALUES (1, 5) ON CONFLICT DO UPDATE SET n = n + 1`, nil)
	require.NoError(t, err)
}
