package sql

// Demo (C13): CREATE VIEW registers the view in an engine-wide map when the statement is executed, not when its
// transaction commits: after ROLLBACK the view is still there, for every session.
// Placement: copy to embedded/sql/zz_demo_test.go; run: go test -count=1 -run TestDemoC13ViewAfterRollback ./embedded/sql/

import (
	"context"
	"testing"

	"github.com/codenotary/immudb/embedded/store"
	"github.com/stretchr/testify/require"
)

func TestDemoC13ViewAfterRollback(t *testing.T) {
	st, err := store.Open(t.TempDir(), store.DefaultOptions().WithMultiIndexing(true))
	require.NoError(t, err)
	defer st.Close()

	engine, err := NewEngine(st, DefaultOptions().WithPrefix(sqlPrefix))
	require.NoError(t, err)

	ctx := context.Background()

	_, _, err = engine.Exec(ctx, nil, "CREATE TABLE t1 (id INTEGER, PRIMARY KEY id); INSERT INTO t1 (id) VALUES (1)", nil)
	require.NoError(t, err)

	tx, _, err := engine.Exec(ctx, nil, "BEGIN TRANSACTION; CREATE VIEW v1 AS SELECT id FROM t1", nil)
	require.NoError(t, err)
	require.NotNil(t, tx)

	_, _, err = engine.Exec(ctx, tx, "ROLLBACK", nil)
	require.NoError(t, err)

	// another "session": a fresh auto-commit query
	r, err := engine.Query(ctx, nil, "SELECT * FROM v1", nil)
	if err == nil {
		_, err = r.Read(ctx)
		r.Close()
	}
	require.Error(t, err, "after ROLLBACK nothing of the transaction is visible: the view it created can still be queried")
}
