// Demo (C13: "the reported affected-row counts and generated keys match what was applied").
// Placement: copy to embedded/sql/zz_demo_test.go and run
//
//	go test -count=1 -run TestDemoC13RolledBackReported ./embedded/sql/
package sql

import (
	"context"
	"testing"

	"github.com/stretchr/testify/require"
)

func TestDemoC13RolledBackReported(t *testing.T) {
	e := setupCommonTest(t)
	ctx := context.Background()

	_, _, err := e.Exec(ctx, nil, "CREATE TABLE t (id INTEGER AUTO_INCREMENT, v INTEGER, PRIMARY KEY id)", nil)
	require.NoError(t, err)

	_, committed, err := e.Exec(ctx, nil, "BEGIN TRANSACTION; INSERT INTO t(v) VALUES (1); ROLLBACK;", nil)
	require.NoError(t, err)

	for _, tx := range committed {
		require.Zero(t, tx.UpdatedRows(), "a rolled back transaction is reported among the committed ones, with %d updated row(s) and generated keys %v", tx.UpdatedRows(), tx.LastInsertedPKs())
	}
}
