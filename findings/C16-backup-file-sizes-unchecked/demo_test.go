// Demo (C16). Placement: copy to cmd/immuadmin/command/zz_demo_test.go and run
//
//	go test -count=1 -run TestDemoC16BackupFileSizes ./cmd/immuadmin/command/
//
// A backup file (immuadmin hot-restore / hot-backup --append read it) whose record header announces sizes the file does
// not hold: the two 32-bit sizes were added in 32 bits (wrap-around: the checksum slice is cut beyond the buffer, panic) and
// their sum sized an allocation before a byte of the record was read.
package immuadmin

import (
	"bytes"
	"encoding/binary"
	"runtime"
	"testing"

	"github.com/stretchr/testify/require"
)

func demoRecordHeader(signSize, txSize uint32) []byte {
	h := make([]byte, headerSize)
	copy(h, []byte(prefix))
	binary.BigEndian.PutUint32(h[versionOffset:], latestFileVersion)
	binary.BigEndian.PutUint64(h[txIdOffset:], 1)
	binary.BigEndian.PutUint32(h[txSignSizeOffset:], signSize)
	binary.BigEndian.PutUint32(h[txSizeOffset:], txSize)
	return h
}

func TestDemoC16BackupFileSizes(t *testing.T) {
	// the sum wraps around to 1
	file := append(demoRecordHeader(0xffffffff, 2), 0x00)
	require.NotPanics(t, func() {
		_, _, _, err := nextTx(bytes.NewReader(file))
		require.Error(t, err)
	})

	// 3 GiB announced, nothing carried
	var before, after runtime.MemStats
	runtime.GC()
	runtime.ReadMemStats(&before)
	_, _, _, err := nextTx(bytes.NewReader(demoRecordHeader(0x40000000, 0x80000000)))
	require.Error(t, err)
	runtime.ReadMemStats(&after)
	require.Less(t, after.TotalAlloc-before.TotalAlloc, uint64(64<<20), "a 28-byte file made the reader allocate the announced size")
}
