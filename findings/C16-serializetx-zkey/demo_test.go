package database

import (
	"context"
	"encoding/binary"
	"testing"

	"github.com/codenotary/immudb/pkg/api/schema"
	"github.com/stretchr/testify/require"
)

// TxByID resolves sorted-set entries by parsing their key. A transaction whose sorted-set key is
// not well formed (written through the embedded store API, replicated from a different version,
// or damaged on disk: plain reads skip the integrity check) must produce an error, not a crash.
func TestFindingTxByIDMalformedSortedSetKey(t *testing.T) {
	d := makeDb(t)
	ctx := context.Background()

	huge := make([]byte, 1+8+4)
	huge[0] = SortedSetKeyPrefix
	binary.BigEndian.PutUint64(huge[1:], 1<<62) // announced set length far beyond the key

	neg := make([]byte, 1+8+40)
	neg[0] = SortedSetKeyPrefix
	binary.BigEndian.PutUint64(neg[1:], ^uint64(0)) // "negative" set length

	for name, key := range map[string][]byte{
		"short key":          {SortedSetKeyPrefix, 1, 2, 3},
		"set length too big": huge,
		"set length 2^64-1":  neg,
	} {
		tx, err := d.st.NewWriteOnlyTx(ctx)
		require.NoError(t, err)
		require.NoError(t, tx.Set(key, nil, []byte("v")))
		hdr, err := tx.Commit(ctx)
		require.NoError(t, err)

		func() {
			defer func() {
				if r := recover(); r != nil {
					t.Errorf("%s: TxByID PANICKED on a malformed sorted-set key instead of returning an error: %v", name, r)
				}
			}()
			_, err := d.TxByID(ctx, &schema.TxRequest{
				Tx: hdr.ID,
				EntriesSpec: &schema.EntriesSpec{
					ZEntriesSpec: &schema.EntryTypeSpec{Action: schema.EntryTypeAction_RESOLVE},
				},
			})
			require.Error(t, err, name)
		}()
	}
}
