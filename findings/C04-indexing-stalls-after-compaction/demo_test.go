// Demo (C04): after an index compaction the indexer reopens its tree with the options the old tree reports, which lack
// the flush callback: the store's memory accounting is never credited again, the indexer stops, reads and commits that
// wait for indexing hang.
// Placement: copy to embedded/store/zz_demo_test.go; run: go test -count=1 -run TestDemoC04IndexingStallsAfterCompaction ./embedded/store/
package store

import (
	"context"
	"fmt"
	"testing"
	"time"

	"github.com/stretchr/testify/require"
)

// F1: after CompactIndexes the index is re-opened with tbtree.GetOptions(), which drops the
// onFlush callback (and max buffered data size, shared cache, id). The global memory semaphore
// is then never released again and indexing stalls for ever once MaxGlobalBufferedDataSize
// bytes were indexed after the compaction.
func TestDemoC04IndexingStallsAfterCompaction(t *testing.T) {
	opts := DefaultOptions().WithIndexOptions(
		DefaultIndexOptions().
			WithCompactionThld(1).
			WithMaxBufferedDataSize(8 * 1024).
			WithMaxGlobalBufferedDataSize(8 * 1024),
	)

	st, err := Open(t.TempDir(), opts)
	require.NoError(t, err)
	defer st.Close()

	commit := func(i int) uint64 {
		tx, err := st.NewWriteOnlyTx(context.Background())
		require.NoError(t, err)

		err = tx.Set([]byte(fmt.Sprintf("key%06d", i)), nil, []byte(fmt.Sprintf("value%06d", i)))
		require.NoError(t, err)

		// Commit() would wait for indexing with no deadline and hang for ever
		hdr, err := tx.AsyncCommit(context.Background())
		require.NoError(t, err)

		return hdr.ID
	}

	var last uint64
	for i := 0; i < 50; i++ {
		last = commit(i)
	}

	ctx, cancel := context.WithTimeout(context.Background(), 20*time.Second)
	err = st.WaitForIndexingUpto(ctx, last)
	cancel()
	require.NoError(t, err)

	require.NoError(t, st.FlushIndexes(0, false))
	require.NoError(t, st.CompactIndexes())

	for i := 50; i < 1050; i++ {
		last = commit(i)
	}

	ctx, cancel = context.WithTimeout(context.Background(), 30*time.Second)
	err = st.WaitForIndexingUpto(ctx, last)
	cancel()
	if err != nil {
		idx, _ := st.getIndexerFor([]byte("key"))
		t.Logf("indexed up to tx %d of %d", idx.Ts(), last)
	}
	require.NoError(t, err, "indexing never catches up after compaction")

	_, err = st.Get(context.Background(), []byte(fmt.Sprintf("key%06d", 1049)))
	require.NoError(t, err)
}
