// Demo (C15: protocol conversions decode back to an equal value). Placement: copy to pkg/pgsql/server/zz_demo_int_test.go
//
//	go test -count=1 -run TestDemoC15BinaryIntParameters ./pkg/pgsql/server/
//
// PostgreSQL sends int2/int4/int8 bind parameters in binary format as big-endian two's complement.
package server

import (
	"testing"

	"github.com/stretchr/testify/require"
)

func TestDemoC15BinaryIntParameters(t *testing.T) {
	v, err := getInt64([]byte{0xff, 0xff, 0xff, 0xff})
	require.NoError(t, err)
	require.EqualValues(t, -1, v, "int4 -1")

	v, err = getInt64([]byte{0xff, 0xfe})
	require.NoError(t, err)
	require.EqualValues(t, -2, v, "int2 -2")

	v, err = getInt64([]byte{0xff, 0xff, 0xff, 0xff, 0xff, 0xff, 0xff, 0xfd})
	require.NoError(t, err)
	require.EqualValues(t, -3, v, "int8 -3")

	v, err = getInt64([]byte{0x00, 0x00, 0x01, 0x00})
	require.NoError(t, err)
	require.EqualValues(t, 256, v)
}
