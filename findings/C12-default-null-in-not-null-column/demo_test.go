package sql

// Demo (C12): a NOT NULL column whose DEFAULT evaluates to NULL stores NULL when the column is omitted.
// Placement: copy to embedded/sql/zz_demo_test.go; run: go test -count=1 -run TestDemoC12DefaultNullInNotNullColumn ./embedded/sql/

import (
	"context"
	"testing"

	"github.com/codenotary/immudb/embedded/store"
	"github.com/stretchr/testify/require"
)

func TestDemoC12DefaultNullInNotNullColumn(t *testing.T) {
	st, err := store.Open(t.TempDir(), store.DefaultOptions().WithMultiIndexing(true))
	require.NoError(t, err)
	defer st.Close()

	engine, err := NewEngine(st, DefaultOptions().WithPrefix(sqlPrefix))
	require.NoError(t, err)

	exec := func(q string) error {
		_, _, err := engine.Exec(context.Background(), nil, q, nil)
		return err
	}

	require.NoError(t, exec("CREATE TABLE t1 (id INTEGER, v INTEGER NOT NULL DEFAULT NULL, PRIMARY KEY id)"))

	// giving NULL explicitly is refused...
	require.ErrorIs(t, exec("INSERT INTO t1 (id, v) VALUES (1, NULL)"), ErrNotNullableColumnCannotBeNull)

	// ... and so must be leaving the column to a default that is NULL
	err = exec("INSERT INTO t1 (id) VALUES (2)")
	if err == nil {
		reader, qerr := engine.Query(context.Background(), nil, "SELECT COUNT(*) FROM t1 WHERE v IS NULL", nil)
		require.NoError(t, qerr)
		defer reader.Close()
		row, rerr := reader.Read(context.Background())
		require.NoError(t, rerr)
		t.Fatalf("the insertion was accepted: %v row(s) hold NULL in the NOT NULL column v", row.ValuesByPosition[0].RawValue())
	}
	require.ErrorIs(t, err, ErrNotNullableColumnCannotBeNull)
}
