package multiapp

// Demo (C17): with a small cache of opened chunk files, concurrent readers of a multi-file appendable get
// "key not found" instead of the bytes that were written.
// Placement: copy to embedded/appendable/multiapp/zz_demo_test.go; run: go test -count=1 -run TestDemoC17ConcurrentReadersSmallCache ./embedded/appendable/multiapp/

import (
	"sync"
	"testing"

	"github.com/stretchr/testify/require"
)

func TestDemoC17ConcurrentReadersSmallCache(t *testing.T) {
	const chunk = 16
	const chunks = 16

	app, err := Open(t.TempDir(), DefaultOptions().WithFileSize(chunk).WithMaxOpenedFiles(1))
	require.NoError(t, err)
	defer app.Close()

	for i := 0; i < chunks; i++ {
		bs := make([]byte, chunk)
		for j := range bs {
			bs[j] = byte(i)
		}
		_, _, err := app.Append(bs)
		require.NoError(t, err)
	}
	require.NoError(t, app.Flush())

	var wg sync.WaitGroup
	errs := make(chan error, 8)

	for g := 0; g < 8; g++ {
		wg.Add(1)
		go func(g int) {
			defer wg.Done()
			bs := make([]byte, chunk)
			for it := 0; it < 2000; it++ {
				c := (g + it) % (chunks - 1) // never the chunk being written
				_, err := app.ReadAt(bs, int64(c*chunk))
				if err != nil {
					errs <- err
					return
				}
				if bs[0] != byte(c) || bs[chunk-1] != byte(c) {
					errs <- ErrIllegalArguments
					return
				}
			}
		}(g)
	}

	wg.Wait()
	close(errs)

	for err := range errs {
		require.NoError(t, err, "a read of bytes that were appended and flushed")
	}
}
