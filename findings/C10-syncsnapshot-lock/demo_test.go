// Demonstration for defect 4 ((*TBtree).SyncSnapshot leaks the tree read lock
// when the tree is already closed: any later writer-lock acquisition hangs).
//
// Place this file at embedded/tbtree/zz_defect_4_test.go and run:
//
//	go test -count=1 -run TestDefect4SyncSnapshotOnClosedTreeLeaksLock ./embedded/tbtree/
package tbtree

import (
	"testing"
	"time"

	"github.com/stretchr/testify/require"
)

func TestDefect4SyncSnapshotOnClosedTreeLeaksLock(t *testing.T) {
	tree, err := Open(t.TempDir(), DefaultOptions())
	require.NoError(t, err)

	err = tree.Insert([]byte("key"), []byte("value"))
	require.NoError(t, err)

	err = tree.Close()
	require.NoError(t, err)

	snap, err := tree.SyncSnapshot()
	require.ErrorIs(t, err, ErrAlreadyClosed)
	require.Nil(t, snap)

	// any operation taking the writer lock must still return
	// (ErrAlreadyClosed is expected as the tree is closed)
	done := make(chan error, 1)

	go func() {
		done <- tree.Insert([]byte("key1"), []byte("value1"))
	}()

	select {
	case err := <-done:
		require.ErrorIs(t, err, ErrAlreadyClosed)
	case <-time.After(5 * time.Second):
		t.Fatal("Insert on the closed tree hangs: SyncSnapshot returned ErrAlreadyClosed without releasing the read lock")
	}

	done = make(chan error, 1)

	go func() {
		done <- tree.Close()
	}()

	select {
	case err := <-done:
		require.ErrorIs(t, err, ErrAlreadyClosed)
	case <-time.After(5 * time.Second):
		t.Fatal("Close on the closed tree hangs: SyncSnapshot returned ErrAlreadyClosed without releasing the read lock")
	}
}
