package server

import (
	"context"
	"testing"

	"github.com/codenotary/immudb/pkg/api/schema"
	"github.com/codenotary/immudb/pkg/auth"
	"github.com/stretchr/testify/require"
	"google.golang.org/grpc/metadata"
)

// "unauthenticated, expired, deactivated or re-permissioned sessions are refused": a user that is logged in
// from two places keeps its old permission after being downgraded, because the cached user record is
// only dropped when the login counter reaches zero.
func TestFindingDoubleLoginKeepsOldPermission(t *testing.T) {
	dir := t.TempDir()
	opts := DefaultOptions().WithDir(dir).WithPort(0).WithAuth(true).WithMetricsServer(false).
		WithPgsqlServer(false).WithWebServer(false).WithAdminPassword(auth.SysAdminPassword)
	s, closer := testServer(opts)
	defer closer()
	require.NoError(t, s.Initialize())

	lr, err := s.Login(context.Background(), &schema.LoginRequest{User: []byte(auth.SysAdminUsername), Password: []byte(auth.SysAdminPassword)})
	require.NoError(t, err)
	adminCtx := metadata.NewIncomingContext(context.Background(), metadata.Pairs("authorization", lr.Token))
	_, err = s.CreateDatabaseWith(adminCtx, &schema.DatabaseSettings{DatabaseName: "db1"})
	require.NoError(t, err)
	_, err = s.CreateUser(adminCtx, &schema.CreateUserRequest{User: []byte("bob"), Password: []byte("BobPass1!"), Database: "db1", Permission: auth.PermissionRW})
	require.NoError(t, err)

	login := func() context.Context {
		l, err := s.Login(context.Background(), &schema.LoginRequest{User: []byte("bob"), Password: []byte("BobPass1!")})
		require.NoError(t, err)
		ctx := metadata.NewIncomingContext(context.Background(), metadata.Pairs("authorization", l.Token))
		u, err := s.UseDatabase(ctx, &schema.Database{DatabaseName: "db1"})
		require.NoError(t, err)
		return metadata.NewIncomingContext(context.Background(), metadata.Pairs("authorization", u.Token))
	}
	laptop := login()
	phone := login()

	_, err = s.Set(laptop, &schema.SetRequest{KVs: []*schema.KeyValue{{Key: []byte("k"), Value: []byte("v")}}})
	require.NoError(t, err)

	// downgrade to read-only
	_, err = s.ChangePermission(adminCtx, &schema.ChangePermissionRequest{Action: schema.PermissionAction_GRANT, Username: "bob", Database: "db1", Permission: auth.PermissionR})
	require.NoError(t, err)

	for name, ctx := range map[string]context.Context{"first login": laptop, "second login": phone} {
		_, err = s.Set(ctx, &schema.SetRequest{KVs: []*schema.KeyValue{{Key: []byte("k2"), Value: []byte("v2")}}})
		require.Error(t, err, "%s: a user downgraded to read-only still writes with the token issued before the change", name)
	}
}
