package server

import (
	"context"
	"testing"

	"github.com/codenotary/immudb/pkg/api/schema"
	"github.com/codenotary/immudb/pkg/auth"
	"github.com/stretchr/testify/require"
	"google.golang.org/grpc/metadata"
	"google.golang.org/protobuf/types/known/emptypb"
)

// "The system database cannot be written through the public API": SQLExec on systemdb is refused,
// the same statement sent through a session transaction must be refused as well.
func TestFindingSessionTxWritesIntoSystemDB(t *testing.T) {
	dir := t.TempDir()
	opts := DefaultOptions().WithDir(dir).WithPort(0).WithAuth(true).WithMetricsServer(false).
		WithPgsqlServer(false).WithWebServer(false).WithAdminPassword(auth.SysAdminPassword)
	s, closer := testServer(opts)
	defer closer()
	require.NoError(t, s.Initialize())

	sess, err := s.OpenSession(context.Background(), &schema.OpenSessionRequest{Username: []byte(auth.SysAdminUsername), Password: []byte(auth.SysAdminPassword), DatabaseName: SystemDBName})
	require.NoError(t, err)
	ctx := metadata.NewIncomingContext(context.Background(), metadata.Pairs("sessionid", sess.SessionID))

	_, err = s.SQLExec(ctx, &schema.SQLExecRequest{Sql: "CREATE TABLE direct (id INTEGER, PRIMARY KEY id)"})
	require.Error(t, err, "SQLExec on systemdb must be refused")

	tx, err := s.NewTx(ctx, &schema.NewTxRequest{Mode: schema.TxMode_ReadWrite})
	if err != nil {
		return // refused at NewTx: fine
	}
	txCtx := metadata.NewIncomingContext(context.Background(), metadata.Pairs("sessionid", sess.SessionID, "transactionid", tx.TransactionID))
	_, execErr := s.TxSQLExec(txCtx, &schema.SQLExecRequest{Sql: "CREATE TABLE smuggled (id INTEGER, PRIMARY KEY id)"})
	_, commitErr := s.Commit(txCtx, &emptypb.Empty{})
	t.Logf("TxSQLExec err=%v Commit err=%v", execErr, commitErr)

	st, err := s.sysDB.CurrentState()
	require.NoError(t, err)
	tables, err := s.ListTables(ctx, &emptypb.Empty{})
	if err == nil {
		for _, row := range tables.Rows {
			if row.Values[0].GetS() == "smuggled" {
				t.Fatalf("a table was created in systemdb through NewTx/TxSQLExec/Commit (systemdb now at tx %d)", st.TxId)
			}
		}
	}
	if execErr == nil && commitErr == nil {
		t.Fatalf("a write transaction was committed on systemdb through the public API (systemdb now at tx %d)", st.TxId)
	}
}
