package server

import (
	"context"
	"testing"

	"github.com/codenotary/immudb/pkg/api/schema"
	"github.com/codenotary/immudb/pkg/auth"
	"github.com/stretchr/testify/require"
	"google.golang.org/grpc/metadata"
	"google.golang.org/protobuf/types/known/emptypb"
)

// A user with read-only permission on db2 and read-write permission on db1 must not be able to
// write into db2. Session transactions are bound to the database the session was using when
// NewTx was called, while the permission of TxSQLExec is evaluated against the database the
// session is using when the statement arrives.
func TestFindingSessionTxWritesIntoReadOnlyDatabase(t *testing.T) {
	dir := t.TempDir()
	opts := DefaultOptions().WithDir(dir).WithPort(0).WithAuth(true).WithMetricsServer(false).
		WithPgsqlServer(false).WithWebServer(false).WithAdminPassword(auth.SysAdminPassword)
	s, closer := testServer(opts)
	defer closer()
	require.NoError(t, s.Initialize())

	lr, err := s.Login(context.Background(), &schema.LoginRequest{User: []byte(auth.SysAdminUsername), Password: []byte(auth.SysAdminPassword)})
	require.NoError(t, err)
	adminCtx := metadata.NewIncomingContext(context.Background(), metadata.Pairs("authorization", lr.Token))

	for _, db := range []string{"db1", "db2"} {
		_, err = s.CreateDatabaseWith(adminCtx, &schema.DatabaseSettings{DatabaseName: db})
		require.NoError(t, err)
	}
	_, err = s.CreateUser(adminCtx, &schema.CreateUserRequest{User: []byte("bob"), Password: []byte("BobPass1!"), Database: "db2", Permission: auth.PermissionR})
	require.NoError(t, err)
	// (ChangePermission replaces the whole SQL privilege list, so the read-write grant comes last)
	_, err = s.ChangePermission(adminCtx, &schema.ChangePermissionRequest{Action: schema.PermissionAction_GRANT, Username: "bob", Database: "db1", Permission: auth.PermissionRW})
	require.NoError(t, err)

	ur2, err := s.UseDatabase(adminCtx, &schema.Database{DatabaseName: "db2"})
	require.NoError(t, err)
	adminDb2 := metadata.NewIncomingContext(context.Background(), metadata.Pairs("authorization", ur2.Token))
	_, err = s.SQLExec(adminDb2, &schema.SQLExecRequest{Sql: "CREATE TABLE t (id INTEGER, PRIMARY KEY id)"})
	require.NoError(t, err)

	// sanity: bob can not write into db2 directly
	sess, err := s.OpenSession(context.Background(), &schema.OpenSessionRequest{Username: []byte("bob"), Password: []byte("BobPass1!"), DatabaseName: "db2"})
	require.NoError(t, err)
	ctx := metadata.NewIncomingContext(context.Background(), metadata.Pairs("sessionid", sess.SessionID))
	_, err = s.SQLExec(ctx, &schema.SQLExecRequest{Sql: "INSERT INTO t (id) VALUES (1)"})
	require.Error(t, err)

	// open a read-write transaction while using db2, then switch the session to db1
	tx, err := s.NewTx(ctx, &schema.NewTxRequest{Mode: schema.TxMode_ReadWrite})
	require.NoError(t, err)
	_, err = s.UseDatabase(ctx, &schema.Database{DatabaseName: "db1"})
	require.NoError(t, err)

	txCtx := metadata.NewIncomingContext(context.Background(), metadata.Pairs("sessionid", sess.SessionID, "transactionid", tx.TransactionID))
	_, execErr := s.TxSQLExec(txCtx, &schema.SQLExecRequest{Sql: "INSERT INTO t (id) VALUES (42)"})
	_, commitErr := s.Commit(txCtx, &emptypb.Empty{})

	// what does db2 contain now?
	res, err := s.UnarySQLQuery(adminDb2, &schema.SQLQueryRequest{Sql: "SELECT id FROM t"})
	require.NoError(t, err)
	for _, row := range res.Rows {
		if row.Values[0].GetN() == 42 {
			t.Fatalf("user with read-only permission on db2 inserted a row into db2 (TxSQLExec err=%v, Commit err=%v)", execErr, commitErr)
		}
	}
}
