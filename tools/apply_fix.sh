#!/bin/sh
# usage: apply_fix.sh <fixdir> <demo dest rel path> <test pkg> <run regex> <finding name> [second demo: file dest pkg]
# Verifies demo fails before / passes after on /repo (via -overlay, repo untouched by the demo), applies patch, commits with message from notes.md
fd="$1"; dest="$2"; pkg="$3"; re="$4"; name="$5"
export GOFLAGS=-mod=mod GOPROXY=off; unset GOWORK
cd /repo || exit 2
git diff --quiet || { echo "repo dirty"; exit 2; }
ov=/tmp/ov_$$.json
printf '{"Replace": {"/repo/%s": "%s/demo_test.go"}}' "$dest" "$fd" > $ov
echo "--- before:"; timeout 600 go test -overlay=$ov -count=1 -run "$re" "$pkg" 2>&1 | grep -E "^(--- FAIL|FAIL|ok|panic:|fatal)" | head -5
git apply "$fd/patch.diff" || { echo "patch failed"; exit 1; }
echo "--- after:"; timeout 600 go test -overlay=$ov -count=1 -run "$re" "$pkg" 2>&1 | grep -E "^(--- FAIL|FAIL|ok|panic:|fatal)" | head -5
msg=$(grep -i -m1 "^fix:" "$fd/notes.md")
git add -A && git commit -qm "$msg" && git log --oneline | head -1
mkdir -p /verif/findings/$name && cp "$fd"/demo*_test.go "$fd/notes.md" /verif/findings/$name/
rm -f $ov
