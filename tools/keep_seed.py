#!/usr/bin/env python3
# usage: keep_seed.py <srcdir> <seed id> <caught-by text>
import sys, json, os, shutil, glob
src, sid, caught = sys.argv[1], sys.argv[2], sys.argv[3]
dst = f'/verif/seeded/{sid}'
os.makedirs(dst, exist_ok=True)
shutil.copy(f'{src}/patch.diff', dst)
for f in glob.glob(f'{src}/*_test.go') + glob.glob(f'{src}/main.go'):
    shutil.copy(f, dst)
m = json.load(open(f'{src}/meta.json'))
log = open(f'{src}/verify.log').read() if os.path.exists(f'{src}/verify.log') else ''
meta = {"property": m.get('property'), "summary": m.get('summary'), "needs_to_manifest": m.get('needs_to_manifest'),
        "demo_placement": m.get('demo_placement'), "demo_cmd": m.get('demo_cmd'),
        "author": "independent sub-agent given only the property text and a scratch worktree",
        "confirmed_by_me": "tools/verify_seed.sh in a fresh scratch worktree: demo passes on the clean tree, fails with the patch; patched tree builds; existing tests of the touched package pass (baseline always-fail tests excepted)",
        "verify_log_tail": log[-1500:], "caught_by": caught}
json.dump(meta, open(f'{dst}/meta.json','w'), indent=1)
print('kept', dst)
