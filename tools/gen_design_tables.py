#!/usr/bin/env python3
# Regenerates the generated tables of DESIGN.md (seed table of section 8, repair / known-finding tables of section 9)
# from seeded/index.json, seeded/*/meta.json and known_findings.json. Text between the BEGIN/END markers is replaced.
import json, re, os
D='/verif/DESIGN.md'
s=open(D).read()
idx=json.load(open('/verif/seeded/index.json'))
kf=json.load(open('/verif/known_findings.json'))
def rule_of(cb):
    m=re.search(r'(C\d\d[\.\d]*/[A-Za-z0-9\-]+(?: [a-z][a-zA-Z\-<=()]+)?|C\d\d\.\d [a-zA-Z\-]+|C\d\d/[a-z\-]+)',cb)
    return m.group(1) if m else ''
rows=["| seed | round | property broken | detected by check(s) | rule | rule existed before the seed was seen? |","|---|---|---|---|---|---|"]
stats={}
for sid in sorted(idx):
    m=json.load(open(f'/verif/seeded/{sid}/meta.json'))
    cb=m.get('caught_by','')
    mr=re.search(r'-r(\d+)-', sid)
    rnd=int(m.get('round', int(mr.group(1)) if mr else 1))
    before=('existed before' in cb) or ('designed before' in cb)
    left='left so' in cb
    after=('added after' in cb) or ('written after' in cb) or ('MISSED' in cb) or ('widened' in cb)
    status='yes' if before else ('not detected (left so, see meta.json)' if left else ('no: rule added after' if after else 'provenance not recorded (counted as no)'))
    stats.setdefault(rnd,[0,0,0]); stats[rnd][0]+=1; stats[rnd][1]+= 1 if before else 0; stats[rnd][2]+= 1 if left else 0
    rows.append(f"| `{sid}` | {rnd} | {idx[sid]['breaks']} | {', '.join(idx[sid]['detected_by']) or '—'} | {rule_of(cb)} | {status} |")
summary=["| round | seeds | detected by rules that existed before the seed was seen | left undetected |","|---|---|---|---|"]
for r in sorted(stats):
    summary.append(f"| {r} | {stats[r][0]} | {stats[r][1]} | {stats[r][2]} |")
fixed=["| property | commit | what failed (demo under `/verif/findings/`) |","|---|---|---|"]
for f in kf['fixed']:
    fixed.append(f"| {f['property']} | `{f['commit']}` | {f['what']} |")
known=["| property | obligation key | what fails / why it is not repaired |","|---|---|---|"]
for k in kf['known']:
    known.append(f"| {k['property']} | `{k['key']}` | {k['what']} |")
def put(name, text):
    global s
    a=f'<!-- BEGIN {name} -->'; b=f'<!-- END {name} -->'
    assert a in s and b in s, name
    s=s[:s.index(a)+len(a)]+'\n'+text+'\n'+s[s.index(b):]
put('SEED-SUMMARY','\n'.join(summary))
put('SEED-TABLE','\n'.join(rows))
put('FIXED-TABLE',f"{len(kf['fixed'])} entries, {len(set(f['commit'] for f in kf['fixed']))} commits\n\n"+'\n'.join(fixed))
put('KNOWN-TABLE','\n'.join(known))
open(D,'w').write(s)
print("tables regenerated", stats)
