#!/bin/sh
# usage: tools/try_patch.sh <patch.diff> <property>...
# Applies a seeded change to /repo, runs the quick checks of the given properties, and
# always restores /repo afterwards. Prints FIRED/MISSED per property.
patch="$1"; shift
cd /repo || exit 2
if ! git diff --quiet; then echo "/repo has uncommitted changes; refusing"; exit 2; fi
git apply "$patch" || { echo "patch does not apply"; exit 2; }
trap 'git -C /repo checkout -- . ' EXIT
for p in "$@"; do
  out=$(timeout 900 /verif/run.sh "$p" quick 2>&1); code=$?
  if [ $code -ne 0 ]; then echo "== $p FIRED (exit $code)"; echo "$out" | grep -v '^VIOLATION' | grep -v '^KNOWN-FINDING' | head -8; else echo "== $p MISSED"; fi
done
