#!/bin/sh
# usage: tools/verify_seed.sh <seed-dir> <demo-dest-relative-path> <go test pkg> [extra test pkgs...]
# In a scratch worktree: demo must pass on the clean tree and fail with the patch;
# the patched tree must build; the existing tests of the given packages must pass with the patch.
sd="$1"; dest="$2"; pkg="$3"; shift 3
export GOFLAGS=-mod=mod GOPROXY=off; unset GOWORK
wt=/tmp/wt_verify_$$
git -C /repo worktree add --detach "$wt" HEAD >/dev/null 2>&1 || exit 2
trap 'git -C /repo worktree remove --force "$wt" >/dev/null 2>&1' EXIT
cd "$wt" || exit 2
demo=$(ls "$sd"/demo_test.go "$sd"/*_test.go 2>/dev/null | head -1)
cp "$demo" "$dest"
echo "--- clean tree demo:"; go test -count=1 -run 'TestSeedDemo|TestSeed' "$pkg" 2>&1 | tail -3
git apply "$sd/patch.diff" || { echo "PATCH DOES NOT APPLY"; exit 1; }
echo "--- build:"; go build ./... 2>&1 | tail -3
echo "--- patched demo:"; go test -count=1 -run 'TestSeedDemo|TestSeed' "$pkg" 2>&1 | tail -6
rm -f "$dest"
echo "--- existing tests with patch (failing tests, then package verdicts):"; go test -count=1 -p 4 "$pkg" "$@" > /tmp/vs_$$.log 2>&1; grep -E "^\s*--- FAIL" /tmp/vs_$$.log | sort -u | head -20; grep -E "^(ok|FAIL|panic)" /tmp/vs_$$.log | head -12; rm -f /tmp/vs_$$.log
