#!/usr/bin/env python3
# usage: tools/add_fixed.py <property> <commit> <key> <what>
import json, sys
p, commit, key, what = sys.argv[1:5]
k = json.load(open('/verif/known_findings.json'))
k['fixed'].append({"property": p, "commit": commit, "key": key, "what": what})
json.dump(k, open('/verif/known_findings.json', 'w'), indent=1)
print(len(k['fixed']), 'fixed entries')
